(* C19 — proofs, part 3: the session round trip WITH flavors and instances, for every session state inside the guard
   sess_ok_f (stated below), not only evaluated per run.  sess_ok_f is sess_ok_x tightened where the statement is false of
   the model (each tightening has its _refuted witness below). *)
From Coq Require Import List String ZArith Bool Ascii Lia Permutation.
From C19 Require Import Model Spec Proofs Session SessionSpec SessionProofs.
Import ListNotations.
Open Scope string_scope.
Open Scope list_scope.

(* ---- the guard ---- *)
Fixpoint keys_sortedb (l : list string) : bool :=
  match l with
  | a :: r => match r with b :: _ => String.leb a b | [] => true end && keys_sortedb r
  | [] => true
  end.

(* the variable a flavor defines (not a constant) *)
Definition is_flv (kv : string * vrec) : bool :=
  match snd kv with mkV (Some (Flv _ _ _ _ _ _)) _ false => true | _ => false end.

Definition var_ok_f (vars : list (string * vrec)) (kv : string * vrec) : bool :=
  name_ok (fst kv) &&
  match snd kv with
  | mkV (Some (Flv n ivars i g st _)) d false =>
      (* as in var_ok_x, and: no documentation on the variable (defflavor sets none), the instance variables in name
         order (defflavor sorts them), no blanket option on a flavor without instance variables (defflavor drops them) *)
      (n =? fst kv)%string && (d =? "")%string && keys_nodupb (map fst ivars) && keys_sortedb (map fst ivars)
      && match ivars with [] => negb i && negb g && negb st | _ => true end
      && forallb (fun iv => plain_name (fst iv) && loadable_in (snd iv) && no_inst (snd iv)) ivars
  | mkV (Some v) _ true => snap_safe v && no_inst v       (* constants without instances: a restriction of the PROOF since repo_fixes/C19-33 (const_inst_history_restored), not of the code *)
  | mkV (Some v) _ false => snap_safe v && insts_ok vars v (* no flavor OBJECT inside another value: snap_safe, not _x *)
  | mkV None d c => (d =? "")%string && negb c
  end.
Definition sess_ok_f (s : session) : bool :=
  forallb (var_ok_f (s_vars s)) (s_vars s) && forallb (fun_ok (s_funs s)) (s_funs s).

(* ---- where sess_ok_x is too wide: states inside sess_ok_x whose snapshot does not rebuild them ---- *)
Definition blk2 : obj := Flv "blk" [("sa", Nil); ("sb", Fix 2)] true true true "".
Definition wit_const_inst : session :=
  mkS [("blk", mkV (Some blk2) "" false); ("+ci+", mkV (Some (Inst "blk" [("sa", Fix 1); ("sb", Fix 2)])) "" true)] [].
Definition wit_flavor_doc : session := mkS [("blk", mkV (Some blk2) "about blk" false)] [].
Definition wit_unsorted : session :=
  mkS [("blk", mkV (Some (Flv "blk" [("sb", Fix 2); ("sa", Nil)] true true true "")) "" false)] [].
Definition wit_empty_option : session := mkS [("blk", mkV (Some (Flv "blk" [] true false false "")) "" false)] [].
Definition wit_stale_flavor : session :=
  mkS [("blk", mkV (Some blk2) "" false); ("*l*", mkV (Some (L [Flv "blk" [("zz", Nil)] false false false ""; Fix 1])) "" false)] [].

Definition keys_nodup_b (s : session) : bool := keys_nodupb (map fst (s_vars s)) && keys_nodupb (map fst (s_funs s)).

Lemma flavor_session_refuted :
  forallb (fun s => keys_nodup_b s && sess_ok_x s && negb (sess_ok_f s) && negb (meets_spec s)
                    && negb (session_eqb (canon (reload_session s)) (canon s)))
          [wit_flavor_doc; wit_unsorted; wit_empty_option; wit_stale_flavor] = true.
Proof. vm_compute. reflexivity. Qed.

(* a constant whose value is an instance: until repo_fixes/C19-33 the constants section was written before the flavors
   section and this state was the first witness above (the defconstant failed on load: flavor blk not found). With the
   constants after the flavors the state is rebuilt: every form loads, the same session, the same snapshot, and the
   defflavor is written before the defconstant. It is built by a history the interpreter of the model accepts. (The
   guard sess_ok_f of the theorem below still excludes it -- constants without instances -- so for constants holding
   instances the round trip is evaluated per run inside sess_ok_x, not proved for all of them.) *)
Lemma const_inst_history_restored :
  run empty_session
    [ L [Sym "defflavor"; Sym "blk"; L [Sym "sa"; L [Sym "sb"; Fix 2]]; Nil; Sym ":gettable-instance-variables";
         Sym ":settable-instance-variables"; Sym ":inittable-instance-variables"];
      L [Sym "defconstant"; Sym "+ci+"; L [Sym "make-instance"; quote (Sym "blk"); Sym ":sa"; Fix 1]] ] = Ok wit_const_inst
  /\ keys_nodup_b wit_const_inst = true /\ sess_ok_x wit_const_inst = true /\ meets_spec wit_const_inst = true
  /\ session_eqb (canon (reload_session wit_const_inst)) (canon wit_const_inst) = true
  /\ (match snapshot wit_const_inst with
      | L (Sym "defflavor" :: _) :: L (Sym "defconstant" :: _) :: _ => true | _ => false end) = true.
Proof. repeat split; vm_compute; reflexivity. Qed.

(* ---- small facts ---- *)
Lemma sort_sorted : forall {A} (l : list (string * A)), keys_sortedb (map fst l) = true -> sort_by l = l.
Proof.
  induction l as [|[k a] r IH]; intro H; [reflexivity|].
  cbn [map fst keys_sortedb] in H. apply andb_true_iff in H. destruct H as [Hh Hr].
  cbn [sort_by]. rewrite (IH Hr). destruct r as [|[k' a'] r']; [reflexivity|]. cbn [map fst] in Hh. cbn [insert_by].
  rewrite Hh. reflexivity.
Qed.

Lemma aset_same : forall {A} (l : list (string * A)) k a, alookup l k = Some a -> aset l k a = l.
Proof.
  induction l as [|[k' a'] r IH]; intros k a H; [discriminate|]. cbn [alookup] in H. cbn [aset].
  destruct (k' =? k) eqn:E.
  - apply String.eqb_eq in E. injection H as ->. subst. reflexivity.
  - f_equal. apply IH. exact H.
Qed.

Lemma In_alookup : forall {A} (l : list (string * A)) k a, NoDup (map fst l) -> In (k, a) l -> alookup l k = Some a.
Proof.
  induction l as [|[k' a'] r IH]; intros k a Hnd Hin; [destruct Hin|].
  cbn [map fst] in Hnd. inversion Hnd as [|? ? Hn Hnd']; subst. cbn [alookup]. destruct Hin as [E|Hin].
  - injection E as -> ->. rewrite String.eqb_refl. reflexivity.
  - destruct (k' =? k) eqn:E.
    + apply String.eqb_eq in E. subst. exfalso. apply Hn. apply in_map_iff. exists (k, a). split; [reflexivity|exact Hin].
    + apply IH; assumption.
Qed.
Lemma alookup_In : forall {A} (l : list (string * A)) k a, alookup l k = Some a -> In (k, a) l.
Proof.
  induction l as [|[k' a'] r IH]; intros k a H; [discriminate|]. cbn [alookup] in H. destruct (k' =? k) eqn:E.
  - apply String.eqb_eq in E. injection H as ->. subst. left. reflexivity.
  - right. apply IH. exact H.
Qed.
Lemma alookup_app_some : forall {A} (l l' : list (string * A)) k a, alookup l k = Some a -> alookup (l ++ l') k = Some a.
Proof.
  induction l as [|[k' a'] r IH]; intros l' k a H; [discriminate|]. cbn [alookup app] in *.
  destruct (k' =? k); [exact H|apply IH; exact H].
Qed.

Lemma env_of_lookup : forall vars funs k v d c,
  alookup vars k = Some (mkV (Some v) d c) -> lookup (env_of (mkS vars funs)) k = Some v.
Proof.
  intros vars funs k v d c. unfold env_of. cbn [s_vars].
  induction vars as [|[k' r] l IH]; intro H; [discriminate|].
  cbn [alookup] in H. cbn [flat_map fst snd]. destruct (k' =? k) eqn:E.
  - injection H as ->. cbn [v_val app lookup]. rewrite E. reflexivity.
  - destruct (v_val r); cbn [app lookup]; rewrite ?E; apply IH; exact H.
Qed.

Lemma elems_of_mkL : forall xs, elems_of (mkL xs) = Some xs.
Proof. destruct xs; reflexivity. Qed.

(* ---- defflavor reads back what Flavor.LoadForm writes ---- *)
Definition ivar_form (kv : string * obj) : obj :=
  match snd kv with
  | Nil => Sym (fst kv)
  | d => match elem_form d with Ok f => L [Sym (fst kv); f] | Err _ => L [Sym (fst kv); d] end
  end.
Definition ivar_read (e : env) (a : obj) : res (string * obj) :=
  match a with
  | Sym k => Ok (k, Nil)
  | L [Sym k; df] => bind (eval e df) (fun d => Ok (k, d))
  | _ => Err EType
  end.

Lemma ivars_read_back : forall e ivars, env_ok e ->
  forallb (fun iv : string * obj => plain_name (fst iv) && loadable_in (snd iv) && no_inst (snd iv)) ivars = true ->
  map_res (ivar_read e) (map ivar_form ivars) = Ok ivars.
Proof.
  intros e ivars He. induction ivars as [|[k d] r IH]; intro H; [reflexivity|].
  cbn [forallb fst snd] in H. apply andb_true_iff in H. destruct H as [Hkd Hr].
  apply andb_true_iff in Hkd. destruct Hkd as [Hkd Hni]. apply andb_true_iff in Hkd. destruct Hkd as [_ Hld].
  cbn [map map_res]. rewrite (IH Hr).
  destruct (reloads_in d Hld) as (f & Ef & Ev). specialize (Ev e He (no_inst_insts_in d e Hni)).
  unfold ivar_form. cbn [fst snd].
  destruct d; try reflexivity; rewrite Ef; cbn [ivar_read bind]; rewrite Ev; reflexivity.
Qed.

Lemma exec_flavor_form : forall s n ivars i g st dd, has_colon n = false -> env_ok (env_of s) ->
  forallb (fun iv : string * obj => plain_name (fst iv) && loadable_in (snd iv) && no_inst (snd iv)) ivars = true ->
  exec s (flavor_form n ivars i g st dd)
  = Ok (set_var s n (mkV (Some (Flv n (sort_by ivars)
                                  (i && negb (match ivars with [] => true | _ => false end))
                                  (g && negb (match ivars with [] => true | _ => false end))
                                  (st && negb (match ivars with [] => true | _ => false end)) dd)) "" false)).
Proof.
  intros s n ivars i g st dd Hc He Hiv.
  pose proof (ivars_read_back (env_of s) ivars He Hiv) as Hrb.
  unfold flavor_form.
  fold ivar_form. cbn [app exec]. cbn [String.eqb Ascii.eqb Bool.eqb].
  rewrite (resolve_plain n Hc), elems_of_mkL.
  fold (ivar_read (env_of s)). rewrite Hrb. cbn [bind].
  clear Hrb Hiv. destruct ivars as [|iv0 ivr]; destruct i, g, st; destruct (dd =? "") eqn:Ed; try (apply String.eqb_eq in Ed; subst dd);
    cbn [andb negb app bind]; cbn [String.eqb Ascii.eqb Bool.eqb]; reflexivity.
Qed.

(* ---- what the guard says about one variable ---- *)
Definition is_plain (kv : string * vrec) : bool := negb (is_const kv) && negb (is_flv kv).

Lemma name_ok_facts : forall n, name_ok n = true -> has_colon n = false /\ existsb (String.eqb n) self_bound = false.
Proof.
  intros n H. unfold name_ok in H. apply andb_true_iff in H. destruct H as [H H2]. apply andb_true_iff in H. destruct H as [_ H1].
  apply negb_true_iff in H1. apply negb_true_iff in H2. split; assumption.
Qed.

Lemma var_ok_f_cases : forall allv n r, var_ok_f allv (n, r) = true ->
  name_ok n = true /\
  ( (exists ivars i g st dd, r = mkV (Some (Flv n ivars i g st dd)) "" false /\ sort_by ivars = ivars
        /\ keys_nodupb (map fst ivars) = true
        /\ i && negb (match ivars with [] => true | _ => false end) = i
        /\ g && negb (match ivars with [] => true | _ => false end) = g
        /\ st && negb (match ivars with [] => true | _ => false end) = st
        /\ forallb (fun iv : string * obj => plain_name (fst iv) && loadable_in (snd iv) && no_inst (snd iv)) ivars = true)
    \/ (exists v d, r = mkV (Some v) d true /\ snap_safe v = true /\ no_inst v = true)
    \/ (exists v d, r = mkV (Some v) d false /\ is_flv (n, r) = false /\ snap_safe v = true /\ insts_ok allv v = true)
    \/ r = mkV None "" false ).
Proof.
  intros allv n r H. unfold var_ok_f in H. cbn [fst snd] in H. apply andb_true_iff in H. destruct H as [Hn H].
  split; [exact Hn|]. destruct r as [[v|] d c].
  - destruct c.
    + right. left. exists v, d. split; [reflexivity|]. destruct v; apply andb_true_iff in H; exact H.
    + destruct v; try (right; right; left; eexists; eexists; split; [reflexivity|]; split; [reflexivity|];
                       apply andb_true_iff in H; exact H).
      left. apply andb_true_iff in H. destruct H as [H Hiv]. apply andb_true_iff in H. destruct H as [H Hfl].
      apply andb_true_iff in H. destruct H as [H Hso]. apply andb_true_iff in H. destruct H as [H Hnd].
      apply andb_true_iff in H. destruct H as [Hnm Hd]. apply String.eqb_eq in Hnm. apply String.eqb_eq in Hd. subst.
      exists ivars, init, get, set, doc. split; [reflexivity|]. split; [apply sort_sorted; exact Hso|]. split; [exact Hnd|].
      destruct ivars as [|iv0 ivr].
      * apply andb_true_iff in Hfl. destruct Hfl as [Hfl H3]. apply andb_true_iff in Hfl. destruct Hfl as [H1 H2].
        apply negb_true_iff in H1. apply negb_true_iff in H2. apply negb_true_iff in H3. subst. repeat split; try reflexivity; exact Hiv.
      * cbn [negb]. rewrite !andb_true_r. repeat split; try reflexivity; exact Hiv.
  - right. right. right. apply andb_true_iff in H. destruct H as [Hd Hc]. apply String.eqb_eq in Hd. apply negb_true_iff in Hc.
    subst. reflexivity.
Qed.

Lemma flavor_forms_nf : forall kv, is_flv kv = false -> flavor_forms kv = [].
Proof.
  intros [k [[v|] d c]] H; try reflexivity. destruct v; try reflexivity. destruct c; [reflexivity|discriminate].
Qed.

Lemma names_free_snoc : forall vars n (r : vrec), names_free vars -> existsb (String.eqb n) self_bound = false ->
  names_free (vars ++ [(n, r)]).
Proof. intros vars n r Hf Hn. apply names_free_app; [exact Hf|]. intros k [<-|[]]. exact Hn. Qed.

Lemma snoc_fresh : forall {A} (vars : list (string * A)) n a (keys : list string),
  (forall k, In k keys -> ~ In k (map fst vars)) -> ~ In n keys ->
  forall k, In k keys -> ~ In k (map fst (vars ++ [(n, a)])).
Proof.
  intros A vars n a keys Hf Hn k Hk Hin. rewrite map_app in Hin. apply in_app_or in Hin.
  destruct Hin as [Hin|[<-|[]]]; [exact (Hf k Hk Hin)|exact (Hn Hk)].
Qed.

Lemma filter_keys_sub : forall {A} (p : string * A -> bool) l k, In k (map fst (filter p l)) -> In k (map fst l).
Proof.
  intros A p l k Hk. apply in_map_iff in Hk. destruct Hk as (kv & E & Hf). apply filter_In in Hf. apply in_map_iff. exists kv. tauto.
Qed.

(* ---- loading the flavors section ---- *)
Lemma load_flavors : forall allv l vars funs,
  forallb (var_ok_f allv) l = true -> NoDup (map fst l) ->
  (forall k, In k (map fst (filter is_flv l)) -> ~ In k (map fst vars)) -> names_free vars ->
  load_forms (mkS vars funs) (flat_map flavor_forms l)
  = (mkS (vars ++ filter is_flv l) funs, repeat true (List.length (filter is_flv l))).
Proof.
  intros allv. induction l as [|[n r] l IH]; intros vars funs Hok Hnd Hfresh Hfree.
  - cbn. rewrite app_nil_r. reflexivity.
  - cbn [forallb] in Hok. apply andb_true_iff in Hok. destruct Hok as [Hkv Hok].
    cbn [map fst] in Hnd. inversion Hnd as [|? ? Hn Hnd']; subst.
    destruct (var_ok_f_cases allv n r Hkv) as (Hname & Hcase). destruct (name_ok_facts n Hname) as [Hcol Hsb].
    cbn [flat_map filter] in Hfresh |- *.
    destruct Hcase as [(ivars & i & g & st & dd & -> & Hsort & Hnk & Hi & Hg & Hst & Hiv)|Hcase].
    + (* a flavor: defflavor *)
      cbn [is_flv snd] in Hfresh |- *. cbn [flavor_forms app load_forms].
      assert (Hnv : ~ In n (map fst vars)) by (apply Hfresh; left; reflexivity).
      rewrite (exec_flavor_form (mkS vars funs) n ivars i g st dd Hcol (env_of_ok (mkS vars funs) Hfree) Hiv).
      rewrite Hsort, Hi, Hg, Hst. unfold set_var. cbn [s_vars s_funs]. rewrite (aset_new vars n _ Hnv).
      rewrite (IH (vars ++ [(n, mkV (Some (Flv n ivars i g st dd)) "" false)]) funs Hok Hnd').
      * rewrite <- app_assoc. reflexivity.
      * apply snoc_fresh; [intros k Hk; apply Hfresh; right; exact Hk|].
        intro Hk. apply Hn. eapply filter_keys_sub. exact Hk.
      * apply names_free_snoc; assumption.
    + assert (Hnf : is_flv (n, r) = false).
      { destruct Hcase as [(v & d & -> & _)|[(v & d & -> & Hnf & _)| ->]]; [destruct v; reflexivity|exact Hnf|reflexivity]. }
      rewrite Hnf in Hfresh |- *. rewrite (flavor_forms_nf _ Hnf). cbn [app].
      apply (IH vars funs Hok Hnd' Hfresh Hfree).
Qed.

(* ---- the instances of a value and the flavors the reloaded session knows ---- *)
Lemma insts_ok_in : forall vars e,
  (forall f f' ivars i g st dd d, alookup vars f = Some (mkV (Some (Flv f' ivars i g st dd)) d false) ->
     lookup e f = Some (Flv f' ivars i g st dd) /\ keys_nodupb (map fst ivars) = true) ->
  forall v, insts_ok vars v = true -> insts_in e v = true.
Proof.
  intros vars e Hk. induction v using obj_ind2; intro Hi; try reflexivity.
  - cbn [insts_ok insts_in] in Hi |- *.
    induction xs as [|a r IHr]; [reflexivity|]. inversion H as [|? ? Pa Pr]; subst.
    cbn [forallb] in Hi |- *. apply andb_true_iff in Hi. destruct Hi as [Ia Ir].
    rewrite (Pa Ia). cbn [andb]. apply IHr; assumption.
  - cbn [insts_ok insts_in] in Hi |- *. apply andb_true_iff in Hi. destruct Hi as [Hi Hit].
    rewrite (IHv Hit), andb_true_r.
    induction xs as [|a r IHr]; [reflexivity|]. inversion H as [|? ? Pa Pr]; subst.
    cbn [forallb] in Hi |- *. apply andb_true_iff in Hi. destruct Hi as [Ia Ir].
    rewrite (Pa Ia). cbn [andb]. apply IHr; assumption.
  - cbn [insts_ok insts_in] in Hi |- *.
    induction kvs as [|[k w] r IHr]; [reflexivity|]. inversion H as [|? ? [_ Pw] Pr]; subst. cbn [snd] in Pw.
    cbn [forallb fst snd] in Hi |- *. apply andb_true_iff in Hi. destruct Hi as [Ia Ir].
    rewrite (Pw Ia). cbn [andb]. apply IHr; assumption.
  - cbn [insts_ok insts_in] in Hi |- *. apply andb_true_iff in Hi. destruct Hi as [Hi Hg].
    apply andb_true_iff in Hi. destruct Hi as [Hf Hl]. rewrite Hf. cbn [andb].
    destruct (alookup vars f) as [[[fv|] d c]|] eqn:El; try discriminate. destruct fv; try discriminate. destruct c; [discriminate|].
    apply andb_true_iff in Hl. destruct Hl as [_ Heq].
    destruct (Hk _ _ _ _ _ _ _ _ El) as [Hlk Hnk]. rewrite Hlk, Heq. cbn [andb].
    apply strings_eqb_eq in Heq. rewrite <- Heq, Hnk. cbn [andb].
    clear Heq El Hlk. induction slots as [|[k w] r IHr]; [reflexivity|]. inversion H as [|? ? Pw Pr]; subst. cbn [snd] in Pw.
    apply andb_true_iff in Hg. destruct Hg as [Ia Ir].
    rewrite (Pw Ia). cbn [andb]. apply IHr; assumption.
Qed.

Definition flavors_known (allv vars : list (string * vrec)) : Prop :=
  forall f r, alookup allv f = Some r -> is_flv (f, r) = true -> alookup vars f = Some r.

Lemma known_env : forall allv vars funs, (forall kv, In kv allv -> var_ok_f allv kv = true) -> flavors_known allv vars ->
  forall f f' ivars i g st dd d, alookup allv f = Some (mkV (Some (Flv f' ivars i g st dd)) d false) ->
    lookup (env_of (mkS vars funs)) f = Some (Flv f' ivars i g st dd) /\ keys_nodupb (map fst ivars) = true.
Proof.
  intros allv vars funs Hall Hkn f f' ivars i g st dd d El. split.
  - eapply env_of_lookup. apply Hkn; [exact El|reflexivity].
  - apply alookup_In in El. specialize (Hall _ El).
    destruct (var_ok_f_cases _ _ _ Hall) as (_ & [(iv & i0 & g0 & s0 & d0 & E & _ & Hnk & _)|[(v & d0 & E & _)|[(v & d0 & E & Hnf & _)|E]]]).
    + injection E as -> -> -> -> -> ->. exact Hnk.
    + discriminate.
    + rewrite E in Hnf. injection E as <- <-. discriminate.
    + discriminate.
Qed.

Lemma flavors_known_app : forall allv vars x, flavors_known allv vars -> flavors_known allv (vars ++ x).
Proof. intros allv vars x H f r Hl Hf. apply alookup_app_some. apply H; assumption. Qed.

Lemma exec_defvar_bound : forall s n v d c rest, alookup (s_vars s) n = Some (mkV (Some v) d c) ->
  exec s (L (Sym "defvar" :: Sym (qual n) :: rest)) = Ok s.
Proof.
  intros s n v d c rest Hl. cbn [exec]. cbn [String.eqb Ascii.eqb Bool.eqb]. rewrite resolve_qual. rewrite Hl. reflexivity.
Qed.

Lemma eval_find_flavor : forall e n a b c d x y, lookup e n = Some (Flv a b c d x y) ->
  eval e (L [Sym "find-flavor"; Str n]) = Ok (Flv a b c d x y).
Proof.
  intros e n a b c d x y Hl. cbn [eval]. cbn [String.eqb Ascii.eqb Bool.eqb]. cbn [eval bind find_flavor]. rewrite Hl. reflexivity.
Qed.

(* ---- loading the variables section: the variable of a flavor is there already and stays as it is ---- *)
Lemma load_vars_f : forall allv l vars funs,
  (forall kv, In kv allv -> var_ok_f allv kv = true) ->
  forallb (var_ok_f allv) l = true -> NoDup (map fst l) ->
  (forall k, In k (map fst (filter is_plain l)) -> ~ In k (map fst vars)) ->
  (forall n r, In (n, r) l -> is_flv (n, r) = true -> alookup vars n = Some r) ->
  flavors_known allv vars -> names_free vars ->
  load_forms (mkS vars funs) (flat_map var_forms l)
  = (mkS (vars ++ filter is_plain l) funs, repeat true (List.length (flat_map var_forms l))).
Proof.
  intros allv l vars funs Hall. revert vars funs.
  induction l as [|[n r] l IH]; intros vars funs Hok Hnd Hfresh Hfl Hkn Hfree.
  - cbn. rewrite app_nil_r. reflexivity.
  - cbn [forallb] in Hok. apply andb_true_iff in Hok. destruct Hok as [Hkv Hok].
    cbn [map fst] in Hnd. inversion Hnd as [|? ? Hn Hnd']; subst.
    destruct (var_ok_f_cases allv n r Hkv) as (Hname & Hcase). destruct (name_ok_facts n Hname) as [Hcol Hsb].
    assert (Hfl' : forall n0 r0, In (n0, r0) l -> is_flv (n0, r0) = true -> alookup vars n0 = Some r0)
      by (intros n0 r0 Hin; apply Hfl; right; exact Hin).
    cbn [flat_map filter] in Hfresh |- *.
    destruct Hcase as [(ivars & i & g & st & dd & -> & Hsort & Hnk & Hi & Hg & Hst & Hiv)|[(v & d & -> & Hss & Hni)|[(v & d & -> & Hnf & Hss & Hio)| ->]]].
    + (* the variable of a flavor: defvar does nothing, setq sets the flavor it holds *)
      unfold is_plain at 1. unfold is_plain at 1 in Hfresh. cbn [is_const is_flv snd v_const negb andb] in Hfresh |- *.
      pose proof (Hfl n _ (or_introl eq_refl) eq_refl) as Hlk.
      cbn [var_forms pp_value String.eqb app load_forms].
      rewrite (exec_defvar_bound (mkS vars funs) n _ _ _ [] Hlk).
      rewrite (exec_setq (mkS vars funs) n _ _ _
                 (eval_find_flavor _ n _ _ _ _ _ _ (env_of_lookup vars funs n _ _ _ Hlk)) Hlk eq_refl).
      unfold set_var. cbn [s_vars s_funs v_doc]. rewrite (aset_same vars n _ Hlk).
      rewrite (IH vars funs Hok Hnd' Hfresh Hfl' Hkn Hfree). reflexivity.
    + (* a constant: no form here *)
      unfold is_plain at 1. unfold is_plain at 1 in Hfresh. cbn [is_const snd v_const negb andb] in Hfresh |- *.
      cbn [var_forms app]. apply (IH vars funs Hok Hnd' Hfresh Hfl' Hkn Hfree).
    + (* a variable with a value, instances included: defvar then setq *)
      unfold is_plain at 1. unfold is_plain at 1 in Hfresh. rewrite Hnf in Hfresh |- *.
      cbn [is_const snd v_const negb andb] in Hfresh |- *.
      assert (Hnv : ~ In n (map fst vars)) by (apply Hfresh; left; reflexivity).
      destruct (exec_defvar_new (mkS vars funs) n d (alookup_none vars n Hnv)) as (r0 & Ex & Hd & Hc).
      set (s1 := set_var (mkS vars funs) n r0).
      assert (Hs1 : s_vars s1 = vars ++ [(n, r0)]) by (unfold s1, set_var; cbn [s_vars]; apply aset_new; exact Hnv).
      assert (Hfree1 : names_free (s_vars s1)) by (rewrite Hs1; apply names_free_snoc; assumption).
      assert (Hii : insts_in (env_of s1) v = true).
      { assert (Es1 : s1 = mkS (vars ++ [(n, r0)]) funs)
          by (unfold s1, set_var; cbn [s_vars s_funs]; rewrite (aset_new vars n r0 Hnv); reflexivity).
        apply (insts_ok_in allv); [|exact Hio]. rewrite Es1. apply known_env; [exact Hall|]. apply flavors_known_app. exact Hkn. }
      destruct (value_reloads v Hss (env_of s1) (env_of_ok s1 Hfree1) Hii) as (f & Ef & Evf).
      cbn [var_forms]. rewrite Ef. cbn [app] in Ex |- *. cbn [load_forms]. rewrite Ex. fold s1.
      rewrite (exec_setq s1 n f v r0 Evf); [|rewrite Hs1; apply alookup_last; exact Hnv|exact Hc].
      unfold set_var at 1. rewrite Hs1. rewrite (aset_last vars n r0 _ Hnv). rewrite Hd. unfold s1, set_var at 1. cbn [s_funs].
      rewrite (IH (vars ++ [(n, mkV (Some v) d false)]) funs Hok Hnd').
      * rewrite <- app_assoc. cbn [List.length app]. reflexivity.
      * apply snoc_fresh; [intros k Hk; apply Hfresh; right; exact Hk|].
        intro Hk. apply Hn. eapply filter_keys_sub. exact Hk.
      * intros n0 r1 Hin Hf. apply alookup_app_some. apply Hfl'; assumption.
      * apply flavors_known_app. exact Hkn.
      * apply names_free_snoc; assumption.
    + (* declared without a value: the defvar alone *)
      unfold is_plain at 1. unfold is_plain at 1 in Hfresh. cbn [is_const is_flv snd v_const negb andb] in Hfresh |- *.
      assert (Hnv : ~ In n (map fst vars)) by (apply Hfresh; left; reflexivity).
      cbn [var_forms String.eqb app]. cbn [load_forms].
      rewrite (exec_defvar_unbound (mkS vars funs) n (alookup_none vars n Hnv)).
      unfold set_var. cbn [s_vars s_funs]. rewrite (aset_new vars n _ Hnv).
      rewrite (IH (vars ++ [(n, mkV None "" false)]) funs Hok Hnd').
      * rewrite <- app_assoc. cbn [List.length app]. reflexivity.
      * apply snoc_fresh; [intros k Hk; apply Hfresh; right; exact Hk|].
        intro Hk. apply Hn. eapply filter_keys_sub. exact Hk.
      * intros n0 r1 Hin Hf. apply alookup_app_some. apply Hfl'; assumption.
      * apply flavors_known_app. exact Hkn.
      * apply names_free_snoc; assumption.
Qed.

(* ---- the three kinds of variables ---- *)
Lemma part3_perm : forall l, Permutation (filter is_const l ++ filter is_flv l ++ filter is_plain l) l.
Proof.
  induction l as [|a l IH]; [reflexivity|]. cbn [filter]. unfold is_plain at 1.
  destruct a as [n [ov d c]]. destruct c.
  - assert (E : is_flv (n, mkV ov d true) = false) by (destruct ov as [v|]; [destruct v|]; reflexivity).
    rewrite E. cbn [is_const snd v_const negb andb app]. constructor. exact IH.
  - cbn [is_const snd v_const negb andb]. destruct (is_flv (n, mkV ov d false)); cbn [negb].
    + cbn [app]. rewrite <- Permutation_middle. constructor. exact IH.
    + rewrite app_assoc. rewrite <- Permutation_middle. rewrite <- app_assoc. constructor. exact IH.
Qed.

Lemma keys_disjoint : forall {A} (a b : list (string * A)), NoDup (map fst (a ++ b)) ->
  forall k, In k (map fst b) -> ~ In k (map fst a).
Proof.
  induction a as [|[k0 x] a IH]; intros b Hnd k Hk; [intros []|].
  cbn [app map fst] in Hnd. inversion Hnd as [|? ? Hn Hnd']; subst. intros [E|Hin].
  - subst. apply Hn. rewrite map_app. apply in_or_app. right. exact Hk.
  - exact (IH b Hnd' k Hk Hin).
Qed.

Lemma nodup_app_left : forall {A} (a b : list A), NoDup (a ++ b) -> NoDup a.
Proof.
  induction a as [|x a IH]; intros b H; [constructor|]. cbn [app] in H. inversion H as [|? ? Hn Hnd]; subst.
  constructor; [|exact (IH b Hnd)]. intro Hin. apply Hn. apply in_or_app. left. exact Hin.
Qed.

Lemma filter_idem : forall {A} (p : A -> bool) l, filter p (filter p l) = filter p l.
Proof.
  induction l as [|a l IH]; [reflexivity|]. cbn [filter]. destruct (p a) eqn:E; [|exact IH]. cbn [filter]. rewrite E, IH. reflexivity.
Qed.

Lemma const_forms_filter : forall l, flat_map const_forms l = flat_map const_forms (consts_of l).
Proof.
  induction l as [|[n [ov d c]] l IH]; [reflexivity|]. unfold consts_of in *. cbn [filter flat_map]. unfold is_const at 1. cbn [snd v_const].
  destruct c.
  - cbn [flat_map]. rewrite IH. reflexivity.
  - rewrite <- IH. destruct ov; reflexivity.
Qed.

Lemma consts_var_ok : forall allv l, forallb (var_ok_f allv) l = true -> forallb var_ok (consts_of l) = true.
Proof.
  intros allv l H. apply forallb_forall. intros [n r] Hin. unfold consts_of in Hin. apply filter_In in Hin. destruct Hin as [Hin Hc].
  rewrite forallb_forall in H. specialize (H _ Hin).
  destruct (var_ok_f_cases _ _ _ H) as (Hname & [(iv & i0 & g0 & s0 & d0 & -> & _)|[(v & d0 & -> & Hss & Hni)|[(v & d0 & -> & _)| ->]]]);
    try discriminate Hc.
  unfold var_ok. cbn [fst snd]. rewrite Hname, Hss, Hni. reflexivity.
Qed.

Lemma names_free_ok : forall allv l, (forall kv, In kv l -> var_ok_f allv kv = true) -> names_free l.
Proof.
  intros allv l H k Hin. apply in_map_iff in Hin. destruct Hin as ([n r] & <- & Hin). cbn [fst].
  destruct (var_ok_f_cases _ _ _ (H _ Hin)) as (Hname & _). apply name_ok_facts. exact Hname.
Qed.

(* ---- the theorem: a session with flavors and instances inside the guard is rebuilt by loading its snapshot; every form
   of the snapshot loads; the snapshot of the rebuilt session is the same list of forms ---- *)
Theorem flavor_session_roundtrip : forall s, keys_nodup s -> sess_ok_f s = true ->
  canon (reload_session s) = canon s
  /\ snapshot (reload_session s) = snapshot s
  /\ forallb (fun b => b) (snd (load_forms empty_session (snapshot s))) = true.
Proof.
  intros s [Hnv Hnf] Hok. unfold sess_ok_f in Hok. apply andb_true_iff in Hok. destruct Hok as [Hvok Hfok].
  set (allv := s_vars s) in *.
  set (sv := sort_by allv). set (sf := sort_by (s_funs s)). set (of := funs_order sf).
  assert (Hall : forall kv, In kv allv -> var_ok_f allv kv = true) by (apply forallb_forall; exact Hvok).
  assert (Hsvok : forallb (var_ok_f allv) sv = true) by (eapply forallb_perm; [symmetry; apply sort_perm|exact Hvok]).
  assert (Hsvin : forall kv, In kv sv -> In kv allv) by (intros kv Hin; eapply Permutation_in; [apply sort_perm|exact Hin]).
  assert (Hpof : Permutation of (s_funs s)) by (etransitivity; [apply funs_order_perm|apply sort_perm]).
  assert (Hofok : forallb (fun_ok (s_funs s)) of = true) by (eapply forallb_perm; [symmetry; exact Hpof|exact Hfok]).
  assert (Hsvnd : NoDup (map fst sv)) by (apply sort_nodup; exact Hnv).
  assert (Hofnd : NoDup (map fst of)) by (eapply Permutation_NoDup; [apply Permutation_map; symmetry; exact Hpof|exact Hnf]).
  set (C := consts_of sv). set (F := filter is_flv sv). set (P := filter is_plain sv).
  assert (Hp3 : Permutation (F ++ C ++ P) sv).
  { etransitivity; [apply Permutation_app_swap_app|apply part3_perm]. }
  assert (Hnd3 : NoDup (map fst (F ++ C ++ P))).
  { eapply Permutation_NoDup; [apply Permutation_map; symmetry; exact Hp3|exact Hsvnd]. }
  assert (HndFC : NoDup (map fst (F ++ C))).
  { rewrite app_assoc, map_app in Hnd3. apply nodup_app_left in Hnd3. exact Hnd3. }
  assert (HFCin : forall kv, In kv (F ++ C) -> In kv sv).
  { intros kv Hin. apply in_app_or in Hin. destruct Hin as [Hin|Hin]; apply filter_In in Hin; tauto. }
  assert (HfreeF : names_free F).
  { apply (names_free_ok allv). intros kv Hin. apply Hall, Hsvin, HFCin. apply in_or_app. left. exact Hin. }
  assert (HfreeFC : names_free (F ++ C)).
  { apply (names_free_ok allv). intros kv Hin. apply Hall, Hsvin, HFCin. exact Hin. }
  assert (HflFC : forall n r, In (n, r) sv -> is_flv (n, r) = true -> alookup (F ++ C) n = Some r).
  { intros n r Hin Hf. apply In_alookup; [exact HndFC|]. apply in_or_app. left. apply filter_In. split; assumption. }
  assert (Hload : exists oks, load_forms empty_session (snapshot s) = (mkS ((F ++ C) ++ P) of, oks)
                              /\ forallb (fun b => b) oks = true).
  { unfold snapshot. fold allv sv sf of.
    rewrite load_forms_app. unfold empty_session.
    rewrite (load_flavors allv sv [] [] Hsvok Hsvnd); [|intros k _ []|intros k []]. cbn [app]. fold F.
    rewrite (const_forms_filter sv). fold C.
    rewrite load_forms_app.
    rewrite (load_consts C F [] (consts_var_ok allv sv Hsvok)); [|
      rewrite map_app in HndFC; apply (nodup_app_left (map fst C) (map fst F)); eapply Permutation_NoDup; [apply Permutation_app_comm|exact HndFC] |apply keys_disjoint; exact HndFC|exact HfreeF].
    assert (HCC : consts_of C = C) by (unfold C, consts_of; apply filter_idem). rewrite HCC.
    rewrite load_forms_app.
    rewrite (load_vars_f allv sv (F ++ C) [] Hall Hsvok Hsvnd).
    - fold P. rewrite (load_funs (s_funs s) of _ [] Hofok Hofnd); [|intros k _ []]. eexists. split; [reflexivity|].
      rewrite !forallb_app, !repeat_true_all. reflexivity.
    - apply keys_disjoint. rewrite <- app_assoc. exact Hnd3.
    - exact HflFC.
    - intros f r Hl Hf. apply HflFC; [|exact Hf]. eapply Permutation_in; [symmetry; apply sort_perm|]. apply alookup_In. exact Hl.
    - exact HfreeFC. }
  destruct Hload as (oks & Hload & Hoks).
  assert (Hrs : reload_session s = mkS ((F ++ C) ++ P) of).
  { unfold reload_session, load. rewrite Hload. reflexivity. }
  assert (Hperm : Permutation ((F ++ C) ++ P) allv).
  { rewrite <- app_assoc. etransitivity; [exact Hp3|apply sort_perm]. }
  assert (Hcv : sort_by ((F ++ C) ++ P) = sort_by allv).
  { apply sort_canonical; [exact Hperm|]. eapply Permutation_NoDup; [|exact Hnv]. apply Permutation_map. symmetry. exact Hperm. }
  assert (Hcf : sort_by of = sort_by (s_funs s)).
  { apply sort_canonical; [exact Hpof|exact Hofnd]. }
  split; [|split].
  - rewrite Hrs. unfold canon. cbn [s_vars s_funs]. fold allv. rewrite Hcv, Hcf. reflexivity.
  - rewrite Hrs. unfold snapshot. cbn [s_vars s_funs]. fold allv. rewrite Hcv, Hcf. reflexivity.
  - rewrite Hload. cbn [snd]. exact Hoks.
Qed.

(* ... for the session built by EVERY history of definition forms the interpreter accepts, and in the decidable form
   of the specification that the per-run self-check evaluates *)
Theorem flavor_history_roundtrip : forall hist s, run empty_session hist = Ok s -> sess_ok_f s = true ->
  canon (reload_session s) = canon s /\ snapshot (reload_session s) = snapshot s
  /\ forallb (fun b => b) (snd (load_forms empty_session (snapshot s))) = true.
Proof.
  intros hist s Hrun Hok. apply flavor_session_roundtrip; [|exact Hok].
  exact (run_keys_nodup hist empty_session s empty_keys_nodup Hrun).
Qed.

Theorem flavor_guard_meets_spec : forall s, keys_nodup s -> sess_ok_f s = true -> meets_spec s = true.
Proof.
  intros s Hk Hok. destruct (flavor_session_roundtrip s Hk Hok) as (H1 & H2 & H3).
  unfold meets_spec. rewrite H3, H1, H2. rewrite session_eqb_refl, objs_eqb_refl. reflexivity.
Qed.

(* ---- non-vacuity: a flavor with two instance variables (one with a default), a variable holding an instance that was
   changed by send and holds a list and a nested instance, a list holding an instance, a constant, a variable without a
   value, a function: inside the new guard and inside sess_ok_x, outside sess_ok ---- *)
Definition ex_flavor_history2 : list obj :=
  [ L [Sym "defflavor"; Sym "blk"; L [Sym "sa"; L [Sym "sb"; Fix 2]]; Nil; Sym ":gettable-instance-variables";
       Sym ":settable-instance-variables"; Sym ":inittable-instance-variables"; L [Sym ":documentation"; Str "a block"]];
    L [Sym "defvar"; Sym "*bi*"; L [Sym "make-instance"; quote (Sym "blk"); Sym ":sa"; quote (L [Fix 1; Fix 2; Fix 3])]; Str "an instance"];
    L [Sym "send"; Sym "*bi*"; Sym ":set-sb"; L [Sym "make-instance"; quote (Sym "blk"); Sym ":sa"; Fix 7]];
    L [Sym "defvar"; Sym "*al*"; L [Sym "list"; L [Sym "make-instance"; quote (Sym "blk")]; Fix 5]];
    L [Sym "defconstant"; Sym "+ca+"; Fix 42];
    L [Sym "defvar"; Sym "*vf*"];
    L [Sym "defun"; Sym "fa"; L [Sym "x"]; L [Sym "*"; Sym "x"; Fix 3]] ].

Lemma ex_flavor_history2_ok :
  let s := run_or_empty ex_flavor_history2 in
  run empty_session ex_flavor_history2 = Ok s
  /\ sess_ok_f s = true /\ sess_ok_x s = true /\ sess_ok s = false
  /\ alookup (s_vars s) "blk" = Some (mkV (Some (Flv "blk" [("sa", Nil); ("sb", Fix 2)] true true true "a block")) "" false)
  /\ alookup (s_vars s) "*bi*" = Some (mkV (Some (Inst "blk" [("sa", L [Fix 1; Fix 2; Fix 3]);
                                                              ("sb", Inst "blk" [("sa", Fix 7); ("sb", Fix 2)])])) "an instance" false)
  /\ List.length (s_vars s) = 5 /\ List.length (snapshot s) = 10.
Proof. repeat split; vm_compute; reflexivity. Qed.

(* ---- the new guard lies inside the guard of the per-run comparison: sess_ok_f s -> sess_ok_x s ---- *)
Lemma snap_safe_x_of : forall v, snap_safe v = true -> snap_safe_x v = true.
Proof.
  unfold snap_safe, snap_safe_x. induction v using obj_ind2; intro Hs; cbn [snap_safe_g] in Hs |- *; try exact Hs; try discriminate.
  - destruct (forallb is_literal xs); [exact Hs|]. fold (snap_safe_g false) in Hs. fold (snap_safe_g true).
    apply forallb_forall. intros x Hin. rewrite forallb_forall in Hs. rewrite Forall_forall in H. apply (H x Hin). apply Hs. exact Hin.
  - fold (snap_safe_g false) in Hs. fold (snap_safe_g true).
    induction slots as [|[k w] r IHr]; [reflexivity|]. inversion H as [|? ? Pw Pr]; subst. cbn [snd] in Pw.
    apply andb_true_iff in Hs. destruct Hs as [Hs Hr]. apply andb_true_iff in Hs. destruct Hs as [Hk Hw].
    rewrite Hk, (Pw Hw). cbn [andb]. apply IHr; assumption.
Qed.

Lemma no_inst_insts_ok : forall vars v, no_inst v = true ->
  (is_literal v = true \/ loadable_in v = true \/ snap_safe v = true) -> insts_ok vars v = true.
Proof.
  intros vars. unfold snap_safe. induction v using obj_ind2; intros Hn Hd; try reflexivity.
  - (* L *)
    cbn [insts_ok]. cbn [no_inst] in Hn. apply forallb_forall. intros x Hin. rewrite Forall_forall in H. rewrite forallb_forall in Hn.
    apply (H x Hin (Hn x Hin)). cbn [is_literal loadable_in snap_safe_g] in Hd.
    destruct Hd as [Hd|[Hd|Hd]].
    + left. rewrite forallb_forall in Hd. exact (Hd x Hin).
    + right. left. apply andb_true_iff in Hd. destruct Hd as [_ Hd]. rewrite forallb_forall in Hd. exact (Hd x Hin).
    + destruct (forallb is_literal xs) eqn:El.
      * left. rewrite forallb_forall in El. exact (El x Hin).
      * right. right. rewrite forallb_forall in Hd. exact (Hd x Hin).
  - (* Dot *)
    cbn [insts_ok]. cbn [no_inst] in Hn. apply andb_true_iff in Hn. destruct Hn as [Hn Hnt].
    assert (Hd' : (forallb is_literal xs = true /\ is_literal v = true) \/ (forallb loadable_in xs = true /\ loadable_in v = true)).
    { cbn [snap_safe_g] in Hd. destruct Hd as [Hd|[Hd|Hd]].
      - left. cbn [is_literal] in Hd. apply andb_true_iff in Hd. exact Hd.
      - right. cbn [loadable_in] in Hd. apply andb_true_iff in Hd. destruct Hd as [Hd _]. apply andb_true_iff in Hd. destruct Hd as [Hd Ht].
        apply andb_true_iff in Hd. destruct Hd as [_ Hd]. split; assumption.
      - destruct (is_literal (Dot xs v)) eqn:El.
        + left. cbn [is_literal] in El. apply andb_true_iff in El. exact El.
        + right. cbn [loadable_in] in Hd. apply andb_true_iff in Hd. destruct Hd as [Hd _]. apply andb_true_iff in Hd. destruct Hd as [Hd Ht].
          apply andb_true_iff in Hd. destruct Hd as [_ Hd]. split; assumption. }
    apply andb_true_iff. split.
    + apply forallb_forall. intros x Hin. rewrite Forall_forall in H. rewrite forallb_forall in Hn. apply (H x Hin (Hn x Hin)).
      destruct Hd' as [[Hl _]|[Hl _]]; rewrite forallb_forall in Hl; [left|right; left]; exact (Hl x Hin).
    + apply (IHv Hnt). destruct Hd' as [[_ Ht]|[_ Ht]]; [left|right; left]; exact Ht.
  - (* Hash *)
    cbn [insts_ok]. cbn [no_inst] in Hn. apply forallb_forall. intros [k w] Hin. cbn [snd]. rewrite Forall_forall in H. rewrite forallb_forall in Hn.
    apply (proj2 (H (k, w) Hin) (Hn (k, w) Hin)). right. left.
    assert (Hl : loadable_in (Hash kvs) = true) by (destruct Hd as [Hd|[Hd|Hd]]; [discriminate|exact Hd|exact Hd]).
    cbn [loadable_in] in Hl. apply andb_true_iff in Hl. destruct Hl as [Hl _]. rewrite forallb_forall in Hl.
    specialize (Hl (k, w) Hin). cbn [fst snd] in Hl. apply andb_true_iff in Hl. tauto.
  - discriminate.
  - destruct Hd as [Hd|[Hd|Hd]]; discriminate.
Qed.

Theorem sess_ok_f_x : forall s, sess_ok_f s = true -> sess_ok_x s = true.
Proof.
  intros s H. unfold sess_ok_f in H. unfold sess_ok_x. apply andb_true_iff in H. destruct H as [Hv Hf]. rewrite Hf, andb_true_r.
  apply forallb_forall. intros [n r] Hin. rewrite forallb_forall in Hv. specialize (Hv _ Hin).
  destruct (var_ok_f_cases _ _ _ Hv) as (Hname & [(iv & i0 & g0 & s0 & d0 & -> & _ & Hnk & _ & _ & _ & Hiv)|[(v & d0 & -> & Hss & Hni)|[(v & d0 & -> & Hnf & Hss & Hio)| ->]]]);
    unfold var_ok_x; cbn [fst snd]; rewrite Hname; cbn [andb].
  - rewrite String.eqb_refl, Hnk, Hiv. reflexivity.
  - assert (E : snap_safe_x v && insts_ok (s_vars s) v = true)
      by (rewrite (snap_safe_x_of v Hss), (no_inst_insts_ok (s_vars s) v Hni (or_intror (or_intror Hss))); reflexivity).
    destruct v; try exact E; discriminate Hss.
  - assert (E : snap_safe_x v && insts_ok (s_vars s) v = true) by (rewrite (snap_safe_x_of v Hss), Hio; reflexivity).
    destruct v; try exact E; discriminate Hss.
  - reflexivity.
Qed.
