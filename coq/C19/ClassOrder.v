(* C19 — the class writer of a snapshot meets its specification for EVERY acyclic hierarchy.
   Acyclicity is stated by a rank function: every direct superclass that is a user class has a smaller rank than the
   class, and the ranks of the user classes do not exceed the number of classes (the depth of a class -- the length of
   the longest chain of user superclasses below it -- is such a function for every finite acyclic hierarchy; slip's
   defclass accepts a superclass that is defined later, so "defined earlier" would be too narrow, but it never accepts a
   cycle: a class whose superclasses are not ready stays unmerged).  The fuel of the writer, S (number of classes), then
   never runs out: a nested call is made on a class of smaller rank. *)
From Coq Require Import List String Bool Arith Lia Permutation.
From C19 Require Import Model Session SessionProofs Classes ClassesProofs.
Import ListNotations.
Open Scope string_scope.
Open Scope list_scope.

Section Acyclic.
  Variable h : hier.
  Variable rank : string -> nat.
  Let keys := map fst h.
  Let names := sorted_names h.
  Hypothesis Hdec : forall c sups s, In (c, sups) h -> In s sups -> In s keys -> rank s < rank c.
  Hypothesis Hbound : forall c, In c keys -> rank c <= List.length h.

  Lemma names_keys : forall x, In x names <-> In x keys.
  Proof.
    intro x. unfold names, sorted_names, keys. split; intro H.
    - eapply Permutation_in; [apply sort_keys_perm|exact H].
    - eapply Permutation_in; [symmetry; apply sort_keys_perm|exact H].
  Qed.

  Lemma alookup_In : forall (l : hier) n v, alookup l n = Some v -> In (n, v) l.
  Proof.
    induction l as [|[k a] r IH]; intros n v H; [discriminate|]. cbn [alookup] in H.
    destruct (k =? n) eqn:E.
    - apply String.eqb_eq in E. injection H as ->. subst. left. reflexivity.
    - right. apply IH. exact H.
  Qed.

  Lemma alookup_key : forall (l : hier) n v, alookup l n = Some v -> In n (map fst l).
  Proof. intros l n v H. apply alookup_In in H. apply in_map_iff. exists (n, v). split; [reflexivity|exact H]. Qed.

  (* a user class among the classes a class inherits from has a smaller rank *)
  Lemma anc_rank : forall f n a, In a (ancestors f h n) -> In a keys -> rank a < rank n.
  Proof.
    induction f as [|f IH]; intros n a Ha Hk; [destruct Ha|].
    cbn [ancestors] in Ha. destruct (alookup h n) as [sups|] eqn:El; [|destruct Ha].
    apply in_flat_map in Ha. destruct Ha as (s & Hs & Ha). destruct Ha as [<-|Ha].
    - exact (Hdec n sups s (alookup_In h n sups El) Hs Hk).
    - assert (Hsk : In s keys).
      { destruct f as [|f']; [destruct Ha|]. cbn [ancestors] in Ha. destruct (alookup h s) as [ss|] eqn:Es; [|destruct Ha].
        exact (alookup_key h s ss Es). }
      pose proof (Hdec n sups s (alookup_In h n sups El) Hs Hsk). specialize (IH s a Ha Hk). lia.
  Qed.

  Lemma inherits_rank : forall c c2, inherits h c c2 = true -> In c2 keys -> rank c2 < rank c.
  Proof. intros c c2 H Hk. unfold inherits in H. apply mem_In in H. exact (anc_rank _ c c2 H Hk). Qed.

  (* appending a class to a written order *)
  Lemma supers_before_app : forall l seen c,
    supers_before h seen l = true ->
    (forall a, In a (ancestors (List.length h) h c) -> In a keys -> In a seen \/ In a l) ->
    supers_before h seen (l ++ [c]) = true.
  Proof.
    induction l as [|x l IH]; intros seen c Hl Ha.
    - cbn [app supers_before]. rewrite andb_true_r. apply forallb_forall. intros a Hin.
      destruct (mem a (map fst h)) eqn:Em; [|reflexivity]. cbn [negb orb].
      apply mem_In in Em. destruct (Ha a Hin Em) as [H|[]]. apply mem_In. exact H.
    - cbn [app supers_before] in Hl |- *. apply andb_true_iff in Hl. destruct Hl as [Hx Hr]. rewrite Hx. cbn [andb].
      apply IH; [exact Hr|]. intros a Hin Hk. destruct (Ha a Hin Hk) as [H|[<-|H]].
      + left. right. exact H.
      + left. left. reflexivity.
      + right. exact H.
  Qed.

  (* the invariant of the walk: the written order has no class twice, is part of the visited set, which is part of the
     user classes, and has superclasses before subclasses *)
  Definition inv (st : list string * list string) : Prop :=
    NoDup (snd st) /\ incl (snd st) (fst st) /\ incl (fst st) names /\ supers_before h [] (snd st) = true.

  (* what one call of the writer does, when the fuel exceeds the rank of the class and every class whose writing is
     pending (visited, not yet written) has a larger rank: the class is written afterwards *)
  Definition post (c : string) (st st' : list string * list string) : Prop :=
    inv st' /\ incl (fst st) (fst st') /\ incl (snd st) (snd st')
    /\ (forall x, In x (fst st') -> In x (snd st') \/ In x (fst st))
    /\ (forall x, In x (snd st') -> In x (snd st) \/ ~ In x (fst st)).

  Lemma post_refl : forall c st, inv st -> post c st st.
  Proof.
    intros c st Hi. unfold post. split; [exact Hi|]. split; [apply incl_refl|]. split; [apply incl_refl|].
    split; [intros x Hx; right; exact Hx|intros x Hx; left; exact Hx].
  Qed.

  Lemma write_spec : forall f st c, rank c < f -> In c names -> inv st ->
    (forall p, In p (fst st) -> ~ In p (snd st) -> rank c < rank p) ->
    post c st (write f h names st c) /\ In c (snd (write f h names st c)).
  Proof.
    induction f as [|f IH]; intros st c Hf Hc Hinv Hpend; [lia|].
    cbn [write]. destruct (mem c (fst st)) eqn:Ev.
    - (* visited, and not pending: written already *)
      apply mem_In in Ev. split.
      + apply post_refl. exact Hinv.
      + destruct (in_dec string_dec c (snd st)) as [H|H]; [exact H|]. specialize (Hpend c Ev H). lia.
    - assert (Hnv : ~ In c (fst st)) by (intro H; apply mem_In in H; congruence).
      destruct Hinv as (Hnd & Hov & Hvn & Hsb).
      set (st1 := (c :: fst st, snd st)).
      (* the loop over the names: every class c inherits from is written, c stays pending *)
      assert (Hfold : forall l st0, incl l names -> inv st0 -> In c (fst st0) -> ~ In c (snd st0) ->
                (forall p, In p (fst st0) -> ~ In p (snd st0) -> p = c \/ rank c < rank p) ->
                let st2 := fold_left (fun s c2 => if inherits h c c2 then write f h names s c2 else s) l st0 in
                post c st0 st2 /\ ~ In c (snd st2) /\ (forall c2, In c2 l -> inherits h c c2 = true -> In c2 (snd st2))).
      { induction l as [|c2 l IHl]; intros st0 Hl Hi0 Hc0 Hnc0 Hp0; cbn [fold_left].
        - split; [apply post_refl; exact Hi0|split; [exact Hnc0|intros ? []]].
        - assert (Hl' : incl l names) by (intros x Hx; apply Hl; right; exact Hx).
          destruct (inherits h c c2) eqn:Ei.
          + assert (Hc2n : In c2 names) by (apply Hl; left; reflexivity).
            assert (Hr2 : rank c2 < rank c) by (apply inherits_rank; [exact Ei|apply names_keys; exact Hc2n]).
            assert (Hcall : post c2 st0 (write f h names st0 c2) /\ In c2 (snd (write f h names st0 c2))).
            { apply IH; [lia|exact Hc2n|exact Hi0|]. intros p Hp Hnp. destruct (Hp0 p Hp Hnp) as [->|H]; lia. }
            destruct Hcall as ((Hi1 & Hv1 & Ho1 & Hx1 & Hy1) & Hin2).
            set (st1' := write f h names st0 c2) in *.
            assert (Hnc1 : ~ In c (snd st1')) by (intro H; destruct (Hy1 c H) as [H'|H']; [exact (Hnc0 H')|exact (H' Hc0)]).
            assert (Hp1 : forall p, In p (fst st1') -> ~ In p (snd st1') -> p = c \/ rank c < rank p).
            { intros p Hp Hnp. destruct (Hx1 p Hp) as [H|H]; [contradiction|]. apply Hp0; [exact H|]. intro H'. apply Hnp. apply Ho1. exact H'. }
            destruct (IHl st1' Hl' Hi1 (Hv1 c Hc0) Hnc1 Hp1) as ((Hi2 & Hv2 & Ho2 & Hx2 & Hy2) & Hnc2 & Hall).
            split; [|split; [exact Hnc2|]].
            * repeat split; try exact Hi2; try (destruct Hi2 as (?&?&?&?); assumption).
              -- intros x Hx. apply Hv2. apply Hv1. exact Hx.
              -- intros x Hx. apply Ho2. apply Ho1. exact Hx.
              -- intros x Hx. destruct (Hx2 x Hx) as [H|H]; [left; exact H|]. destruct (Hx1 x H) as [H'|H']; [left; apply Ho2; exact H'|right; exact H'].
              -- intros x Hx. destruct (Hy2 x Hx) as [H|H]; [exact (Hy1 x H)|]. right. intro H'. apply H. apply Hv1. exact H'.
            * intros c3 [<-|Hc3] Hi3; [apply Ho2; exact Hin2|exact (Hall c3 Hc3 Hi3)].
          + destruct (IHl st0 Hl' Hi0 Hc0 Hnc0 Hp0) as (Hpost & Hnc2 & Hall).
            split; [exact Hpost|split; [exact Hnc2|]].
            intros c3 [<-|Hc3] Hi3; [congruence|exact (Hall c3 Hc3 Hi3)]. }
      assert (Hi1 : inv st1).
      { unfold inv, st1. cbn [fst snd]. repeat split; [exact Hnd| |intros x [<-|Hx]; [exact Hc|exact (Hvn x Hx)]|exact Hsb].
        intros x Hx. right. exact (Hov x Hx). }
      assert (Hnc1 : ~ In c (snd st1)) by (unfold st1; cbn [snd]; intro H; exact (Hnv (Hov c H))).
      assert (Hp1 : forall p, In p (fst st1) -> ~ In p (snd st1) -> p = c \/ rank c < rank p).
      { unfold st1. cbn [fst snd]. intros p [<-|Hp] Hnp; [left; reflexivity|right; exact (Hpend p Hp Hnp)]. }
      destruct (Hfold names st1 (incl_refl _) Hi1 (or_introl eq_refl) Hnc1 Hp1) as ((Hi2 & Hv2 & Ho2 & Hx2 & Hy2) & Hnc2 & Hall).
      set (st2 := fold_left (fun s c2 => if inherits h c c2 then write f h names s c2 else s) names st1) in *.
      destruct Hi2 as (Hnd2 & Hov2 & Hvn2 & Hsb2).
      cbn [fst snd]. split; [|apply in_or_app; right; left; reflexivity].
      unfold post, inv. cbn [fst snd]. repeat split.
      + assert (Hp : Permutation (c :: snd st2) (snd st2 ++ [c])) by (apply Permutation_cons_append).
        eapply Permutation_NoDup; [exact Hp|]. constructor; assumption.
      + intros x Hx. apply in_app_or in Hx. destruct Hx as [Hx|[<-|[]]]; [exact (Hov2 x Hx)|]. apply Hv2. left. reflexivity.
      + exact Hvn2.
      + apply supers_before_app; [exact Hsb2|]. intros a Ha Hk. right.
        apply Hall; [apply names_keys; exact Hk|]. unfold inherits. apply mem_In. exact Ha.
      + intros x Hx. apply Hv2. right. exact Hx.
      + intros x Hx. apply in_or_app. left. apply Ho2. exact Hx.
      + intros x Hx. destruct (Hx2 x Hx) as [H|[<-|H]].
        * left. apply in_or_app. left. exact H.
        * left. apply in_or_app. right. left. reflexivity.
        * right. exact H.
      + intros x Hx. apply in_app_or in Hx. destruct Hx as [Hx|[<-|[]]].
        * destruct (Hy2 x Hx) as [H|H]; [left; exact H|]. right. intro H'. apply H. right. exact H'.
        * right. exact Hnv.
  Qed.

  (* the outer loop: nothing is pending between two calls *)
  Lemma outer_spec : forall l st, incl l names -> inv st -> incl (fst st) (snd st) ->
    let st' := fold_left (write (S (List.length h)) h names) l st in
    inv st' /\ incl (fst st') (snd st') /\ incl (snd st) (snd st') /\ (forall c, In c l -> In c (snd st')).
  Proof.
    induction l as [|c l IH]; intros st Hl Hi Hcl; cbn [fold_left].
    - split; [exact Hi|split; [exact Hcl|split; [apply incl_refl|intros ? []]]].
    - assert (Hc : In c names) by (apply Hl; left; reflexivity).
      assert (Hl' : incl l names) by (intros x Hx; apply Hl; right; exact Hx).
      destruct (write_spec (S (List.length h)) st c) as ((Hi1 & Hv1 & Ho1 & Hx1 & _) & Hin).
      + pose proof (Hbound c (proj1 (names_keys c) Hc)). lia.
      + exact Hc.
      + exact Hi.
      + intros p Hp Hnp. exfalso. apply Hnp. apply Hcl. exact Hp.
      + set (st1 := write (S (List.length h)) h names st c) in *.
        assert (Hcl1 : incl (fst st1) (snd st1)).
        { intros x Hx. destruct (Hx1 x Hx) as [H|H]; [exact H|]. apply Ho1. apply Hcl. exact H. }
        destruct (IH st1 Hl' Hi1 Hcl1) as (Hi2 & Hcl2 & Ho2 & Hall).
        split; [exact Hi2|split; [exact Hcl2|split]].
        * intros x Hx. apply Ho2. apply Ho1. exact Hx.
        * intros c3 [<-|Hc3]; [apply Ho2; exact Hin|exact (Hall c3 Hc3)].
  Qed.

  Lemma nodupb_NoDup : forall l, NoDup l -> nodupb l = true.
  Proof.
    induction l as [|a r IH]; intro H; [reflexivity|]. inversion H as [|? ? Hn Hr]; subst. cbn [nodupb].
    rewrite (IH Hr), andb_true_r. apply negb_true_iff. destruct (mem a r) eqn:E; [|reflexivity].
    apply mem_In in E. contradiction.
  Qed.

  Theorem class_order_ok_ranked : order_ok h (class_order h) = true.
  Proof.
    unfold class_order. fold names.
    assert (Hi0 : inv ([], [])) by (unfold inv; cbn [fst snd]; repeat split; [constructor|intros ? []|intros ? []]).
    destruct (outer_spec names ([], []) (incl_refl _) Hi0 (incl_refl _)) as ((Hnd & Hov & Hvn & Hsb) & _ & _ & Hall).
    set (st := fold_left (write (S (List.length h)) h names) names ([], [])) in *.
    unfold order_ok. rewrite Hsb, (nodupb_NoDup _ Hnd). cbn [andb]. unfold same_set. apply andb_true_iff. split.
    - apply forallb_forall. intros x Hx. apply mem_In. apply names_keys. apply Hvn. apply Hov. exact Hx.
    - apply forallb_forall. intros x Hx. apply mem_In. apply Hall. apply names_keys. exact Hx.
  Qed.
End Acyclic.

(* Theorem: for EVERY hierarchy that has a rank function -- every direct superclass that is a user class has a smaller
   rank, no rank exceeds the number of classes -- the writer writes every user class exactly once and after every user
   class it inherits from *)
Theorem class_order_ok : forall (h : hier) (rank : string -> nat),
  (forall c sups s, In (c, sups) h -> In s sups -> In s (map fst h) -> rank s < rank c) ->
  (forall c, In c (map fst h) -> rank c <= List.length h) ->
  order_ok h (class_order h) = true.
Proof. intros h rank H1 H2. exact (class_order_ok_ranked h rank H1 H2). Qed.

Theorem class_order_ok_by : forall h r, acyclic_by r h = true -> order_ok h (class_order h) = true.
Proof.
  intros h r H. unfold acyclic_by in H. rewrite forallb_forall in H.
  apply (class_order_ok h (rank_of r)).
  - intros c sups s Hin Hs Hk. specialize (H (c, sups) Hin). cbn [fst snd] in H. apply andb_true_iff in H. destruct H as [H _].
    rewrite forallb_forall in H. specialize (H s Hs). apply orb_true_iff in H. destruct H as [H|H].
    + apply negb_true_iff in H. apply mem_In in Hk. congruence.
    + apply Nat.ltb_lt. exact H.
  - intros c Hc. apply in_map_iff in Hc. destruct Hc as ([c' sups] & E & Hin). cbn [fst] in E. subst c'.
    specialize (H (c, sups) Hin). cbn [fst snd] in H. apply andb_true_iff in H. destruct H as [_ H]. apply Nat.leb_le. exact H.
Qed.

(* non-vacuity: a diamond with a forward-referenced superclass (defined later than the class that names it) *)
Example diamond_forward :
  let h := [("c19g", ["c19z"]); ("c19a", ["c19g"; "c19m"; "standard-object"]); ("c19m", ["c19z"]); ("c19z", [])] in
  acyclic_by [("c19z", 0); ("c19g", 1); ("c19m", 1); ("c19a", 2)] h = true
  /\ class_order h = ["c19z"; "c19g"; "c19m"; "c19a"].
Proof. split; vm_compute; reflexivity. Qed.

(* the depth of a class is a rank for every hierarchy of the enumerated block (and, per run, for every generated one:
   counter class_ranked_count of Corr.v) *)
Example block_ranked : forallb (fun h => acyclic_by (depth_rank h) h) block = true.
Proof. vm_compute. reflexivity. Qed.

(* the writer meets the specification on the enumerated block: now an instance of the theorem *)
Example block_ok : forallb (fun h => order_ok h (class_order h)) block = true.
Proof.
  apply forallb_forall. intros h Hin. apply (class_order_ok_by h (depth_rank h)).
  pose proof block_ranked as H. rewrite forallb_forall in H. exact (H h Hin).
Qed.

