(* C19 — model M, part 2: a session (the user's variables, constants, functions and macros of the
   common-lisp-user package), the interpreter of the definition forms that build it (pkg/cl/defvar.go,
   defparameter.go, defconstant.go, defun.go, defmacro.go, setq through Scope.Set), the snapshot writer
   (pkg/gi/snapshot.go: appendSnapshotConstants, appendSnapshotVars with appendDefVar / appendSetq / ppValue,
   appendSnapshotFunctions with FuncInfo.LoadForm funcinfo.go:81-116) and the loader, which is the same interpreter
   run over the snapshot's forms one by one.  Executable definitions only. *)
From Coq Require Import List String ZArith Bool Ascii.
From C19 Require Import Model.
Import ListNotations.
Open Scope string_scope.
Open Scope list_scope.

Record vrec := mkV { v_val : option obj;     (* None: defined but unbound *)
                     v_doc : string; v_const : bool }.
Record frec := mkF { f_macro : bool; f_ll : list obj; f_doc : string; f_body : list obj }.
Record session := mkS { s_vars : list (string * vrec); s_funs : list (string * frec) }.
Definition empty_session : session := mkS [] [].

Fixpoint alookup {A} (l : list (string * A)) (k : string) : option A :=
  match l with [] => None | (k', a) :: r => if (k' =? k)%string then Some a else alookup r k end.
(* replace in place or add at the end *)
Fixpoint aset {A} (l : list (string * A)) (k : string) (a : A) : list (string * A) :=
  match l with
  | [] => [(k, a)]
  | (k', a') :: r => if (k' =? k)%string then (k, a) :: r else (k', a') :: aset r k a
  end.

(* names: the snapshot qualifies variables and constants with their package; functions are written bare *)
Definition user_pkg : string := "common-lisp-user".
Definition qual (n : string) : string := user_pkg ++ "::" ++ n.
Fixpoint strip_prefix (p s : string) : option string :=
  match p with
  | EmptyString => Some s
  | String c p' => match s with
                   | String d s' => if Ascii.eqb c d then strip_prefix p' s' else None
                   | EmptyString => None
                   end
  end.
Fixpoint has_colon (s : string) : bool :=
  match s with EmptyString => false | String c r => Ascii.eqb c ":"%char || has_colon r end.
(* scope.go:178 UnpackName, restricted to the one user package of the model; other packages are not modelled *)
Definition resolve (n : string) : option string :=
  match strip_prefix (qual "") n with
  | Some r => Some r
  | None => if has_colon n then None else Some n
  end.

(* the variables a form can see: the self-bound constants and every bound session variable *)
Definition env_of (s : session) : env :=
  flat_map (fun kv => match v_val (snd kv) with Some v => [(fst kv, v)] | None => [] end) (s_vars s) ++ global_env.

(* ---- the interpreter of definition forms ---------------------------------------------------------- *)

Definition unmodelled {A} : res A := Err EUnmodelled.

Definition set_var (s : session) (n : string) (r : vrec) : session := mkS (aset (s_vars s) n r) (s_funs s).
Definition set_fun (s : session) (n : string) (r : frec) : session := mkS (s_vars s) (aset (s_funs s) n r).

(* defun / defmacro: name, lambda list, then lambda.go:210 DefLambda's rule for the documentation string *)
Definition def_function (macro : bool) (s : session) (args : list obj) : res session :=
  match args with
  | Sym n :: rest =>
      match resolve n with
      | None => unmodelled
      | Some name =>
          bind (mk_lambda rest) (fun l =>
            match l with
            | Lam ll doc body => Ok (set_fun s name (mkF macro ll doc body))
            | _ => Err EBadForm
            end)
      end
  | _ => Err EType
  end.

Definition exec (s : session) (form : obj) : res session :=
  match form with
  | L (Sym h :: args) =>
      if (h =? "defvar")%string then
        (* defvar.go:53-84: nothing happens when the variable is bound; otherwise value (or unbound) and doc are set *)
        match args with
        | Sym n :: rest =>
            match resolve n with
            | None => unmodelled
            | Some name =>
                match alookup (s_vars s) name with
                | Some (mkV (Some _) _ _) => Ok s
                | _ =>
                    match rest with
                    | [] => Ok (set_var s name (mkV None "" false))
                    | [init] => bind (eval (env_of s) init) (fun v => Ok (set_var s name (mkV (Some v) "" false)))
                    | [init; Str d] => bind (eval (env_of s) init) (fun v => Ok (set_var s name (mkV (Some v) d false)))
                    | _ => Err EType
                    end
                end
            end
        | _ => Err EType
        end
      else if (h =? "defparameter")%string then
        (* defparameter.go:57-82: always sets; the documentation only when it is not empty *)
        match args with
        | Sym n :: init :: rest =>
            match resolve n with
            | None => unmodelled
            | Some name =>
                match alookup (s_vars s) name with
                | Some (mkV _ _ true) => Err EType      (* a constant cannot be set *)
                | old =>
                    let old_doc := match old with Some r => v_doc r | None => "" end in
                    bind (eval (env_of s) init) (fun v =>
                      match rest with
                      | [] => Ok (set_var s name (mkV (Some v) old_doc false))
                      | [Str d] => Ok (set_var s name (mkV (Some v) (if (d =? "")%string then old_doc else d) false))
                      | _ => Err EType
                      end)
                end
            end
        | _ => Err EType
        end
      else if (h =? "setq")%string then
        match args with
        | [Sym n; f] =>
            match resolve n with
            | None => unmodelled
            | Some name =>
                bind (eval (env_of s) f) (fun v =>
                  match alookup (s_vars s) name with
                  | Some (mkV _ _ true) => Err EType
                  | Some (mkV _ d _) => Ok (set_var s name (mkV (Some v) d false))
                  | None => if has_colon n then Ok s     (* scope.go:230-234: a qualified name that does not exist is ignored *)
                            else Ok (set_var s name (mkV (Some v) "" false))
                  end)
            end
        | _ => unmodelled
        end
      else if (h =? "defconstant")%string then
        (* defconstant.go:55-78, package.go:300 DefConst *)
        match args with
        | Sym n :: init :: rest =>
            match resolve n with
            | None => unmodelled
            | Some name =>
                bind (eval (env_of s) init) (fun v =>
                  bind (match rest with [] => Ok "" | [Str d] => Ok d | _ => Err EType end) (fun d =>
                    match alookup (s_vars s) name with
                    | Some (mkV (Some old) _ true) => if obj_eqb old v then Ok s else Err EType
                    | Some _ => Err EType
                    | None => Ok (set_var s name (mkV (Some v) d true))
                    end))
            end
        | _ => Err EType
        end
      else if (h =? "defun")%string then def_function false s args
      else if (h =? "defmacro")%string then def_function true s args
      else unmodelled
  | _ => unmodelled
  end.

(* a history, strictly: the first failing form stops it *)
Fixpoint run (s : session) (forms : list obj) : res session :=
  match forms with
  | [] => Ok s
  | f :: r => bind (exec s f) (fun s' => run s' r)
  end.

(* the loader used by the harness: every form on its own, failures recorded and skipped *)
Fixpoint load_forms (s : session) (forms : list obj) : session * list bool :=
  match forms with
  | [] => (s, [])
  | f :: r =>
      match exec s f with
      | Ok s' => let '(s'', oks) := load_forms s' r in (s'', true :: oks)
      | Err _ => let '(s'', oks) := load_forms s r in (s'', false :: oks)
      end
  end.
Definition load (forms : list obj) : session := fst (load_forms empty_session forms).

(* ---- the snapshot writer ---------------------------------------------------------------------------- *)

(* insertion sort by name, Go's byte-wise string order *)
Fixpoint insert_by {A} (k : string) (a : A) (l : list (string * A)) : list (string * A) :=
  match l with
  | [] => [(k, a)]
  | (k', a') :: r => if String.leb k k' then (k, a) :: l else (k', a') :: insert_by k a r
  end.
Fixpoint sort_by {A} (l : list (string * A)) : list (string * A) :=
  match l with [] => [] | (k, a) :: r => insert_by k a (sort_by r) end.

(* snapshot.go:254 ppValue and what pp.buildNode makes of the value: a non-empty list is quoted; a hash table and
   a lambda are written as their load forms; everything else, symbols included, is written as it is *)
Definition pp_value (v : obj) : res obj :=
  match v with
  | L _ | Dot _ _ => Ok (quote v)
  | Hash _ | Lam _ _ _ => load_form v
  | Opaque _ => Err ENotReadable
  | _ => Ok v
  end.

Definition const_forms (kv : string * vrec) : list obj :=
  match kv with
  | (n, mkV (Some v) d true) =>
      [L ([Sym "defconstant"; Sym (qual n); v] ++ (if (d =? "")%string then [] else [Str d]))]
  | _ => []
  end.
Definition var_forms (kv : string * vrec) : list obj :=
  match kv with
  | (n, mkV ov d false) =>
      L ([Sym "defvar"; Sym (qual n)] ++ (if (d =? "")%string then [] else [Nil; Str d]))
      :: match ov with
         | Some v => match pp_value v with
                     | Ok f => [L [Sym "setq"; Sym (qual n); f]]
                     | Err _ => []              (* appendSetq recovers and writes nothing *)
                     end
         | None => [L [Sym "setq"; Sym (qual n); Sym "<unbound>"; Sym "0x00"]]   (* how the unbound marker is printed *)
         end
  | _ => []
  end.
Definition fun_form (kv : string * frec) : obj :=
  match kv with
  | (n, mkF macro ll d body) =>
      L ([Sym (if macro then "defmacro" else "defun"); Sym n; mkL ll] ++ (if (d =? "")%string then [] else [Str d]) ++ body)
  end.

Definition snapshot (s : session) : list obj :=
  flat_map const_forms (sort_by (s_vars s)) ++ flat_map var_forms (sort_by (s_vars s)) ++ map fun_form (sort_by (s_funs s)).

(* the session rebuilt from its snapshot, and the snapshot of that *)
Definition reload_session (s : session) : session := load (snapshot s).
Definition canon (s : session) : session := mkS (sort_by (s_vars s)) (sort_by (s_funs s)).
