(* C19 — model M, part 2: a session (the user's variables, constants, functions and macros of the
   common-lisp-user package), the interpreter of the definition forms that build it (pkg/cl/defvar.go,
   defparameter.go, defconstant.go, defun.go, defmacro.go, setq through Scope.Set), the snapshot writer
   (pkg/gi/snapshot.go with repo_fixes/C19-11..16: appendSnapshotConstants, appendSnapshotVars with appendDefVar / appendSetq / ppValue,
   appendSnapshotFunctions with FuncInfo.LoadForm funcinfo.go:81-116) and the loader, which is the same interpreter
   run over the snapshot's forms one by one.  Executable definitions only. *)
From Coq Require Import List String ZArith Bool Ascii.
From C19 Require Import Model.
Import ListNotations.
Open Scope string_scope.
Open Scope list_scope.

Record vrec := mkV { v_val : option obj;     (* None: defined but unbound *)
                     v_doc : string; v_const : bool }.
Record frec := mkF { f_macro : bool; f_ll : list obj; f_doc : string; f_body : list obj }.
Record session := mkS { s_vars : list (string * vrec); s_funs : list (string * frec) }.
Definition empty_session : session := mkS [] [].

Fixpoint alookup {A} (l : list (string * A)) (k : string) : option A :=
  match l with [] => None | (k', a) :: r => if (k' =? k)%string then Some a else alookup r k end.
(* replace in place or add at the end *)
Fixpoint aset {A} (l : list (string * A)) (k : string) (a : A) : list (string * A) :=
  match l with
  | [] => [(k, a)]
  | (k', a') :: r => if (k' =? k)%string then (k, a) :: r else (k', a') :: aset r k a
  end.

(* names: the snapshot qualifies variables and constants with their package; functions are written bare *)
Definition user_pkg : string := "common-lisp-user".
Definition qual (n : string) : string := user_pkg ++ "::" ++ n.
Fixpoint strip_prefix (p s : string) : option string :=
  match p with
  | EmptyString => Some s
  | String c p' => match s with
                   | String d s' => if Ascii.eqb c d then strip_prefix p' s' else None
                   | EmptyString => None
                   end
  end.
Fixpoint has_colon (s : string) : bool :=
  match s with EmptyString => false | String c r => Ascii.eqb c ":"%char || has_colon r end.
(* scope.go:178 UnpackName, restricted to the one user package of the model; other packages are not modelled *)
Definition resolve (n : string) : option string :=
  match strip_prefix (qual "") n with
  | Some r => Some r
  | None => if has_colon n then None else Some n
  end.

(* the variables a form can see: the self-bound constants and every bound session variable *)
Definition env_of (s : session) : env :=
  flat_map (fun kv => match v_val (snd kv) with Some v => [(fst kv, v)] | None => [] end) (s_vars s) ++ global_env.

(* insertion sort by name, Go's byte-wise string order *)
Fixpoint insert_by {A} (k : string) (a : A) (l : list (string * A)) : list (string * A) :=
  match l with
  | [] => [(k, a)]
  | (k', a') :: r => if String.leb k k' then (k, a) :: l else (k', a') :: insert_by k a r
  end.
Fixpoint sort_by {A} (l : list (string * A)) : list (string * A) :=
  match l with [] => [] | (k, a) :: r => insert_by k a (sort_by r) end.

(* ---- the interpreter of definition forms ---------------------------------------------------------- *)

Definition unmodelled {A} : res A := Err EUnmodelled.

Definition set_var (s : session) (n : string) (r : vrec) : session := mkS (aset (s_vars s) n r) (s_funs s).
Definition set_fun (s : session) (n : string) (r : frec) : session := mkS (s_vars s) (aset (s_funs s) n r).

(* defun / defmacro: name, lambda list, then lambda.go:210 DefLambda's rule for the documentation string *)
Definition def_function (macro : bool) (s : session) (args : list obj) : res session :=
  match args with
  | Sym n :: rest =>
      match resolve n with
      | None => unmodelled
      | Some name =>
          bind (mk_lambda rest) (fun l =>
            match l with
            | Lam ll doc body => Ok (set_fun s name (mkF macro ll doc body))
            | _ => Err EBadForm
            end)
      end
  | _ => Err EType
  end.

Definition exec (s : session) (form : obj) : res session :=
  match form with
  | L (Sym h :: args) =>
      if (h =? "defvar")%string then
        (* defvar.go:53-84: nothing happens when the variable is bound; otherwise value (or unbound) and doc are set *)
        match args with
        | Sym n :: rest =>
            match resolve n with
            | None => unmodelled
            | Some name =>
                match alookup (s_vars s) name with
                | Some (mkV (Some _) _ _) => Ok s
                | _ =>
                    match rest with
                    | [] => Ok (set_var s name (mkV None "" false))
                    | [init] => bind (eval (env_of s) init) (fun v => Ok (set_var s name (mkV (Some v) "" false)))
                    | [init; Str d] => bind (eval (env_of s) init) (fun v => Ok (set_var s name (mkV (Some v) d false)))
                    | _ => Err EType
                    end
                end
            end
        | _ => Err EType
        end
      else if (h =? "defparameter")%string then
        (* defparameter.go:57-82: always sets; the documentation only when it is not empty *)
        match args with
        | Sym n :: init :: rest =>
            match resolve n with
            | None => unmodelled
            | Some name =>
                match alookup (s_vars s) name with
                | Some (mkV _ _ true) => Err EType      (* a constant cannot be set *)
                | old =>
                    let old_doc := match old with Some r => v_doc r | None => "" end in
                    bind (eval (env_of s) init) (fun v =>
                      match rest with
                      | [] => Ok (set_var s name (mkV (Some v) old_doc false))
                      | [Str d] => Ok (set_var s name (mkV (Some v) (if (d =? "")%string then old_doc else d) false))
                      | _ => Err EType
                      end)
                end
            end
        | _ => Err EType
        end
      else if (h =? "setq")%string then
        match args with
        | [Sym n; f] =>
            match resolve n with
            | None => unmodelled
            | Some name =>
                bind (eval (env_of s) f) (fun v =>
                  match alookup (s_vars s) name with
                  | Some (mkV _ _ true) => Err EType
                  | Some (mkV _ d _) => Ok (set_var s name (mkV (Some v) d false))
                  | None => if has_colon n then Ok s     (* scope.go:230-234: a qualified name that does not exist is ignored *)
                            else Ok (set_var s name (mkV (Some v) "" false))
                  end)
            end
        | _ => unmodelled
        end
      else if (h =? "defconstant")%string then
        (* defconstant.go:55-78, package.go:300 DefConst *)
        match args with
        | Sym n :: init :: rest =>
            match resolve n with
            | None => unmodelled
            | Some name =>
                bind (eval (env_of s) init) (fun v =>
                  bind (match rest with [] => Ok "" | [Str d] => Ok d | _ => Err EType end) (fun d =>
                    match alookup (s_vars s) name with
                    | Some (mkV (Some old) _ true) => if obj_eqb old v then Ok s else Err EType
                    | Some _ => Err EType
                    | None => Ok (set_var s name (mkV (Some v) d true))
                    end))
            end
        | _ => Err EType
        end
      else if (h =? "defflavor")%string then
        (* pkg/flavors/defflavor.go, restricted to flavors without components and to the three blanket options and
           the documentation; the defaults are evaluated now; the flavor is also the value of the variable of its name *)
        match args with
        | Sym n :: ivf :: Nil :: opts =>
            match resolve n, elems_of ivf with
            | Some name, Some ivl =>
                bind (map_res (fun a => match a with
                                        | Sym k => Ok (k, Nil)
                                        | L [Sym k; df] => bind (eval (env_of s) df) (fun d => Ok (k, d))
                                        | _ => Err EType
                                        end) ivl) (fun ivars =>
                bind ((fix go (l : list obj) (acc : bool * bool * bool * string) : res (bool * bool * bool * string) :=
                         match l with
                         | [] => Ok acc
                         | o :: r =>
                             let '(i, g, st, d) := acc in
                             match o with
                             | Sym k => if (k =? ":inittable-instance-variables")%string then go r (true, g, st, d)
                                        else if (k =? ":gettable-instance-variables")%string then go r (i, true, st, d)
                                        else if (k =? ":settable-instance-variables")%string then go r (i, g, true, d)
                                        else unmodelled
                             | L [Sym k; Str dd] => if (k =? ":documentation")%string then go r (i, g, st, dd) else unmodelled
                             | _ => unmodelled
                             end
                         end) opts (false, false, false, "")) (fun o =>
                  let '(i, g, st, d) := o in
                  (* without instance variables the three options mean nothing (and Flavor.LoadForm does not write them) *)
                  let some := negb (match ivars with [] => true | _ => false end) in
                  Ok (set_var s name (mkV (Some (Flv name (sort_by ivars) (i && some) (g && some) (st && some) d)) "" false))))
            | _, _ => unmodelled
            end
        | _ => unmodelled
        end
      else if (h =? "send")%string then
        (* (send variable :set-v form) on a variable that holds an instance of a settable flavor *)
        match args with
        | [Sym vn; Sym msg; f] =>
            match resolve vn, strip_prefix ":set-" msg with
            | Some name, Some k =>
                match alookup (s_vars s) name with
                | Some (mkV (Some (Inst fl slots)) d false) =>
                    match alookup (s_vars s) fl with
                    | Some (mkV (Some (Flv _ _ _ _ true _)) _ _) =>
                        bind (eval (env_of s) f) (fun v =>
                          match slot_set slots k v with
                          | Some slots' => Ok (set_var s name (mkV (Some (Inst fl slots')) d false))
                          | None => Err EType
                          end)
                    | _ => unmodelled
                    end
                | _ => unmodelled
                end
            | _, _ => unmodelled
            end
        | _ => unmodelled
        end
      else if (h =? "defun")%string then def_function false s args
      else if (h =? "defmacro")%string then def_function true s args
      else unmodelled
  | _ => unmodelled
  end.

(* a history, strictly: the first failing form stops it *)
Fixpoint run (s : session) (forms : list obj) : res session :=
  match forms with
  | [] => Ok s
  | f :: r => bind (exec s f) (fun s' => run s' r)
  end.

(* the loader used by the harness: every form on its own, failures recorded and skipped *)
Fixpoint load_forms (s : session) (forms : list obj) : session * list bool :=
  match forms with
  | [] => (s, [])
  | f :: r =>
      match exec s f with
      | Ok s' => let '(s'', oks) := load_forms s' r in (s'', true :: oks)
      | Err _ => let '(s'', oks) := load_forms s r in (s'', false :: oks)
      end
  end.
Definition load (forms : list obj) : session := fst (load_forms empty_session forms).

(* ---- the snapshot writer ---------------------------------------------------------------------------- *)

(* snapshot.go isLiteral (repo_fixes/C19-14): what may stand inside a quote *)
Fixpoint is_literal (v : obj) : bool :=
  match v with
  | Nil | T | Fix _ | Big _ | Atom _ _ | Str _ | Sym _ => true
  | L xs => forallb is_literal xs
  | Dot xs tl => forallb is_literal xs && is_literal tl
  | Vec xs _ _ _ => forallb is_literal xs
  | _ => false
  end.

(* snapshot.go ppValue and what pp.buildNode makes of the value (the code with repo_fixes/C19-11 and C19-14): a symbol
   that is not a keyword is quoted; a non-empty list of literals is quoted, any other proper list is built with (list
   ...) from its elements written by ppValue again, any other dotted list is written as its load form; a hash table and
   a lambda are written as their load forms; everything else is written as it is.
   snapshot.go ppInstance: a flavor instance is written as (let ((inst (make-instance 'f))) (setf (slot-value inst 'v)
   VALUE) ... inst) with every instance variable (sorted by name), every VALUE through ppValue again; a flavor is
   written (find-flavor "name") *)
Fixpoint pp_value (v : obj) : res obj :=
  match v with
  | L xs =>
      if forallb is_literal xs then Ok (quote v)
      else bind ((fix go (l : list obj) : res (list obj) :=
                    match l with
                    | [] => Ok []
                    | a :: r => bind (pp_value a) (fun b => bind (go r) (fun bs => Ok (b :: bs)))
                    end) xs)
                (fun fs => Ok (L (Sym "list" :: fs)))
  | Dot _ _ => if is_literal v then Ok (quote v) else load_form v
  | Sym s => if is_keyword s then Ok v else Ok (quote v)
  | Hash _ | Lam _ _ _ => load_form v
  | Inst f slots =>
      bind ((fix go (l : list (string * obj)) : res (list obj) :=
               match l with
               | [] => Ok []
               | (k, w) :: r =>
                   bind (pp_value w) (fun fw => bind (go r) (fun fs => Ok (setf_slot k fw :: fs)))
               end) slots)
           (fun setfs => Ok (inst_let f setfs))
  | Flv n _ _ _ _ _ => Ok (L [Sym "find-flavor"; Str n])
  | Opaque _ => Err ENotReadable
  | _ => Ok v
  end.

(* flavor.go Flavor.LoadForm for a flavor without components: (defflavor name (v (w default) ...) () options...);
   the options are written only when the flavor has instance variables, in the order inittable, gettable, settable,
   documentation; a default value is written as the form LoadFormOf gives for it (repo_fixes/C19-19) *)
Definition flavor_form (n : string) (ivars : list (string * obj)) (init get set : bool) (doc : string) : obj :=
  L ([Sym "defflavor"; Sym n;
      mkL (map (fun kv => match snd kv with
                          | Nil => Sym (fst kv)
                          | d => match elem_form d with Ok f => L [Sym (fst kv); f] | Err _ => L [Sym (fst kv); d] end
                          end) ivars); Nil]
     ++ (if init && negb (match ivars with [] => true | _ => false end) then [Sym ":inittable-instance-variables"] else [])
     ++ (if get && negb (match ivars with [] => true | _ => false end) then [Sym ":gettable-instance-variables"] else [])
     ++ (if set && negb (match ivars with [] => true | _ => false end) then [Sym ":settable-instance-variables"] else [])
     ++ (if (doc =? "")%string then [] else [L [Sym ":documentation"; Str doc]])).
Definition flavor_forms (kv : string * vrec) : list obj :=
  match kv with
  | (_, mkV (Some (Flv n ivars i g st d)) _ false) => [flavor_form n ivars i g st d]
  | _ => []
  end.

(* the value of a constant is written by ppValue like that of a variable (repo_fixes/C19-12) *)
Definition const_forms (kv : string * vrec) : list obj :=
  match kv with
  | (n, mkV (Some v) d true) =>
      match pp_value v with
      | Ok f => [L ([Sym "defconstant"; Sym (qual n); f] ++ (if (d =? "")%string then [] else [Str d]))]
      | Err _ => []
      end
  | _ => []
  end.
Definition var_forms (kv : string * vrec) : list obj :=
  match kv with
  | (n, mkV ov d false) =>
      L ([Sym "defvar"; Sym (qual n)] ++ (if (d =? "")%string then [] else [Nil; Str d]))
      :: match ov with
         | Some v => match pp_value v with
                     | Ok f => [L [Sym "setq"; Sym (qual n); f]]
                     | Err _ => []              (* appendSetq recovers and writes nothing *)
                     end
         | None => []              (* declared without a value: the defvar is all there is (repo_fixes/C19-13) *)
         end
  | _ => []
  end.
Definition fun_form (kv : string * frec) : obj :=
  match kv with
  | (n, mkF macro ll d body) =>
      L ([Sym (if macro then "defmacro" else "defun"); Sym n; mkL ll] ++ (if (d =? "")%string then [] else [Str d]) ++ body)
  end.

(* pkg/gi/snapshot.go AppendSnapshot: flavors (by name; components first, which the flavors of the model do
   not have: repo_fixes/C19-20), constants (after the flavors since repo_fixes/C19-33: the value of a constant can be an
   instance), variables, then the macros and after them the functions (repo_fixes/C19-16) *)
Definition is_macro (kv : string * frec) : bool := f_macro (snd kv).
Definition funs_order (l : list (string * frec)) : list (string * frec) :=
  filter is_macro l ++ filter (fun kv => negb (is_macro kv)) l.
Definition snapshot (s : session) : list obj :=
  flat_map flavor_forms (sort_by (s_vars s)) ++ flat_map const_forms (sort_by (s_vars s))
  ++ flat_map var_forms (sort_by (s_vars s)) ++ map fun_form (funs_order (sort_by (s_funs s))).

(* the session rebuilt from its snapshot, and the snapshot of that *)
Definition reload_session (s : session) : session := load (snapshot s).
Definition canon (s : session) : session := mkS (sort_by (s_vars s)) (sort_by (s_funs s)).
