(* C19 — the lexical layer: what the pretty printer may change between margins is white space only.
   A lexer for the subset of slip's syntax the load forms and snapshots use (parentheses, quote, #( and #nA(
   openers, strings with the escapes \` \\ \n \t, every other run of constituent characters as one opaque atom),
   a renderer that puts arbitrary white space between tokens, an s-expression parser over tokens.
   Executable definitions only; the theorems are in LexProofs.v. *)
From Coq Require Import List String Ascii Bool Arith.
Import ListNotations.
Open Scope list_scope.

Definition chars := list ascii.

Inductive token :=
| LP | RP | QUOTE
| HOPEN (s : chars)       (* `#(` , `#2A(` : a run starting with '#' immediately followed by '(' ; s is the run *)
| ATOM (s : chars)        (* any other maximal run of constituent characters: numbers, symbols, #\a, ... *)
| STR (s : chars).        (* string literal, content decoded *)

Definition cn (c : ascii) : nat := nat_of_ascii c.
Definition is_ws (c : ascii) : bool := let n := cn c in (n =? 32) || (n =? 10) || (n =? 9) || (n =? 13).
Definition is_lp (c : ascii) : bool := cn c =? 40.
Definition is_rp (c : ascii) : bool := cn c =? 41.
Definition is_quote (c : ascii) : bool := cn c =? 39.
Definition is_dq (c : ascii) : bool := cn c =? 34.
Definition is_bs (c : ascii) : bool := cn c =? 92.
Definition is_semi (c : ascii) : bool := cn c =? 59.
Definition is_hash (c : ascii) : bool := cn c =? 35.
Definition constituent (c : ascii) : bool :=
  negb (is_ws c || is_lp c || is_rp c || is_quote c || is_dq c || is_semi c).

Definition ocons (t : token) (o : option (list token)) : option (list token) :=
  match o with Some l => Some (t :: l) | None => None end.

Definition starts_hash (s : chars) : bool := match s with c :: _ => is_hash c | [] => false end.

Inductive mode := MTop | MAtom (run : chars) (* reversed *) | MStr (acc : chars) (* reversed *) | MEsc (acc : chars).

Definition unescape (c : ascii) : option ascii :=
  if cn c =? 110 then Some (ascii_of_nat 10)        (* \n *)
  else if cn c =? 116 then Some (ascii_of_nat 9)     (* \t *)
  else if is_dq c || is_bs c then Some c
  else None.

(* one pass, structural on the text *)
Fixpoint lx (m : mode) (cs : chars) : option (list token) :=
  match cs with
  | [] => match m with
          | MTop => Some []
          | MAtom r => Some [ATOM (rev r)]
          | MStr _ | MEsc _ => None
          end
  | c :: rest =>
      match m with
      | MTop =>
          if is_ws c then lx MTop rest
          else if is_lp c then ocons LP (lx MTop rest)
          else if is_rp c then ocons RP (lx MTop rest)
          else if is_quote c then ocons QUOTE (lx MTop rest)
          else if is_dq c then lx (MStr []) rest
          else if is_semi c then None
          else lx (MAtom [c]) rest
      | MAtom r =>
          if is_ws c then ocons (ATOM (rev r)) (lx MTop rest)
          else if is_lp c then
            if starts_hash (rev r) then ocons (HOPEN (rev r)) (lx MTop rest)
            else ocons (ATOM (rev r)) (ocons LP (lx MTop rest))
          else if is_rp c then ocons (ATOM (rev r)) (ocons RP (lx MTop rest))
          else if is_quote c then ocons (ATOM (rev r)) (ocons QUOTE (lx MTop rest))
          else if is_dq c then ocons (ATOM (rev r)) (lx (MStr []) rest)
          else if is_semi c then None
          else lx (MAtom (c :: r)) rest
      | MStr acc =>
          if is_dq c then ocons (STR (rev acc)) (lx MTop rest)
          else if is_bs c then lx (MEsc acc) rest
          else lx (MStr (c :: acc)) rest
      | MEsc acc =>
          match unescape c with
          | Some d => lx (MStr (d :: acc)) rest
          | None => None
          end
      end
  end.

Definition lex (text : chars) : option (list token) := lx MTop text.
Definition lex_string (s : string) : option (list token) := lex (list_ascii_of_string s).

(* ---- rendering --------------------------------------------------------------------------------- *)

Definition escape_char (c : ascii) : chars :=
  if cn c =? 10 then [ascii_of_nat 92; ascii_of_nat 110]
  else if cn c =? 9 then [ascii_of_nat 92; ascii_of_nat 116]
  else if is_dq c || is_bs c then [ascii_of_nat 92; c]
  else [c].
Definition escape (s : chars) : chars := flat_map escape_char s.

Definition tok_text (t : token) : chars :=
  match t with
  | LP => [ascii_of_nat 40]
  | RP => [ascii_of_nat 41]
  | QUOTE => [ascii_of_nat 39]
  | HOPEN s => s ++ [ascii_of_nat 40]
  | ATOM s => s
  | STR s => ascii_of_nat 34 :: escape s ++ [ascii_of_nat 34]
  end.

(* a well-formed token: atoms are non-empty runs of constituents; an opener run starts with '#' *)
Definition tok_wf (t : token) : bool :=
  match t with
  | ATOM s => negb (match s with [] => true | _ => false end) && forallb constituent s
  | HOPEN s => starts_hash s && forallb constituent s
  | _ => true
  end.

(* must white space stand between token a and the token b that follows it? *)
Definition need_sep (a b : token) : bool :=
  match a, b with
  | ATOM s, ATOM _ | ATOM s, HOPEN _ => true
  | ATOM s, LP => starts_hash s        (* `#\a(` would be taken for an opener *)
  | _, _ => false
  end.

Definition all_ws (s : chars) : bool := forallb is_ws s.

(* the text: sep0 t1 sep1 t2 ... tn sepn ; a missing separator counts as empty *)
Definition is_nil {A} (l : list A) : bool := match l with [] => true | _ => false end.
Fixpoint render (seps : list chars) (toks : list token) : chars :=
  match toks with
  | [] => hd [] seps
  | t :: ts => hd [] seps ++ tok_text t ++ render (tl seps) ts
  end.

(* the separators are white space, and non-empty where two tokens would otherwise fuse *)
Fixpoint seps_ok (seps : list chars) (toks : list token) : bool :=
  all_ws (hd [] seps) &&
  match toks with
  | [] => true
  | t :: ts =>
      match ts with
      | t' :: _ => negb (need_sep t t') || negb (is_nil (hd [] (tl seps)))
      | [] => true
      end && seps_ok (tl seps) ts
  end.

(* ---- s-expressions over tokens ------------------------------------------------------------------ *)

Inductive sx :=
| SAtom (s : chars)
| SStr (s : chars)
| SList (l : list sx)
| SQuote (x : sx)
| SHash (opener : chars) (l : list sx).    (* #(...)  #2A(...) *)

Fixpoint sx_tokens (x : sx) : list token :=
  match x with
  | SAtom s => [ATOM s]
  | SStr s => [STR s]
  | SList l => LP :: (fix go (l : list sx) := match l with [] => [] | a :: r => sx_tokens a ++ go r end) l ++ [RP]
  | SQuote y => QUOTE :: sx_tokens y
  | SHash o l => HOPEN o :: (fix go (l : list sx) := match l with [] => [] | a :: r => sx_tokens a ++ go r end) l ++ [RP]
  end.
Fixpoint sxs_tokens (l : list sx) : list token := match l with [] => [] | a :: r => sx_tokens a ++ sxs_tokens r end.

(* recursive descent with fuel (the number of tokens is always enough) *)
Fixpoint parse_one (fuel : nat) (ts : list token) : option (sx * list token) :=
  match fuel with
  | O => None
  | S f =>
      match ts with
      | [] => None
      | ATOM s :: r => Some (SAtom s, r)
      | STR s :: r => Some (SStr s, r)
      | QUOTE :: r => match parse_one f r with Some (x, r') => Some (SQuote x, r') | None => None end
      | LP :: r => match parse_seq f r with Some (l, r') => Some (SList l, r') | None => None end
      | HOPEN o :: r => match parse_seq f r with Some (l, r') => Some (SHash o l, r') | None => None end
      | RP :: _ => None
      end
  end
with parse_seq (fuel : nat) (ts : list token) : option (list sx * list token) :=
  match fuel with
  | O => None
  | S f =>
      match ts with
      | RP :: r => Some ([], r)
      | _ => match parse_one f ts with
             | Some (x, r) => match parse_seq f r with Some (l, r') => Some (x :: l, r') | None => None end
             | None => None
             end
      end
  end.

Definition parse (ts : list token) : option sx :=
  match parse_one (S (List.length ts)) ts with
  | Some (x, []) => Some x
  | _ => None
  end.

(* the model reader: text -> s-expression *)
Definition mread (text : chars) : option sx := match lex text with Some ts => parse ts | None => None end.

(* the checker used per run: two renderings have the same lexemes *)
Fixpoint chars_eqb (a b : chars) : bool :=
  match a, b with
  | [], [] => true
  | x :: a', y :: b' => Ascii.eqb x y && chars_eqb a' b'
  | _, _ => false
  end.
Definition token_eqb (a b : token) : bool :=
  match a, b with
  | LP, LP | RP, RP | QUOTE, QUOTE => true
  | HOPEN x, HOPEN y | ATOM x, ATOM y | STR x, STR y => chars_eqb x y
  | _, _ => false
  end.
Fixpoint tokens_eqb (a b : list token) : bool :=
  match a, b with
  | [], [] => true
  | x :: a', y :: b' => token_eqb x y && tokens_eqb a' b'
  | _, _ => false
  end.
Definition same_lexemes (a b : chars) : bool :=
  match lex a, lex b with
  | Some ta, Some tb => tokens_eqb ta tb
  | _, _ => false
  end.

(* ---- comparing a pretty-printed text with the plain printer's text ---------------------------------
   The plain printer writes (quote x) and nil where the pretty printer writes 'x and () : both readings are
   normalised before they are compared. *)
Definition quote_chars : chars := list_ascii_of_string "quote".
Definition nil_chars : chars := list_ascii_of_string "nil".
(* the plain printer writes |&rest| where the pretty printer writes &rest : bars around a whole atom are dropped *)
Definition strip_bars (s : chars) : chars :=
  match s with
  | c :: r => if Nat.eqb (cn c) 124 then
                match rev r with
                | d :: m => if Nat.eqb (cn d) 124 then rev m else s
                | [] => s
                end
              else s
  | [] => s
  end.
Fixpoint norm_sx (x : sx) : sx :=
  match x with
  | SAtom s => SAtom (strip_bars s)
  | SStr s => SStr s
  | SQuote y => SQuote (norm_sx y)
  | SList l =>
      match l with
      | [] => SAtom nil_chars
      | [SAtom q; y] => if chars_eqb q quote_chars then SQuote (norm_sx y) else SList [SAtom (strip_bars q); norm_sx y]
      | _ => SList ((fix go (l : list sx) := match l with [] => [] | a :: r => norm_sx a :: go r end) l)
      end
  | SHash o l => SHash o ((fix go (l : list sx) := match l with [] => [] | a :: r => norm_sx a :: go r end) l)
  end.

Fixpoint sx_eqb (a b : sx) : bool :=
  let fix all2 (l1 l2 : list sx) : bool :=
      match l1, l2 with
      | [], [] => true
      | x :: r1, y :: r2 => sx_eqb x y && all2 r1 r2
      | _, _ => false
      end in
  match a, b with
  | SAtom x, SAtom y | SStr x, SStr y => chars_eqb x y
  | SQuote x, SQuote y => sx_eqb x y
  | SList x, SList y => all2 x y
  | SHash o1 x, SHash o2 y => chars_eqb o1 o2 && all2 x y
  | _, _ => false
  end.

Definition same_reading (a b : chars) : bool :=
  match mread a, mread b with
  | Some x, Some y => sx_eqb (norm_sx x) (norm_sx y)
  | _, _ => false
  end.

