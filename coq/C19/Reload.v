(* C19 — two more mechanisms of a snapshot brought into the model (round 5).

   (A) The direct superclasses in the defclass form of a class (pkg/clos/standard-class.go StandardClass.LoadForm, used by
       the classes section of a snapshot): they are written in the order given to defclass.  That order determines the
       precedence of the class (StandardClass.mergeSupers: the direct superclasses first, in order, then what each of
       them inherits, each class once), hence which inherited slot initform wins.  M: class_forms (the forms of the
       classes section) and inherit_list (mergeSupers).  S: the hierarchy read back from the written forms gives every
       class the precedence it had.

   (B) The functions section of a snapshot (pkg/gi/snapshot.go appendSnapshotFunctions): for every package that has user
       functions a line (in-package "P") and then the definitions; at the end a line that goes back to the package that
       was current when the snapshot was taken.  M: fun_section and the loader load_section.  S: every function is
       defined again in the package it belonged to, and the current package is the one of the snapshot. *)
From Coq Require Import List String Bool Arith Lia.
From C19 Require Import Model Session Classes.
Import ListNotations.
Open Scope string_scope.
Open Scope list_scope.

(* ---- (A) superclass order ------------------------------------------------------------------------------------- *)

Definition supers_of (h : hier) (c : string) : list string :=
  match alookup h c with Some s => s | None => [] end.

(* the defclass forms of the classes section, as (name, direct superclasses): classes in the order of class_order, the
   superclasses of each as they were given *)
Definition class_forms (h : hier) : hier := map (fun c => (c, supers_of h c)) (class_order h).

(* append the elements of l that are not yet in acc (c.Inherits(x) || append) *)
Definition add_new (acc l : list string) : list string :=
  fold_left (fun a x => if mem x a then a else a ++ [x]) l acc.

(* StandardClass.mergeSupers: c.inherit = the direct superclasses in the order given, then for each of them (in that
   order) the classes on its own inherit list that are not there yet; a superclass that is not a user class contributes
   itself only.  fuel = number of classes. *)
Fixpoint inherit_list (fuel : nat) (h : hier) (c : string) : list string :=
  match fuel with
  | O => []
  | S f => let direct := add_new [] (supers_of h c) in
           fold_left (fun acc d => add_new acc (inherit_list f h d)) direct direct
  end.
Definition precedence (h : hier) (c : string) : list string := c :: inherit_list (List.length h) h c.

(* the variant that sorts the direct superclasses by name (insertion sort with Go's string order, Session.sort_by) *)
Definition sorted_supers (l : list string) : list string := map fst (sort_by (map (fun s => (s, tt)) l)).
Definition class_forms_sorted (h : hier) : hier := map (fun c => (c, sorted_supers (supers_of h c))) (class_order h).

Fixpoint strs_eqb (a b : list string) : bool :=
  match a, b with
  | [], [] => true
  | x :: a', y :: b' => (x =? y)%string && strs_eqb a' b'
  | _, _ => false
  end.
Fixpoint hier_eqb (a b : hier) : bool :=
  match a, b with
  | [], [] => true
  | (x, xs) :: a', (y, ys) :: b' => (x =? y)%string && strs_eqb xs ys && hier_eqb a' b'
  | _, _ => false
  end.
(* S, decidable: the written forms give every class of the session the precedence it had *)
Definition precedence_kept (h written : hier) : bool :=
  forallb (fun kv => strs_eqb (inherit_list (List.length h) h (fst kv))
                              (inherit_list (List.length h) written (fst kv))) h.

(* ---- (B) the functions section --------------------------------------------------------------------------------- *)

(* packages in the order of AllPackages with the names of their user functions (macros first, then by name) *)
Definition pfuns := list (string * list string).
Inductive fline := InPkg (p : string) | Def (f : string).

Definition pkg_block (pf : string * list string) : list fline :=
  match snd pf with [] => [] | fs => InPkg (fst pf) :: map Def fs end.
Definition fun_section (cur : string) (ps : pfuns) : list fline := flat_map pkg_block ps ++ [InPkg cur].

(* the loader: (current package, the functions defined so far as (package, name)) *)
Definition load_line (st : string * list (string * string)) (l : fline) : string * list (string * string) :=
  match l with
  | InPkg p => (p, snd st)
  | Def f => (fst st, snd st ++ [(fst st, f)])
  end.
Definition load_section (start : string) (ls : list fline) : string * list (string * string) :=
  fold_left load_line ls (start, []).
Definition defs_of (ps : pfuns) : list (string * string) :=
  flat_map (fun pf => map (fun f => (fst pf, f)) (snd pf)) ps.

(* the variant that writes no switch for the package that is current while the snapshot is taken *)
Definition pkg_block_skip (cur : string) (pf : string * list string) : list fline :=
  match snd pf with [] => [] | fs => (if (fst pf =? cur)%string then [] else [InPkg (fst pf)]) ++ map Def fs end.
Definition fun_section_skip (cur : string) (ps : pfuns) : list fline := flat_map (pkg_block_skip cur) ps ++ [InPkg cur].

Definition fline_eqb (a b : fline) : bool :=
  match a, b with
  | InPkg p, InPkg q => (p =? q)%string
  | Def f, Def g => (f =? g)%string
  | _, _ => false
  end.
Fixpoint flines_eqb (a b : list fline) : bool :=
  match a, b with
  | [], [] => true
  | x :: a', y :: b' => fline_eqb x y && flines_eqb a' b'
  | _, _ => false
  end.
Fixpoint defs_eqb (a b : list (string * string)) : bool :=
  match a, b with
  | [], [] => true
  | (p, f) :: a', (q, g) :: b' => (p =? q)%string && (f =? g)%string && defs_eqb a' b'
  | _, _ => false
  end.
(* S, decidable, for observed lines: loaded from any start package they define every function in its package and end in
   the package of the snapshot *)
Definition section_restores (start cur : string) (ps : pfuns) (ls : list fline) : bool :=
  let st := load_section start ls in (fst st =? cur)%string && defs_eqb (snd st) (defs_of ps).
