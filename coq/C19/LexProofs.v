(* C19 — proofs about the lexical layer: white space between tokens is irrelevant, printing then parsing
   an s-expression gives it back, the per-run checker `same_lexemes` is sound. *)
From Coq Require Import List String Ascii Bool Arith Lia.
From C19 Require Import Lex.
Import ListNotations.
Open Scope list_scope.

(* ---- small facts about character classes ---- *)
Lemma constituent_classes : forall c, constituent c = true ->
  is_ws c = false /\ is_lp c = false /\ is_rp c = false /\ is_quote c = false /\ is_dq c = false /\ is_semi c = false.
Proof.
  intros c H. unfold constituent in H. apply negb_true_iff in H.
  do 5 (apply orb_false_iff in H; destruct H as [H ?]). repeat split; assumption.
Qed.

Lemma lx_skip_ws : forall s r, all_ws s = true -> lx MTop (s ++ r) = lx MTop r.
Proof.
  induction s as [|c s IH]; intros r H; cbn [app]; [reflexivity|].
  cbn [all_ws forallb] in H. apply andb_true_iff in H. destruct H as [Hc Hs].
  cbn [lx]. rewrite Hc. apply IH. exact Hs.
Qed.

(* an atom run is consumed character by character *)
Lemma lx_atom_run : forall s r0 rest, forallb constituent s = true ->
  lx (MAtom r0) (s ++ rest) = lx (MAtom (rev s ++ r0)) rest.
Proof.
  induction s as [|c s IH]; intros r0 rest H; cbn [app rev]; [reflexivity|].
  cbn [forallb] in H. apply andb_true_iff in H. destruct H as [Hc Hs].
  destruct (constituent_classes c Hc) as (h1 & h2 & h3 & h4 & h5 & h6).
  cbn [lx]. rewrite h1, h2, h3, h4, h5, h6.
  rewrite (IH (c :: r0) rest Hs). rewrite <- app_assoc. reflexivity.
Qed.

(* what may follow an atom without a separator *)
Definition head_ok (t : token) (rest : chars) : Prop :=
  match t with
  | ATOM s => match rest with
              | [] => True
              | c :: _ => constituent c = false /\ (is_lp c = true -> starts_hash s = false)
              end
  | _ => True
  end.

Lemma lx_atom_end : forall r rest,
  match rest with
  | [] => True
  | c :: _ => constituent c = false /\ (is_lp c = true -> starts_hash (rev r) = false)
  end ->
  lx (MAtom r) rest = ocons (ATOM (rev r)) (lx MTop rest).
Proof.
  intros r rest H. destruct rest as [|c rest]; [reflexivity|].
  destruct H as [Hc Hlp]. cbn [lx].
  destruct (is_ws c) eqn:Ews; [reflexivity|].
  destruct (is_lp c) eqn:Elp.
  { rewrite (Hlp eq_refl). reflexivity. }
  destruct (is_rp c) eqn:Erp; [reflexivity|].
  destruct (is_quote c) eqn:Eq; [reflexivity|].
  destruct (is_dq c) eqn:Edq; [reflexivity|].
  destruct (is_semi c) eqn:Esemi; [reflexivity|].
  exfalso. unfold constituent in Hc. rewrite Ews, Elp, Erp, Eq, Edq, Esemi in Hc. discriminate.
Qed.

Lemma lx_string_body : forall s acc rest,
  lx (MStr acc) (escape s ++ ascii_of_nat 34 :: rest) = ocons (STR (rev acc ++ s)) (lx MTop rest).
Proof.
  induction s as [|c s IH]; intros acc rest.
  - cbn [escape flat_map app lx]. change (is_dq (ascii_of_nat 34)) with true. cbn iota. rewrite app_nil_r. reflexivity.
  - unfold escape. cbn [flat_map]. fold (escape s). rewrite <- app_assoc.
    assert (Hfin : rev (c :: acc) ++ s = rev acc ++ c :: s) by (cbn [rev]; rewrite <- app_assoc; reflexivity).
    unfold escape_char.
    destruct (cn c =? 10) eqn:E10.
    { apply Nat.eqb_eq in E10. unfold cn in E10.
      assert (c = ascii_of_nat 10) by (rewrite <- E10; symmetry; apply ascii_nat_embedding). subst c.
      cbn [app lx]. change (is_dq (ascii_of_nat 92)) with false. change (is_bs (ascii_of_nat 92)) with true. cbn iota.
      change (unescape (ascii_of_nat 110)) with (Some (ascii_of_nat 10)). cbn iota.
      rewrite IH. rewrite Hfin. reflexivity. }
    destruct (cn c =? 9) eqn:E9.
    { apply Nat.eqb_eq in E9. unfold cn in E9.
      assert (c = ascii_of_nat 9) by (rewrite <- E9; symmetry; apply ascii_nat_embedding). subst c.
      cbn [app lx]. change (is_dq (ascii_of_nat 92)) with false. change (is_bs (ascii_of_nat 92)) with true. cbn iota.
      change (unescape (ascii_of_nat 116)) with (Some (ascii_of_nat 9)). cbn iota.
      rewrite IH. rewrite Hfin. reflexivity. }
    destruct (is_dq c || is_bs c) eqn:Eq.
    { cbn [app lx]. change (is_dq (ascii_of_nat 92)) with false. change (is_bs (ascii_of_nat 92)) with true. cbn iota.
      assert (Hu : unescape c = Some c).
      { unfold unescape. unfold is_dq, is_bs in Eq.
        destruct (cn c =? 110) eqn:E110.
        { apply Nat.eqb_eq in E110. rewrite E110 in Eq. discriminate. }
        destruct (cn c =? 116) eqn:E116.
        { apply Nat.eqb_eq in E116. rewrite E116 in Eq. discriminate. }
        unfold is_dq, is_bs. rewrite Eq. reflexivity. }
      rewrite Hu. rewrite IH. rewrite Hfin. reflexivity. }
    apply orb_false_iff in Eq. destruct Eq as [Edq Ebs].
    cbn [app lx]. rewrite Edq, Ebs. rewrite IH. rewrite Hfin. reflexivity.
Qed.

(* one token is lexed, then the lexer is back at top level *)
Lemma lx_token : forall t rest, tok_wf t = true -> head_ok t rest ->
  lx MTop (tok_text t ++ rest) = ocons t (lx MTop rest).
Proof.
  intros t rest Hwf Hh. destruct t as [| | |s|s|s]; cbn [tok_text app].
  - reflexivity.
  - reflexivity.
  - reflexivity.
  - (* HOPEN *)
    cbn [tok_wf] in Hwf. apply andb_true_iff in Hwf. destruct Hwf as [Hh1 Hc].
    destruct s as [|c s]; [discriminate|].
    cbn [forallb] in Hc. apply andb_true_iff in Hc. destruct Hc as [Hc Hs].
    destruct (constituent_classes c Hc) as (h1 & h2 & h3 & h4 & h5 & h6).
    cbn [app lx]. rewrite h1, h2, h3, h4, h5, h6.
    rewrite <- app_assoc. rewrite (lx_atom_run s [c] _ Hs). cbn [app lx].
    change (is_ws (ascii_of_nat 40)) with false. change (is_lp (ascii_of_nat 40)) with true. cbn iota.
    assert (Hr : rev (rev s ++ [c]) = c :: s) by (rewrite rev_app_distr, rev_involutive; reflexivity).
    rewrite Hr. cbn [starts_hash] in Hh1 |- *. rewrite Hh1. reflexivity.
  - (* ATOM *)
    cbn [tok_wf] in Hwf. apply andb_true_iff in Hwf. destruct Hwf as [Hne Hc].
    destruct s as [|c s]; [discriminate|].
    cbn [forallb] in Hc. apply andb_true_iff in Hc. destruct Hc as [Hc Hs].
    destruct (constituent_classes c Hc) as (h1 & h2 & h3 & h4 & h5 & h6).
    cbn [app lx]. rewrite h1, h2, h3, h4, h5, h6.
    rewrite (lx_atom_run s [c] _ Hs).
    assert (Hr : rev (rev s ++ [c]) = c :: s) by (rewrite rev_app_distr, rev_involutive; reflexivity).
    rewrite lx_atom_end.
    + rewrite Hr. reflexivity.
    + rewrite Hr. exact Hh.
  - (* STR *)
    cbn [lx]. change (is_ws (ascii_of_nat 34)) with false. change (is_lp (ascii_of_nat 34)) with false.
    change (is_rp (ascii_of_nat 34)) with false. change (is_quote (ascii_of_nat 34)) with false.
    change (is_dq (ascii_of_nat 34)) with true. cbn iota.
    rewrite <- app_assoc. cbn [app]. rewrite lx_string_body. reflexivity.
Qed.

(* the first character of a token's text *)
Lemma tok_text_head : forall t, tok_wf t = true -> exists c r, tok_text t = c :: r /\
  match t with
  | ATOM _ | HOPEN _ => constituent c = true
  | LP => is_lp c = true /\ constituent c = false
  | _ => constituent c = false /\ is_lp c = false
  end.
Proof.
  intros t H. destruct t as [| | |s|s|s]; cbn [tok_text].
  - eexists _, _. split; [reflexivity|]. split; reflexivity.
  - eexists _, _. split; [reflexivity|]. split; reflexivity.
  - eexists _, _. split; [reflexivity|]. split; reflexivity.
  - cbn [tok_wf] in H. apply andb_true_iff in H. destruct H as [H1 H2]. destruct s as [|c s]; [discriminate|].
    cbn [forallb] in H2. apply andb_true_iff in H2. exists c, (s ++ [ascii_of_nat 40]). split; [reflexivity|tauto].
  - cbn [tok_wf] in H. apply andb_true_iff in H. destruct H as [H1 H2]. destruct s as [|c s]; [discriminate|].
    cbn [forallb] in H2. apply andb_true_iff in H2. exists c, s. split; [reflexivity|tauto].
  - eexists _, _. split; [reflexivity|]. split; reflexivity.
Qed.

Lemma ws_not_constituent : forall c, is_ws c = true -> constituent c = false /\ is_lp c = false.
Proof.
  intros c H. unfold constituent. rewrite H. split; [reflexivity|].
  unfold is_ws, is_lp in *. destruct (cn c =? 40) eqn:E; [|reflexivity].
  apply Nat.eqb_eq in E. rewrite E in H. discriminate.
Qed.

Lemma render_head_ok : forall t ts seps, forallb tok_wf (t :: ts) = true -> seps_ok seps (t :: ts) = true ->
  head_ok t (render (tl seps) ts).
Proof.
  intros t ts seps Hwf Hs. destruct t as [| | |s|s|s]; cbn [head_ok]; try exact I.
  cbn [seps_ok] in Hs. apply andb_true_iff in Hs. destruct Hs as [_ Hs]. apply andb_true_iff in Hs. destruct Hs as [Hn Hrest].
  cbn [forallb] in Hwf. apply andb_true_iff in Hwf. destruct Hwf as [_ Hwfs].
  destruct ts as [|t' ts'].
  - cbn [render]. cbn [seps_ok] in Hrest. rewrite andb_true_r in Hrest.
    destruct (hd [] (tl seps)) as [|c r] eqn:E; [exact I|].
    cbn [all_ws forallb] in Hrest. apply andb_true_iff in Hrest. destruct Hrest as [Hc _].
    destruct (ws_not_constituent c Hc) as [h1 h2]. split; [exact h1|]. intro Hl. rewrite h2 in Hl. discriminate.
  - cbn [render].
    cbn [seps_ok] in Hrest. apply andb_true_iff in Hrest. destruct Hrest as [Hws _].
    destruct (hd [] (tl seps)) as [|c r] eqn:E.
    + (* no separator: the next token must be one that does not fuse *)
      cbn [app]. cbn [is_nil negb] in Hn. rewrite orb_false_r in Hn. apply negb_true_iff in Hn.
      cbn [forallb] in Hwfs. apply andb_true_iff in Hwfs. destruct Hwfs as [Hwf' _].
      destruct (tok_text_head t' Hwf') as (c & r & Etext & Hcls). rewrite Etext. cbn [app].
      destruct t' as [| | |s'|s'|s']; cbn [need_sep] in Hn; try discriminate.
      * destruct Hcls as [Hlp Hc]. split; [exact Hc|]. intros _. exact Hn.
      * destruct Hcls as [Hc Hlp]. split; [exact Hc|]. intro Hl. rewrite Hlp in Hl. discriminate.
      * destruct Hcls as [Hc Hlp]. split; [exact Hc|]. intro Hl. rewrite Hlp in Hl. discriminate.
      * destruct Hcls as [Hc Hlp]. split; [exact Hc|]. intro Hl. rewrite Hlp in Hl. discriminate.
    + cbn [app]. cbn [all_ws forallb] in Hws. apply andb_true_iff in Hws. destruct Hws as [Hc _].
      destruct (ws_not_constituent c Hc) as [h1 h2]. split; [exact h1|]. intro Hl. rewrite h2 in Hl. discriminate.
Qed.

(* T1: whatever white space a layout puts between the tokens, the lexer returns the tokens *)
Theorem lex_render : forall toks seps, forallb tok_wf toks = true -> seps_ok seps toks = true ->
  lex (render seps toks) = Some toks.
Proof.
  unfold lex. induction toks as [|t ts IH]; intros seps Hwf Hs.
  - cbn [render]. cbn [seps_ok] in Hs. rewrite andb_true_r in Hs.
    rewrite <- (app_nil_r (hd [] seps)). rewrite lx_skip_ws by exact Hs. reflexivity.
  - pose proof (render_head_ok t ts seps Hwf Hs) as Hh.
    cbn [render].
    pose proof Hs as Hs'. cbn [seps_ok] in Hs'. apply andb_true_iff in Hs'. destruct Hs' as [Hws Hs'].
    apply andb_true_iff in Hs'. destruct Hs' as [_ Hrest].
    pose proof Hwf as Hwf'. cbn [forallb] in Hwf'. apply andb_true_iff in Hwf'. destruct Hwf' as [Hwt Hwts].
    rewrite lx_skip_ws by exact Hws.
    rewrite lx_token by assumption.
    rewrite (IH (tl seps) Hwts Hrest). reflexivity.
Qed.

(* ---- parsing ---- *)

Section SxInd.
  Variable P : sx -> Prop.
  Hypothesis Hatom : forall s, P (SAtom s).
  Hypothesis Hstr : forall s, P (SStr s).
  Hypothesis Hlist : forall l, Forall P l -> P (SList l).
  Hypothesis Hquote : forall x, P x -> P (SQuote x).
  Hypothesis Hhash : forall o l, Forall P l -> P (SHash o l).
  Fixpoint sx_ind2 (x : sx) : P x :=
    match x with
    | SAtom s => Hatom s
    | SStr s => Hstr s
    | SList l => Hlist l ((fix go (l : list sx) : Forall P l :=
                             match l with [] => Forall_nil P | a :: r => Forall_cons a (sx_ind2 a) (go r) end) l)
    | SQuote y => Hquote y (sx_ind2 y)
    | SHash o l => Hhash o l ((fix go (l : list sx) : Forall P l :=
                             match l with [] => Forall_nil P | a :: r => Forall_cons a (sx_ind2 a) (go r) end) l)
    end.
End SxInd.

Lemma sx_tokens_list : forall l, sx_tokens (SList l) = LP :: sxs_tokens l ++ [RP].
Proof.
  intro l. cbn [sx_tokens]. f_equal.
Qed.
Lemma sx_tokens_hash : forall o l, sx_tokens (SHash o l) = HOPEN o :: sxs_tokens l ++ [RP].
Proof.
  intros o l. cbn [sx_tokens]. f_equal.
Qed.

(* fuel that suffices *)
Fixpoint need (x : sx) : nat :=
  match x with
  | SAtom _ | SStr _ => 1
  | SQuote y => S (need y)
  | SList l => S ((fix go (l : list sx) : nat := match l with [] => 1 | a :: r => S (Nat.max (need a) (go r)) end) l)
  | SHash _ l => S ((fix go (l : list sx) : nat := match l with [] => 1 | a :: r => S (Nat.max (need a) (go r)) end) l)
  end.
Fixpoint need_seq (l : list sx) : nat := match l with [] => 1 | a :: r => S (Nat.max (need a) (need_seq r)) end.
Lemma need_list : forall l, need (SList l) = S (need_seq l).
Proof. intro l. cbn [need]. f_equal. Qed.
Lemma need_hash : forall o l, need (SHash o l) = S (need_seq l).
Proof. intros o l. cbn [need]. f_equal. Qed.

(* the first token of an s-expression is never a closing parenthesis *)
Lemma sx_tokens_first : forall x, exists t r, sx_tokens x = t :: r /\ t <> RP.
Proof.
  destruct x; [| |rewrite sx_tokens_list| |rewrite sx_tokens_hash]; cbn [sx_tokens];
    eexists _, _; (split; [reflexivity|discriminate]).
Qed.

Lemma parse_seq_spec : forall l, Forall (fun x => forall f rest, need x <= f -> parse_one f (sx_tokens x ++ rest) = Some (x, rest)) l ->
  forall f rest, need_seq l <= f -> parse_seq f (sxs_tokens l ++ RP :: rest) = Some (l, rest).
Proof.
  induction l as [|a r IH]; intros HF f rest Hf.
  - cbn [need_seq] in Hf. destruct f as [|f]; [lia|]. reflexivity.
  - inversion HF as [|? ? Ha Hr]; subst.
    cbn [need_seq] in Hf. destruct f as [|f]; [lia|].
    cbn [sxs_tokens]. rewrite <- app_assoc.
    destruct (sx_tokens_first a) as (t & tr & Et & Hne).
    cbn [parse_seq]. rewrite Et. cbn [app].
    assert (Hgo : match parse_one f ((t :: tr) ++ sxs_tokens r ++ RP :: rest) with
                  | Some (x, r0) => match parse_seq f r0 with Some (l, r') => Some (x :: l, r') | None => None end
                  | None => None
                  end = Some (a :: r, rest)).
    { rewrite <- Et. rewrite (Ha f _) by lia. rewrite (IH Hr f rest) by lia. reflexivity. }
    destruct t; try exact Hgo. contradiction.
Qed.

Lemma parse_one_spec : forall x f rest, need x <= f -> parse_one f (sx_tokens x ++ rest) = Some (x, rest).
Proof.
  induction x using sx_ind2; intros f rest Hf.
  - cbn [need] in Hf. destruct f; [lia|]. reflexivity.
  - cbn [need] in Hf. destruct f; [lia|]. reflexivity.
  - rewrite need_list in Hf. destruct f as [|f]; [lia|].
    rewrite sx_tokens_list. cbn [app parse_one]. rewrite <- app_assoc. cbn [app].
    rewrite (parse_seq_spec l H f rest) by lia. reflexivity.
  - cbn [need] in Hf. destruct f as [|f]; [lia|].
    cbn [sx_tokens app parse_one]. rewrite IHx by lia. reflexivity.
  - rewrite need_hash in Hf. destruct f as [|f]; [lia|].
    rewrite sx_tokens_hash. cbn [app parse_one]. rewrite <- app_assoc. cbn [app].
    rewrite (parse_seq_spec l H f rest) by lia. reflexivity.
Qed.

Lemma tokens_nonempty : forall x, 1 <= List.length (sx_tokens x).
Proof. intro x. destruct (sx_tokens_first x) as (t & r & E & _). rewrite E. cbn [List.length]. lia. Qed.

Lemma need_seq_le : forall l, Forall (fun x : sx => need x <= List.length (sx_tokens x)) l ->
  need_seq l <= List.length (sxs_tokens l) + 1.
Proof.
  induction l as [|a r IH]; intro H; [cbn; lia|].
  pose proof (Forall_inv H) as Ha. pose proof (Forall_inv_tail H) as Hr. cbn beta in Ha.
  cbn [need_seq sxs_tokens]. rewrite app_length. specialize (IH Hr). pose proof (tokens_nonempty a). lia.
Qed.

Lemma need_le_tokens : forall x, need x <= List.length (sx_tokens x).
Proof.
  induction x using sx_ind2.
  - cbn [need sx_tokens List.length]. lia.
  - cbn [need sx_tokens List.length]. lia.
  - rewrite need_list, sx_tokens_list. cbn [List.length]. rewrite app_length. cbn [List.length].
    pose proof (need_seq_le l H). lia.
  - cbn [need sx_tokens List.length]. lia.
  - rewrite need_hash, sx_tokens_hash. cbn [List.length]. rewrite app_length. cbn [List.length].
    pose proof (need_seq_le l H). lia.
Qed.

(* T2: parsing the tokens of an s-expression gives the s-expression *)
Theorem parse_print : forall x, parse (sx_tokens x) = Some x.
Proof.
  intro x. unfold parse. rewrite <- (app_nil_r (sx_tokens x)) at 2.
  rewrite parse_one_spec; [reflexivity|]. pose proof (need_le_tokens x). lia.
Qed.

(* well-formed atoms inside an s-expression *)
Fixpoint sx_wf (x : sx) : bool :=
  match x with
  | SAtom s => tok_wf (ATOM s)
  | SStr _ => true
  | SList l => forallb sx_wf l
  | SQuote y => sx_wf y
  | SHash o l => tok_wf (HOPEN o) && forallb sx_wf l
  end.

Lemma sxs_wf_tokens : forall l, Forall (fun x => sx_wf x = true -> forallb tok_wf (sx_tokens x) = true) l ->
  forallb sx_wf l = true -> forallb tok_wf (sxs_tokens l) = true.
Proof.
  induction l as [|a r IH]; intros H Hw; [reflexivity|].
  pose proof (Forall_inv H) as Ha. pose proof (Forall_inv_tail H) as Hr. cbn beta in Ha.
  cbn [forallb] in Hw. apply andb_true_iff in Hw. destruct Hw as [Hwa Hwr].
  cbn [sxs_tokens]. rewrite forallb_app. rewrite (Ha Hwa). cbn [andb]. apply IH; assumption.
Qed.

Lemma sx_wf_tokens : forall x, sx_wf x = true -> forallb tok_wf (sx_tokens x) = true.
Proof.
  induction x using sx_ind2; intro Hw.
  - cbn [sx_tokens forallb]. cbn [sx_wf] in Hw. rewrite Hw. reflexivity.
  - reflexivity.
  - rewrite sx_tokens_list. cbn [forallb tok_wf]. rewrite forallb_app. cbn [forallb tok_wf]. rewrite andb_true_r.
    cbn [sx_wf] in Hw. apply sxs_wf_tokens; assumption.
  - cbn [sx_tokens forallb tok_wf]. cbn [sx_wf] in Hw. apply IHx. exact Hw.
  - rewrite sx_tokens_hash. cbn [sx_wf] in Hw. apply andb_true_iff in Hw. destruct Hw as [Ho Hw].
    cbn [forallb]. rewrite Ho. cbn [andb]. rewrite forallb_app. cbn [forallb tok_wf]. rewrite andb_true_r.
    apply sxs_wf_tokens; assumption.
Qed.

(* T1 + T2: any layout of an s-expression reads back to it *)
Theorem mread_render : forall x seps, sx_wf x = true -> seps_ok seps (sx_tokens x) = true ->
  mread (render seps (sx_tokens x)) = Some x.
Proof.
  intros x seps Hw Hs. unfold mread. rewrite lex_render; [apply parse_print| apply sx_wf_tokens; exact Hw | exact Hs].
Qed.

(* ---- the checker ---- *)
Lemma chars_eqb_eq : forall a b, chars_eqb a b = true -> a = b.
Proof.
  induction a as [|x a IH]; destruct b as [|y b]; cbn [chars_eqb]; intro H; try discriminate; [reflexivity|].
  apply andb_true_iff in H. destruct H as [H1 H2]. apply Ascii.eqb_eq in H1. subst. f_equal. apply IH. exact H2.
Qed.
Lemma token_eqb_eq : forall a b, token_eqb a b = true -> a = b.
Proof.
  destruct a, b; cbn [token_eqb]; intro H; try discriminate; try reflexivity; f_equal; apply chars_eqb_eq; exact H.
Qed.
Lemma tokens_eqb_eq : forall a b, tokens_eqb a b = true -> a = b.
Proof.
  induction a as [|x a IH]; destruct b as [|y b]; cbn [tokens_eqb]; intro H; try discriminate; [reflexivity|].
  apply andb_true_iff in H. destruct H as [H1 H2]. apply token_eqb_eq in H1. subst. f_equal. apply IH. exact H2.
Qed.

(* T3: two texts the checker accepts have the same lexemes, hence read to the same thing *)
Theorem same_lexemes_sound : forall a b, same_lexemes a b = true -> lex a = lex b /\ mread a = mread b /\ lex a <> None.
Proof.
  intros a b H. unfold same_lexemes in H. unfold mread.
  destruct (lex a) as [ta|] eqn:Ea; [|discriminate]. destruct (lex b) as [tb|] eqn:Eb; [|discriminate].
  apply tokens_eqb_eq in H. subst. repeat split; discriminate.
Qed.

(* a text whose lexemes are those of an s-expression reads to it *)
Theorem lexemes_read : forall text x, lex text = Some (sx_tokens x) -> mread text = Some x.
Proof. intros text x H. unfold mread. rewrite H. apply parse_print. Qed.

(* non-vacuity: a layout with line breaks and indentation *)
Definition la (s : string) : chars := list_ascii_of_string s.
Definition ex_sx : sx := SList [SAtom (la "list"); SQuote (SList [SAtom (la "a"); SStr (la "x y")]); SHash (la "#") [SAtom (la "1")]].
Definition ex_seps : list chars := [[]; []; la (String (ascii_of_nat 10) "  "); []; []; la " "; []; la "  "; []; []; []; []].
Lemma ex_layout : seps_ok ex_seps (sx_tokens ex_sx) = true /\ sx_wf ex_sx = true
  /\ render ex_seps (sx_tokens ex_sx) = la ("(list" ++ String (ascii_of_nat 10) "  '(a ""x y"")  #(1))").
Proof. repeat split; reflexivity. Qed.

(* the second checker: a pretty-printed text against the plain printer's text *)
Lemma sx_eqb_eq : forall a b, sx_eqb a b = true -> a = b.
Proof.
  induction a using sx_ind2; destruct b; cbn [sx_eqb]; intro Hb; try discriminate.
  - f_equal. apply chars_eqb_eq. exact Hb.
  - f_equal. apply chars_eqb_eq. exact Hb.
  - f_equal. revert l0 Hb. induction l as [|x r IH]; destruct l0 as [|y r0]; intro Hb; try discriminate; [reflexivity|].
    apply andb_true_iff in Hb. destruct Hb as [H1 H2].
    pose proof (Forall_inv H) as Hx. pose proof (Forall_inv_tail H) as Hr. f_equal; [apply Hx; exact H1|apply IH; assumption].
  - f_equal. apply IHa. exact Hb.
  - apply andb_true_iff in Hb. destruct Hb as [Ho Hb]. apply chars_eqb_eq in Ho. subst. f_equal.
    revert l0 Hb. induction l as [|x r IH]; destruct l0 as [|y r0]; intro Hb; try discriminate; [reflexivity|].
    apply andb_true_iff in Hb. destruct Hb as [H1 H2].
    pose proof (Forall_inv H) as Hx. pose proof (Forall_inv_tail H) as Hr. f_equal; [apply Hx; exact H1|apply IH; assumption].
Qed.

Theorem same_reading_sound : forall a b, same_reading a b = true ->
  exists x y, mread a = Some x /\ mread b = Some y /\ norm_sx x = norm_sx y.
Proof.
  intros a b H. unfold same_reading in H.
  destruct (mread a) as [x|]; [|discriminate]. destruct (mread b) as [y|]; [|discriminate].
  exists x, y. repeat split. apply sx_eqb_eq. exact H.
Qed.
