(* C19 — correspondence: what the harness observed on the implementation against the model and the specification *)
From Coq Require Import List String ZArith Bool Ascii NArith.
From C19 Require Import Model Spec Lex.
Import ListNotations.
Open Scope string_scope.
Open Scope list_scope.

Inductive fobs := FNone | FErr (cls : string) | FOk (f : obj).
Inductive robs := RNone | RErr (cls : string) | ROk (v : obj).
Inductive tobs := TErr (cls : string) | TText (text : string) (readeq evalsame : bool).

Inductive case :=
| DCase (v : obj) (form : fobs) (r : robs) (equal : bool) (texts : list (N * tobs)).

Definition is_unmodelled {A} (r : res A) : bool := match r with Err EUnmodelled => true | _ => false end.

(* The texts: the first one (margin 0) is the plain printer's one-line rendering of the form; every pretty-printed
   rendering at a margin 20..120 must read to the same s-expression as it (verified checker,
   LexProofs.same_reading_sound: both texts lex and parse, and the readings agree up to 'x = (quote x), () = nil)
   and must evaluate to the same object.
   pp_guard: pp/quote.go:42 Quote.setLeft does not move its child, so a quoted list keeps the column it had in the
   unbroken layout; when that column is 255 or more, breaking the list slices the 257-byte indent string out of
   range [C19-pp-quote-indent]. The column in the unbroken layout is at most the column in the plain one-line text. *)
Definition wide_text (texts : list (N * tobs)) : option string :=
  match texts with (_, TText w _ _) :: _ => Some w | _ => None end.
Definition texts_ok (texts : list (N * tobs)) : bool :=
  match wide_text texts with
  | None => false
  | Some w =>
      let lw := list_ascii_of_string w in
      forallb (fun mt => match snd mt with
                         | TText t _ es => es && same_reading lw (list_ascii_of_string t)
                         | TErr _ => false
                         end) texts
  end.
Definition pp_guard (texts : list (N * tobs)) : bool :=
  match wide_text texts with Some w => negb (far_quote_text (list_ascii_of_string w)) | None => true end.

(* does the OBSERVED behaviour meet S for this value? *)
Definition obs_meets_spec (v : obj) (r : robs) (equal : bool) (texts : list (N * tobs)) : bool :=
  match r with
  | ROk y => obj_eqb v y && (equal || has_lambda v) && (texts_ok texts || negb (pp_guard texts))
  | _ => false
  end.

(* does the model agree with what was observed? (errors are compared as errors, not by class) *)
Definition model_agrees (v : obj) (form : fobs) (r : robs) : bool :=
  match load_form v, form with
  | Err _, FErr _ => true
  | Ok f, FOk fo =>
      obj_eqb f fo &&
      match eval global_env f, r with
      | Ok x, ROk y => obj_eqb x y
      | Err EUnmodelled, _ => true
      | Err _, RErr _ => true
      | _, _ => false
      end
  | _, _ => false
  end.

Definition check_case (c : case) : N :=
  match c with
  | DCase v FNone _ _ _ => 0%N      (* nil offers no LoadForm method *)
  | DCase v form r equal texts =>
      let g := loadable v in
      if model_agrees v form r then
        if g then
          match reload v with
          | Ok x => if obj_eqb x v then (if obs_meets_spec v r equal texts then 0 else 2)%N else 3%N
          | Err _ => 3%N
          end
        else 0%N
      else if g && negb (obs_meets_spec v r equal texts) then 2%N else 1%N
  end.

Fixpoint check_all_from (i : N) (cs : list case) : list (N * N) :=
  match cs with
  | [] => []
  | c :: cs' => let r := check_case c in (if N.eqb r 0 then [] else [(i, r)]) ++ check_all_from (N.succ i) cs'
  end.
Definition check_all := check_all_from 0%N.

Definition far_quote_count (cs : list case) : N :=
  N.of_nat (List.length (filter (fun c => match c with DCase _ _ _ _ texts => negb (pp_guard texts) end) cs)).
Definition guarded (c : case) : bool := match c with DCase v FNone _ _ _ => false | DCase v _ _ _ _ => loadable v end.
Definition guard_count (cs : list case) : N := N.of_nat (List.length (filter guarded cs)).
Definition unmodelled_count (cs : list case) : N :=
  N.of_nat (List.length (filter (fun c => match c with DCase v _ _ _ _ =>
     match load_form v with Ok f => is_unmodelled (eval global_env f) | _ => false end end) cs)).
