(* C19 — correspondence: what the harness observed on the implementation against the model and the specification *)
From Coq Require Import List String ZArith Bool Ascii NArith.
From C19 Require Import Model Spec Lex Session SessionSpec Classes Reload.
Import ListNotations.
Open Scope string_scope.
Open Scope list_scope.

Inductive fobs := FNone | FErr (cls : string) | FOk (f : obj).
Inductive robs := RNone | RErr (cls : string) | ROk (v : obj).
Inductive tobs := TErr (cls : string) | TText (text : string) (readeq evalsame : bool).

Inductive case :=
| DCase (v : obj) (form : fobs) (r : robs) (equal : bool) (texts : list (N * tobs))
(* a session: the history of definition forms; whether it uses text-level features outside the model (backquote,
   function quote, doc strings the printer mangles); the user forms of the first
   snapshot; whether each of them loaded in the fresh process; the user forms of the second snapshot; whether the
   user part of the two snapshot TEXTS is identical; whether every probe gave the same result in both processes *)
| SCase (hist : list obj) (wildtext : bool) (snapfail : bool)   (* snapfail: (snapshot nil) itself failed *)
        (snap1 : list obj) (loadok : list bool) (snap2 : list obj)
        (textsame probesame : bool)
(* the classes section of a snapshot: the hierarchy of the session (class -> direct superclasses, in definition order)
   and the names of the defclass forms of the snapshot in the order they are written *)
| CCase (h : hier) (written : list string)
(* the defclass forms of the classes section: the hierarchy of the session and the (name, direct superclasses) of the
   written forms, superclasses in the order written (model: Reload.class_forms; S: every class keeps its precedence) *)
| KCase (h : hier) (written : hier)
(* the functions section: the package that is current while the snapshot is taken, the packages (AllPackages order) with
   the names of their functions, the in-package / definition lines of the snapshot (model: Reload.fun_section; S: loaded
   from the package the variables section restores, every function lands in its package) *)
| FCase (cur : string) (ps : pfuns) (lines : list fline).

Definition is_unmodelled {A} (r : res A) : bool := match r with Err EUnmodelled => true | _ => false end.

(* The texts: the first one (margin 0) is the plain printer's one-line rendering of the form; every pretty-printed
   rendering at a margin 20..120 must read to the same s-expression as it (verified checker,
   LexProofs.same_reading_sound: both texts lex and parse, and the readings agree up to 'x = (quote x), () = nil)
   and must evaluate to the same object. (The former pp_guard -- no quoted list, (:method ...) or (defmethod ...) at
   column 250 or beyond -- is gone with repo_fixes/C19-28 and C19-29.) *)
Definition wide_text (texts : list (N * tobs)) : option string :=
  match texts with (_, TText w _ _) :: _ => Some w | _ => None end.
Definition texts_ok (texts : list (N * tobs)) : bool :=
  match wide_text texts with
  | None => false
  | Some w =>
      let lw := list_ascii_of_string w in
      forallb (fun mt => match snd mt with
                         | TText t _ es => es && same_reading lw (list_ascii_of_string t)
                         | TErr _ => false
                         end) texts
  end.
(* where the pretty printer is known to change the text (code_ok: documentation strings) a failure is excused, but
   every rendering it does produce must still read and evaluate like the plain one *)
Definition texts_ok_lenient (texts : list (N * tobs)) : bool :=
  match wide_text texts with
  | None => true
  | Some w =>
      let lw := list_ascii_of_string w in
      forallb (fun mt => match snd mt with
                         | TText t _ es => es && same_reading lw (list_ascii_of_string t)
                         | TErr _ => true
                         end) texts
  end.
(* Code the pretty printer cannot be trusted with, wherever it is nested (the clauses about nested defvar / defflavor
   forms and about argument-less forms are gone with repo_fixes/C19-30 and C19-31): *)
(* - a string in a documentation position of nested code is written by pp's Doc node (printer.go AppendDoc): it is
     re-flowed at the margin, loses every '_' and is not escaped [C19-doc-string-mangled]; only a single plain word
     survives every margin.  Documentation positions (over-approximated): any string argument of lambda, defun,
     defmacro, defmethod, defwhopper, (:method ...), defvar, defparameter, defconstant and (:documentation ...). *)
Definition doc_heads : list string :=
  ["lambda"; "defun"; "defmacro"; "defmethod"; "defwhopper"; ":method"; "defvar"; "defparameter"; "defconstant"; ":documentation"].
Fixpoint no_space (s : string) : bool :=
  match s with EmptyString => true | String c r => negb (Nat.eqb (nat_of_ascii c) 32) && no_space r end.
Definition doc_word_ok (s : string) : bool := doc_chars_ok s && no_space s.
Definition str_args_ok (args : list obj) : bool :=
  forallb (fun a => match a with Str s => doc_word_ok s | _ => true end) args.
Fixpoint code_ok (top : bool) (f : obj) : bool :=
  match f with
  | L (Sym h :: args) =>
      if (h =? "quote")%string then true else
      (negb (existsb (String.eqb h) doc_heads) || str_args_ok args)
      && (fix go (l : list obj) : bool := match l with [] => true | a :: r => code_ok false a && go r end) args
  | L xs => (fix go (l : list obj) : bool := match l with [] => true | a :: r => code_ok false a && go r end) xs
  | Lam ll doc body =>
      (top || doc_word_ok doc)
      && (fix go (l : list obj) : bool := match l with [] => true | a :: r => code_ok false a && go r end) ll
      && (fix go (l : list obj) : bool := match l with [] => true | a :: r => code_ok false a && go r end) body
  | Dot xs _ | Vec xs _ _ _ | Arr _ xs _ _ =>
      (fix go (l : list obj) : bool := match l with [] => true | a :: r => code_ok false a && go r end) xs
  | Hash kvs => (fix go (l : list (obj * obj)) : bool := match l with [] => true | (_, w) :: r => code_ok false w && go r end) kvs
  | _ => true
  end.

(* does the OBSERVED behaviour meet S for this value? *)
Definition obs_meets_spec (v : obj) (r : robs) (equal : bool) (texts : list (N * tobs)) : bool :=
  match r with
  | ROk y => obj_eqb v y && (equal || has_lambda v)
             && (if code_ok true v then texts_ok texts else texts_ok_lenient texts)
  | _ => false
  end.

(* does the model agree with what was observed? (errors are compared as errors, not by class) *)
Definition model_agrees (v : obj) (form : fobs) (r : robs) : bool :=
  match load_form v, form with
  | Err _, FErr _ => true
  | Ok f, FOk fo =>
      obj_eqb f fo &&
      match eval global_env f, r with
      | Ok x, ROk y => obj_eqb x y
      | Err EUnmodelled, _ => true
      | Err _, RErr _ => true
      | _, _ => false
      end
  | _, _ => false
  end.

Fixpoint bools_eqb (a b : list bool) : bool :=
  match a, b with
  | [], [] => true
  | x :: a', y :: b' => Bool.eqb x y && bools_eqb a' b'
  | _, _ => false
  end.
(* does loading these forms meet a form the model's evaluator does not cover? *)
Fixpoint load_unmodelled (s : session) (forms : list obj) : bool :=
  match forms with
  | [] => false
  | f :: r => match exec s f with
              | Ok s' => load_unmodelled s' r
              | Err EUnmodelled => true
              | Err _ => load_unmodelled s r
              end
  end.
(* documentation strings the pretty printer leaves alone (printer.go AppendCodeDoc: double quotes and backslashes are
   escaped since repo_fixes/C19-17; an underscore is still dropped and a long text still re-flowed
   [C19-doc-string-mangled]), short enough for margin 120 *)
Definition doc_char_ok' (c : ascii) : bool :=
  let n := nat_of_ascii c in ((32 <=? n) && (n <? 127) && negb (n =? 95))%nat.
Fixpoint doc_chars_ok' (s : string) : bool :=
  match s with EmptyString => true | String c r => doc_char_ok' c && doc_chars_ok' r end.
Definition doc_text_ok (d : string) : bool := doc_chars_ok' d && (String.length d <=? 100)%nat.
Definition docs_ok (s : session) : bool :=
  forallb (fun kv => doc_text_ok (v_doc (snd kv))
                     && match v_val (snd kv) with Some (Flv _ _ _ _ _ d) => doc_text_ok d | _ => true end) (s_vars s) && forallb (fun kv => doc_text_ok (f_doc (snd kv))) (s_funs s).

Definition check_session (hist : list obj) (wildtext snapfail : bool) (snap1 : list obj) (loadok : list bool) (snap2 : list obj)
                         (textsame probesame : bool) : N :=
  if wildtext then 0%N else
  match run empty_session hist with
  | Err EUnmodelled => 0%N
  | Err _ => 1%N                       (* the implementation accepted every form of the history *)
  | Ok s =>
      let ms1 := snapshot s in
      let '(s2, oks) := load_forms empty_session ms1 in
      let ms2 := snapshot s2 in
      if load_unmodelled empty_session ms1 then 0%N else
      let agree := objs_eqb ms1 snap1 && bools_eqb oks loadok && objs_eqb ms2 snap2 in
      let g := sess_ok_x s && docs_ok s && forallb (fun kv => forallb (code_ok false) (f_ll (snd kv) ++ f_body (snd kv))) (s_funs s) in
      let obs_ok := forallb (fun b => b) loadok && objs_eqb snap2 snap1 && textsame && probesame in
      if snapfail then (if g then 2 else 0)%N else    (* a crash of the snapshot writer is not something the model predicts *)
      if agree then
        if g then (if meets_spec s then (if obs_ok then 0 else 2) else 3)%N else 0%N
      else if g && negb obs_ok then 2%N else 1%N
  end.

Definition check_case (c : case) : N :=
  match c with
  | SCase hist wildtext snapfail snap1 loadok snap2 textsame probesame =>
      check_session hist wildtext snapfail snap1 loadok snap2 textsame probesame
  | CCase h written =>
      (* model = implementation: self-check of the model against S; otherwise a failing input when the written order
         puts a class before one it inherits from, writes a class twice or leaves one out *)
      if (fix eqs (a b : list string) : bool :=
            match a, b with
            | [], [] => true
            | x :: a', y :: b' => (x =? y)%string && eqs a' b'
            | _, _ => false
            end) (class_order h) written
      then (if order_ok h (class_order h) then 0 else 3)%N
      else (if order_ok h written then 1 else 2)%N
  | KCase h written =>
      if negb (order_ok h (class_order h)) then 0%N else     (* outside C19_class_order_ok (a cycle): CCase reports it *)
      if hier_eqb (class_forms h) written
      then (if precedence_kept h (class_forms h) then 0 else 3)%N
      else (if precedence_kept h written then 1 else 2)%N
  | FCase cur ps lines =>
      (* the variables section has set *package* to cur before the functions section is loaded *)
      if flines_eqb (fun_section cur ps) lines
      then (if section_restores cur cur ps lines then 0 else 3)%N
      else (if section_restores cur cur ps lines then 1 else 2)%N
  | DCase v FNone _ _ _ => 0%N      (* nil offers no LoadForm method *)
  | DCase v form r equal texts =>
      let g := loadable v && no_inst v in
      if model_agrees v form r then
        if g then
          match reload v with
          | Ok x => if obj_eqb x v then (if obs_meets_spec v r equal texts then 0 else 2)%N else 3%N
          | Err _ => 3%N
          end
        else 0%N
      else if g && negb (obs_meets_spec v r equal texts) then 2%N else 1%N
  end.

Fixpoint check_all_from (i : N) (cs : list case) : list (N * N) :=
  match cs with
  | [] => []
  | c :: cs' => let r := check_case c in (if N.eqb r 0 then [] else [(i, r)]) ++ check_all_from (N.succ i) cs'
  end.
Definition check_all := check_all_from 0%N.

Definition guarded (c : case) : bool :=
  match c with
  | CCase _ _ => true
  | KCase h _ => order_ok h (class_order h)
  | FCase _ _ _ => true
  | DCase v FNone _ _ _ => false
  | DCase v _ _ _ _ => loadable v && no_inst v
  | SCase hist wildtext _ _ _ _ _ _ =>
      negb wildtext && match run empty_session hist with
                       | Ok s => sess_ok_x s && docs_ok s && forallb (fun kv => forallb (code_ok false) (f_ll (snd kv) ++ f_body (snd kv))) (s_funs s)
                       | Err _ => false
                       end
  end.
Definition session_count (cs : list case) : N :=
  N.of_nat (List.length (filter (fun c => match c with SCase _ _ _ _ _ _ _ _ => true | _ => false end) cs)).
Definition session_skipped (cs : list case) : N :=
  N.of_nat (List.length (filter (fun c => match c with
     | SCase hist wildtext _ _ _ _ _ _ =>
         wildtext || match run empty_session hist with
                     | Err EUnmodelled => true
                     | Ok s => load_unmodelled empty_session (snapshot s)
                     | _ => false
                     end
     | _ => false end) cs)).
(* class hierarchies of the run that have the depth as a rank: the ones theorem C19_class_order_ok speaks about *)
Definition class_ranked_count (cs : list case) : N :=
  N.of_nat (List.length (filter (fun c => match c with CCase h _ => acyclic_by (depth_rank h) h | _ => false end) cs)).
Definition class_case_count (cs : list case) : N :=
  N.of_nat (List.length (filter (fun c => match c with CCase _ _ => true | _ => false end) cs)).
Definition guard_count (cs : list case) : N := N.of_nat (List.length (filter guarded cs)).
Definition unmodelled_count (cs : list case) : N :=
  N.of_nat (List.length (filter (fun c => match c with DCase v _ _ _ _ =>
     match load_form v with Ok f => is_unmodelled (eval global_env f) | _ => false end | _ => false end) cs)).
