(* C19 — property theorems only. *)
From Coq Require Import List String ZArith.
From C19 Require Import Model Spec Proofs.
Import ListNotations.

Theorem C19_reload_example : reload (L [Fix 1; Str "s"; Dot [Fix 2] (Fix 3)]) = Ok (L [Fix 1; Str "s"; Dot [Fix 2] (Fix 3)]).
Proof. exact reload_example. Qed.
Print Assumptions C19_reload_example.
