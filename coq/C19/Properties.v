(* C19 — property theorems only. *)
From Coq Require Import List String ZArith Bool Ascii.
From C19 Require Import Model Spec Lex LexProofs Proofs Session SessionSpec SessionProofs Classes ClassesProofs ClassOrder ProofsFlavorSession.
Import ListNotations.

(* (1) LOAD FORMS.  For EVERY value of the modelled universe inside the guard -- numbers, strings, characters, symbols,
   proper and dotted lists, vectors (empty or not, adjustable or not, with or without a fill pointer), arrays (zero
   dimensions included), hash tables (keys and values of every kind, values nested), lambdas, flavor instances (whose
   instance variables hold any such value), nested without bound -- evaluating its load form rebuilds exactly the value
   (structural equality, which is finer than slip's Equal: it also sees the adjustable flag and the fill pointer;
   lambdas are compared as code trees because Lambda.Equal is pointer identity), in every environment that has the
   constants of the language and knows the flavors of the instances inside the value. *)
Theorem C19_load_form_evaluates_back : forall v, loadable v = true -> forall e, env_ok e -> insts_in e v = true ->
  bind (load_form v) (eval e) = Ok v.
Proof. exact load_form_reloads. Qed.
Print Assumptions C19_load_form_evaluates_back.
(* ... in particular a value without instances, in the global environment *)
Theorem C19_load_form_reloads : forall v, loadable v = true -> no_inst v = true -> reload v = Ok v.
Proof. exact reload_loadable. Qed.
Print Assumptions C19_load_form_reloads.

(* the guard is not vacuous: one value nesting every kind; an instance nesting lists, a symbol, a table, instances *)
Theorem C19_load_form_guard_nonvacuous : loadable ex_rich = true /\ no_inst ex_rich = true /\ reload ex_rich = Ok ex_rich.
Proof. exact ex_rich_loadable. Qed.
Print Assumptions C19_load_form_guard_nonvacuous.
Theorem C19_instance_load_form_nonvacuous : loadable ex_inst_value = true /\ insts_in ex_env ex_inst_value = true
  /\ bind (load_form ex_inst_value) (eval ex_env) = Ok ex_inst_value.
Proof. exact ex_inst_value_ok. Qed.
Print Assumptions C19_instance_load_form_nonvacuous.

(* (2) MARGINS.  The pretty printer may only change white space.  Whatever white space (line breaks, indentation)
   a layout puts between the tokens of a form -- non-empty where two tokens would fuse -- the text lexes to the same
   tokens ... *)
Theorem C19_layout_does_not_change_tokens : forall toks seps,
  forallb tok_wf toks = true -> seps_ok seps toks = true -> lex (render seps toks) = Some toks.
Proof. exact lex_render. Qed.
Print Assumptions C19_layout_does_not_change_tokens.

(* ... and reads back (model reader = lexer + parser, atoms opaque) to the s-expression that was printed. *)
Theorem C19_any_layout_reads_back : forall x seps,
  sx_wf x = true -> seps_ok seps (sx_tokens x) = true -> mread (render seps (sx_tokens x)) = Some x.
Proof. exact mread_render. Qed.
Print Assumptions C19_any_layout_reads_back.

(* the checkers run on every pretty-printed text are sound: accepted texts lex, parse and read to the same
   s-expression (same_reading: up to 'x = (quote x), () = nil, |&rest| = &rest, the differences between slip's two
   printers) *)
Theorem C19_same_lexemes_sound : forall a b, same_lexemes a b = true -> lex a = lex b /\ mread a = mread b /\ lex a <> None.
Proof. exact same_lexemes_sound. Qed.
Print Assumptions C19_same_lexemes_sound.
Theorem C19_same_reading_sound : forall a b, same_reading a b = true ->
  exists x y, mread a = Some x /\ mread b = Some y /\ norm_sx x = norm_sx y.
Proof. exact same_reading_sound. Qed.
Print Assumptions C19_same_reading_sound.

(* (3) SNAPSHOTS.  For EVERY history of definition forms (defvar, defparameter, setq, defconstant, defun, defmacro, in
   any order, with redefinitions) that the interpreter accepts and whose resulting session is inside the guard
   (variables and constants holding symbols, lists, tables, lambdas, ...; variables without a value; functions that
   call functions and use macros of any name): every form of the snapshot loads into an empty session, the loaded
   session has the same variables (value, documentation, constness) and the same functions and macros (lambda list,
   documentation, body), and its snapshot is the same list of forms (the fixed point). *)
Theorem C19_snapshot_roundtrip : forall hist s, run empty_session hist = Ok s -> sess_ok s = true ->
  canon (reload_session s) = canon s /\ snapshot (reload_session s) = snapshot s
  /\ forallb (fun b => b) (snd (load_forms empty_session (snapshot s))) = true.
Proof. exact history_roundtrip. Qed.
Print Assumptions C19_snapshot_roundtrip.

(* an invariant of every history, guarded or not: no name is defined twice in a session *)
Theorem C19_history_keys_unique : forall forms s s', keys_nodup s -> run s forms = Ok s' -> keys_nodup s'.
Proof. exact run_keys_nodup. Qed.
Print Assumptions C19_history_keys_unique.

(* the session guard is not vacuous: a history with redefinitions, setq, values of every kind (a symbol, a table with
   several entries and list values, a list holding a lambda), a list constant, a variable without a value, functions
   that call later-named ones, a macro used by an earlier-named function; the macro is written first *)
Theorem C19_snapshot_guard_nonvacuous : exists s, run empty_session ex_history = Ok s /\ sess_ok s = true
  /\ List.length (s_vars s) = 9 /\ List.length (s_funs s) = 4 /\ List.length (snapshot s) = 19
  /\ alookup (s_vars s) "*va*" = Some (mkV (Some (Fix 5)) "my x" false)
  /\ map (fun f => match f with L (_ :: Sym n :: _) => n | _ => "" end) (skipn 15 (snapshot s)) = ["ma"; "fa"; "fb"; "zz"].
Proof. exact ex_history_ok. Qed.
Print Assumptions C19_snapshot_guard_nonvacuous.

(* (3b) The lambda list of a lambda is written as it is: a default value is a FORM (stored unevaluated, evaluated when
   the argument is missing) and stays that form, it is not replaced by its load form. Together with (1) and (3), whose
   guards accept any non-nil form as a default, this covers functions, macros and lambdas with computed defaults. *)
Theorem C19_lambda_list_verbatim : forall ll doc body,
  exists rest, load_form (Lam ll doc body) = Ok (L (Sym "lambda" :: mkL ll :: rest)) /\ elems_of (mkL ll) = Some ll.
Proof. exact lambda_list_verbatim. Qed.
Print Assumptions C19_lambda_list_verbatim.

(* (3c) VALUES in a snapshot. What the snapshot writes for a value -- a quoted symbol, a quoted list of data, a (list
   ...) form for a list that holds tables or instances, the load form of a table or a lambda, the (let ((inst ...)))
   form of a flavor instance with every instance variable's value written the same way again, nested without bound --
   evaluates back to the value in every environment that has the constants of the language and knows the flavors of the
   instances. (For sessions: (3) is proved for sessions without flavors; for sessions with flavors and instances the
   model's defflavor / make-instance / send / snapshot are compared with the implementation and the decidable
   specification is evaluated on every run, self-check code 3.) *)
Theorem C19_snapshot_value_evaluates_back : forall v, snap_safe v = true -> forall e, env_ok e -> insts_in e v = true ->
  exists f, pp_value v = Ok f /\ eval e f = Ok v.
Proof. exact value_reloads. Qed.
Print Assumptions C19_snapshot_value_evaluates_back.
Theorem C19_instance_guard_nonvacuous : snap_safe ex_instance = true /\ insts_in ex_env ex_instance = true
  /\ bind (pp_value ex_instance) (eval ex_env) = Ok ex_instance.
Proof. exact ex_instance_ok. Qed.
Print Assumptions C19_instance_guard_nonvacuous.
Theorem C19_flavor_session_nonvacuous :
  let s := run_or_empty ex_flavor_history in
  sess_ok_x s = true /\ sess_ok s = false /\ meets_spec s = true /\ List.length (snapshot s) = 5.
Proof. exact ex_flavor_history_ok. Qed.
Print Assumptions C19_flavor_session_nonvacuous.

(* (3d) CLASSES in a snapshot. For EVERY acyclic hierarchy of user classes the writer of the model (name order, a visited
   set, the classes a class inherits from first; fuel = number of classes + 1) writes every user class exactly once and
   after every user class it inherits from (order_ok). Acyclic is stated by a rank function: every direct superclass
   that is a user class has a smaller rank than the class, and no rank exceeds the number of classes (the depth of a
   class is such a function for every finite acyclic hierarchy; slip's defclass accepts a superclass that is defined
   later, so "defined earlier" would be too narrow). Under this hypothesis the fuel never runs out: a nested call is
   made on a class of smaller rank. The second form takes the rank as an association list and checks it (decidable).
   The checker itself is sound for every hierarchy and every order. *)
Theorem C19_class_order_ok : forall (h : hier) (rank : string -> nat),
  (forall c sups s, In (c, sups) h -> In s sups -> In s (map fst h) -> rank s < rank c) ->
  (forall c, In c (map fst h) -> rank c <= List.length h) ->
  order_ok h (class_order h) = true.
Proof. exact class_order_ok. Qed.
Print Assumptions C19_class_order_ok.
Theorem C19_class_order_ok_decidable : forall h r, acyclic_by r h = true -> order_ok h (class_order h) = true.
Proof. exact class_order_ok_by. Qed.
Print Assumptions C19_class_order_ok_decidable.
Theorem C19_class_order_checker_sound : forall h order seen, supers_before h seen order = true ->
  forall l1 c l2, order = l1 ++ c :: l2 ->
  forall a, In a (ancestors (List.length h) h c) -> In a (map fst h) -> In a (seen ++ l1).
Proof. exact supers_before_sound. Qed.
Print Assumptions C19_class_order_checker_sound.
Theorem C19_class_order_checker_complete_set : forall h order, order_ok h order = true ->
  NoDup order /\ (forall c, In c order <-> In c (map fst h)).
Proof. exact order_ok_sound. Qed.
Print Assumptions C19_class_order_checker_complete_set.
(* non-vacuity: the 42 hierarchies of the enumerated block have the depth as a rank and are instances of the theorem; a
   diamond whose superclass is defined after the class that names it *)
Theorem C19_class_order_block : List.length block = 42 /\ forallb (fun h => acyclic_by (depth_rank h) h) block = true
  /\ forallb (fun h => order_ok h (class_order h)) block = true.
Proof. exact (conj (proj1 class_order_block) (conj block_ranked block_ok)). Qed.
Print Assumptions C19_class_order_block.

(* (3e) SUPERCLASS ORDER in a snapshot.  The defclass forms of the classes section (class_forms: the classes in the
   writer's order, the direct superclasses of each in the order given to defclass) define, for EVERY acyclic hierarchy
   (rank function as in C19_class_order_ok), a hierarchy in which every class has the inheritance list -- slip's
   precedence, StandardClass.mergeSupers: direct superclasses first, in order, then what each inherits, each class
   once -- it had in the session, for every fuel of the walk.  The decidable form is what the per-run case KCase
   evaluates on the forms slip wrote.  The example shows that the statement is about the ORDER: a writer that lists the
   direct superclasses by name gives (duck (bird animal)) the precedence duck, animal, bird; 15 of the 42 hierarchies of
   the enumerated block list their superclasses against the name order. *)
From C19 Require Import Reload ReloadProofs.
Theorem C19_class_forms_keep_precedence : forall (h : hier) (rank : string -> nat),
  (forall c sups s, In (c, sups) h -> In s sups -> In s (map fst h) -> rank s < rank c) ->
  (forall c, In c (map fst h) -> rank c <= List.length h) ->
  (forall fuel c, inherit_list fuel (class_forms h) c = inherit_list fuel h c)
  /\ precedence_kept h (class_forms h) = true.
Proof. exact class_forms_ranked. Qed.
Print Assumptions C19_class_forms_keep_precedence.
Theorem C19_superclass_order_matters :
  let h := [("c19s-animal", []); ("c19s-bird", []); ("c19s-duck", ["c19s-bird"; "c19s-animal"])] in
  order_ok h (class_order h) = true
  /\ precedence h "c19s-duck" = ["c19s-duck"; "c19s-bird"; "c19s-animal"]
  /\ precedence (class_forms h) "c19s-duck" = ["c19s-duck"; "c19s-bird"; "c19s-animal"]
  /\ precedence (class_forms_sorted h) "c19s-duck" = ["c19s-duck"; "c19s-animal"; "c19s-bird"]
  /\ precedence_kept h (class_forms_sorted h) = false.
Proof. exact sorted_supers_change_precedence. Qed.
Print Assumptions C19_superclass_order_matters.
Theorem C19_block_has_unsorted_superclasses :
  List.length (filter (fun h => negb (hier_eqb (class_forms h) (class_forms_sorted h))) block) = 15.
Proof. exact block_has_unsorted_supers. Qed.
Print Assumptions C19_block_has_unsorted_superclasses.

(* (3f) FUNCTIONS SECTION of a snapshot with packages.  For EVERY list of packages with their functions, EVERY package that
   is current while the snapshot is taken and EVERY package the loader is in when it reaches the section: loading the
   lines the writer produces (per package with functions an in-package line and the definitions; a last in-package line)
   defines every function in the package it belonged to, in order, and leaves the current package of the snapshot
   current.  The example shows that the statement needs the in-package line of the CURRENT package too: without it the
   functions of the current package land in the package of the section before. *)
Theorem C19_function_section_restores : forall start cur ps,
  load_section start (fun_section cur ps) = (cur, defs_of ps)
  /\ section_restores start cur ps (fun_section cur ps) = true.
Proof. exact fun_section_both. Qed.
Print Assumptions C19_function_section_restores.
Theorem C19_switch_to_current_package_needed :
  let ps := [("common-lisp-user", ["c19s-helper"]); ("c19s-zoo", ["c19s-twice"])] in
  snd (load_section "common-lisp-user" (fun_section "c19s-zoo" ps))
    = [("common-lisp-user", "c19s-helper"); ("c19s-zoo", "c19s-twice")]
  /\ snd (load_section "common-lisp-user" (fun_section_skip "c19s-zoo" ps))
    = [("common-lisp-user", "c19s-helper"); ("common-lisp-user", "c19s-twice")]
  /\ section_restores "common-lisp-user" "c19s-zoo" ps (fun_section_skip "c19s-zoo" ps) = false
  /\ section_restores "common-lisp-user" "common-lisp-user" ps (fun_section_skip "common-lisp-user" ps) = true.
Proof. exact switch_to_current_package_needed. Qed.
Print Assumptions C19_switch_to_current_package_needed.

(* (4) Outside the guards the faithful model violates the specification: the known finding that has a model. *)
Theorem C19_rank_zero_refuted : reload (Arr [] [Fix 7] T true) = Err EType /\ loadable (Arr [] [Fix 7] T true) = false.
Proof. exact rank_zero_refuted. Qed.
Print Assumptions C19_rank_zero_refuted.

(* (3e) The session round trip WITH FLAVORS AND INSTANCES, proved (it was only evaluated per run, self-check code 3, and
   C19_flavor_session_nonvacuous above is one evaluated instance; the theorems below subsume it for every state inside
   sess_ok_f). For EVERY session state with unique names inside the guard sess_ok_f -- any number of flavors (instance
   variables with any loadable default, blanket options, documentation), variables holding instances of these flavors
   (nested without bound, inside lists, holding lists, tables, lambdas, symbols), constants, variables without a value,
   functions and macros -- loading the snapshot the model writes into an empty session rebuilds the same session (the
   same flavors, the same instances with the same values of their variables, compared as sorted association lists),
   every form of the snapshot loads, and the snapshot of the rebuilt session is the same list of forms. Proof: the three
   sections of the snapshot in order (every defflavor form read back by defflavor, defaults through the element-form
   lemma reloads_in; constants through C19_snapshot_roundtrip's load_consts; the variables, where the variable of a flavor
   is left as it is by its defvar/setq pair and a value holding instances evaluates back by value_reloads in the
   environment that by then knows every flavor), then a permutation. sess_ok_f is sess_ok_x (C19_flavor_guard_inside)
   tightened in four places where the statement is FALSE of the model inside sess_ok_x; each has its witness in
   C19_flavor_session_refuted; and it keeps constants free of instances, which since repo_fixes/C19-33 (constants after
   the flavors; C19_constant_instance_history_restored) is a restriction of this proof only. The four: a documentation string on the variable of a flavor (defflavor
   sets none), instance variables out of name order, a blanket option on a flavor without instance variables (two
   states no defflavor builds), and a flavor OBJECT inside another value that differs from the session's flavor of
   that name. For the last one the new guard leaves out every flavor object inside another value (snap_safe instead of
   snap_safe_x), also the consistent ones: that part of sess_ok_x stays evaluated per run. *)
Theorem C19_flavor_session_roundtrip : forall s, keys_nodup s -> sess_ok_f s = true ->
  canon (reload_session s) = canon s
  /\ snapshot (reload_session s) = snapshot s
  /\ forallb (fun b => b) (snd (load_forms empty_session (snapshot s))) = true.
Proof. exact flavor_session_roundtrip. Qed.
Print Assumptions C19_flavor_session_roundtrip.
(* ... for the session built by every history of definition forms the interpreter accepts *)
Theorem C19_flavor_history_roundtrip : forall hist s, run empty_session hist = Ok s -> sess_ok_f s = true ->
  canon (reload_session s) = canon s /\ snapshot (reload_session s) = snapshot s
  /\ forallb (fun b => b) (snd (load_forms empty_session (snapshot s))) = true.
Proof. exact flavor_history_roundtrip. Qed.
Print Assumptions C19_flavor_history_roundtrip.
(* ... in the decidable form the per-run self-check evaluates: inside sess_ok_f code 3 cannot occur *)
Theorem C19_flavor_guard_meets_spec : forall s, keys_nodup s -> sess_ok_f s = true -> meets_spec s = true.
Proof. exact flavor_guard_meets_spec. Qed.
Print Assumptions C19_flavor_guard_meets_spec.
(* the new guard lies inside the guard of the per-run comparison *)
Theorem C19_flavor_guard_inside : forall s, sess_ok_f s = true -> sess_ok_x s = true.
Proof. exact sess_ok_f_x. Qed.
Print Assumptions C19_flavor_guard_inside.
(* non-vacuity: a history that defines a flavor with two instance variables, an instance changed by send that holds a
   list and a nested instance, a list holding an instance, a constant, a variable without a value, a function *)
Theorem C19_flavor_guard_nonvacuous :
  let s := run_or_empty ex_flavor_history2 in
  run empty_session ex_flavor_history2 = Ok s
  /\ sess_ok_f s = true /\ sess_ok_x s = true /\ sess_ok s = false
  /\ alookup (s_vars s) "blk" = Some (mkV (Some (Flv "blk" [("sa", Nil); ("sb", Fix 2)] true true true "a block")) "" false)
  /\ alookup (s_vars s) "*bi*" = Some (mkV (Some (Inst "blk" [("sa", L [Fix 1; Fix 2; Fix 3]);
                                                              ("sb", Inst "blk" [("sa", Fix 7); ("sb", Fix 2)])])) "an instance" false)
  /\ List.length (s_vars s) = 5 /\ List.length (snapshot s) = 10.
Proof. exact ex_flavor_history2_ok. Qed.
Print Assumptions C19_flavor_guard_nonvacuous.
(* where sess_ok_x is too wide for the statement: four states with unique names inside sess_ok_x, outside sess_ok_f,
   whose snapshot does not rebuild them (the decidable specification is false and the reloaded session differs) *)
Theorem C19_flavor_session_refuted :
  forallb (fun s => keys_nodup_b s && sess_ok_x s && negb (sess_ok_f s) && negb (meets_spec s)
                    && negb (session_eqb (canon (reload_session s)) (canon s)))
          [wit_flavor_doc; wit_unsorted; wit_empty_option; wit_stale_flavor] = true.
Proof. exact flavor_session_refuted. Qed.
Print Assumptions C19_flavor_session_refuted.
(* a constant whose value is a flavor instance (the former fifth witness, fixed finding C19-constant-holding-instance,
   repo_fixes/C19-33: the constants section is written after the flavors section): the history builds the state, the state
   is inside the per-run guard, its snapshot writes the defflavor before the defconstant, every form loads, the reloaded
   session and its snapshot are the same. The theorem C19_flavor_session_roundtrip does not cover constants holding
   instances (sess_ok_f): for them the round trip is evaluated per run (enumerated block + random sessions). *)
Theorem C19_constant_instance_history_restored :
  run empty_session
    [ L [Sym "defflavor"; Sym "blk"; L [Sym "sa"; L [Sym "sb"; Fix 2]]; Nil; Sym ":gettable-instance-variables";
         Sym ":settable-instance-variables"; Sym ":inittable-instance-variables"];
      L [Sym "defconstant"; Sym "+ci+"; L [Sym "make-instance"; quote (Sym "blk"); Sym ":sa"; Fix 1]] ] = Ok wit_const_inst
  /\ keys_nodup_b wit_const_inst = true /\ sess_ok_x wit_const_inst = true /\ meets_spec wit_const_inst = true
  /\ session_eqb (canon (reload_session wit_const_inst)) (canon wit_const_inst) = true
  /\ (match snapshot wit_const_inst with
      | L (Sym "defflavor" :: _) :: L (Sym "defconstant" :: _) :: _ => true | _ => false end) = true.
Proof. exact const_inst_history_restored. Qed.
Print Assumptions C19_constant_instance_history_restored.
