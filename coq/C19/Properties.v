(* C19 — property theorems only. *)
From Coq Require Import List String ZArith Bool Ascii.
From C19 Require Import Model Spec Lex LexProofs Proofs.
Import ListNotations.

(* (1) For EVERY value of the modelled universe inside the guard -- numbers, strings, characters, keywords, proper and
   dotted lists, vectors, arrays, hash tables, lambdas, nested without bound -- evaluating its load form rebuilds
   exactly the value (structural equality, finer than slip's Equal). *)
Theorem C19_load_form_reloads : forall v, loadable v = true -> reload v = Ok v.
Proof. exact reload_loadable. Qed.
Print Assumptions C19_load_form_reloads.
