(* C19 — model M and specification S for the classes section of a snapshot (pkg/gi/snapshot.go appendSnapshotClasses,
   repo_fixes/C19-24): the user classes are sorted by name and written by a walk that writes, before a class, the
   classes it inherits from (Class.Inherits: the transitive set), each class once.  S: every class is written after
   every class it inherits from (a defclass needs its superclasses), every class exactly once. *)
From Coq Require Import List String Bool Arith Lia.
From C19 Require Import Model Session.
Import ListNotations.
Open Scope string_scope.
Open Scope list_scope.

(* a hierarchy: class name -> direct superclasses, in the order the classes were defined *)
Definition hier := list (string * list string).

Definition mem (s : string) (l : list string) : bool := existsb (String.eqb s) l.

(* the classes a class inherits from (StandardClass.inherit: direct superclasses, then theirs); fuel = number of classes *)
Fixpoint ancestors (fuel : nat) (h : hier) (n : string) : list string :=
  match fuel with
  | O => []
  | S f => match alookup h n with
           | None => []
           | Some sups => flat_map (fun s => s :: ancestors f h s) sups
           end
  end.
Definition inherits (h : hier) (a b : string) : bool := mem b (ancestors (List.length h) h a).

(* the walk: (visited, written) *)
Fixpoint write (fuel : nat) (h : hier) (sorted : list string) (st : list string * list string) (c : string)
  : list string * list string :=
  match fuel with
  | O => st
  | S f =>
      if mem c (fst st) then st else
      let st1 := (c :: fst st, snd st) in
      let st2 := fold_left (fun s c2 => if inherits h c c2 then write f h sorted s c2 else s) sorted st1 in
      (fst st2, snd st2 ++ [c])
  end.
Definition sorted_names (h : hier) : list string := map fst (sort_by h).
Definition class_order (h : hier) : list string :=
  let names := sorted_names h in
  snd (fold_left (write (S (List.length h)) h names) names ([], [])).

(* S, decidable: walking the written order, every ancestor of a class that is a user class has been seen *)
Fixpoint supers_before (h : hier) (seen : list string) (order : list string) : bool :=
  match order with
  | [] => true
  | c :: r =>
      forallb (fun a => negb (mem a (map fst h)) || mem a seen) (ancestors (List.length h) h c)
      && supers_before h (c :: seen) r
  end.
Fixpoint nodupb (l : list string) : bool :=
  match l with [] => true | a :: r => negb (mem a r) && nodupb r end.
Definition same_set (a b : list string) : bool :=
  forallb (fun x => mem x b) a && forallb (fun x => mem x a) b.
Definition order_ok (h : hier) (order : list string) : bool :=
  supers_before h [] order && nodupb order && same_set order (map fst h).

(* acyclicity, decidable: a rank given as an association list -- every direct superclass that is a user class has a
   smaller rank, no rank exceeds the number of classes; and the canonical candidate, the depth of a class (the longest
   chain of user superclasses below it, computed with fuel) *)
Definition rank_of (r : list (string * nat)) (c : string) : nat := match alookup r c with Some n => n | None => 0 end.
Definition acyclic_by (r : list (string * nat)) (h : hier) : bool :=
  forallb (fun kv => forallb (fun s => negb (mem s (map fst h)) || Nat.ltb (rank_of r s) (rank_of r (fst kv))) (snd kv)
                     && Nat.leb (rank_of r (fst kv)) (List.length h)) h.
Fixpoint depth (fuel : nat) (h : hier) (c : string) : nat :=
  match fuel with
  | O => 0
  | S f => match alookup h c with
           | None => 0
           | Some sups => fold_right Nat.max 0 (map (fun s => if mem s (map fst h) then S (depth f h s) else 0) sups)
           end
  end.
Definition depth_rank (h : hier) : list (string * nat) := map (fun kv => (fst kv, depth (List.length h) h (fst kv))) h.

(* the enumerated block (the harness runs exactly these hierarchies on every run): three names a < m < z in every role
   of child(parent) + unrelated, of a chain of three, and four names in every role of a diamond *)
Fixpoint perms {A} (l : list A) : list (list A) :=
  match l with
  | [] => [[]]
  | a :: r => flat_map (fun p => (fix ins (pre post : list A) : list (list A) :=
                                    match post with
                                    | [] => [pre ++ [a]]
                                    | x :: post' => (pre ++ a :: post) :: ins (pre ++ [x]) post'
                                    end) [] p) (perms r)
  end.
Definition names3 : list string := ["c19a"; "c19m"; "c19z"].
Definition names4 : list string := ["c19a"; "c19g"; "c19m"; "c19z"].
Definition shape_child (p : list string) : hier :=
  match p with [par; unr; chi] => [(par, []); (unr, []); (chi, [par])] | _ => [] end.
Definition shape_chain (p : list string) : hier :=
  match p with [top; mid; bot] => [(top, []); (mid, [top]); (bot, [mid])] | _ => [] end.
Definition shape_two_parents (p : list string) : hier :=
  match p with [p1; p2; chi] => [(p1, []); (p2, []); (chi, [p1; p2])] | _ => [] end.
Definition shape_diamond (p : list string) : hier :=
  match p with [top; l; r; bot] => [(top, []); (l, [top]); (r, [top]); (bot, [l; r])] | _ => [] end.
Definition block : list hier :=
  map shape_child (perms names3) ++ map shape_chain (perms names3) ++ map shape_two_parents (perms names3)
  ++ map shape_diamond (perms names4).
