(* C19 — proofs, part 1: evaluating the load form of every loadable value rebuilds the value. *)
From Coq Require Import List String ZArith Bool Ascii Lia.
From C19 Require Import Model Spec.
Import ListNotations.
Open Scope string_scope.
Open Scope list_scope.

(* nested induction over objects *)
Section ObjInd.
  Variable P : obj -> Prop.
  Hypothesis HNil : P Nil. Hypothesis HT : P T.
  Hypothesis HFix : forall z, P (Fix z). Hypothesis HBig : forall z, P (Big z).
  Hypothesis HAtom : forall k t, P (Atom k t). Hypothesis HStr : forall s, P (Str s). Hypothesis HSym : forall s, P (Sym s).
  Hypothesis HL : forall xs, Forall P xs -> P (L xs).
  Hypothesis HDot : forall xs tl, Forall P xs -> P tl -> P (Dot xs tl).
  Hypothesis HVec : forall xs et adj fp, Forall P xs -> P et -> P (Vec xs et adj fp).
  Hypothesis HArr : forall dims xs et adj, Forall P xs -> P et -> P (Arr dims xs et adj).
  Hypothesis HHash : forall kvs, Forall (fun kv => P (fst kv) /\ P (snd kv)) kvs -> P (Hash kvs).
  Hypothesis HLam : forall ll doc body, Forall P ll -> Forall P body -> P (Lam ll doc body).
  Hypothesis HInst : forall f slots, Forall (fun kv => P (snd kv)) slots -> P (Inst f slots).
  Hypothesis HFlv : forall n ivars i g s d, Forall (fun kv => P (snd kv)) ivars -> P (Flv n ivars i g s d).
  Hypothesis HOpaque : forall w, P (Opaque w).
  Fixpoint obj_ind2 (v : obj) : P v :=
    let fix all (l : list obj) : Forall P l :=
        match l with [] => Forall_nil P | a :: r => Forall_cons a (obj_ind2 a) (all r) end in
    match v with
    | Nil => HNil | T => HT | Fix z => HFix z | Big z => HBig z | Atom k t => HAtom k t | Str s => HStr s | Sym s => HSym s
    | L xs => HL xs (all xs)
    | Dot xs tl => HDot xs tl (all xs) (obj_ind2 tl)
    | Vec xs et adj fp => HVec xs et adj fp (all xs) (obj_ind2 et)
    | Arr dims xs et adj => HArr dims xs et adj (all xs) (obj_ind2 et)
    | Hash kvs => HHash kvs ((fix allp (l : list (obj * obj)) : Forall (fun kv => P (fst kv) /\ P (snd kv)) l :=
                                match l with
                                | [] => Forall_nil _
                                | (k, w) :: r => Forall_cons (k, w) (conj (obj_ind2 k) (obj_ind2 w)) (allp r)
                                end) kvs)
    | Lam ll doc body => HLam ll doc body (all ll) (all body)
    | Inst f slots => HInst f slots ((fix alls (l : list (string * obj)) : Forall (fun kv => P (snd kv)) l :=
                                        match l with
                                        | [] => Forall_nil _
                                        | (k, w) :: r => Forall_cons (k, w) (obj_ind2 w) (alls r)
                                        end) slots)
    | Flv n ivars i g s d => HFlv n ivars i g s d ((fix alls (l : list (string * obj)) : Forall (fun kv => P (snd kv)) l :=
                                        match l with
                                        | [] => Forall_nil _
                                        | (k, w) :: r => Forall_cons (k, w) (obj_ind2 w) (alls r)
                                        end) ivars)
    | Opaque w => HOpaque w
    end.
End ObjInd.

(* environments that contain the self-bound constants *)
Definition env_ok (e : env) : Prop := forall s, existsb (String.eqb s) self_bound = true -> lookup e s = Some (Sym s).

Lemma global_env_ok : env_ok global_env.
Proof.
  intros s H. unfold global_env.
  induction self_bound as [|a r IH]; [discriminate|].
  cbn [existsb] in H. cbn [map lookup].
  destruct (String.eqb s a) eqn:E.
  - apply String.eqb_eq in E. subst. rewrite String.eqb_refl. reflexivity.
  - rewrite String.eqb_sym, E. apply IH. exact H.
Qed.

Lemma env_ok_table : forall e tbl, env_ok e -> env_ok (("table", Hash tbl) :: e).
Proof.
  intros e tbl He s Hs. cbn [lookup].
  destruct ("table" =? s) eqn:E; [|apply He; exact Hs].
  apply String.eqb_eq in E. subst. vm_compute in Hs. discriminate.
Qed.

(* map_res over a list of forms that each evaluate to the corresponding value *)
Lemma map_res_ok : forall {A B} (f : A -> res B) (l : list A) (r : list B),
  Forall2 (fun a b => f a = Ok b) l r -> map_res f l = Ok r.
Proof.
  intros A B f l r H. induction H; [reflexivity|]. cbn [map_res]. rewrite H, IHForall2. reflexivity.
Qed.


Lemma env_ok_inst : forall e x, env_ok e -> env_ok (("inst", x) :: e).
Proof.
  intros e x He s Hs. cbn [lookup]. destruct ("inst" =? s) eqn:E; [|apply He; exact Hs].
  apply String.eqb_eq in E. subst. vm_compute in Hs. discriminate.
Qed.

(* the local fixpoints of lform and eval are map_res *)
Lemma lform_list : forall xs,
  (fix go (l : list obj) : res (list obj) :=
     match l with
     | [] => Ok []
     | a :: r => bind (lform true a) (fun b => bind (go r) (fun bs => Ok (b :: bs)))
     end) xs = map_res elem_form xs.
Proof. induction xs as [|a r IH]; [reflexivity|]. cbn [map_res]. rewrite <- IH. reflexivity. Qed.

Lemma load_form_L : forall el xs, lform el (L xs) = bind (map_res elem_form xs) (fun fs => Ok (L (Sym "list" :: fs))).
Proof. intros el xs. cbn [lform]. rewrite lform_list. reflexivity. Qed.

Lemma load_form_Dot : forall el xs tl,
  lform el (Dot xs tl) =
  bind (map_res elem_form xs) (fun fs => bind (elem_form tl) (fun ft =>
    match rev fs with
    | [] => Err EBadForm
    | lastf :: revhead =>
        let c := L [Sym "cons"; lastf; ft] in
        match revhead with
        | [] => Ok c
        | _ => Ok (L [Sym "append"; L (Sym "list" :: rev revhead); c])
        end
    end)).
Proof. intros el xs tl. cbn [lform]. rewrite lform_list. reflexivity. Qed.

Lemma lform_entries : forall kvs,
  (fix go (l : list (obj * obj)) : res (list obj) :=
     match l with
     | [] => Ok []
     | (k, w) :: r => bind (lform true k) (fun kf => bind (lform true w) (fun wf => bind (go r) (fun es =>
                        Ok (setf_gethash kf wf :: es))))
     end) kvs = map_res entry_form kvs.
Proof.
  induction kvs as [|[k w] r IH]; [reflexivity|]. cbn [map_res]. rewrite <- IH. unfold entry_form, elem_form. cbn [fst snd].
  destruct (lform true k); [|reflexivity]. destruct (lform true w); reflexivity.
Qed.

Lemma load_form_Hash : forall el kvs, lform el (Hash kvs) = bind (map_res entry_form kvs) (fun es => Ok (table_let es)).
Proof. intros el kvs. cbn [lform]. rewrite lform_entries. reflexivity. Qed.

Lemma lform_slots : forall slots,
  (fix go (l : list (string * obj)) : res (list obj) :=
     match l with
     | [] => Ok []
     | (k, w) :: r => bind (lform true w) (fun wf => bind (go r) (fun es => Ok (setf_slot k wf :: es)))
     end) slots = map_res slot_form slots.
Proof.
  induction slots as [|[k w] r IH]; [reflexivity|]. cbn [map_res]. rewrite <- IH. unfold slot_form, elem_form. cbn [fst snd].
  destruct (lform true w); reflexivity.
Qed.

Lemma load_form_Inst : forall el f slots, lform el (Inst f slots) = bind (map_res slot_form slots) (fun es => Ok (inst_let f es)).
Proof. intros el f slots. cbn [lform]. rewrite lform_slots. reflexivity. Qed.

Lemma eval_list : forall e xs,
  (fix evs (l : list obj) : res (list obj) :=
     match l with
     | [] => Ok []
     | a :: r => bind (eval e a) (fun v => bind (evs r) (fun vs => Ok (v :: vs)))
     end) xs = map_res (eval e) xs.
Proof. induction xs as [|a r IH]; [reflexivity|]. cbn [map_res]. rewrite <- IH. reflexivity. Qed.


(* what the theorem says about one value as an element of another (for everything but a symbol the element form is the
   load form): the form evaluates to the value in every environment that knows the flavors of the instances inside *)
Definition reloads (v : obj) : Prop :=
  exists f, elem_form v = Ok f /\ forall e, env_ok e -> insts_in e v = true -> eval e f = Ok v.

Lemma reloads_all : forall xs, Forall (fun v => loadable_in v = true -> reloads v) xs -> forallb loadable_in xs = true ->
  exists fs, map_res elem_form xs = Ok fs /\
             forall e, env_ok e -> forallb (insts_in e) xs = true -> map_res (eval e) fs = Ok xs.
Proof.
  induction xs as [|a r IH]; intros HF Hl.
  - exists []. split; [reflexivity|]. intros; reflexivity.
  - cbn [forallb] in Hl. apply andb_true_iff in Hl. destruct Hl as [Ha Hr].
    pose proof (Forall_inv HF) as Pa. pose proof (Forall_inv_tail HF) as Pr. cbn beta in Pa.
    destruct (Pa Ha) as (fa & Efa & Eva). destruct (IH Pr Hr) as (fs & Efs & Evs).
    exists (fa :: fs). split.
    + cbn [map_res]. rewrite Efa, Efs. reflexivity.
    + intros e He Hi. cbn [forallb] in Hi. apply andb_true_iff in Hi. destruct Hi as [Hia Hir].
      cbn [map_res]. rewrite (Eva e He Hia), (Evs e He Hir). reflexivity.
Qed.

Lemma map_res_app : forall {A B} (f : A -> res B) l1 l2 r1 r2,
  map_res f l1 = Ok r1 -> map_res f l2 = Ok r2 -> map_res f (l1 ++ l2) = Ok (r1 ++ r2).
Proof.
  intros A B f. induction l1 as [|a l1 IH]; intros l2 r1 r2 H1 H2.
  - cbn in H1. injection H1 as <-. exact H2.
  - cbn [map_res app] in *. destruct (f a) as [b|]; [|discriminate]. cbn [bind] in *.
    destruct (map_res f l1) as [bs|] eqn:E; [|discriminate]. cbn [bind] in H1. injection H1 as <-.
    rewrite (IH l2 bs r2 eq_refl H2). reflexivity.
Qed.

Lemma map_res_length : forall {A B} (f : A -> res B) l r, map_res f l = Ok r -> List.length r = List.length l.
Proof.
  intros A B f. induction l as [|a l IH]; intros r H.
  - cbn in H. injection H as <-. reflexivity.
  - cbn [map_res] in H. destruct (f a); [|discriminate]. cbn [bind] in H. destruct (map_res f l) eqn:E; [|discriminate].
    cbn [bind] in H. injection H as <-. cbn [List.length]. f_equal. apply IH. reflexivity.
Qed.


(* ---- adding the variable a load form binds (table, inst) hides no flavor ---- *)
Lemma insts_in_ext : forall v e e',
  (forall f, (f =? "inst") = false -> (f =? "table") = false -> lookup e' f = lookup e f) ->
  insts_in e v = true -> insts_in e' v = true.
Proof.
  induction v using obj_ind2; intros e e' Hlk Hi; try reflexivity.
  - (* L *)
    cbn [insts_in] in Hi |- *.
    induction xs as [|a r IHr]; [reflexivity|]. inversion H as [|? ? Pa Pr]; subst.
    cbn [forallb] in Hi |- *. apply andb_true_iff in Hi. destruct Hi as [Ia Ir].
    rewrite (Pa e e' Hlk Ia). cbn [andb]. apply IHr; assumption.
  - (* Dot *)
    cbn [insts_in] in Hi |- *. apply andb_true_iff in Hi. destruct Hi as [Hi Hit].
    rewrite (IHv e e' Hlk Hit), andb_true_r.
    induction xs as [|a r IHr]; [reflexivity|]. inversion H as [|? ? Pa Pr]; subst.
    cbn [forallb] in Hi |- *. apply andb_true_iff in Hi. destruct Hi as [Ia Ir].
    rewrite (Pa e e' Hlk Ia). cbn [andb]. apply IHr; assumption.
  - (* Hash *)
    cbn [insts_in] in Hi |- *.
    induction kvs as [|[k w] r IHr]; [reflexivity|]. inversion H as [|? ? [_ Pw] Pr]; subst. cbn [snd] in Pw.
    cbn [forallb fst snd] in Hi |- *. apply andb_true_iff in Hi. destruct Hi as [Ia Ir].
    rewrite (Pw e e' Hlk Ia). cbn [andb]. apply IHr; assumption.
  - (* Inst *)
    cbn [insts_in] in Hi |- *. apply andb_true_iff in Hi. destruct Hi as [Hi Hg]. apply andb_true_iff in Hi. destruct Hi as [Hi Hn].
    apply andb_true_iff in Hi. destruct Hi as [Hf Hl]. apply andb_true_iff in Hf. destruct Hf as [Hf1 Hf2].
    rewrite Hf1, Hf2. cbn [andb]. apply negb_true_iff in Hf1. apply negb_true_iff in Hf2.
    rewrite (Hlk f Hf1 Hf2). rewrite Hl, Hn. cbn [andb].
    clear Hl Hn. induction slots as [|[k w] r IHr]; [reflexivity|]. inversion H as [|? ? Pw Pr]; subst. cbn [snd] in Pw.
    apply andb_true_iff in Hg. destruct Hg as [Ia Ir].
    rewrite (Pw e e' Hlk Ia). cbn [andb]. apply IHr; assumption.
Qed.

Lemma insts_in_table : forall v e x, insts_in e v = true -> insts_in (("table", x) :: e) v = true.
Proof.
  intros v e x Hi. apply (insts_in_ext v e); [|exact Hi].
  intros f _ Hf. cbn [lookup]. rewrite String.eqb_sym, Hf. reflexivity.
Qed.
Lemma insts_in_inst : forall v e x, insts_in e v = true -> insts_in (("inst", x) :: e) v = true.
Proof.
  intros v e x Hi. apply (insts_in_ext v e); [|exact Hi].
  intros f Hf _. cbn [lookup]. rewrite String.eqb_sym, Hf. reflexivity.
Qed.

Lemma no_inst_insts_in : forall v e, no_inst v = true -> insts_in e v = true.
Proof.
  induction v using obj_ind2; intros e Hn; try reflexivity; cbn [no_inst insts_in] in *.
  - induction xs as [|a r IHr]; [reflexivity|]. inversion H; subst. cbn [forallb] in *. apply andb_true_iff in Hn. destruct Hn as [Ha Hr].
    rewrite (H2 e Ha). cbn [andb]. apply IHr; assumption.
  - apply andb_true_iff in Hn. destruct Hn as [Hn Ht]. rewrite (IHv e Ht), andb_true_r.
    induction xs as [|a r IHr]; [reflexivity|]. inversion H; subst. cbn [forallb] in *. apply andb_true_iff in Hn. destruct Hn as [Ha Hr].
    rewrite (H2 e Ha). cbn [andb]. apply IHr; assumption.
  - induction kvs as [|[k w] r IHr]; [reflexivity|]. inversion H as [|? ? [_ Pw] Pr]; subst. cbn [forallb fst snd] in *.
    apply andb_true_iff in Hn. destruct Hn as [Ha Hr]. rewrite (Pw e Ha). cbn [andb]. apply IHr; assumption.
  - discriminate.
Qed.

(* ---- atoms, symbols ---- *)
Lemma eval_sym : forall e s, env_ok e ->
  (is_keyword s && plain_sym s || existsb (String.eqb s) self_bound) = true -> eval e (Sym s) = Ok (Sym s).
Proof.
  intros e s He H. cbn [eval]. destruct (is_keyword s) eqn:K; [reflexivity|].
  cbn [andb orb] in H. rewrite (He s H). reflexivity.
Qed.

Lemma eval_quote : forall e x, eval e (quote x) = Ok x.
Proof. intros. reflexivity. Qed.

(* ---- vectors: empty or not, adjustable or not, with or without a fill pointer ---- *)
Lemma eval_vec_form : forall e xs adj fp,
  eval e (make_array_form (L [Fix (Z.of_nat (List.length xs))]) T (mkL xs) adj (fp_items fp)) = Ok (Vec xs T adj fp).
Proof.
  intros e xs adj fp. unfold make_array_form, et_form, fp_items.
  assert (Hpos : (0 <=? Z.of_nat (List.length xs))%Z = true) by (apply Z.leb_le; lia).
  assert (Hfp : forall n, (Z.of_nat n <? 0)%Z = false) by (intro n; apply Z.ltb_ge; lia).
  destruct xs as [|x xs']; destruct adj; destruct fp as [n|]; cbn [app mkL];
    cbn; rewrite ?Hpos, ?Hfp, ?Nat2Z.id; cbn; rewrite ?Hfp, ?Nat2Z.id; reflexivity.
Qed.

(* ---- arrays: nest and flatten_dims are inverse ---- *)
Lemma chunk_length : forall n k xs, List.length (chunk n k xs) = n.
Proof. induction n; intros; cbn [chunk List.length]; [reflexivity|]. rewrite IHn. reflexivity. Qed.

Lemma chunk_concat : forall n k xs, List.length xs = n * k -> List.concat (chunk n k xs) = xs.
Proof.
  induction n as [|n IH]; intros k xs H.
  - cbn in H. destruct xs; [reflexivity|discriminate].
  - cbn [chunk List.concat]. rewrite IH.
    + apply firstn_skipn.
    + rewrite skipn_length. rewrite H. cbn [Nat.mul]. lia.
Qed.

Lemma chunk_each : forall n k xs, List.length xs = n * k -> Forall (fun ch => List.length ch = k) (chunk n k xs).
Proof.
  induction n as [|n IH]; intros k xs H; cbn [chunk]; [constructor|].
  constructor.
  - rewrite firstn_length. rewrite H. cbn [Nat.mul]. lia.
  - apply IH. rewrite skipn_length. rewrite H. cbn [Nat.mul]. lia.
Qed.

Lemma prod_dims_pos : forall ds, forallb (fun d => (0 <? d)%nat) ds = true -> 0 < prod_dims ds.
Proof.
  induction ds as [|d ds IH]; intro H; cbn [prod_dims fold_right]; [lia|].
  cbn [forallb] in H. apply andb_true_iff in H. destruct H as [Hd Hds]. apply Nat.ltb_lt in Hd.
  specialize (IH Hds). unfold prod_dims in IH. nia.
Qed.


Definition as_list (o : obj) : list obj := match o with L c => c | _ => [] end.
Lemma as_list_mkL : forall l, as_list (mkL l) = l.
Proof. destruct l; reflexivity. Qed.
Lemma mkL_cases : forall l, mkL l = Nil \/ exists c, mkL l = L c.
Proof. destruct l; [left; reflexivity|right; eexists; reflexivity]. Qed.

Lemma flatten_dims_step : forall d d' ds c,
  flatten_dims (d :: d' :: ds) c =
  if negb (Nat.eqb d (List.length c)) then Err EMalformed
  else bind (map_res (fun sub => match sub with
                                 | L ys => flatten_dims (d' :: ds) ys
                                 | Nil => flatten_dims (d' :: ds) []
                                 | _ => Err EType
                                 end) c)
            (fun ls => Ok (List.concat ls)).
Proof. reflexivity. Qed.

Lemma nest_step : forall d d' ds xs,
  nest (d :: d' :: ds) xs = mkL (map (nest (d' :: ds)) (chunk d (prod_dims (d' :: ds)) xs)).
Proof. reflexivity. Qed.

(* Array.AsList and Array.setDim are inverse, zero dimensions included (a row without elements is nil) *)
Lemma nest_flatten : forall dims xs, dims <> [] -> List.length xs = prod_dims dims ->
  flatten_dims dims (as_list (nest dims xs)) = Ok xs /\ (nest dims xs = Nil \/ exists c, nest dims xs = L c).
Proof.
  induction dims as [|d ds IH]; intros xs Hne Hlen; [contradiction|].
  destruct ds as [|d' ds'].
  - (* last dimension *)
    cbn [prod_dims fold_right] in Hlen. rewrite Nat.mul_1_r in Hlen.
    cbn [nest]. rewrite <- Hlen. rewrite firstn_all. split; [|apply mkL_cases].
    rewrite as_list_mkL. cbn [flatten_dims]. rewrite Nat.eqb_refl. reflexivity.
  - set (k := prod_dims (d' :: ds')).
    assert (Hlen' : List.length xs = d * k) by (rewrite Hlen; reflexivity).
    assert (Hne' : d' :: ds' <> []) by discriminate.
    rewrite nest_step. fold k. split; [|apply mkL_cases]. rewrite as_list_mkL.
    pose proof (chunk_each d k xs Hlen') as Hch.
    assert (Hsub : Forall2 (fun sub ch => match sub with
                                          | L ys => flatten_dims (d' :: ds') ys
                                          | Nil => flatten_dims (d' :: ds') []
                                          | _ => Err EType
                                          end = Ok ch)
                           (map (nest (d' :: ds')) (chunk d k xs)) (chunk d k xs)).
    { induction Hch as [|ch chs Hc Hcs IHc]; cbn [map]; constructor; [|exact IHc].
      destruct (IH ch Hne' Hc) as (Ef & [En|(c & Ec)]).
      - rewrite En in Ef |- *. exact Ef.
      - rewrite Ec in Ef |- *. exact Ef. }
    rewrite flatten_dims_step. rewrite map_length, chunk_length, Nat.eqb_refl. cbn [negb].
    rewrite (map_res_ok _ _ _ Hsub). cbn [bind]. rewrite chunk_concat by exact Hlen'. reflexivity.
Qed.

Lemma dims_of_fix : forall ds, dims_of (map (fun d => Fix (Z.of_nat d)) ds) = Ok ds.
Proof.
  induction ds as [|d ds IH]; [reflexivity|].
  cbn [map dims_of]. assert ((0 <=? Z.of_nat d)%Z = true) as -> by (apply Z.leb_le; lia).
  rewrite IH. cbn [bind]. rewrite Nat2Z.id. reflexivity.
Qed.

Lemma eval_arr_form : forall e dims xs adj, (2 <= List.length dims)%nat -> List.length xs = prod_dims dims ->
  eval e (make_array_form (mkL (map (fun d => Fix (Z.of_nat d)) dims)) T (nest dims xs) adj []) = Ok (Arr dims xs T adj).
Proof.
  intros e dims xs adj Hr Hlen.
  assert (Hne : dims <> []) by (destruct dims; [cbn in Hr; lia|discriminate]).
  destruct (nest_flatten dims xs Hne Hlen) as (Ef & Hc).
  assert (Hm : mkL (map (fun d => Fix (Z.of_nat d)) dims) = L (map (fun d => Fix (Z.of_nat d)) dims))
    by (destruct dims; [contradiction|reflexivity]).
  rewrite Hm. unfold make_array_form, et_form. cbn [app].
  destruct Hc as [En|(c & Ec)]; [rewrite En in Ef |- *|rewrite Ec in Ef |- *]; cbn [as_list] in Ef;
    destruct adj; cbn; rewrite (dims_of_fix dims); cbn; rewrite Ef; cbn;
    destruct dims as [|d1 [|d2 ds]]; try contradiction; try (cbn in Hr; lia); reflexivity.
Qed.

(* ---- hash tables ---- *)
Lemma self_evaluating_eval : forall e v, env_ok e -> self_evaluating v = true -> eval e v = Ok v.
Proof.
  intros e v He H. destruct v; try discriminate; try reflexivity.
  cbn [self_evaluating] in H. apply eval_sym; assumption.
Qed.

Lemma hash_set_fresh : forall tbl k v, existsb (fun kv => obj_eqb (fst kv) k) tbl = false ->
  hash_set tbl obj_eqb k v = tbl ++ [(k, v)].
Proof.
  induction tbl as [|[k' v'] r IH]; intros k v H; [reflexivity|].
  cbn [existsb fst] in H. apply orb_false_iff in H. destruct H as [H1 H2].
  cbn [hash_set]. rewrite H1. cbn [app]. f_equal. apply IH. exact H2.
Qed.


Lemma key_form_eval : forall k, hash_key_ok k = true -> exists kf, elem_form k = Ok kf /\ forall e, eval e kf = Ok k.
Proof.
  intros k H. destruct k; try discriminate; try (eexists; split; [reflexivity|]; intro e; reflexivity).
  (* Sym *)
  unfold elem_form. cbn [lform andb]. destruct (is_keyword s) eqn:K; cbn [negb]; eexists; (split; [reflexivity|]); intro e.
  - cbn [eval]. rewrite K. reflexivity.
  - reflexivity.
Qed.

(* the body of the let form built by HashTable.LoadForm, as eval runs it *)
Definition run_table (e : env) : list (obj * obj) -> list obj -> res obj :=
  fix go (tbl : list (obj * obj)) (l : list obj) : res obj :=
    match l with
    | [] => Ok Nil
    | [Sym r] => if (r =? "table")%string then Ok (Hash tbl) else Err EUnmodelled
    | L [Sym sf; L [Sym gh; kf; Sym tv']; vf] :: rest =>
        if (sf =? "setf")%string && (gh =? "gethash")%string && (tv' =? "table")%string then
          bind (eval (("table", Hash tbl) :: e) vf) (fun v =>
          bind (eval (("table", Hash tbl) :: e) kf) (fun k =>
          go (hash_set tbl obj_eqb k v) rest))
        else Err EUnmodelled
    | _ => Err EUnmodelled
    end.

Lemma eval_table_let : forall e es, eval e (table_let es) = run_table e [] (es ++ [Sym "table"]).
Proof. intros. reflexivity. Qed.

Definition entry_evals (e : env) (kv : obj * obj) (ef : obj) : Prop :=
  exists kf wf, ef = setf_gethash kf wf /\ (forall tb, eval (("table", Hash tb) :: e) kf = Ok (fst kv))
                /\ (forall tb, eval (("table", Hash tb) :: e) wf = Ok (snd kv)).

Lemma run_table_entries : forall e kvs efs tbl,
  Forall2 (entry_evals e) kvs efs ->
  keys_distinct (map fst kvs) = true ->
  (forall k, In k (map fst kvs) -> existsb (fun kv => obj_eqb (fst kv) k) tbl = false) ->
  run_table e tbl (efs ++ [Sym "table"]) = Ok (Hash (tbl ++ kvs)).
Proof.
  intros e kvs efs tbl HF. revert tbl. induction HF as [|[k w] ef r efs' (kf & wf & Eef & Evk & Evw) HF IH]; intros tbl Hd Hfresh.
  - cbn [app run_table]. rewrite app_nil_r. reflexivity.
  - cbn [map fst keys_distinct] in Hd. apply andb_true_iff in Hd. destruct Hd as [Hnk Hdr]. apply negb_true_iff in Hnk.
    subst ef. cbn [app]. unfold setf_gethash. cbn [run_table]. cbn [String.eqb Ascii.eqb Bool.eqb andb].
    cbn [fst snd] in Evk, Evw. rewrite Evw. cbn [bind]. rewrite Evk. cbn [bind].
    rewrite hash_set_fresh by (apply Hfresh; left; reflexivity).
    fold (run_table e).
    rewrite (IH (tbl ++ [(k, w)]) Hdr).
    + rewrite <- app_assoc. reflexivity.
    + intros k' Hin. rewrite existsb_app. rewrite (Hfresh k' (or_intror Hin)). cbn [existsb fst orb].
      rewrite orb_false_r.
      clear -Hnk Hin. induction (map fst r) as [|a l IHl]; [contradiction|].
      cbn [existsb] in Hnk. apply orb_false_iff in Hnk. destruct Hnk as [H1 H2].
      destruct Hin as [<-|Hin]; [exact H1|apply IHl; assumption].
Qed.

(* ---- lambdas ---- *)
Lemma norm_ll_ok : forall ll, forallb ll_elem_ok ll = true -> map_res norm_ll_elem ll = Ok ll.
Proof.
  induction ll as [|a r IH]; intro H; [reflexivity|].
  cbn [forallb] in H. apply andb_true_iff in H. destruct H as [Ha Hr].
  cbn [map_res]. rewrite (IH Hr).
  destruct a; try discriminate; [reflexivity|].
  destruct xs as [|x1 [|x2 [|x3 xs]]]; try discriminate.
  - destruct x1; discriminate.
  - destruct x1; try discriminate. cbn [ll_elem_ok] in Ha.
    apply andb_true_iff in Ha. destruct Ha as [_ Hn].
    destruct x2; try reflexivity. discriminate.
  - destruct x1; discriminate.
Qed.

Lemma eval_lambda_form : forall e ll doc body, lam_ok ll doc body = true ->
  eval e (L ([Sym "lambda"; mkL ll] ++ (if (doc =? "")%string then [] else [Str doc]) ++ body)) = Ok (Lam ll doc body).
Proof.
  intros e ll doc body H. unfold lam_ok in H.
  apply andb_true_iff in H. destruct H as [H H3]. apply andb_true_iff in H. destruct H as [H1 H2].
  cbn [app eval]. cbn [String.eqb Ascii.eqb Bool.eqb]. unfold mk_lambda.
  assert (He : elems_of (mkL ll) = Some ll) by (destruct ll; reflexivity). rewrite He.
  rewrite (norm_ll_ok ll H1). cbn [bind].
  destruct (doc =? "") eqn:Ed.
  - apply String.eqb_eq in Ed. subst. cbn [app]. cbn [negb orb] in H2.
    destruct body as [|b1 [|b2 bs]]; try reflexivity.
    + destruct b1; reflexivity.
    + destruct b1; try reflexivity. discriminate.
  - cbn [app]. cbn [orb] in H3. destruct body as [|b1 bs]; [discriminate|]. reflexivity.
Qed.

(* the lambda list is written as it is: a default value is a form and stays that form (not its load form) *)
Lemma lambda_list_verbatim : forall ll doc body,
  exists rest, load_form (Lam ll doc body) = Ok (L (Sym "lambda" :: mkL ll :: rest)) /\ elems_of (mkL ll) = Some ll.
Proof.
  intros ll doc body. eexists. split; [reflexivity|]. destruct ll; reflexivity.
Qed.


(* ---- instances: the body of the let form built by InstanceLoadForm (and by the snapshot's ppInstance), as eval runs it ---- *)
Definition run_inst (e : env) (fl : string) : list (string * obj) -> list obj -> res obj :=
  fix go (slots : list (string * obj)) (l : list obj) : res obj :=
    match l with
    | [] => Ok Nil
    | [Sym r] => if (r =? "inst")%string then Ok (Inst fl slots) else Err EUnmodelled
    | L [Sym sf; L [Sym sv; Sym iv'; L [Sym q; Sym k]]; vf] :: rest =>
        if (sf =? "setf")%string && (sv =? "slot-value")%string && (iv' =? "inst")%string && (q =? "quote")%string then
          bind (eval (("inst", Inst fl slots) :: e) vf) (fun v =>
            match slot_set slots k v with
            | Some s' => go s' rest
            | None => Err EType
            end)
        else Err EUnmodelled
    | _ => Err EUnmodelled
    end.

Lemma eval_inst_let : forall e f n ivars i g s d setfs,
  lookup e f = Some (Flv n ivars i g s d) ->
  eval e (inst_let f setfs) = run_inst e f ivars (setfs ++ [Sym "inst"]).
Proof.
  intros e f n ivars i g s d setfs Hl. unfold inst_let. cbn [app].
  unfold quote. cbn. rewrite Hl. reflexivity.
Qed.

Lemma slot_set_mid : forall done k o w rest, ~ In k (map fst done) ->
  slot_set (done ++ (k, o) :: rest) k w = Some (done ++ (k, w) :: rest).
Proof.
  induction done as [|[k' v'] r IH]; intros k o w rest Hn; cbn [app slot_set].
  - rewrite String.eqb_refl. reflexivity.
  - destruct (k' =? k) eqn:E.
    + apply String.eqb_eq in E. subst. exfalso. apply Hn. left. reflexivity.
    + rewrite IH; [reflexivity|]. intro Hin. apply Hn. right. exact Hin.
Qed.

Lemma run_inst_all : forall e fl todo fws done olds,
  Forall2 (fun kv fw => forall cur, eval (("inst", Inst fl cur) :: e) fw = Ok (snd kv)) todo fws ->
  map fst olds = map fst todo -> NoDup (map fst done ++ map fst todo) ->
  run_inst e fl (done ++ olds) (map (fun p => setf_slot (fst p) (snd p)) (combine (map fst todo) fws) ++ [Sym "inst"])
  = Ok (Inst fl (done ++ todo)).
Proof.
  intros e fl todo. induction todo as [|[k w] todo IH]; intros fws done olds HF Hk Hnd.
  - inversion HF; subst. destruct olds; [|discriminate]. cbn. reflexivity.
  - inversion HF as [|? fw ? fws' Hfw HF']; subst. destruct olds as [|[k0 o] olds]; [discriminate|].
    cbn [map fst] in Hk. injection Hk as Hk0 Hk. subst k0.
    cbn [map fst combine app]. unfold setf_slot at 1. unfold quote. cbn [fst snd].
    cbn [run_inst]. cbn [String.eqb Ascii.eqb Bool.eqb andb].
    cbn [snd] in Hfw. rewrite Hfw. cbn [bind].
    assert (Hn : ~ In k (map fst done)).
    { cbn [map fst] in Hnd. intro Hin. apply NoDup_remove_2 in Hnd. apply Hnd. apply in_or_app. left. exact Hin. }
    rewrite slot_set_mid by exact Hn.
    fold (run_inst e fl).
    replace (done ++ (k, w) :: olds) with ((done ++ [(k, w)]) ++ olds) by (rewrite <- app_assoc; reflexivity).
    rewrite (IH fws' (done ++ [(k, w)]) olds HF' Hk).
    + rewrite <- app_assoc. reflexivity.
    + rewrite map_app. cbn [map fst]. rewrite <- app_assoc. exact Hnd.
Qed.

Lemma strings_eqb_eq : forall a b, strings_eqb a b = true -> a = b.
Proof.
  induction a as [|x a IH]; destruct b as [|y b]; cbn [strings_eqb]; intro H; try discriminate; [reflexivity|].
  apply andb_true_iff in H. destruct H as [H1 H2]. apply String.eqb_eq in H1. subst. f_equal. apply IH. exact H2.
Qed.
Lemma keys_nodupb_nodup : forall l, keys_nodupb l = true -> NoDup l.
Proof.
  induction l as [|k r IH]; intro H; [constructor|]. cbn [keys_nodupb] in H. apply andb_true_iff in H. destruct H as [H1 H2].
  constructor; [|apply IH; exact H2]. intro Hin. apply negb_true_iff in H1.
  assert (existsb (String.eqb k) r = true) by (apply existsb_exists; exists k; split; [exact Hin|apply String.eqb_refl]). congruence.
Qed.

(* ---- the main theorem ---- *)
Lemma exists_last' : forall (xs : list obj), xs <> [] -> exists xs' a, xs = xs' ++ [a].
Proof. intros xs H. destruct (exists_last H) as (xs' & a & E). eauto. Qed.

Lemma forallb_insts_app : forall e l1 l2, forallb (insts_in e) (l1 ++ l2) = true ->
  forallb (insts_in e) l1 = true /\ forallb (insts_in e) l2 = true.
Proof. intros e l1 l2 H. rewrite forallb_app in H. apply andb_true_iff in H. exact H. Qed.

Lemma reloads_in : forall v, loadable_in v = true -> reloads v.
Proof.
  induction v using obj_ind2; intro Hl; unfold reloads.
  - exists Nil. split; [reflexivity|]. intros; reflexivity.
  - exists T. split; [reflexivity|]. intros; reflexivity.
  - eexists. split; [reflexivity|]. intros; reflexivity.
  - (* Big *)
    unfold elem_form. cbn [lform]. destruct (is_int64 z); eexists; (split; [reflexivity|]); intros; reflexivity.
  - eexists. split; [reflexivity|]. intros; reflexivity.
  - eexists. split; [reflexivity|]. intros; reflexivity.
  - (* Sym: a keyword stands for itself, any other symbol is quoted *)
    unfold elem_form. cbn [lform andb]. destruct (is_keyword s) eqn:K; cbn [negb]; eexists; (split; [reflexivity|]); intros e He _.
    + cbn [eval]. rewrite K. reflexivity.
    + reflexivity.
  - (* L *)
    cbn [loadable_in] in Hl. apply andb_true_iff in Hl. destruct Hl as [Hne Hall].
    destruct (reloads_all xs H Hall) as (fs & Efs & Evs).
    exists (L (Sym "list" :: fs)). split.
    + unfold elem_form. rewrite load_form_L, Efs. reflexivity.
    + intros e He Hi. cbn [insts_in] in Hi. cbn [eval]. cbn [String.eqb Ascii.eqb Bool.eqb]. rewrite eval_list, (Evs e He Hi). cbn [bind].
      unfold apply_fn. cbn [String.eqb Ascii.eqb Bool.eqb]. destruct xs; [discriminate|reflexivity].
  - (* Dot *)
    cbn [loadable_in] in Hl. apply andb_true_iff in Hl. destruct Hl as [Hl Htl]. apply andb_true_iff in Hl. destruct Hl as [Hl Hltl].
    apply andb_true_iff in Hl. destruct Hl as [Hne Hall].
    assert (Hxs : xs <> []) by (destruct xs; [discriminate|discriminate]).
    destruct (reloads_all xs H Hall) as (fs & Efs & Evs).
    destruct (IHv Hltl) as (ft & Eft & Evt).
    destruct (exists_last' xs Hxs) as (xs' & a & Exs).
    assert (Hlenfs : List.length fs = List.length xs) by (exact (map_res_length elem_form xs fs Efs)).
    assert (Hfs : fs <> []) by (intro; subst fs; rewrite Exs in Hlenfs; rewrite app_length in Hlenfs; cbn in Hlenfs; lia).
    destruct (exists_last' fs Hfs) as (fs' & fa & Efs').
    assert (Hev : forall e, env_ok e -> forallb (insts_in e) xs = true -> map_res (eval e) fs' = Ok xs' /\ eval e fa = Ok a).
    { intros e He Hi. specialize (Evs e He Hi). subst fs xs.
      assert (Hl1 : List.length fs' = List.length xs') by (rewrite !app_length in Hlenfs; cbn in Hlenfs; lia).
      clear -Evs Hl1. revert xs' Hl1 Evs. induction fs' as [|f1 fs' IH]; intros xs' Hl1 Evs.
      - destruct xs'; [|discriminate]. cbn [app map_res] in Evs. destruct (eval e fa); [|discriminate].
        cbn [bind] in Evs. injection Evs as ->. split; reflexivity.
      - destruct xs' as [|x1 xs']; [discriminate|]. cbn [app map_res] in Evs |- *.
        destruct (eval e f1) as [y1|]; [|discriminate]. cbn [bind] in Evs |- *.
        destruct (map_res (eval e) (fs' ++ [fa])) as [ys|] eqn:E; [|discriminate]. cbn [bind] in Evs.
        injection Evs as -> ->. injection Hl1 as Hl1. destruct (IH xs' Hl1 eq_refl) as [I1 I2].
        rewrite I1. split; [reflexivity|exact I2]. }
    unfold elem_form. rewrite load_form_Dot, Efs. cbn [bind]. unfold elem_form in Eft. fold (elem_form v). unfold elem_form. rewrite Eft. cbn [bind].
    rewrite Efs'. rewrite rev_app_distr. cbn [rev app].
    destruct (rev fs') as [|rf rfs] eqn:Erev.
    + (* a single element before the tail *)
      assert (fs' = []) by (apply (f_equal (@rev obj)) in Erev; rewrite rev_involutive in Erev; exact Erev). subst fs'.
      eexists. split; [reflexivity|]. intros e He Hi. cbn [insts_in] in Hi. apply andb_true_iff in Hi. destruct Hi as [Hix Hit].
      destruct (Hev e He Hix) as [H1 H2].
      cbn in H1. injection H1 as <-. cbn [app] in Exs. subst xs.
      cbn [eval]. cbn [String.eqb Ascii.eqb Bool.eqb]. rewrite H2. cbn [bind]. rewrite (Evt e He Hit). cbn [bind].
      unfold apply_fn. cbn [String.eqb Ascii.eqb Bool.eqb]. unfold cons_val. destruct v; try reflexivity; discriminate.
    + eexists. split; [reflexivity|]. intros e He Hi. cbn [insts_in] in Hi. apply andb_true_iff in Hi. destruct Hi as [Hix Hit].
      destruct (Hev e He Hix) as [H1 H2].
      assert (Hrr : rev (rf :: rfs) = fs') by (rewrite <- Erev; apply rev_involutive).
      rewrite Hrr.
      cbn [eval]. cbn [String.eqb Ascii.eqb Bool.eqb]. rewrite eval_list, H1. cbn [bind].
      unfold apply_fn at 2. cbn [String.eqb Ascii.eqb Bool.eqb].
      rewrite H2. cbn [bind]. rewrite (Evt e He Hit). cbn [bind].
      unfold apply_fn. cbn [String.eqb Ascii.eqb Bool.eqb].
      assert (Hxs' : xs' <> []).
      { intro; subst xs'. cbn in H1. destruct fs'; [|cbn in H1; destruct (eval e o); [|discriminate]; cbn in H1;
          destruct (map_res (eval e) fs'); discriminate].
        apply (f_equal (@rev obj)) in Hrr. rewrite rev_involutive in Hrr. discriminate. }
      unfold cons_val, append_val.
      destruct xs' as [|x1 xs'']; [contradiction|]. cbn [mkL elems_of].
      subst xs. destruct v; try reflexivity; discriminate.
  - (* Vec *)
    cbn [loadable_in] in Hl. apply andb_true_iff in Hl. destruct Hl as [Het Hq].
    destruct v; try discriminate.
    eexists. split; [reflexivity|]. intros e He _. apply eval_vec_form.
  - (* Arr *)
    cbn [loadable_in] in Hl. apply andb_true_iff in Hl. destruct Hl as [Hl Hq]. apply andb_true_iff in Hl. destruct Hl as [Hl Het].
    apply andb_true_iff in Hl. destruct Hl as [Hrank Hlen].
    destruct v; try discriminate.
    apply Nat.leb_le in Hrank. apply Nat.eqb_eq in Hlen.
    eexists. split; [reflexivity|]. intros e He _. apply eval_arr_form; assumption.
  - (* Hash: every key and every value as an element *)
    cbn [loadable_in] in Hl. apply andb_true_iff in Hl. destruct Hl as [Hok Hd].
    assert (Hefs : exists efs, map_res entry_form kvs = Ok efs /\
              forall e, env_ok e -> forallb (fun kv => insts_in e (snd kv)) kvs = true -> Forall2 (entry_evals e) kvs efs).
    { clear Hd. induction kvs as [|[k w] r IHr].
      - exists []. split; [reflexivity|]. intros; constructor.
      - inversion H as [|? ? [_ Pw] Pr]; subst. cbn [snd] in Pw.
        cbn [forallb fst snd] in Hok. apply andb_true_iff in Hok. destruct Hok as [Hkw Hr]. apply andb_true_iff in Hkw. destruct Hkw as [Hk Hw].
        destruct (IHr Pr Hr) as (efs & Eefs & Hefs).
        destruct (key_form_eval k Hk) as (kf & Ekf & Evk). destruct (Pw Hw) as (wf & Ewf & Evw).
        exists (setf_gethash kf wf :: efs). split.
        + cbn [map_res]. unfold entry_form at 1. cbn [fst snd]. rewrite Ekf, Ewf. cbn [bind]. rewrite Eefs. reflexivity.
        + intros e He Hi. cbn [forallb snd] in Hi. apply andb_true_iff in Hi. destruct Hi as [Hiw Hir].
          constructor; [|apply Hefs; assumption].
          exists kf, wf. split; [reflexivity|]. cbn [fst snd]. split; intro tb; [apply Evk|].
          apply Evw; [apply env_ok_table; exact He|apply insts_in_table; exact Hiw]. }
    destruct Hefs as (efs & Eefs & Hefs).
    exists (table_let efs). split.
    + unfold elem_form. rewrite load_form_Hash, Eefs. reflexivity.
    + intros e He Hi. cbn [insts_in] in Hi. rewrite eval_table_let.
      rewrite (run_table_entries e kvs efs [] (Hefs e He Hi) Hd); [reflexivity|]. intros; reflexivity.
  - (* Lam *)
    cbn [loadable_in] in Hl. apply andb_true_iff in Hl. destruct Hl as [Hl _].
    eexists. split; [reflexivity|]. intros e He _. apply eval_lambda_form. exact Hl.
  - (* Inst: the value of every instance variable as an element *)
    cbn [loadable_in] in Hl. rename Hl into Hs.
    assert (Hfws : exists fws, map_res slot_form slots = Ok (map (fun p => setf_slot (fst p) (snd p)) (combine (map fst slots) fws)) /\
              forall e, env_ok e ->
                (fix go (l : list (string * obj)) : bool := match l with [] => true | (_, w) :: r => insts_in e w && go r end) slots = true ->
                Forall2 (fun kv fw => forall cur, eval (("inst", Inst f cur) :: e) fw = Ok (snd kv)) slots fws).
    { induction slots as [|[k w] r IHr].
      - exists []. split; [reflexivity|]. intros; constructor.
      - inversion H as [|? ? Pw Pr]; subst. cbn [snd] in Pw.
        apply andb_true_iff in Hs. destruct Hs as [Hw Hr].
        destruct (IHr Pr Hr) as (fws & Efws & Hfws). destruct (Pw Hw) as (fw & Efw & Evw).
        exists (fw :: fws). split.
        + cbn [map_res]. unfold slot_form at 1. cbn [fst snd]. rewrite Efw. cbn [bind]. rewrite Efws. reflexivity.
        + intros e He Hi. apply andb_true_iff in Hi. destruct Hi as [Hiw Hir].
          constructor; [|apply Hfws; assumption]. intro cur. cbn [snd].
          apply Evw; [apply env_ok_inst; exact He|apply insts_in_inst; exact Hiw]. }
    destruct Hfws as (fws & Efws & Hfws).
    eexists. split.
    + unfold elem_form. rewrite load_form_Inst, Efws. reflexivity.
    + intros e He Hi. cbn [insts_in] in Hi. apply andb_true_iff in Hi. destruct Hi as [Hi Hg]. apply andb_true_iff in Hi. destruct Hi as [Hi Hn].
      apply andb_true_iff in Hi. destruct Hi as [_ Hlk].
      destruct (lookup e f) as [fv|] eqn:El; [|discriminate]. destruct fv; try discriminate.
      apply strings_eqb_eq in Hlk. apply keys_nodupb_nodup in Hn.
      rewrite (eval_inst_let e f _ _ _ _ _ _ _ El).
      pose proof (run_inst_all e f slots fws [] ivars (Hfws e He Hg) Hlk) as Hrun. cbn [app map] in Hrun. apply Hrun. exact Hn.
  - discriminate.
  - discriminate.
Qed.

(* Theorem 1: for EVERY loadable value (lists, dotted lists, vectors, arrays, hash tables, lambdas, instances, nested
   without bound) the load form evaluates to the value itself, in every environment that knows the flavors of the
   instances inside the value *)
Theorem load_form_reloads : forall v, loadable v = true -> forall e, env_ok e -> insts_in e v = true ->
  bind (load_form v) (eval e) = Ok v.
Proof.
  intros v H e He Hi.
  assert (R : exists f, load_form v = Ok f /\ eval e f = Ok v).
  { destruct v; try (destruct (reloads_in _ H) as (f0 & Ef & Ev); exists f0; split; [exact Ef|exact (Ev e He Hi)]).
    - (* a symbol on its own *)
      eexists. split; [reflexivity|]. apply eval_sym; assumption.
    - cbn [loadable] in H. apply andb_true_iff in H. destruct H as [Hl _].
      eexists. split; [reflexivity|]. apply eval_lambda_form. exact Hl. }
  destruct R as (f & Ef & Ev). rewrite Ef. cbn [bind]. exact Ev.
Qed.

(* ... in particular, without instances, in the global environment *)
Theorem reload_loadable : forall v, loadable v = true -> no_inst v = true -> reload v = Ok v.
Proof.
  intros v H Hn. unfold reload. apply load_form_reloads; [exact H|apply global_env_ok|apply no_inst_insts_in; exact Hn].
Qed.

(* ---- non-vacuity: the guard admits nested values of every kind ---- *)
Definition ex_rich : obj :=
  L [Fix 1; Str "s"; Sym ":k"; Sym "fixnum"; Sym "abc"; L [Sym "quote"; Sym "let"]; Dot [Sym "a"] (Sym "b"); Big 5;
     Big 9223372036854775808; Atom "ratio" "3/4"; Atom "character" "#\a";
     Dot [Fix 2; L [Fix 3]] (Fix 4);
     Vec [Sym "a"; L [Fix 1; Vec [Fix 2] T true None]; Dot [Fix 1] (Fix 2)] T true None;
     Vec [Fix 1; Fix 2] T false None; Vec [] T true None; Vec [Fix 1; Fix 2; Fix 3] T true (Some 1);
     Arr [2; 2] [Fix 1; Fix 2; Sym "b"; Nil] T true; Arr [2; 0] [] T false; Arr [0; 2] [] T true;
     Hash [(Sym "k", Fix 12); (Str "s", Str "v"); (Fix 3, Vec [Fix 1] T true None); (Atom "character" "#\c", L [Fix 1; Sym "x"]);
           (T, Hash [(Nil, Sym "sym")]); (Sym ":kw", Dot [Fix 1] (Fix 2))];
     Lam [Sym "x"; L [Sym "y"; Fix 2]] "" [L [Sym "+"; Sym "x"; Sym "y"]]].
Lemma ex_rich_loadable : loadable ex_rich = true /\ no_inst ex_rich = true /\ reload ex_rich = Ok ex_rich.
Proof. repeat split; vm_compute; reflexivity. Qed.
Lemma ex_lambda_doc : loadable (Lam [Sym "x"] "doubles x" [L [Sym "*"; Sym "x"; Fix 2]]) = true.
Proof. vm_compute. reflexivity. Qed.

(* an instance holding a list, a symbol, a hash table and another instance; a list holding an instance *)
Definition ex_flavor : obj := Flv "blk" [("sa", Nil); ("sb", Fix 2)] true true true "".
Definition ex_env : env := ("blk", ex_flavor) :: global_env.
Definition ex_inst_value : obj :=
  L [Fix 1; Inst "blk" [("sa", L [Fix 1; Sym "two"; L [Fix 3]]);
                        ("sb", Inst "blk" [("sa", Hash [(Sym "k", Inst "blk" [("sa", Sym "abc"); ("sb", Fix 2)])]); ("sb", Fix 2)])]].
Lemma ex_inst_value_ok : loadable ex_inst_value = true /\ insts_in ex_env ex_inst_value = true
  /\ bind (load_form ex_inst_value) (eval ex_env) = Ok ex_inst_value.
Proof. repeat split; vm_compute; reflexivity. Qed.

(* ---- outside the guard: a restriction that is still a defect ---- *)
(* a rank-0 array (only the Go API can build one): AsList gives nil, make-array rejects nil as dimensions *)
Lemma rank_zero_refuted : reload (Arr [] [Fix 7] T true) = Err EType /\ loadable (Arr [] [Fix 7] T true) = false.
Proof. split; vm_compute; reflexivity. Qed.
