(* C19 — proofs *)
From Coq Require Import List String ZArith Bool Ascii.
From C19 Require Import Model Spec.
Import ListNotations.
Open Scope string_scope.
Open Scope list_scope.

Lemma reload_example : reload (L [Fix 1; Str "s"; Dot [Fix 2] (Fix 3)]) = Ok (L [Fix 1; Str "s"; Dot [Fix 2] (Fix 3)]).
Proof. reflexivity. Qed.
