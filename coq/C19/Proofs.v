(* C19 — proofs, part 1: evaluating the load form of every loadable value rebuilds the value. *)
From Coq Require Import List String ZArith Bool Ascii Lia.
From C19 Require Import Model Spec.
Import ListNotations.
Open Scope string_scope.
Open Scope list_scope.

(* nested induction over objects *)
Section ObjInd.
  Variable P : obj -> Prop.
  Hypothesis HNil : P Nil. Hypothesis HT : P T.
  Hypothesis HFix : forall z, P (Fix z). Hypothesis HBig : forall z, P (Big z).
  Hypothesis HAtom : forall k t, P (Atom k t). Hypothesis HStr : forall s, P (Str s). Hypothesis HSym : forall s, P (Sym s).
  Hypothesis HL : forall xs, Forall P xs -> P (L xs).
  Hypothesis HDot : forall xs tl, Forall P xs -> P tl -> P (Dot xs tl).
  Hypothesis HVec : forall xs et adj, Forall P xs -> P et -> P (Vec xs et adj).
  Hypothesis HArr : forall dims xs et adj, Forall P xs -> P et -> P (Arr dims xs et adj).
  Hypothesis HHash : forall kvs, Forall (fun kv => P (fst kv) /\ P (snd kv)) kvs -> P (Hash kvs).
  Hypothesis HLam : forall ll doc body, Forall P ll -> Forall P body -> P (Lam ll doc body).
  Hypothesis HInst : forall f slots, Forall (fun kv => P (snd kv)) slots -> P (Inst f slots).
  Hypothesis HFlv : forall n ivars i g s d, Forall (fun kv => P (snd kv)) ivars -> P (Flv n ivars i g s d).
  Hypothesis HOpaque : forall w, P (Opaque w).
  Fixpoint obj_ind2 (v : obj) : P v :=
    let fix all (l : list obj) : Forall P l :=
        match l with [] => Forall_nil P | a :: r => Forall_cons a (obj_ind2 a) (all r) end in
    match v with
    | Nil => HNil | T => HT | Fix z => HFix z | Big z => HBig z | Atom k t => HAtom k t | Str s => HStr s | Sym s => HSym s
    | L xs => HL xs (all xs)
    | Dot xs tl => HDot xs tl (all xs) (obj_ind2 tl)
    | Vec xs et adj => HVec xs et adj (all xs) (obj_ind2 et)
    | Arr dims xs et adj => HArr dims xs et adj (all xs) (obj_ind2 et)
    | Hash kvs => HHash kvs ((fix allp (l : list (obj * obj)) : Forall (fun kv => P (fst kv) /\ P (snd kv)) l :=
                                match l with
                                | [] => Forall_nil _
                                | (k, w) :: r => Forall_cons (k, w) (conj (obj_ind2 k) (obj_ind2 w)) (allp r)
                                end) kvs)
    | Lam ll doc body => HLam ll doc body (all ll) (all body)
    | Inst f slots => HInst f slots ((fix alls (l : list (string * obj)) : Forall (fun kv => P (snd kv)) l :=
                                        match l with
                                        | [] => Forall_nil _
                                        | (k, w) :: r => Forall_cons (k, w) (obj_ind2 w) (alls r)
                                        end) slots)
    | Flv n ivars i g s d => HFlv n ivars i g s d ((fix alls (l : list (string * obj)) : Forall (fun kv => P (snd kv)) l :=
                                        match l with
                                        | [] => Forall_nil _
                                        | (k, w) :: r => Forall_cons (k, w) (obj_ind2 w) (alls r)
                                        end) ivars)
    | Opaque w => HOpaque w
    end.
End ObjInd.

(* environments that contain the self-bound constants *)
Definition env_ok (e : env) : Prop := forall s, existsb (String.eqb s) self_bound = true -> lookup e s = Some (Sym s).

Lemma global_env_ok : env_ok global_env.
Proof.
  intros s H. unfold global_env.
  induction self_bound as [|a r IH]; [discriminate|].
  cbn [existsb] in H. cbn [map lookup].
  destruct (String.eqb s a) eqn:E.
  - apply String.eqb_eq in E. subst. rewrite String.eqb_refl. reflexivity.
  - rewrite String.eqb_sym, E. apply IH. exact H.
Qed.

Lemma env_ok_table : forall e tbl, env_ok e -> env_ok (("table", Hash tbl) :: e).
Proof.
  intros e tbl He s Hs. cbn [lookup].
  destruct ("table" =? s) eqn:E; [|apply He; exact Hs].
  apply String.eqb_eq in E. subst. vm_compute in Hs. discriminate.
Qed.

(* map_res over a list of forms that each evaluate to the corresponding value *)
Lemma map_res_ok : forall {A B} (f : A -> res B) (l : list A) (r : list B),
  Forall2 (fun a b => f a = Ok b) l r -> map_res f l = Ok r.
Proof.
  intros A B f l r H. induction H; [reflexivity|]. cbn [map_res]. rewrite H, IHForall2. reflexivity.
Qed.

(* the two local fixpoints of load_form and eval are map_res *)
Lemma load_form_list : forall xs,
  (fix go (l : list obj) : res (list obj) :=
     match l with
     | [] => Ok []
     | a :: r => bind (match a with
                       | Sym s => if is_keyword s then Ok a else Ok (quote a)
                       | _ => load_form a
                       end) (fun b => bind (go r) (fun bs => Ok (b :: bs)))
     end) xs = map_res elem_form xs.
Proof. induction xs as [|a r IH]; [reflexivity|]. cbn [map_res]. rewrite <- IH. reflexivity. Qed.

Lemma load_form_L : forall xs, load_form (L xs) = bind (map_res elem_form xs) (fun fs => Ok (L (Sym "list" :: fs))).
Proof. intro xs. cbn [load_form]. rewrite load_form_list. reflexivity. Qed.

Lemma load_form_Dot : forall xs tl,
  load_form (Dot xs tl) =
  bind (map_res elem_form xs) (fun fs => bind (elem_form tl) (fun ft =>
    match rev fs with
    | [] => Err EBadForm
    | lastf :: revhead =>
        let c := L [Sym "cons"; lastf; ft] in
        match revhead with
        | [] => Ok c
        | _ => Ok (L [Sym "append"; L (Sym "list" :: rev revhead); c])
        end
    end)).
Proof. intros xs tl. cbn [load_form]. rewrite load_form_list. reflexivity. Qed.

Lemma eval_list : forall e xs,
  (fix evs (l : list obj) : res (list obj) :=
     match l with
     | [] => Ok []
     | a :: r => bind (eval e a) (fun v => bind (evs r) (fun vs => Ok (v :: vs)))
     end) xs = map_res (eval e) xs.
Proof. induction xs as [|a r IH]; [reflexivity|]. cbn [map_res]. rewrite <- IH. reflexivity. Qed.

(* what the theorem says about one value as an element of another (for everything but a symbol elem_form is load_form) *)
Definition reloads (v : obj) : Prop :=
  exists f, elem_form v = Ok f /\ forall e, env_ok e -> eval e f = Ok v.

Lemma reloads_all : forall xs, Forall (fun v => loadable_in v = true -> reloads v) xs -> forallb loadable_in xs = true ->
  exists fs, map_res elem_form xs = Ok fs /\ forall e, env_ok e -> map_res (eval e) fs = Ok xs.
Proof.
  induction xs as [|a r IH]; intros HF Hl.
  - exists []. split; [reflexivity|]. intros; reflexivity.
  - cbn [forallb] in Hl. apply andb_true_iff in Hl. destruct Hl as [Ha Hr].
    pose proof (Forall_inv HF) as Pa. pose proof (Forall_inv_tail HF) as Pr. cbn beta in Pa.
    destruct (Pa Ha) as (fa & Efa & Eva). destruct (IH Pr Hr) as (fs & Efs & Evs).
    exists (fa :: fs). split.
    + cbn [map_res]. rewrite Efa, Efs. reflexivity.
    + intros e He. cbn [map_res]. rewrite (Eva e He), (Evs e He). reflexivity.
Qed.

Lemma map_res_app : forall {A B} (f : A -> res B) l1 l2 r1 r2,
  map_res f l1 = Ok r1 -> map_res f l2 = Ok r2 -> map_res f (l1 ++ l2) = Ok (r1 ++ r2).
Proof.
  intros A B f. induction l1 as [|a l1 IH]; intros l2 r1 r2 H1 H2.
  - cbn in H1. injection H1 as <-. exact H2.
  - cbn [map_res app] in *. destruct (f a) as [b|]; [|discriminate]. cbn [bind] in *.
    destruct (map_res f l1) as [bs|] eqn:E; [|discriminate]. cbn [bind] in H1. injection H1 as <-.
    rewrite (IH l2 bs r2 eq_refl H2). reflexivity.
Qed.

Lemma map_res_length : forall {A B} (f : A -> res B) l r, map_res f l = Ok r -> List.length r = List.length l.
Proof.
  intros A B f. induction l as [|a l IH]; intros r H.
  - cbn in H. injection H as <-. reflexivity.
  - cbn [map_res] in H. destruct (f a); [|discriminate]. cbn [bind] in H. destruct (map_res f l) eqn:E; [|discriminate].
    cbn [bind] in H. injection H as <-. cbn [List.length]. f_equal. apply IH. reflexivity.
Qed.

(* ---- atoms, symbols ---- *)
Lemma eval_sym : forall e s, env_ok e ->
  (is_keyword s && plain_sym s || existsb (String.eqb s) self_bound) = true -> eval e (Sym s) = Ok (Sym s).
Proof.
  intros e s He H. cbn [eval]. destruct (is_keyword s) eqn:K; [reflexivity|].
  cbn [andb orb] in H. rewrite (He s H). reflexivity.
Qed.

(* ---- quoted arguments and keywords inside the make-array form ---- *)
Lemma eval_quote : forall e x, eval e (quote x) = Ok x.
Proof. intros. reflexivity. Qed.

Lemma length_pos_of_nat : forall (xs : list obj), xs <> [] -> (0 <? Z.of_nat (List.length xs))%Z = true.
Proof. intros xs H. destruct xs; [contradiction|]. cbn [List.length]. apply Z.ltb_lt. lia. Qed.

Lemma eval_vec_form : forall e xs, xs <> [] ->
  eval e (make_array_form (L [Fix (Z.of_nat (List.length xs))]) T (mkL xs) true) = Ok (Vec xs T true).
Proof.
  intros e xs Hne. unfold make_array_form, et_form. cbn [app].
  assert (Hm : mkL xs = L xs) by (destruct xs; [contradiction|reflexivity]). rewrite Hm.
  cbn. rewrite (length_pos_of_nat xs Hne). cbn. reflexivity.
Qed.

(* ---- arrays: nest and flatten_dims are inverse ---- *)
Lemma chunk_length : forall n k xs, List.length (chunk n k xs) = n.
Proof. induction n; intros; cbn [chunk List.length]; [reflexivity|]. rewrite IHn. reflexivity. Qed.

Lemma chunk_concat : forall n k xs, List.length xs = n * k -> List.concat (chunk n k xs) = xs.
Proof.
  induction n as [|n IH]; intros k xs H.
  - cbn in H. destruct xs; [reflexivity|discriminate].
  - cbn [chunk List.concat]. rewrite IH.
    + apply firstn_skipn.
    + rewrite skipn_length. rewrite H. cbn [Nat.mul]. lia.
Qed.

Lemma chunk_each : forall n k xs, List.length xs = n * k -> Forall (fun ch => List.length ch = k) (chunk n k xs).
Proof.
  induction n as [|n IH]; intros k xs H; cbn [chunk]; [constructor|].
  constructor.
  - rewrite firstn_length. rewrite H. cbn [Nat.mul]. lia.
  - apply IH. rewrite skipn_length. rewrite H. cbn [Nat.mul]. lia.
Qed.

Lemma prod_dims_pos : forall ds, forallb (fun d => (0 <? d)%nat) ds = true -> 0 < prod_dims ds.
Proof.
  induction ds as [|d ds IH]; intro H; cbn [prod_dims fold_right]; [lia|].
  cbn [forallb] in H. apply andb_true_iff in H. destruct H as [Hd Hds]. apply Nat.ltb_lt in Hd.
  specialize (IH Hds). unfold prod_dims in IH. nia.
Qed.

Lemma flatten_dims_step : forall d d' ds c,
  flatten_dims (d :: d' :: ds) c =
  if negb (Nat.eqb d (List.length c)) then Err EMalformed
  else bind (map_res (fun sub => match sub with L ys => flatten_dims (d' :: ds) ys | _ => Err EType end) c)
            (fun ls => Ok (List.concat ls)).
Proof. reflexivity. Qed.

Lemma nest_flatten : forall dims xs, dims <> [] -> forallb (fun d => (0 <? d)%nat) dims = true ->
  List.length xs = prod_dims dims ->
  exists c, nest dims xs = L c /\ flatten_dims dims c = Ok xs.
Proof.
  induction dims as [|d ds IH]; intros xs Hne Hpos Hlen; [contradiction|].
  cbn [forallb] in Hpos. apply andb_true_iff in Hpos. destruct Hpos as [Hd Hds]. apply Nat.ltb_lt in Hd.
  destruct ds as [|d' ds'].
  - (* last dimension *)
    cbn [prod_dims fold_right] in Hlen. rewrite Nat.mul_1_r in Hlen.
    cbn [nest]. rewrite <- Hlen. rewrite firstn_all.
    destruct xs as [|x xs']; [cbn in Hlen; lia|].
    exists (x :: xs'). split; [reflexivity|].
    cbn [flatten_dims]. rewrite Hlen. rewrite Nat.eqb_refl. reflexivity.
  - set (k := prod_dims (d' :: ds')).
    assert (Hk : 0 < k) by (apply prod_dims_pos; exact Hds).
    assert (Hlen' : List.length xs = d * k) by (rewrite Hlen; reflexivity).
    assert (Hne' : d' :: ds' <> []) by discriminate.
    cbn [nest]. fold k.
    pose proof (chunk_each d k xs Hlen') as Hch.
    assert (Hsub : Forall2 (fun sub ch => match sub with L ys => flatten_dims (d' :: ds') ys | _ => Err EType end = Ok ch)
                           (map (nest (d' :: ds')) (chunk d k xs)) (chunk d k xs)).
    { induction Hch as [|ch chs Hc Hcs IHc]; cbn [map]; constructor; [|exact IHc].
      destruct (IH ch Hne' Hds Hc) as (c & Ec & Ef). rewrite Ec. exact Ef. }
    destruct (chunk d k xs) as [|ch0 chs] eqn:Ech.
    { pose proof (chunk_length d k xs) as Hl. rewrite Ech in Hl. cbn in Hl. lia. }
    exists (map (nest (d' :: ds')) (ch0 :: chs)). split; [reflexivity|].
    rewrite flatten_dims_step. rewrite map_length. rewrite <- Ech. rewrite chunk_length. rewrite Nat.eqb_refl. cbn [negb].
    rewrite Ech. rewrite (map_res_ok _ _ _ Hsub). cbn [bind]. rewrite <- Ech. rewrite chunk_concat by exact Hlen'. reflexivity.
Qed.

Lemma dims_of_fix : forall ds, forallb (fun d => (0 <? d)%nat) ds = true ->
  dims_of (map (fun d => Fix (Z.of_nat d)) ds) = Ok ds.
Proof.
  induction ds as [|d ds IH]; intro H; [reflexivity|].
  cbn [forallb] in H. apply andb_true_iff in H. destruct H as [Hd Hds]. apply Nat.ltb_lt in Hd.
  cbn [map dims_of]. assert ((0 <? Z.of_nat d)%Z = true) as -> by (apply Z.ltb_lt; lia).
  rewrite (IH Hds). cbn [bind]. rewrite Nat2Z.id. reflexivity.
Qed.

Lemma eval_arr_form : forall e dims xs, (2 <= List.length dims)%nat -> forallb (fun d => (0 <? d)%nat) dims = true ->
  List.length xs = prod_dims dims ->
  eval e (make_array_form (mkL (map (fun d => Fix (Z.of_nat d)) dims)) T (nest dims xs) true) = Ok (Arr dims xs T true).
Proof.
  intros e dims xs Hr Hpos Hlen.
  assert (Hne : dims <> []) by (destruct dims; [cbn in Hr; lia|discriminate]).
  destruct (nest_flatten dims xs Hne Hpos Hlen) as (c & Ec & Ef). rewrite Ec.
  assert (Hm : mkL (map (fun d => Fix (Z.of_nat d)) dims) = L (map (fun d => Fix (Z.of_nat d)) dims))
    by (destruct dims; [contradiction|reflexivity]).
  rewrite Hm. unfold make_array_form, et_form. cbn [app].
  cbn. rewrite (dims_of_fix dims Hpos). cbn. rewrite Ef. cbn.
  destruct dims as [|d1 [|d2 ds]]; [contradiction|cbn in Hr; lia|reflexivity].
Qed.

(* ---- hash tables ---- *)
Lemma self_evaluating_eval : forall e v, env_ok e -> self_evaluating v = true -> eval e v = Ok v.
Proof.
  intros e v He H. destruct v; try discriminate; try reflexivity.
  cbn [self_evaluating] in H. apply eval_sym; assumption.
Qed.

Lemma hash_set_fresh : forall tbl k v, existsb (fun kv => obj_eqb (fst kv) k) tbl = false ->
  hash_set tbl obj_eqb k v = tbl ++ [(k, v)].
Proof.
  induction tbl as [|[k' v'] r IH]; intros k v H; [reflexivity|].
  cbn [existsb fst] in H. apply orb_false_iff in H. destruct H as [H1 H2].
  cbn [hash_set]. rewrite H1. cbn [app]. f_equal. apply IH. exact H2.
Qed.

Lemma key_form_eval : forall e k w, hash_key_ok k = true ->
  exists kf, hash_entry_form (k, w) = [L [Sym "setf"; L [Sym "gethash"; kf; Sym "table"]; w]] /\ eval e kf = Ok k.
Proof.
  intros e k w H. destruct k; try discriminate.
  - (* Fix *) eexists. split; reflexivity.
  - (* Atom *) cbn [hash_key_ok] in H. apply andb_true_iff in H. destruct H as [Hk _].
    cbn [hash_entry_form fst snd].
    assert ((kind =? "character") = false) as ->.
    { apply orb_true_iff in Hk. destruct Hk as [Hk|Hk]; apply String.eqb_eq in Hk; subst; reflexivity. }
    eexists. split; reflexivity.
  - (* Str *) eexists. split; reflexivity.
  - (* Sym *) eexists. split; [reflexivity|]. reflexivity.
Qed.

(* the body of the let form built by HashTable.LoadForm, as eval runs it *)
Definition run_table (e : env) : list (obj * obj) -> list obj -> res obj :=
  fix go (tbl : list (obj * obj)) (l : list obj) : res obj :=
    match l with
    | [] => Ok Nil
    | [Sym r] => if (r =? "table")%string then Ok (Hash tbl) else Err EUnmodelled
    | L [Sym sf; L [Sym gh; kf; Sym tv']; vf] :: rest =>
        if (sf =? "setf")%string && (gh =? "gethash")%string && (tv' =? "table")%string then
          bind (eval (("table", Hash tbl) :: e) vf) (fun v =>
          bind (eval (("table", Hash tbl) :: e) kf) (fun k =>
          go (hash_set tbl obj_eqb k v) rest))
        else Err EUnmodelled
    | _ => Err EUnmodelled
    end.

Lemma eval_table_let : forall e body,
  eval e (L (Sym "let" :: L [L [Sym "table"; L [Sym "make-hash-table"]]] :: body)) = run_table e [] body.
Proof. intros. reflexivity. Qed.

Lemma run_table_entries : forall e kvs tbl, env_ok e ->
  forallb (fun kv => hash_key_ok (fst kv) && self_evaluating (snd kv)) kvs = true ->
  keys_distinct (map fst kvs) = true ->
  (forall k, In k (map fst kvs) -> existsb (fun kv => obj_eqb (fst kv) k) tbl = false) ->
  run_table e tbl (flat_map hash_entry_form kvs ++ [Sym "table"]) = Ok (Hash (tbl ++ kvs)).
Proof.
  intros e kvs. induction kvs as [|[k w] r IH]; intros tbl He Hok Hd Hfresh.
  - cbn [flat_map app run_table]. rewrite app_nil_r. reflexivity.
  - cbn [forallb fst snd] in Hok. apply andb_true_iff in Hok. destruct Hok as [Hkw Hr].
    apply andb_true_iff in Hkw. destruct Hkw as [Hk Hw].
    cbn [map fst keys_distinct] in Hd. apply andb_true_iff in Hd. destruct Hd as [Hnk Hdr]. apply negb_true_iff in Hnk.
    destruct (key_form_eval (("table", Hash tbl) :: e) k w Hk) as (kf & Ekf & Evk).
    cbn [flat_map]. rewrite Ekf. cbn [app].
    cbn [run_table]. cbn [String.eqb Ascii.eqb Bool.eqb andb].
    rewrite (self_evaluating_eval _ w (env_ok_table e tbl He) Hw). cbn [bind]. rewrite Evk. cbn [bind].
    rewrite hash_set_fresh by (apply Hfresh; left; reflexivity).
    fold (run_table e).
    rewrite (IH (tbl ++ [(k, w)]) He Hr Hdr).
    + rewrite <- app_assoc. reflexivity.
    + intros k' Hin. rewrite existsb_app. rewrite (Hfresh k' (or_intror Hin)). cbn [existsb fst orb].
      rewrite orb_false_r.
      (* k was not among the later keys *)
      clear -Hnk Hin. induction (map fst r) as [|a l IHl]; [contradiction|].
      cbn [existsb] in Hnk. apply orb_false_iff in Hnk. destruct Hnk as [H1 H2].
      destruct Hin as [<-|Hin]; [exact H1|apply IHl; assumption].
Qed.

(* ---- lambdas ---- *)
Lemma norm_ll_ok : forall ll, forallb ll_elem_ok ll = true -> map_res norm_ll_elem ll = Ok ll.
Proof.
  induction ll as [|a r IH]; intro H; [reflexivity|].
  cbn [forallb] in H. apply andb_true_iff in H. destruct H as [Ha Hr].
  cbn [map_res]. rewrite (IH Hr).
  destruct a; try discriminate; [reflexivity|].
  destruct xs as [|x1 [|x2 [|x3 xs]]]; try discriminate.
  - destruct x1; discriminate.
  - destruct x1; try discriminate. cbn [ll_elem_ok] in Ha.
    apply andb_true_iff in Ha. destruct Ha as [_ Hn].
    destruct x2; try reflexivity. discriminate.
  - destruct x1; discriminate.
Qed.

Lemma eval_lambda_form : forall e ll doc body, lam_ok ll doc body = true ->
  eval e (L ([Sym "lambda"; mkL ll] ++ (if (doc =? "")%string then [] else [Str doc]) ++ body)) = Ok (Lam ll doc body).
Proof.
  intros e ll doc body H. unfold lam_ok in H.
  apply andb_true_iff in H. destruct H as [H H3]. apply andb_true_iff in H. destruct H as [H1 H2].
  cbn [app eval]. cbn [String.eqb Ascii.eqb Bool.eqb]. unfold mk_lambda.
  assert (He : elems_of (mkL ll) = Some ll) by (destruct ll; reflexivity). rewrite He.
  rewrite (norm_ll_ok ll H1). cbn [bind].
  destruct (doc =? "") eqn:Ed.
  - apply String.eqb_eq in Ed. subst. cbn [app]. cbn [negb orb] in H2.
    destruct body as [|b1 [|b2 bs]]; try reflexivity.
    + destruct b1; reflexivity.
    + destruct b1; try reflexivity. discriminate.
  - cbn [app]. cbn [orb] in H3. destruct body as [|b1 bs]; [discriminate|]. reflexivity.
Qed.

(* the lambda list is written as it is: a default value is a form and stays that form (not its load form) *)
Lemma lambda_list_verbatim : forall ll doc body,
  exists rest, load_form (Lam ll doc body) = Ok (L (Sym "lambda" :: mkL ll :: rest)) /\ elems_of (mkL ll) = Some ll.
Proof.
  intros ll doc body. eexists. split; [reflexivity|]. destruct ll; reflexivity.
Qed.

(* ---- the main theorem ---- *)
Lemma exists_last' : forall (xs : list obj), xs <> [] -> exists xs' a, xs = xs' ++ [a].
Proof. intros xs H. destruct (exists_last H) as (xs' & a & E). eauto. Qed.

Lemma reloads_in : forall v, loadable_in v = true -> reloads v.
Proof.
  induction v using obj_ind2; intro Hl; unfold reloads.
  - exists Nil. split; [reflexivity|]. intros; reflexivity.
  - exists T. split; [reflexivity|]. intros; reflexivity.
  - eexists. split; [reflexivity|]. intros; reflexivity.
  - (* Big *)
    cbn [elem_form load_form]. destruct (is_int64 z); eexists; (split; [reflexivity|]); intros; reflexivity.
  - eexists. split; [reflexivity|]. intros; reflexivity.
  - eexists. split; [reflexivity|]. intros; reflexivity.
  - (* Sym: a keyword stands for itself, any other symbol is quoted *)
    cbn [elem_form]. destruct (is_keyword s) eqn:K; eexists; (split; [reflexivity|]); intros e He.
    + cbn [eval]. rewrite K. reflexivity.
    + reflexivity.
  - (* L *)
    cbn [loadable_in] in Hl. apply andb_true_iff in Hl. destruct Hl as [Hne Hall].
    destruct (reloads_all xs H Hall) as (fs & Efs & Evs).
    exists (L (Sym "list" :: fs)). split.
    + cbn [elem_form]. rewrite load_form_L, Efs. reflexivity.
    + intros e He. cbn [eval]. cbn [String.eqb Ascii.eqb Bool.eqb]. rewrite eval_list, (Evs e He). cbn [bind].
      unfold apply_fn. cbn [String.eqb Ascii.eqb Bool.eqb]. destruct xs; [discriminate|reflexivity].
  - (* Dot *)
    cbn [loadable_in] in Hl. apply andb_true_iff in Hl. destruct Hl as [Hl Htl]. apply andb_true_iff in Hl. destruct Hl as [Hl Hltl].
    apply andb_true_iff in Hl. destruct Hl as [Hne Hall].
    assert (Hxs : xs <> []) by (destruct xs; [discriminate|discriminate]).
    destruct (reloads_all xs H Hall) as (fs & Efs & Evs).
    destruct (IHv Hltl) as (ft & Eft & Evt).
    destruct (exists_last' xs Hxs) as (xs' & a & Exs).
    assert (Hlenfs : List.length fs = List.length xs) by (exact (map_res_length elem_form xs fs Efs)).
    assert (Hfs : fs <> []) by (intro; subst fs; rewrite Exs in Hlenfs; rewrite app_length in Hlenfs; cbn in Hlenfs; lia).
    destruct (exists_last' fs Hfs) as (fs' & fa & Efs').
    assert (Hev : forall e, env_ok e -> map_res (eval e) fs' = Ok xs' /\ eval e fa = Ok a).
    { intros e He. specialize (Evs e He). subst fs xs.
      assert (Hl1 : List.length fs' = List.length xs') by (rewrite !app_length in Hlenfs; cbn in Hlenfs; lia).
      clear -Evs Hl1. revert xs' Hl1 Evs. induction fs' as [|f1 fs' IH]; intros xs' Hl1 Evs.
      - destruct xs'; [|discriminate]. cbn [app map_res] in Evs. destruct (eval e fa); [|discriminate].
        cbn [bind] in Evs. injection Evs as ->. split; reflexivity.
      - destruct xs' as [|x1 xs']; [discriminate|]. cbn [app map_res] in Evs |- *.
        destruct (eval e f1) as [y1|]; [|discriminate]. cbn [bind] in Evs |- *.
        destruct (map_res (eval e) (fs' ++ [fa])) as [ys|] eqn:E; [|discriminate]. cbn [bind] in Evs.
        injection Evs as -> ->. injection Hl1 as Hl1. destruct (IH xs' Hl1 eq_refl) as [I1 I2].
        rewrite I1. split; [reflexivity|exact I2]. }
    cbn [elem_form]. rewrite load_form_Dot, Efs, Eft. cbn [bind]. rewrite Efs'. rewrite rev_app_distr. cbn [rev app].
    destruct (rev fs') as [|rf rfs] eqn:Erev.
    + (* a single element before the tail *)
      assert (fs' = []) by (apply (f_equal (@rev obj)) in Erev; rewrite rev_involutive in Erev; exact Erev). subst fs'.
      eexists. split; [reflexivity|]. intros e He. destruct (Hev e He) as [H1 H2].
      cbn in H1. injection H1 as <-. cbn [app] in Exs. subst xs.
      cbn [eval]. cbn [String.eqb Ascii.eqb Bool.eqb]. rewrite H2. cbn [bind]. rewrite (Evt e He). cbn [bind].
      unfold apply_fn. cbn [String.eqb Ascii.eqb Bool.eqb]. unfold cons_val. destruct v; try reflexivity; discriminate.
    + eexists. split; [reflexivity|]. intros e He. destruct (Hev e He) as [H1 H2].
      assert (Hrr : rev (rf :: rfs) = fs') by (rewrite <- Erev; apply rev_involutive).
      rewrite Hrr.
      cbn [eval]. cbn [String.eqb Ascii.eqb Bool.eqb]. rewrite eval_list, H1. cbn [bind].
      unfold apply_fn at 2. cbn [String.eqb Ascii.eqb Bool.eqb].
      rewrite H2. cbn [bind]. rewrite (Evt e He). cbn [bind].
      unfold apply_fn. cbn [String.eqb Ascii.eqb Bool.eqb].
      assert (Hxs' : xs' <> []).
      { intro; subst xs'. cbn in H1. destruct fs'; [|cbn in H1; destruct (eval e o); [|discriminate]; cbn in H1;
          destruct (map_res (eval e) fs'); discriminate].
        apply (f_equal (@rev obj)) in Hrr. rewrite rev_involutive in Hrr. discriminate. }
      unfold cons_val, append_val.
      destruct xs' as [|x1 xs'']; [contradiction|]. cbn [mkL elems_of].
      subst xs. destruct v; try reflexivity; discriminate.
  - (* Vec *)
    cbn [loadable_in] in Hl. apply andb_true_iff in Hl. destruct Hl as [Hl Hq]. apply andb_true_iff in Hl. destruct Hl as [Hl Het].
    apply andb_true_iff in Hl. destruct Hl as [Hadj Hne].
    destruct adj; [|discriminate]. destruct v; try discriminate.
    assert (Hxs : xs <> []) by (destruct xs; [discriminate|discriminate]).
    eexists. split; [reflexivity|]. intros e He. apply eval_vec_form. exact Hxs.
  - (* Arr *)
    cbn [loadable_in] in Hl. apply andb_true_iff in Hl. destruct Hl as [Hl Hq]. apply andb_true_iff in Hl. destruct Hl as [Hl Het].
    apply andb_true_iff in Hl. destruct Hl as [Hl Hlen]. apply andb_true_iff in Hl. destruct Hl as [Hl Hpos].
    apply andb_true_iff in Hl. destruct Hl as [Hadj Hrank].
    destruct adj; [|discriminate]. destruct v; try discriminate.
    apply Nat.leb_le in Hrank. apply Nat.eqb_eq in Hlen.
    eexists. split; [reflexivity|]. intros e He. apply eval_arr_form; assumption.
  - (* Hash *)
    cbn [loadable_in] in Hl. apply andb_true_iff in Hl. destruct Hl as [Hok Hd].
    eexists. split; [reflexivity|]. intros e He.
    cbn [app]. rewrite eval_table_let.
    rewrite (run_table_entries e kvs [] He Hok Hd); [reflexivity|]. intros; reflexivity.
  - (* Lam *)
    cbn [loadable_in] in Hl. apply andb_true_iff in Hl. destruct Hl as [Hl _].
    eexists. split; [reflexivity|]. intros e He. apply eval_lambda_form. exact Hl.
  - discriminate.
  - discriminate.
  - discriminate.
Qed.

(* Theorem 1: for EVERY loadable value (lists, dotted lists, vectors, arrays, hash tables, lambdas, nested without
   bound) the load form evaluates to the value itself *)
Theorem reload_loadable : forall v, loadable v = true -> reload v = Ok v.
Proof.
  intros v H. unfold reload.
  assert (R : exists f, load_form v = Ok f /\ forall e, env_ok e -> eval e f = Ok v).
  { destruct v; try exact (reloads_in _ H).
    - (* a symbol on its own *)
      eexists. split; [reflexivity|]. intros e He. apply eval_sym; assumption.
    - cbn [loadable] in H. apply andb_true_iff in H. destruct H as [Hl _].
      eexists. split; [reflexivity|]. intros e He. apply eval_lambda_form. exact Hl. }
  destruct R as (f & Ef & Ev). rewrite Ef. cbn [bind]. apply Ev. apply global_env_ok.
Qed.

(* ---- non-vacuity: the guard admits nested values of every kind ---- *)
Definition ex_rich : obj :=
  L [Fix 1; Str "s"; Sym ":k"; Sym "fixnum"; Sym "abc"; L [Sym "quote"; Sym "let"]; Dot [Sym "a"] (Sym "b"); Big 5; Big 9223372036854775808; Atom "ratio" "3/4"; Atom "character" "#\a";
     Dot [Fix 2; L [Fix 3]] (Fix 4);
     Vec [Sym "a"; L [Fix 1; Vec [Fix 2] T true]; Dot [Fix 1] (Fix 2)] T true;
     Arr [2; 2] [Fix 1; Fix 2; Sym "b"; Nil] T true;
     Hash [(Sym "k", Fix 12); (Str "s", Str "v"); (Fix 3, Vec [Fix 1] T true)];
     Lam [Sym "x"; L [Sym "y"; Fix 2]] "" [L [Sym "+"; Sym "x"; Sym "y"]]].
Lemma ex_rich_loadable : loadable ex_rich = true /\ reload ex_rich = Ok ex_rich.
Proof. split; vm_compute; reflexivity. Qed.
Lemma ex_lambda_doc : loadable (Lam [Sym "x"] "doubles x" [L [Sym "*"; Sym "x"; Fix 2]]) = true.
Proof. vm_compute. reflexivity. Qed.

(* ---- outside the guard the faithful model does NOT meet the specification: the known findings ---- *)
Lemma adjustable_lost_refuted :
  loadable (Vec [Fix 1; Fix 2] T false) = false /\ reload (Vec [Fix 1; Fix 2] T false) = Ok (Vec [Fix 1; Fix 2] T true).
Proof. repeat split; vm_compute; reflexivity. Qed.

Lemma empty_vector_refuted : loadable (Vec [] T true) = false /\ reload (Vec [] T true) = Err EType.
Proof. repeat split; vm_compute; reflexivity. Qed.

Lemma zero_dimension_refuted :
  reload (Arr [2; 0] [] T true) = Err EType /\ reload (Arr [] [Fix 7] T true) = Err EType
  /\ loadable (Arr [2; 0] [] T true) = false /\ loadable (Arr [] [Fix 7] T true) = false.
Proof. repeat split; vm_compute; reflexivity. Qed.

Lemma hash_keys_dropped_refuted :
  loadable (Hash [(Atom "character" "#\c", Fix 1)]) = false /\ reload (Hash [(Atom "character" "#\c", Fix 1)]) = Ok (Hash [])
  /\ reload (Hash [(L [Fix 1; Fix 2], Fix 1)]) = Ok (Hash []).
Proof. repeat split; vm_compute; reflexivity. Qed.

Lemma hash_values_unevaluated_refuted :
  loadable (Hash [(Fix 1, L [Fix 1; Fix 2])]) = false /\ reload (Hash [(Fix 1, L [Fix 1; Fix 2])]) = Err ENotFunction
  /\ reload (Hash [(Fix 1, Sym "abc")]) = Err (EUnbound "abc").
Proof. repeat split; vm_compute; reflexivity. Qed.
