(* C19 — proofs about the classes section: the checker is sound for every hierarchy and every order; the writer meets the
   specification on the enumerated block (42 hierarchies, evaluated by the kernel) -- the statement for ALL acyclic
   hierarchies is evaluated per run (self-check code 3), not proved. *)
From Coq Require Import List String Bool Arith Lia.
From C19 Require Import Model Session Classes.
Import ListNotations.
Open Scope string_scope.
Open Scope list_scope.

Lemma mem_In : forall s l, mem s l = true <-> In s l.
Proof.
  intros s l. unfold mem. rewrite existsb_exists. split.
  - intros (x & Hx & E). apply String.eqb_eq in E. subst. exact Hx.
  - intro H. exists s. split; [exact H|apply String.eqb_refl].
Qed.

(* soundness of the checker, for every hierarchy, every order and every position: a class written at some position has
   every user class it inherits from among the classes written before it *)
Theorem supers_before_sound : forall h order seen, supers_before h seen order = true ->
  forall l1 c l2, order = l1 ++ c :: l2 ->
  forall a, In a (ancestors (List.length h) h c) -> In a (map fst h) -> In a (seen ++ l1).
Proof.
  intros h order. induction order as [|x r IH]; intros seen H l1 c l2 E a Ha Hu.
  - destruct l1; discriminate.
  - cbn [supers_before] in H. apply andb_true_iff in H. destruct H as [Hx Hr].
    destruct l1 as [|y l1'].
    + cbn [app] in E. injection E as -> ->. rewrite app_nil_r.
      rewrite forallb_forall in Hx. specialize (Hx a Ha). apply orb_true_iff in Hx. destruct Hx as [Hx|Hx].
      * apply negb_true_iff in Hx. apply mem_In in Hu. congruence.
      * apply mem_In. exact Hx.
    + cbn [app] in E. injection E as -> ->.
      specialize (IH (y :: seen) Hr l1' c l2 eq_refl a Ha Hu).
      apply in_app_or in IH. apply in_or_app. destruct IH as [[<-|IH]|IH].
      * right. left. reflexivity.
      * left. exact IH.
      * right. right. exact IH.
Qed.

(* the order check also says: no class twice, exactly the user classes *)
Theorem order_ok_sound : forall h order, order_ok h order = true ->
  NoDup order /\ (forall c, In c order <-> In c (map fst h)).
Proof.
  intros h order H. unfold order_ok in H. apply andb_true_iff in H. destruct H as [H Hs]. apply andb_true_iff in H. destruct H as [_ Hn].
  split.
  - clear Hs. induction order as [|a r IH]; [constructor|]. cbn [nodupb] in Hn. apply andb_true_iff in Hn. destruct Hn as [Ha Hr].
    constructor; [|apply IH; exact Hr]. intro Hin. apply mem_In in Hin. apply negb_true_iff in Ha. congruence.
  - unfold same_set in Hs. apply andb_true_iff in Hs. destruct Hs as [H1 H2]. rewrite forallb_forall in H1, H2.
    intro c. split; intro Hc; apply mem_In; auto.
Qed.

(* the writer meets the specification on every hierarchy of the enumerated block: every role of three names in
   child(parent)+unrelated, chain, two parents; every role of four names in a diamond *)
Theorem class_order_block : List.length block = 42 /\ forallb (fun h => order_ok h (class_order h)) block = true.
Proof. split; vm_compute; reflexivity. Qed.

(* the order that the stable sort with less = Inherits produces for aviary(zoo), market, zoo is rejected by the checker *)
Example child_first_rejected :
  let h := [("zoo", []); ("market", []); ("aviary", ["zoo"])] in
  class_order h = ["zoo"; "aviary"; "market"] /\ order_ok h ["aviary"; "market"; "zoo"] = false.
Proof. split; vm_compute; reflexivity. Qed.
