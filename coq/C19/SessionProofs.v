(* C19 — proofs, part 2: a session inside the guard is rebuilt by loading its snapshot, and the snapshot of the
   rebuilt session is the same list of forms; for every history of definition forms. *)
From Coq Require Import List String ZArith Bool Ascii Lia Permutation OrderedTypeEx.
From C19 Require Import Model Spec Proofs Session SessionSpec.
Import ListNotations.
Open Scope string_scope.
Open Scope list_scope.

(* ---- Go's string order is a total order ---- *)
Lemma leb_iff : forall a b, String.leb a b = true <-> (String_as_OT.lt a b \/ a = b).
Proof.
  intros a b. unfold String.leb. destruct (String.compare a b) eqn:E.
  - apply String_as_OT.cmp_eq in E. split; auto.
  - apply String_as_OT.cmp_lt in E. split; auto.
  - split; [discriminate|]. intros [H|H].
    + apply String_as_OT.cmp_lt in H. unfold String_as_OT.cmp in H. congruence.
    + subst. assert (String.compare b b = Eq) by (apply String_as_OT.cmp_eq; reflexivity). congruence.
Qed.
Lemma leb_refl : forall a, String.leb a a = true.
Proof. intro a. apply leb_iff. right. reflexivity. Qed.
Lemma leb_trans : forall a b c, String.leb a b = true -> String.leb b c = true -> String.leb a c = true.
Proof.
  intros a b c H1 H2. apply leb_iff in H1. apply leb_iff in H2. apply leb_iff.
  destruct H1 as [H1| ->]; destruct H2 as [H2| ->]; auto. left. eapply String_as_OT.lt_trans; eauto.
Qed.
Lemma leb_false_leb : forall a b, String.leb a b = false -> String.leb b a = true.
Proof. intros a b H. destruct (String.leb_total a b) as [H'|H']; congruence. Qed.

(* ---- insertion sort: a permutation, canonical for distinct keys ---- *)
Section Sorting.
  Context {A : Type}.
  Implicit Types l : list (string * A).

  Lemma insert_perm : forall k a l, Permutation (insert_by k a l) ((k, a) :: l).
  Proof.
    induction l as [|[k' a'] r IH]; cbn [insert_by]; [reflexivity|].
    destruct (String.leb k k'); [reflexivity|]. rewrite IH. apply perm_swap.
  Qed.
  Lemma sort_perm : forall l, Permutation (sort_by l) l.
  Proof.
    induction l as [|[k a] r IH]; cbn [sort_by]; [reflexivity|]. rewrite insert_perm. constructor. exact IH.
  Qed.

  Lemma insert_comm : forall k a k' b l, k <> k' ->
    insert_by k a (insert_by k' b l) = insert_by k' b (insert_by k a l).
  Proof.
    intros k a k' b l Hne. induction l as [|[h c] r IH].
    - cbn [insert_by]. destruct (String.leb k k') eqn:E1; destruct (String.leb k' k) eqn:E2; try reflexivity.
      + exfalso. apply Hne. apply String.leb_antisym; assumption.
      + exfalso. apply leb_false_leb in E1. congruence.
    - cbn [insert_by].
      destruct (String.leb k' h) eqn:E1; destruct (String.leb k h) eqn:E2; cbn [insert_by]; rewrite ?E1, ?E2;
        destruct (String.leb k k') eqn:E3; destruct (String.leb k' k) eqn:E4; cbn [insert_by]; rewrite ?E1, ?E2, ?E3, ?E4;
        try reflexivity; try (rewrite IH; reflexivity); exfalso;
        try (apply Hne; apply String.leb_antisym; assumption);
        try (apply leb_false_leb in E3; congruence);
        try (rewrite (leb_trans _ _ _ E3 E1) in E2; discriminate);
        try (rewrite (leb_trans _ _ _ E4 E2) in E1; discriminate).
  Qed.

  Lemma sort_canonical : forall l l', Permutation l l' -> NoDup (map fst l) -> sort_by l = sort_by l'.
  Proof.
    intros l l' P. induction P as [| [k a] l l' P IH | [k a] [k' b] l | l l' l'' P1 IH1 P2 IH2]; intro ND.
    - reflexivity.
    - cbn [sort_by]. cbn [map fst] in ND. inversion ND; subst. rewrite IH by assumption. reflexivity.
    - cbn [sort_by]. apply insert_comm. cbn [map fst] in ND. inversion ND as [|? ? Hn _]; subst.
      intro E. apply Hn. left. symmetry. exact E.
    - rewrite IH1 by assumption. apply IH2. eapply Permutation_NoDup; [|exact ND]. apply Permutation_map. exact P1.
  Qed.

  Lemma sort_idem : forall l, NoDup (map fst l) -> sort_by (sort_by l) = sort_by l.
  Proof. intros l ND. symmetry. apply sort_canonical; [symmetry; apply sort_perm|exact ND]. Qed.

  Lemma sort_keys_perm : forall l, Permutation (map fst (sort_by l)) (map fst l).
  Proof. intro l. apply Permutation_map. apply sort_perm. Qed.
  Lemma sort_nodup : forall l, NoDup (map fst l) -> NoDup (map fst (sort_by l)).
  Proof. intros l H. eapply Permutation_NoDup; [symmetry; apply sort_keys_perm|exact H]. Qed.
End Sorting.

(* ---- association lists ---- *)
Lemma alookup_none : forall {A} (l : list (string * A)) k, ~ In k (map fst l) -> alookup l k = None.
Proof.
  induction l as [|[k' a] r IH]; intros k H; [reflexivity|]. cbn [alookup].
  destruct (k' =? k) eqn:E.
  - apply String.eqb_eq in E. subst. exfalso. apply H. left. reflexivity.
  - apply IH. intro Hin. apply H. right. exact Hin.
Qed.
Lemma aset_new : forall {A} (l : list (string * A)) k a, ~ In k (map fst l) -> aset l k a = l ++ [(k, a)].
Proof.
  induction l as [|[k' a'] r IH]; intros k a H; [reflexivity|]. cbn [aset].
  destruct (k' =? k) eqn:E.
  - apply String.eqb_eq in E. subst. exfalso. apply H. left. reflexivity.
  - cbn [app]. f_equal. apply IH. intro Hin. apply H. right. exact Hin.
Qed.
Lemma alookup_last : forall {A} (l : list (string * A)) k a, ~ In k (map fst l) -> alookup (l ++ [(k, a)]) k = Some a.
Proof.
  induction l as [|[k' a'] r IH]; intros k a H; cbn [app alookup].
  - rewrite String.eqb_refl. reflexivity.
  - destruct (k' =? k) eqn:E.
    + apply String.eqb_eq in E. subst. exfalso. apply H. left. reflexivity.
    + apply IH. intro Hin. apply H. right. exact Hin.
Qed.
Lemma aset_last : forall {A} (l : list (string * A)) k a b, ~ In k (map fst l) -> aset (l ++ [(k, a)]) k b = l ++ [(k, b)].
Proof.
  induction l as [|[k' a'] r IH]; intros k a b H; cbn [app aset].
  - rewrite String.eqb_refl. reflexivity.
  - destruct (k' =? k) eqn:E.
    + apply String.eqb_eq in E. subst. exfalso. apply H. left. reflexivity.
    + f_equal. apply IH. intro Hin. apply H. right. exact Hin.
Qed.
Lemma aset_keys_nodup : forall {A} (l : list (string * A)) k a, NoDup (map fst l) -> NoDup (map fst (aset l k a)).
Proof.
  induction l as [|[k' a'] r IH]; intros k a H; cbn [aset map fst].
  - constructor; [intros []|constructor].
  - destruct (k' =? k) eqn:E.
    + apply String.eqb_eq in E. subst. exact H.
    + cbn [map fst]. inversion H; subst. constructor; [|apply IH; assumption].
      intro Hin. apply H2.
      clear -Hin E. induction r as [|[k2 a2] r IH]; cbn [aset map fst] in *.
      * destruct Hin as [Hin|[]]. subst. rewrite String.eqb_refl in E. discriminate.
      * destruct (k2 =? k) eqn:E2.
        -- apply String.eqb_eq in E2. subst. cbn [map fst] in Hin. exact Hin.
        -- cbn [map fst] in Hin. destruct Hin as [Hin|Hin]; [left; exact Hin|right; apply IH; exact Hin].
Qed.

(* ---- names ---- *)
Lemma resolve_qual : forall n, resolve (qual n) = Some n.
Proof. intro n. reflexivity. Qed.

Lemma strip_prefix_some : forall p s r, strip_prefix p s = Some r -> s = (p ++ r)%string.
Proof.
  induction p as [|c p IH]; intros s r H; cbn [strip_prefix] in H.
  - injection H as ->. reflexivity.
  - destruct s as [|d s]; [discriminate|]. destruct (Ascii.eqb c d) eqn:E; [|discriminate].
    apply Ascii.eqb_eq in E. subst. cbn [String.append]. f_equal. apply IH. exact H.
Qed.
Lemma has_colon_app : forall a b, has_colon (a ++ b)%string = has_colon a || has_colon b.
Proof. induction a as [|c a IH]; intro b; cbn [String.append has_colon]; [reflexivity|]. rewrite IH. apply orb_assoc. Qed.
Lemma resolve_plain : forall n, has_colon n = false -> resolve n = Some n.
Proof.
  intros n H. unfold resolve. destruct (strip_prefix (qual "") n) as [r|] eqn:E.
  - apply strip_prefix_some in E. rewrite E in H. rewrite has_colon_app in H. cbn in H. discriminate.
  - rewrite H. reflexivity.
Qed.

(* ---- invariants of every history: keys are unique ---- *)
Definition keys_nodup (s : session) : Prop := NoDup (map fst (s_vars s)) /\ NoDup (map fst (s_funs s)).

Lemma Ok_inj : forall {A} (a b : A), Ok a = Ok b -> a = b.
Proof. intros A a b H. injection H as ->. reflexivity. Qed.

Ltac step_in H :=
  match type of H with
  | Ok _ = Ok _ => fail 1
  | context [bind ?r _] => destruct r eqn:?
  | context [match ?x with _ => _ end] => destruct x eqn:?
  end; cbn [bind] in H; try discriminate H.

Lemma exec_keys_nodup : forall s f s', keys_nodup s -> exec s f = Ok s' -> keys_nodup s'.
Proof.
  intros s f s' [Hv Hf] H. unfold exec, def_function in H.
  assert (Hsetv : forall n r, keys_nodup (set_var s n r)) by (intros; split; [apply aset_keys_nodup; exact Hv|exact Hf]).
  assert (Hsetf : forall n r, keys_nodup (set_fun s n r)) by (intros; split; [exact Hv|apply aset_keys_nodup; exact Hf]).
  repeat step_in H; apply Ok_inj in H; subst s'; first [apply Hsetv | apply Hsetf | split; assumption].
Qed.

Theorem run_keys_nodup : forall forms s s', keys_nodup s -> run s forms = Ok s' -> keys_nodup s'.
Proof.
  induction forms as [|f r IH]; intros s s' Hk H; cbn [run] in H.
  - injection H as <-. exact Hk.
  - destruct (exec s f) as [s1|] eqn:E; [|discriminate]. cbn [bind] in H.
    apply (IH s1 s'); [eapply exec_keys_nodup; eauto|exact H].
Qed.
Lemma empty_keys_nodup : keys_nodup empty_session.
Proof. split; constructor. Qed.

(* ---- the environment of a session with user names ---- *)
Definition names_free (vars : list (string * vrec)) : Prop :=
  forall k, In k (map fst vars) -> existsb (String.eqb k) self_bound = false.

Lemma lookup_skip : forall (l : env) (e : env) s, (forall k, In k (map fst l) -> (k =? s) = false) -> lookup (l ++ e) s = lookup e s.
Proof.
  induction l as [|[k v] r IH]; intros e s H; [reflexivity|]. cbn [app lookup].
  rewrite (H k (or_introl eq_refl)). apply IH. intros k' Hin. apply H. right. exact Hin.
Qed.

Lemma env_of_keys : forall vars k,
  In k (map fst (flat_map (fun kv : string * vrec => match v_val (snd kv) with Some v => [(fst kv, v)] | None => [] end) vars)) ->
  In k (map fst vars).
Proof.
  induction vars as [|[k' r] l IH]; intros k Hin; cbn [flat_map] in Hin; [destruct Hin|].
  cbn [map fst]. rewrite map_app in Hin. apply in_app_or in Hin. destruct Hin as [Hin|Hin].
  - left. cbn [snd fst] in Hin. destruct (v_val r); cbn in Hin; [destruct Hin as [<-|[]]; reflexivity|destruct Hin].
  - right. apply IH. exact Hin.
Qed.

Lemma env_of_ok : forall s, names_free (s_vars s) -> env_ok (env_of s).
Proof.
  intros s Hn name Hs. unfold env_of. rewrite lookup_skip.
  - apply global_env_ok. exact Hs.
  - intros k Hin. apply env_of_keys in Hin. specialize (Hn k Hin).
    destruct (k =? name) eqn:E; [|reflexivity]. apply String.eqb_eq in E. subst. congruence.
Qed.

(* ---- the value written by the snapshot evaluates back ---- *)
Lemma pp_value_eval : forall e v, env_ok e -> snap_safe v = true -> exists f, pp_value v = Ok f /\ eval e f = Ok v.
Proof.
  intros e v He H. destruct v; cbn [snap_safe] in H; try discriminate;
    try solve [eexists; split; [reflexivity|];
               first [reflexivity | apply eval_sym; assumption | apply self_evaluating_eval; assumption]].
  - (* Hash *) apply andb_true_iff in H. destruct H as [H Hn]. destruct (reloads_in _ H) as (f & Ef & Ev).
    exists f. split; [exact Ef|apply Ev; [exact He|apply no_inst_insts_in; exact Hn]].
  - (* Lam *) destruct (reloads_in _ H) as (f & Ef & Ev). exists f. split; [exact Ef|apply Ev; [exact He|reflexivity]].
Qed.

Lemma const_eval : forall e v, env_ok e -> const_safe v = true -> eval e v = Ok v.
Proof.
  intros e v He H. apply self_evaluating_eval; [exact He|]. destruct v; cbn [const_safe] in H; try discriminate; exact H.
Qed.

(* ---- single steps of the loader ---- *)
Lemma exec_defconstant : forall s n v d,
  eval (env_of s) v = Ok v -> alookup (s_vars s) n = None ->
  exec s (L ([Sym "defconstant"; Sym (qual n); v] ++ (if (d =? "")%string then [] else [Str d])))
  = Ok (set_var s n (mkV (Some v) d true)).
Proof.
  intros s n v d Hev Hl. cbn [app exec]. cbn [String.eqb Ascii.eqb Bool.eqb]. rewrite resolve_qual.
  rewrite Hev. cbn [bind]. destruct (d =? "") eqn:Ed.
  - apply String.eqb_eq in Ed. subst. cbn [bind]. rewrite Hl. reflexivity.
  - cbn [bind]. rewrite Hl. reflexivity.
Qed.

Lemma exec_defvar_new : forall s n d, alookup (s_vars s) n = None ->
  exists r0, exec s (L ([Sym "defvar"; Sym (qual n)] ++ (if (d =? "")%string then [] else [Nil; Str d]))) = Ok (set_var s n r0)
             /\ v_doc r0 = d /\ v_const r0 = false.
Proof.
  intros s n d Hl. cbn [app exec]. cbn [String.eqb Ascii.eqb Bool.eqb]. rewrite resolve_qual. rewrite Hl.
  destruct (d =? "") eqn:Ed.
  - apply String.eqb_eq in Ed. subst. eexists. split; [reflexivity|]. split; reflexivity.
  - eexists. split; [reflexivity|]. split; reflexivity.
Qed.

Lemma exec_setq : forall s n f v r0, eval (env_of s) f = Ok v -> alookup (s_vars s) n = Some r0 -> v_const r0 = false ->
  exec s (L [Sym "setq"; Sym (qual n); f]) = Ok (set_var s n (mkV (Some v) (v_doc r0) false)).
Proof.
  intros s n f v r0 Hev Hl Hc. cbn [exec]. cbn [String.eqb Ascii.eqb Bool.eqb]. rewrite resolve_qual.
  rewrite Hev. cbn [bind]. rewrite Hl. destruct r0 as [ov d c]. cbn [v_const v_doc] in *. subst c. reflexivity.
Qed.

Lemma exec_fun_form : forall s n m ll d body, has_colon n = false -> lam_ok ll d body = true ->
  exec s (fun_form (n, mkF m ll d body)) = Ok (set_fun s n (mkF m ll d body)).
Proof.
  intros s n m ll d body Hc Hl.
  pose proof (eval_lambda_form [] ll d body Hl) as Hlam. cbn [app eval] in Hlam. cbn [String.eqb Ascii.eqb Bool.eqb] in Hlam.
  unfold fun_form. destruct m; cbn [app exec]; cbn [String.eqb Ascii.eqb Bool.eqb]; unfold def_function;
    rewrite (resolve_plain n Hc); rewrite Hlam; reflexivity.
Qed.

(* ---- loading the three parts of a snapshot ---- *)
Definition is_const (kv : string * vrec) : bool := v_const (snd kv).
Definition consts_of (l : list (string * vrec)) := filter is_const l.
Definition vars_of (l : list (string * vrec)) := filter (fun kv => negb (is_const kv)) l.

Lemma load_forms_app : forall a b s,
  load_forms s (a ++ b) = let '(s1, o1) := load_forms s a in let '(s2, o2) := load_forms s1 b in (s2, o1 ++ o2).
Proof.
  induction a as [|f a IH]; intros b s; cbn [app load_forms].
  - destruct (load_forms s b). reflexivity.
  - destruct (exec s f) as [s'|]; rewrite IH.
    + destruct (load_forms s' a) as [s1 o1]. destruct (load_forms s1 b). reflexivity.
    + destruct (load_forms s a) as [s1 o1]. destruct (load_forms s1 b). reflexivity.
Qed.

Lemma var_ok_name : forall kv, var_ok kv = true ->
  has_colon (fst kv) = false /\ existsb (String.eqb (fst kv)) self_bound = false.
Proof.
  intros kv H. unfold var_ok, name_ok in H. apply andb_true_iff in H. destruct H as [H _].
  apply andb_true_iff in H. destruct H as [H H2]. apply andb_true_iff in H. destruct H as [_ H1].
  apply negb_true_iff in H1. apply negb_true_iff in H2. split; assumption.
Qed.

Lemma names_free_app : forall a b, names_free a -> names_free b -> names_free (a ++ b).
Proof. intros a b Ha Hb k Hin. rewrite map_app in Hin. apply in_app_or in Hin. destruct Hin; auto. Qed.
Lemma names_free_one : forall kv, var_ok kv = true -> names_free [kv].
Proof. intros kv H k [<-|[]]. apply var_ok_name. exact H. Qed.
Lemma names_free_one' : forall n r r', var_ok (n, r) = true -> names_free [(n, r')].
Proof. intros n r r' H k [<-|[]]. apply (var_ok_name (n, r)). exact H. Qed.

Lemma load_consts : forall l vars funs,
  forallb var_ok l = true -> NoDup (map fst l) -> (forall k, In k (map fst l) -> ~ In k (map fst vars)) -> names_free vars ->
  load_forms (mkS vars funs) (flat_map const_forms l)
  = (mkS (vars ++ consts_of l) funs, repeat true (List.length (consts_of l))).
Proof.
  induction l as [|[n r] l IH]; intros vars funs Hok Hnd Hfresh Hfree.
  - cbn. rewrite app_nil_r. reflexivity.
  - cbn [forallb] in Hok. apply andb_true_iff in Hok. destruct Hok as [Hkv Hok].
    cbn [map fst] in Hnd. inversion Hnd as [|? ? Hn Hnd']; subst.
    assert (Hnv : ~ In n (map fst vars)) by (apply Hfresh; left; reflexivity).
    assert (Hfresh' : forall k, In k (map fst l) -> ~ In k (map fst vars)) by (intros k Hk; apply Hfresh; right; exact Hk).
    cbn [flat_map]. unfold consts_of in *. cbn [filter]. unfold is_const at 1 3. cbn [snd].
    destruct r as [[v|] d [|]]; cbn [const_forms v_const].
    + (* a constant *)
      pose proof Hkv as Hkv'. unfold var_ok in Hkv'. cbn [fst snd] in Hkv'. apply andb_true_iff in Hkv'. destruct Hkv' as [_ Hcs].
      rewrite load_forms_app. cbn [load_forms].
      rewrite (exec_defconstant (mkS vars funs) n v d).
      * unfold set_var. cbn [s_vars s_funs]. rewrite (aset_new vars n _ Hnv).
        rewrite (IH (vars ++ [(n, mkV (Some v) d true)]) funs Hok Hnd').
        -- rewrite <- app_assoc. reflexivity.
        -- intros k Hk Hin. rewrite map_app in Hin. apply in_app_or in Hin. destruct Hin as [Hin|[<-|[]]];
             [exact (Hfresh' k Hk Hin)|exact (Hn Hk)].
        -- apply names_free_app; [exact Hfree|exact (names_free_one _ Hkv)].
      * apply const_eval; [apply env_of_ok; exact Hfree|exact Hcs].
      * apply alookup_none. exact Hnv.
    + apply (IH vars funs Hok Hnd' Hfresh' Hfree).
    + unfold var_ok in Hkv. cbn [fst snd] in Hkv. rewrite andb_false_r in Hkv. discriminate.
    + apply (IH vars funs Hok Hnd' Hfresh' Hfree).
Qed.

Lemma load_vars : forall l vars funs,
  forallb var_ok l = true -> NoDup (map fst l) ->
  (forall k, In k (map fst (filter (fun kv => negb (is_const kv)) l)) -> ~ In k (map fst vars)) -> names_free vars ->
  load_forms (mkS vars funs) (flat_map var_forms l)
  = (mkS (vars ++ vars_of l) funs, repeat true (2 * List.length (vars_of l))).
Proof.
  induction l as [|[n r] l IH]; intros vars funs Hok Hnd Hfresh Hfree.
  - cbn. rewrite app_nil_r. reflexivity.
  - cbn [forallb] in Hok. apply andb_true_iff in Hok. destruct Hok as [Hkv Hok].
    cbn [map fst] in Hnd. inversion Hnd as [|? ? Hn Hnd']; subst.
    cbn [flat_map]. unfold vars_of in *. cbn [filter] in Hfresh |- *. unfold is_const at 1 3. unfold is_const at 1 in Hfresh. cbn [snd] in Hfresh |- *.
    destruct r as [[v|] d [|]]; cbn [var_forms v_const negb] in Hfresh |- *.
    + apply (IH vars funs Hok Hnd' Hfresh Hfree).
    + (* a variable: defvar then setq *)
      assert (Hnv : ~ In n (map fst vars)) by (apply Hfresh; left; reflexivity).
      assert (Hfresh' : forall k, In k (map fst (filter (fun kv => negb (is_const kv)) l)) -> ~ In k (map fst vars))
        by (intros k Hk; apply Hfresh; right; exact Hk).
      pose proof Hkv as Hkv'. unfold var_ok in Hkv'. cbn [fst snd] in Hkv'. apply andb_true_iff in Hkv'. destruct Hkv' as [_ Hss].
      destruct (exec_defvar_new (mkS vars funs) n d (alookup_none vars n Hnv)) as (r0 & Ex & Hd & Hc).
      set (s1 := set_var (mkS vars funs) n r0).
      assert (Hs1 : s_vars s1 = vars ++ [(n, r0)]) by (unfold s1, set_var; cbn [s_vars]; apply aset_new; exact Hnv).
      assert (Hfree1 : names_free (s_vars s1)).
      { rewrite Hs1. apply names_free_app; [exact Hfree|]. exact (names_free_one' n _ r0 Hkv). }
      destruct (pp_value_eval (env_of s1) v (env_of_ok s1 Hfree1) Hss) as (f & Ef & Evf).
      rewrite Ef. cbn [app] in Ex |- *. cbn [load_forms]. rewrite Ex. fold s1.
      rewrite (exec_setq s1 n f v r0 Evf); [|rewrite Hs1; apply alookup_last; exact Hnv|exact Hc].
      unfold set_var at 1. rewrite Hs1. rewrite (aset_last vars n r0 _ Hnv). rewrite Hd. unfold s1, set_var at 1. cbn [s_funs].
      rewrite (IH (vars ++ [(n, mkV (Some v) d false)]) funs Hok Hnd').
      * rewrite <- app_assoc. unfold is_const. cbn [snd v_const negb List.length app].
        replace (2 * S (List.length (filter (fun kv : string * vrec => negb (v_const (snd kv))) l)))
          with (S (S (2 * List.length (filter (fun kv : string * vrec => negb (v_const (snd kv))) l)))) by lia.
        reflexivity.
      * intros k Hk Hin. rewrite map_app in Hin. apply in_app_or in Hin. destruct Hin as [Hin|[<-|[]]];
          [exact (Hfresh' k Hk Hin)|].
        apply Hn. apply in_map_iff in Hk. destruct Hk as (kv & E & Hf). apply filter_In in Hf. apply in_map_iff. exists kv. tauto.
      * apply names_free_app; [exact Hfree|exact (names_free_one _ Hkv)].
    + unfold var_ok in Hkv. cbn [fst snd] in Hkv. rewrite andb_false_r in Hkv. discriminate.
    + unfold var_ok in Hkv. cbn [fst snd] in Hkv. rewrite andb_false_r in Hkv. discriminate.
Qed.

Lemma load_funs : forall allf l vars funs,
  forallb (fun_ok allf) l = true -> NoDup (map fst l) -> (forall k, In k (map fst l) -> ~ In k (map fst funs)) ->
  load_forms (mkS vars funs) (map fun_form l) = (mkS vars (funs ++ l), repeat true (List.length l)).
Proof.
  intros allf. induction l as [|[n [m ll d body]] l IH]; intros vars funs Hok Hnd Hfresh.
  - cbn. rewrite app_nil_r. reflexivity.
  - cbn [forallb] in Hok. apply andb_true_iff in Hok. destruct Hok as [Hkv Hok].
    cbn [map fst] in Hnd. inversion Hnd as [|? ? Hn Hnd']; subst.
    assert (Hnv : ~ In n (map fst funs)) by (apply Hfresh; left; reflexivity).
    unfold fun_ok, name_ok in Hkv. cbn [fst snd f_ll f_doc f_body] in Hkv.
    apply andb_true_iff in Hkv. destruct Hkv as [Hkv _]. apply andb_true_iff in Hkv. destruct Hkv as [Hnm Hlam].
    apply andb_true_iff in Hnm. destruct Hnm as [Hnm _]. apply andb_true_iff in Hnm. destruct Hnm as [_ Hcol].
    apply negb_true_iff in Hcol.
    cbn [map load_forms]. rewrite (exec_fun_form (mkS vars funs) n m ll d body Hcol Hlam).
    unfold set_fun. cbn [s_vars s_funs]. rewrite (aset_new funs n _ Hnv).
    rewrite (IH vars (funs ++ [(n, mkF m ll d body)]) Hok Hnd').
    + rewrite <- app_assoc. reflexivity.
    + intros k Hk Hin. rewrite map_app in Hin. apply in_app_or in Hin. destruct Hin as [Hin|[<-|[]]];
        [exact (Hfresh k (or_intror Hk) Hin)|exact (Hn Hk)].
Qed.

Lemma filter_partition_perm : forall {A} (p : A -> bool) l, Permutation (filter p l ++ filter (fun x => negb (p x)) l) l.
Proof.
  induction l as [|a l IH]; [reflexivity|]. cbn [filter]. destruct (p a); cbn [negb app].
  - constructor. exact IH.
  - rewrite <- Permutation_middle. constructor. exact IH.
Qed.

Lemma forallb_perm : forall {A} (p : A -> bool) l l', Permutation l l' -> forallb p l = true -> forallb p l' = true.
Proof.
  intros A p l l' P H. apply forallb_forall. intros x Hx. rewrite forallb_forall in H. apply H.
  eapply Permutation_in; [symmetry; exact P|exact Hx].
Qed.

Lemma filter_keys_disjoint : forall {A} (p : string * A -> bool) l k, NoDup (map fst l) ->
  In k (map fst (filter (fun x => negb (p x)) l)) -> ~ In k (map fst (filter p l)).
Proof.
  induction l as [|a l IH]; intros k Hnd H1 H2; [destruct H1|].
  cbn [map fst] in Hnd. inversion Hnd as [|? ? Hn Hnd']; subst.
  assert (Hsub : forall q k0, In k0 (map fst (filter q l)) -> In k0 (map fst l)).
  { intros q k0 Hk. apply in_map_iff in Hk. destruct Hk as (kv & E & Hf). apply filter_In in Hf. apply in_map_iff. exists kv. tauto. }
  cbn [filter] in H1, H2. destruct (p a); cbn [negb map fst] in H1, H2.
  - destruct H2 as [H2|H2]; [subst; apply Hn; eapply Hsub; exact H1|exact (IH k Hnd' H1 H2)].
  - destruct H1 as [H1|H1]; [subst; apply Hn; eapply Hsub; exact H2|exact (IH k Hnd' H1 H2)].
Qed.

(* inside this guard no variable holds a flavor: the flavors section of the snapshot is empty *)
Lemma no_flavor_forms : forall l, forallb var_ok l = true -> flat_map flavor_forms l = [].
Proof.
  induction l as [|[n [ov d c]] l IH]; intro H; [reflexivity|].
  cbn [forallb] in H. apply andb_true_iff in H. destruct H as [Hkv Hl].
  cbn [flat_map]. rewrite (IH Hl). rewrite app_nil_r.
  destruct ov as [v|]; [|reflexivity]. destruct v; try reflexivity. destruct c; [reflexivity|].
  unfold var_ok in Hkv. cbn [fst snd snap_safe self_evaluating] in Hkv. rewrite andb_false_r in Hkv. discriminate.
Qed.

(* Theorem 2: a session inside the guard whose keys are unique (which every history guarantees) is rebuilt by loading
   its snapshot; every form of the snapshot loads; the snapshot of the rebuilt session is the same list of forms *)
Theorem session_roundtrip : forall s, keys_nodup s -> sess_ok s = true ->
  canon (reload_session s) = canon s
  /\ snapshot (reload_session s) = snapshot s
  /\ forallb (fun b => b) (snd (load_forms empty_session (snapshot s))) = true.
Proof.
  intros s [Hnv Hnf] Hok. unfold sess_ok in Hok. apply andb_true_iff in Hok. destruct Hok as [Hvok Hfok].
  set (sv := sort_by (s_vars s)). set (sf := sort_by (s_funs s)).
  assert (Hsvok : forallb var_ok sv = true) by (eapply forallb_perm; [symmetry; apply sort_perm|exact Hvok]).
  assert (Hsfok : forallb (fun_ok (s_funs s)) sf = true) by (eapply forallb_perm; [symmetry; apply sort_perm|exact Hfok]).
  assert (Hsvnd : NoDup (map fst sv)) by (apply sort_nodup; exact Hnv).
  assert (Hsfnd : NoDup (map fst sf)) by (apply sort_nodup; exact Hnf).
  assert (Hload : load_forms empty_session (snapshot s)
                  = (mkS (consts_of sv ++ vars_of sv) sf,
                     repeat true (List.length (consts_of sv)) ++ repeat true (2 * List.length (vars_of sv)) ++ repeat true (List.length sf))).
  { unfold snapshot. fold sv sf. rewrite (no_flavor_forms sv Hsvok). cbn [app].
    rewrite load_forms_app. unfold empty_session.
    rewrite (load_consts sv [] [] Hsvok Hsvnd); [|intros k _ []|intros k []]. cbn [app].
    rewrite load_forms_app.
    rewrite (load_vars sv (consts_of sv) [] Hsvok Hsvnd).
    - rewrite (load_funs (s_funs s) sf _ [] Hsfok Hsfnd); [|intros k _ []]. reflexivity.
    - intros k Hk. apply filter_keys_disjoint; assumption.
    - intros k Hin. unfold consts_of in Hin.
      apply in_map_iff in Hin. destruct Hin as (kv & <- & Hf). apply filter_In in Hf. destruct Hf as [Hkv _].
      rewrite forallb_forall in Hsvok. apply var_ok_name. apply Hsvok. exact Hkv. }
  assert (Hrs : reload_session s = mkS (consts_of sv ++ vars_of sv) sf).
  { unfold reload_session, load. rewrite Hload. reflexivity. }
  assert (Hperm : Permutation (consts_of sv ++ vars_of sv) (s_vars s)).
  { etransitivity; [apply filter_partition_perm|apply sort_perm]. }
  assert (Hcv : sort_by (consts_of sv ++ vars_of sv) = sort_by (s_vars s)).
  { apply sort_canonical; [exact Hperm|]. eapply Permutation_NoDup; [|exact Hnv]. apply Permutation_map. symmetry. exact Hperm. }
  assert (Hcf : sort_by sf = sort_by (s_funs s)) by (apply sort_idem; exact Hnf).
  split; [|split].
  - rewrite Hrs. unfold canon. cbn [s_vars s_funs]. rewrite Hcv, Hcf. reflexivity.
  - rewrite Hrs. unfold snapshot. cbn [s_vars s_funs]. rewrite Hcv, Hcf. reflexivity.
  - rewrite Hload. cbn [snd]. rewrite !forallb_app.
    assert (Hrep : forall n, forallb (fun b : bool => b) (repeat true n) = true) by (induction n; [reflexivity|exact IHn]).
    rewrite !Hrep. reflexivity.
Qed.

(* ... for the session built by EVERY history of definition forms the interpreter accepts *)
Theorem history_roundtrip : forall hist s, run empty_session hist = Ok s -> sess_ok s = true ->
  canon (reload_session s) = canon s /\ snapshot (reload_session s) = snapshot s
  /\ forallb (fun b => b) (snd (load_forms empty_session (snapshot s))) = true.
Proof.
  intros hist s Hrun Hok. apply session_roundtrip; [|exact Hok].
  exact (run_keys_nodup hist empty_session s empty_keys_nodup Hrun).
Qed.

(* ---- non-vacuity: a history with redefinition, setq, every kind of value, functions calling earlier-named ones ---- *)
Definition ex_history : list obj :=
  [ L [Sym "defvar"; Sym "*va*"; Fix 5; Str "my x"];
    L [Sym "defvar"; Sym "*va*"; Fix 6];
    L [Sym "defparameter"; Sym "*vb*"; quote (L [Fix 1; L [Fix 2; Str "s"]; Vec [Fix 1; Sym "a"] T true None; Sym "b"])];
    L [Sym "setq"; Sym "*vb*"; quote (Dot [Fix 1; Fix 2] (Fix 3))];
    L [Sym "defvar"; Sym "*vc*"; L [Sym "let"; L [L [Sym "table"; L [Sym "make-hash-table"]]];
                                   L [Sym "setf"; L [Sym "gethash"; quote (Sym "k"); Sym "table"]; Fix 12];
                                   L [Sym "setf"; L [Sym "gethash"; Fix 1; Sym "table"]; quote (L [Fix 1; Sym "two"])];
                                   L [Sym "setf"; L [Sym "gethash"; Str "s"; Sym "table"]; quote (Sym "sym")]; Sym "table"]];
    L [Sym "defvar"; Sym "*vd*"; L [Sym "lambda"; L [Sym "x"]; L [Sym "*"; Sym "x"; Fix 2]]];
    L [Sym "defvar"; Sym "*ve*"; quote (Sym "fixnum")];
    L [Sym "defconstant"; Sym "+ca+"; Fix 42; Str "the answer"];
    L [Sym "defun"; Sym "fa"; L [Sym "x"; Sym "&optional"; L [Sym "y"; Fix 2]]; Str "adds"; L [Sym "+"; Sym "x"; Sym "y"]];
    L [Sym "defun"; Sym "fb"; L [Sym "x"]; L [Sym "fa"; Sym "x"; Fix 1]];
    L [Sym "defmacro"; Sym "ma"; L [Sym "x"]; L [Sym "list"; quote (Sym "+"); Sym "x"; Sym "x"]];
    L [Sym "defun"; Sym "fa"; L [Sym "x"]; L [Sym "*"; Sym "x"; Fix 3]] ].

Lemma ex_history_ok : exists s, run empty_session ex_history = Ok s /\ sess_ok s = true
  /\ List.length (s_vars s) = 6 /\ List.length (s_funs s) = 3 /\ List.length (snapshot s) = 14
  /\ alookup (s_vars s) "*va*" = Some (mkV (Some (Fix 5)) "my x" false).
Proof. eexists. split; [vm_compute; reflexivity|]. repeat split; vm_compute; reflexivity. Qed.

(* ---- outside the guard the faithful model does not meet the specification: the known findings ---- *)
Definition run_or_empty (h : list obj) : session := match run empty_session h with Ok s => s | Err _ => empty_session end.

(* a symbol as a variable's value is written unquoted: (setq common-lisp-user::*sy* abc) *)
Lemma snapshot_symbol_refuted :
  let s := run_or_empty [L [Sym "defvar"; Sym "*sy*"; quote (Sym "abc")]] in
  sess_ok s = false /\ meets_spec s = false
  /\ snapshot s = [L [Sym "defvar"; Sym (qual "*sy*")]; L [Sym "setq"; Sym (qual "*sy*"); Sym "abc"]]
  /\ snd (load_forms empty_session (snapshot s)) = [true; false].
Proof. repeat split; vm_compute; reflexivity. Qed.

(* a list as a constant's value is written unquoted: (defconstant common-lisp-user::+lc+ (1 2)) *)
Lemma constant_unquoted_refuted :
  let s := run_or_empty [L [Sym "defconstant"; Sym "+lc+"; quote (L [Fix 1; Fix 2])]] in
  sess_ok s = false /\ meets_spec s = false
  /\ snapshot s = [L [Sym "defconstant"; Sym (qual "+lc+"); L [Fix 1; Fix 2]]]
  /\ snd (load_forms empty_session (snapshot s)) = [false].
Proof. repeat split; vm_compute; reflexivity. Qed.

(* a variable declared without a value is written with the printed form of the unbound marker *)
Lemma unbound_variable_refuted :
  let s := run_or_empty [L [Sym "defvar"; Sym "*u*"]] in
  sess_ok s = false /\ meets_spec s = false
  /\ snapshot s = [L [Sym "defvar"; Sym (qual "*u*")]; L [Sym "setq"; Sym (qual "*u*"); Sym "<unbound>"; Sym "0x00"]].
Proof. repeat split; vm_compute; reflexivity. Qed.

(* ---- the decidable form of the specification used by the per-run self-check ---- *)
Lemma obj_eqb_refl : forall v, obj_eqb v v = true.
Proof.
  assert (Hall : forall l, Forall (fun v => obj_eqb v v = true) l ->
            (fix all2 (l1 l2 : list obj) : bool :=
               match l1, l2 with
               | [], [] => true
               | x :: r1, y :: r2 => obj_eqb x y && all2 r1 r2
               | _, _ => false
               end) l l = true).
  { induction l as [|a r IH]; intro H; [reflexivity|]. inversion H; subst. rewrite H2. cbn [andb]. apply IH. assumption. }
  assert (Halls : forall l, Forall (fun kv : string * obj => obj_eqb (snd kv) (snd kv) = true) l ->
            (fix alls (l1 l2 : list (string * obj)) : bool :=
               match l1, l2 with
               | [], [] => true
               | (k1, v1) :: r1, (k2, v2) :: r2 => (k1 =? k2)%string && obj_eqb v1 v2 && alls r1 r2
               | _, _ => false
               end) l l = true).
  { induction l as [|[k w] r IH]; intro H; [reflexivity|]. inversion H as [|? ? Hw Hr]; subst. cbn [snd] in Hw.
    rewrite String.eqb_refl, Hw. cbn [andb]. apply IH. exact Hr. }
  induction v using obj_ind2; cbn [obj_eqb];
    try reflexivity; try apply Z.eqb_refl; try apply String.eqb_refl;
    rewrite ?String.eqb_refl, ?Hall, ?Halls, ?IHv, ?Bool.eqb_reflx by assumption; try reflexivity.
  - destruct fp; [apply Nat.eqb_refl|reflexivity].
  - destruct (list_eq_dec Nat.eq_dec dims dims); [reflexivity|contradiction].
  - induction kvs as [|[k w] r IH]; [reflexivity|]. inversion H as [|? ? [Hk Hw] Hr]; subst. cbn [fst snd] in *.
    rewrite Hk, Hw. cbn [andb]. apply IH. exact Hr.
Qed.

Lemma objs_eqb_refl : forall l, objs_eqb l l = true.
Proof. induction l as [|a r IH]; [reflexivity|]. cbn [objs_eqb]. rewrite obj_eqb_refl. exact IH. Qed.

Lemma session_eqb_refl : forall s, session_eqb s s = true.
Proof.
  intros [vars funs]. unfold session_eqb. cbn [s_vars s_funs]. apply andb_true_iff. split.
  - induction vars as [|[k [ov d c]] r IH]; [reflexivity|]. cbn [alist_eqb]. rewrite String.eqb_refl, IH.
    unfold vrec_eqb. cbn [v_val v_doc v_const]. rewrite String.eqb_refl, Bool.eqb_reflx.
    destruct ov; [rewrite obj_eqb_refl|]; reflexivity.
  - induction funs as [|[k [m ll d body]] r IH]; [reflexivity|]. cbn [alist_eqb]. rewrite String.eqb_refl, IH.
    unfold frec_eqb. cbn [f_macro f_ll f_doc f_body]. rewrite String.eqb_refl, Bool.eqb_reflx, !objs_eqb_refl. reflexivity.
Qed.

Theorem guard_meets_spec : forall hist s, run empty_session hist = Ok s -> sess_ok s = true -> meets_spec s = true.
Proof.
  intros hist s Hrun Hok. destruct (history_roundtrip hist s Hrun Hok) as (H1 & H2 & H3).
  unfold meets_spec. rewrite H3, H1, H2. rewrite session_eqb_refl, objs_eqb_refl. reflexivity.
Qed.

(* ---- instances: the value written by the snapshot for an instance evaluates back to it ---- *)

(* the guard of the theorem: instances (nested without bound) whose instance variables hold snap_safe values *)
Fixpoint snap_safe_i (v : obj) : bool :=
  match v with
  | Inst f slots =>
      negb (f =? "inst")%string &&
      (fix go (l : list (string * obj)) : bool :=
         match l with [] => true | (k, w) :: r => snap_safe_i w && go r end) slots
  | Flv _ _ _ _ _ _ => false
  | _ => snap_safe v
  end.
(* quoted data holds no instance *)
Lemma quotable_insts_in : forall v e, quotable v = true -> insts_in e v = true.
Proof.
  induction v using obj_ind2; intros e Hq; try reflexivity; try discriminate; cbn [quotable insts_in] in *.
  - apply andb_true_iff in Hq. destruct Hq as [_ Hq].
    induction xs as [|a r IHr]; [reflexivity|]. inversion H; subst. cbn [forallb] in *. apply andb_true_iff in Hq. destruct Hq as [Ha Hr].
    rewrite (H2 e Ha). cbn [andb]. apply IHr; assumption.
  - apply andb_true_iff in Hq. destruct Hq as [Hq _]. apply andb_true_iff in Hq. destruct Hq as [Hq Ht].
    apply andb_true_iff in Hq. destruct Hq as [_ Hq]. rewrite (IHv e Ht), andb_true_r.
    induction xs as [|a r IHr]; [reflexivity|]. inversion H; subst. cbn [forallb] in *. apply andb_true_iff in Hq. destruct Hq as [Ha Hr].
    rewrite (H2 e Ha). cbn [andb]. apply IHr; assumption.
Qed.

(* adding the binding of inst does not hide a flavor (no flavor is called inst) *)
Lemma insts_in_inst_i : forall v e x, snap_safe_i v = true -> insts_in e v = true -> insts_in (("inst", x) :: e) v = true.
Proof.
  induction v using obj_ind2; intros e x Hs Hi; try reflexivity.
  - apply quotable_insts_in. exact Hs.
  - apply quotable_insts_in. exact Hs.
  - cbn [snap_safe_i snap_safe] in Hs. apply andb_true_iff in Hs. destruct Hs as [_ Hn]. apply no_inst_insts_in. exact Hn.
  - cbn [snap_safe_i] in Hs. apply andb_true_iff in Hs. destruct Hs as [Hf Hs]. apply negb_true_iff in Hf.
    cbn [insts_in] in Hi |- *. apply andb_true_iff in Hi. destruct Hi as [Hi Hg]. apply andb_true_iff in Hi. destruct Hi as [Hl Hn].
    cbn [lookup]. assert (("inst" =? f) = false) as -> by (rewrite String.eqb_sym; exact Hf).
    rewrite Hl, Hn. cbn [andb]. clear Hl Hn.
    induction slots as [|[k w] r IH]; [reflexivity|].
    inversion H as [|? ? Hw Hr]; subst. cbn [snd] in Hw.
    apply andb_true_iff in Hs. destruct Hs as [Hs1 Hs2]. apply andb_true_iff in Hg. destruct Hg as [Hg1 Hg2].
    rewrite (Hw e x Hs1 Hg1). cbn [andb]. apply IH; assumption.
Qed.

(* Theorem 3: what the snapshot writes for a value -- instances included, nested without bound, every instance
   variable going through ppValue again -- evaluates back to the value, in every environment that knows the flavors *)
Theorem inst_value_reloads : forall v, snap_safe_i v = true -> forall e, env_ok e -> insts_in e v = true ->
  exists f, pp_value v = Ok f /\ eval e f = Ok v.
Proof.
  induction v using obj_ind2; intros Hs e He Hi;
    try (apply pp_value_eval; [exact He|exact Hs]).
  - (* Inst *)
    cbn [snap_safe_i] in Hs. apply andb_true_iff in Hs. destruct Hs as [Hf Hs]. apply negb_true_iff in Hf.
    cbn [insts_in] in Hi. apply andb_true_iff in Hi. destruct Hi as [Hi Hg]. apply andb_true_iff in Hi. destruct Hi as [Hl Hn].
    destruct (lookup e f) as [fv|] eqn:El; [|discriminate]. destruct fv; try discriminate.
    apply strings_eqb_eq in Hl. apply keys_nodupb_nodup in Hn.
    (* the forms of the instance variables *)
    assert (Hfws : exists fws, Forall2 (fun kv fw => pp_value (snd kv) = Ok fw /\
                                          forall cur, eval (("inst", Inst f cur) :: e) fw = Ok (snd kv)) slots fws).
    { clear El Hl Hn. induction slots as [|[k w] r IH]; [exists []; constructor|].
      inversion H as [|? ? Hw Hr]; subst. cbn [snd] in Hw.
      apply andb_true_iff in Hs. destruct Hs as [Hs1 Hs2]. apply andb_true_iff in Hg. destruct Hg as [Hg1 Hg2].
      destruct (IH Hr Hs2 Hg2) as (fws & HF).
      destruct (Hw Hs1 e He Hg1) as (fw & Epp & _).
      exists (fw :: fws). constructor; [|exact HF]. split; [exact Epp|]. intro cur.
      destruct (Hw Hs1 (("inst", Inst f cur) :: e) (env_ok_inst e _ He) (insts_in_inst_i w e _ Hs1 Hg1)) as (fw' & Epp' & Ev').
      rewrite Epp in Epp'. injection Epp' as <-. exact Ev'. }
    destruct Hfws as (fws & HF).
    exists (inst_let f (map (fun p => setf_slot (fst p) (snd p)) (combine (map fst slots) fws))). split.
    + cbn [pp_value].
      assert (Hgo : (fix go (l : list (string * obj)) : res (list obj) :=
                       match l with
                       | [] => Ok []
                       | (k, w) :: r =>
                           bind (pp_value w) (fun fw => bind (go r) (fun fs =>
                             Ok (L [Sym "setf"; L [Sym "slot-value"; Sym "inst"; quote (Sym k)]; fw] :: fs)))
                       end) slots = Ok (map (fun p => setf_slot (fst p) (snd p)) (combine (map fst slots) fws))).
      { clear -HF. induction HF as [|[k w] fw r fws [Epp _] HF IH]; [reflexivity|].
        cbn [snd] in Epp. rewrite Epp. cbn [bind]. rewrite IH. reflexivity. }
      rewrite Hgo. reflexivity.
    + rewrite (eval_inst_let e f _ _ _ _ _ _ _ El).
      assert (HF' : Forall2 (fun kv fw => forall cur, eval (("inst", Inst f cur) :: e) fw = Ok (snd kv)) slots fws).
      { clear -HF. induction HF as [|? ? ? ? [_ Hev] ? IH]; constructor; assumption. }
      pose proof (run_inst_all e f slots fws [] ivars HF' Hl) as Hrun. cbn [app map] in Hrun. apply Hrun. exact Hn.
Qed.

(* non-vacuity and the contrast with InstanceLoadForm (instance.go:56), which make-load-form uses for an instance: it
   puts the values of the instance variables into the form as they are, so an instance holding a list has a load form
   that cannot be evaluated [C19-instance-load-form-raw] *)
Definition ex_instance : obj :=
  Inst "blk" [("sa", L [Fix 1; L [Fix 2; Str "two"]; Fix 3]); ("sb", Inst "blk" [("sa", Dot [Sym "a"] (Sym "b")); ("sb", Fix 2)])].
Lemma ex_instance_ok : snap_safe_i ex_instance = true /\ insts_in ex_env ex_instance = true
  /\ bind (pp_value ex_instance) (eval ex_env) = Ok ex_instance.
Proof. repeat split; vm_compute; reflexivity. Qed.
(* a session with a flavor, an instance holding a list, a nested instance and the flavor itself, changed by send: the
   extended guard holds and the decidable specification too (evaluated, as on every run; not covered by Theorem 2) *)
Definition ex_flavor_history : list obj :=
  [ L [Sym "defflavor"; Sym "blk"; L [Sym "sa"; L [Sym "sb"; Fix 2]]; Nil; Sym ":gettable-instance-variables";
       Sym ":settable-instance-variables"; Sym ":inittable-instance-variables"];
    L [Sym "defvar"; Sym "*bi*"; L [Sym "make-instance"; quote (Sym "blk"); Sym ":sa"; quote (L [Fix 1; Fix 2; Fix 3])]];
    L [Sym "send"; Sym "*bi*"; Sym ":set-sb"; L [Sym "make-instance"; quote (Sym "blk"); Sym ":sa"; Sym "blk"]] ].
Lemma ex_flavor_history_ok :
  let s := run_or_empty ex_flavor_history in
  sess_ok_x s = true /\ sess_ok s = false /\ meets_spec s = true /\ List.length (snapshot s) = 5.
Proof. repeat split; vm_compute; reflexivity. Qed.
