(* C19 — proofs, part 2: a session inside the guard is rebuilt by loading its snapshot, and the snapshot of the
   rebuilt session is the same list of forms; for every history of definition forms. *)
From Coq Require Import List String ZArith Bool Ascii Lia Permutation OrderedTypeEx.
From C19 Require Import Model Spec Proofs Session SessionSpec.
Import ListNotations.
Open Scope string_scope.
Open Scope list_scope.

(* ---- Go's string order is a total order ---- *)
Lemma leb_iff : forall a b, String.leb a b = true <-> (String_as_OT.lt a b \/ a = b).
Proof.
  intros a b. unfold String.leb. destruct (String.compare a b) eqn:E.
  - apply String_as_OT.cmp_eq in E. split; auto.
  - apply String_as_OT.cmp_lt in E. split; auto.
  - split; [discriminate|]. intros [H|H].
    + apply String_as_OT.cmp_lt in H. unfold String_as_OT.cmp in H. congruence.
    + subst. assert (String.compare b b = Eq) by (apply String_as_OT.cmp_eq; reflexivity). congruence.
Qed.
Lemma leb_refl : forall a, String.leb a a = true.
Proof. intro a. apply leb_iff. right. reflexivity. Qed.
Lemma leb_trans : forall a b c, String.leb a b = true -> String.leb b c = true -> String.leb a c = true.
Proof.
  intros a b c H1 H2. apply leb_iff in H1. apply leb_iff in H2. apply leb_iff.
  destruct H1 as [H1| ->]; destruct H2 as [H2| ->]; auto. left. eapply String_as_OT.lt_trans; eauto.
Qed.
Lemma leb_false_leb : forall a b, String.leb a b = false -> String.leb b a = true.
Proof. intros a b H. destruct (String.leb_total a b) as [H'|H']; congruence. Qed.

(* ---- insertion sort: a permutation, canonical for distinct keys ---- *)
Section Sorting.
  Context {A : Type}.
  Implicit Types l : list (string * A).

  Lemma insert_perm : forall k a l, Permutation (insert_by k a l) ((k, a) :: l).
  Proof.
    induction l as [|[k' a'] r IH]; cbn [insert_by]; [reflexivity|].
    destruct (String.leb k k'); [reflexivity|]. rewrite IH. apply perm_swap.
  Qed.
  Lemma sort_perm : forall l, Permutation (sort_by l) l.
  Proof.
    induction l as [|[k a] r IH]; cbn [sort_by]; [reflexivity|]. rewrite insert_perm. constructor. exact IH.
  Qed.

  Lemma insert_comm : forall k a k' b l, k <> k' ->
    insert_by k a (insert_by k' b l) = insert_by k' b (insert_by k a l).
  Proof.
    intros k a k' b l Hne. induction l as [|[h c] r IH].
    - cbn [insert_by]. destruct (String.leb k k') eqn:E1; destruct (String.leb k' k) eqn:E2; try reflexivity.
      + exfalso. apply Hne. apply String.leb_antisym; assumption.
      + exfalso. apply leb_false_leb in E1. congruence.
    - cbn [insert_by].
      destruct (String.leb k' h) eqn:E1; destruct (String.leb k h) eqn:E2; cbn [insert_by]; rewrite ?E1, ?E2;
        destruct (String.leb k k') eqn:E3; destruct (String.leb k' k) eqn:E4; cbn [insert_by]; rewrite ?E1, ?E2, ?E3, ?E4;
        try reflexivity; try (rewrite IH; reflexivity); exfalso;
        try (apply Hne; apply String.leb_antisym; assumption);
        try (apply leb_false_leb in E3; congruence);
        try (rewrite (leb_trans _ _ _ E3 E1) in E2; discriminate);
        try (rewrite (leb_trans _ _ _ E4 E2) in E1; discriminate).
  Qed.

  Lemma sort_canonical : forall l l', Permutation l l' -> NoDup (map fst l) -> sort_by l = sort_by l'.
  Proof.
    intros l l' P. induction P as [| [k a] l l' P IH | [k a] [k' b] l | l l' l'' P1 IH1 P2 IH2]; intro ND.
    - reflexivity.
    - cbn [sort_by]. cbn [map fst] in ND. inversion ND; subst. rewrite IH by assumption. reflexivity.
    - cbn [sort_by]. apply insert_comm. cbn [map fst] in ND. inversion ND as [|? ? Hn _]; subst.
      intro E. apply Hn. left. symmetry. exact E.
    - rewrite IH1 by assumption. apply IH2. eapply Permutation_NoDup; [|exact ND]. apply Permutation_map. exact P1.
  Qed.

  Lemma sort_idem : forall l, NoDup (map fst l) -> sort_by (sort_by l) = sort_by l.
  Proof. intros l ND. symmetry. apply sort_canonical; [symmetry; apply sort_perm|exact ND]. Qed.

  Lemma sort_keys_perm : forall l, Permutation (map fst (sort_by l)) (map fst l).
  Proof. intro l. apply Permutation_map. apply sort_perm. Qed.
  Lemma sort_nodup : forall l, NoDup (map fst l) -> NoDup (map fst (sort_by l)).
  Proof. intros l H. eapply Permutation_NoDup; [symmetry; apply sort_keys_perm|exact H]. Qed.
End Sorting.

(* ---- association lists ---- *)
Lemma alookup_none : forall {A} (l : list (string * A)) k, ~ In k (map fst l) -> alookup l k = None.
Proof.
  induction l as [|[k' a] r IH]; intros k H; [reflexivity|]. cbn [alookup].
  destruct (k' =? k) eqn:E.
  - apply String.eqb_eq in E. subst. exfalso. apply H. left. reflexivity.
  - apply IH. intro Hin. apply H. right. exact Hin.
Qed.
Lemma aset_new : forall {A} (l : list (string * A)) k a, ~ In k (map fst l) -> aset l k a = l ++ [(k, a)].
Proof.
  induction l as [|[k' a'] r IH]; intros k a H; [reflexivity|]. cbn [aset].
  destruct (k' =? k) eqn:E.
  - apply String.eqb_eq in E. subst. exfalso. apply H. left. reflexivity.
  - cbn [app]. f_equal. apply IH. intro Hin. apply H. right. exact Hin.
Qed.
Lemma alookup_last : forall {A} (l : list (string * A)) k a, ~ In k (map fst l) -> alookup (l ++ [(k, a)]) k = Some a.
Proof.
  induction l as [|[k' a'] r IH]; intros k a H; cbn [app alookup].
  - rewrite String.eqb_refl. reflexivity.
  - destruct (k' =? k) eqn:E.
    + apply String.eqb_eq in E. subst. exfalso. apply H. left. reflexivity.
    + apply IH. intro Hin. apply H. right. exact Hin.
Qed.
Lemma aset_last : forall {A} (l : list (string * A)) k a b, ~ In k (map fst l) -> aset (l ++ [(k, a)]) k b = l ++ [(k, b)].
Proof.
  induction l as [|[k' a'] r IH]; intros k a b H; cbn [app aset].
  - rewrite String.eqb_refl. reflexivity.
  - destruct (k' =? k) eqn:E.
    + apply String.eqb_eq in E. subst. exfalso. apply H. left. reflexivity.
    + f_equal. apply IH. intro Hin. apply H. right. exact Hin.
Qed.
Lemma aset_keys_nodup : forall {A} (l : list (string * A)) k a, NoDup (map fst l) -> NoDup (map fst (aset l k a)).
Proof.
  induction l as [|[k' a'] r IH]; intros k a H; cbn [aset map fst].
  - constructor; [intros []|constructor].
  - destruct (k' =? k) eqn:E.
    + apply String.eqb_eq in E. subst. exact H.
    + cbn [map fst]. inversion H; subst. constructor; [|apply IH; assumption].
      intro Hin. apply H2.
      clear -Hin E. induction r as [|[k2 a2] r IH]; cbn [aset map fst] in *.
      * destruct Hin as [Hin|[]]. subst. rewrite String.eqb_refl in E. discriminate.
      * destruct (k2 =? k) eqn:E2.
        -- apply String.eqb_eq in E2. subst. cbn [map fst] in Hin. exact Hin.
        -- cbn [map fst] in Hin. destruct Hin as [Hin|Hin]; [left; exact Hin|right; apply IH; exact Hin].
Qed.

(* ---- names ---- *)
Lemma resolve_qual : forall n, resolve (qual n) = Some n.
Proof. intro n. reflexivity. Qed.

Lemma strip_prefix_some : forall p s r, strip_prefix p s = Some r -> s = (p ++ r)%string.
Proof.
  induction p as [|c p IH]; intros s r H; cbn [strip_prefix] in H.
  - injection H as ->. reflexivity.
  - destruct s as [|d s]; [discriminate|]. destruct (Ascii.eqb c d) eqn:E; [|discriminate].
    apply Ascii.eqb_eq in E. subst. cbn [String.append]. f_equal. apply IH. exact H.
Qed.
Lemma has_colon_app : forall a b, has_colon (a ++ b)%string = has_colon a || has_colon b.
Proof. induction a as [|c a IH]; intro b; cbn [String.append has_colon]; [reflexivity|]. rewrite IH. apply orb_assoc. Qed.
Lemma resolve_plain : forall n, has_colon n = false -> resolve n = Some n.
Proof.
  intros n H. unfold resolve. destruct (strip_prefix (qual "") n) as [r|] eqn:E.
  - apply strip_prefix_some in E. rewrite E in H. rewrite has_colon_app in H. cbn in H. discriminate.
  - rewrite H. reflexivity.
Qed.

(* ---- invariants of every history: keys are unique ---- *)
Definition keys_nodup (s : session) : Prop := NoDup (map fst (s_vars s)) /\ NoDup (map fst (s_funs s)).

Lemma Ok_inj : forall {A} (a b : A), Ok a = Ok b -> a = b.
Proof. intros A a b H. injection H as ->. reflexivity. Qed.

Ltac step_in H :=
  match type of H with
  | Ok _ = Ok _ => fail 1
  | context [bind ?r _] => destruct r eqn:?
  | context [match ?x with _ => _ end] => destruct x eqn:?
  end; cbn [bind] in H; try discriminate H.

Lemma exec_keys_nodup : forall s f s', keys_nodup s -> exec s f = Ok s' -> keys_nodup s'.
Proof.
  intros s f s' [Hv Hf] H. unfold exec, def_function in H.
  assert (Hsetv : forall n r, keys_nodup (set_var s n r)) by (intros; split; [apply aset_keys_nodup; exact Hv|exact Hf]).
  assert (Hsetf : forall n r, keys_nodup (set_fun s n r)) by (intros; split; [exact Hv|apply aset_keys_nodup; exact Hf]).
  repeat step_in H; apply Ok_inj in H; subst s'; first [apply Hsetv | apply Hsetf | split; assumption].
Qed.

Theorem run_keys_nodup : forall forms s s', keys_nodup s -> run s forms = Ok s' -> keys_nodup s'.
Proof.
  induction forms as [|f r IH]; intros s s' Hk H; cbn [run] in H.
  - injection H as <-. exact Hk.
  - destruct (exec s f) as [s1|] eqn:E; [|discriminate]. cbn [bind] in H.
    apply (IH s1 s'); [eapply exec_keys_nodup; eauto|exact H].
Qed.
Lemma empty_keys_nodup : keys_nodup empty_session.
Proof. split; constructor. Qed.

(* ---- the environment of a session with user names ---- *)
Definition names_free (vars : list (string * vrec)) : Prop :=
  forall k, In k (map fst vars) -> existsb (String.eqb k) self_bound = false.

Lemma lookup_skip : forall (l : env) (e : env) s, (forall k, In k (map fst l) -> (k =? s) = false) -> lookup (l ++ e) s = lookup e s.
Proof.
  induction l as [|[k v] r IH]; intros e s H; [reflexivity|]. cbn [app lookup].
  rewrite (H k (or_introl eq_refl)). apply IH. intros k' Hin. apply H. right. exact Hin.
Qed.

Lemma env_of_keys : forall vars k,
  In k (map fst (flat_map (fun kv : string * vrec => match v_val (snd kv) with Some v => [(fst kv, v)] | None => [] end) vars)) ->
  In k (map fst vars).
Proof.
  induction vars as [|[k' r] l IH]; intros k Hin; cbn [flat_map] in Hin; [destruct Hin|].
  cbn [map fst]. rewrite map_app in Hin. apply in_app_or in Hin. destruct Hin as [Hin|Hin].
  - left. cbn [snd fst] in Hin. destruct (v_val r); cbn in Hin; [destruct Hin as [<-|[]]; reflexivity|destruct Hin].
  - right. apply IH. exact Hin.
Qed.

Lemma env_of_ok : forall s, names_free (s_vars s) -> env_ok (env_of s).
Proof.
  intros s Hn name Hs. unfold env_of. rewrite lookup_skip.
  - apply global_env_ok. exact Hs.
  - intros k Hin. apply env_of_keys in Hin. specialize (Hn k Hin).
    destruct (k =? name) eqn:E; [|reflexivity]. apply String.eqb_eq in E. subst. congruence.
Qed.

(* ---- the value written by the snapshot evaluates back ---- *)
Definition slot_pp (kv : string * obj) : res obj := bind (pp_value (snd kv)) (fun fw => Ok (setf_slot (fst kv) fw)).

Lemma pp_value_list : forall xs,
  (fix go (l : list obj) : res (list obj) :=
     match l with
     | [] => Ok []
     | a :: r => bind (pp_value a) (fun b => bind (go r) (fun bs => Ok (b :: bs)))
     end) xs = map_res pp_value xs.
Proof. induction xs as [|a r IH]; [reflexivity|]. cbn [map_res]. rewrite <- IH. reflexivity. Qed.

Lemma pp_value_slots : forall slots,
  (fix go (l : list (string * obj)) : res (list obj) :=
     match l with
     | [] => Ok []
     | (k, w) :: r => bind (pp_value w) (fun fw => bind (go r) (fun fs => Ok (setf_slot k fw :: fs)))
     end) slots = map_res slot_pp slots.
Proof.
  induction slots as [|[k w] r IH]; [reflexivity|]. cbn [map_res]. rewrite <- IH. unfold slot_pp. cbn [fst snd].
  destruct (pp_value w); reflexivity.
Qed.

Lemma pp_value_L : forall xs, forallb is_literal xs = false ->
  pp_value (L xs) = bind (map_res pp_value xs) (fun fs => Ok (L (Sym "list" :: fs))).
Proof. intros xs H. cbn [pp_value]. rewrite H, pp_value_list. reflexivity. Qed.

Lemma pp_value_Inst : forall f slots, pp_value (Inst f slots) = bind (map_res slot_pp slots) (fun es => Ok (inst_let f es)).
Proof. intros f slots. cbn [pp_value]. rewrite pp_value_slots. reflexivity. Qed.

(* what the snapshot writes for a value evaluates to the value, in every environment that knows the flavors of the
   instances inside it *)
Definition vreloads (v : obj) : Prop :=
  exists f, pp_value v = Ok f /\ forall e, env_ok e -> insts_in e v = true -> eval e f = Ok v.

Lemma vreloads_all : forall xs, Forall (fun v => snap_safe v = true -> vreloads v) xs -> forallb snap_safe xs = true ->
  exists fs, map_res pp_value xs = Ok fs /\
             forall e, env_ok e -> forallb (insts_in e) xs = true -> map_res (eval e) fs = Ok xs.
Proof.
  induction xs as [|a r IH]; intros HF Hl.
  - exists []. split; [reflexivity|]. intros; reflexivity.
  - cbn [forallb] in Hl. apply andb_true_iff in Hl. destruct Hl as [Ha Hr].
    pose proof (Forall_inv HF) as Pa. pose proof (Forall_inv_tail HF) as Pr. cbn beta in Pa.
    destruct (Pa Ha) as (fa & Efa & Eva). destruct (IH Pr Hr) as (fs & Efs & Evs).
    exists (fa :: fs). split.
    + cbn [map_res]. rewrite Efa, Efs. reflexivity.
    + intros e He Hi. cbn [forallb] in Hi. apply andb_true_iff in Hi. destruct Hi as [Hia Hir].
      cbn [map_res]. rewrite (Eva e He Hia), (Evs e He Hir). reflexivity.
Qed.

Theorem value_reloads_in : forall v, snap_safe v = true -> vreloads v.
Proof.
  unfold snap_safe.
  induction v using obj_ind2; intro Hs; unfold vreloads; cbn [snap_safe_g] in Hs; try discriminate;
    try solve [eexists; split; [reflexivity|]; intros; reflexivity].
  - (* Sym *)
    cbn [pp_value]. destruct (is_keyword s) eqn:K; eexists; (split; [reflexivity|]); intros e He _.
    + cbn [eval]. rewrite K. reflexivity.
    + reflexivity.
  - (* L *)
    destruct (forallb is_literal xs) eqn:Elit.
    + eexists. split; [cbn [pp_value]; rewrite Elit; reflexivity|]. intros; reflexivity.
    + fold (snap_safe_g false) in *. destruct (vreloads_all xs H Hs) as (fs & Efs & Evs).
      exists (L (Sym "list" :: fs)). split; [rewrite (pp_value_L xs Elit), Efs; reflexivity|].
      intros e He Hi. cbn [insts_in] in Hi. cbn [eval]. cbn [String.eqb Ascii.eqb Bool.eqb]. rewrite eval_list, (Evs e He Hi). cbn [bind].
      unfold apply_fn. cbn [String.eqb Ascii.eqb Bool.eqb]. destruct xs; [discriminate|reflexivity].
  - (* Dot *)
    destruct (is_literal (Dot xs v)) eqn:Elit.
    + eexists. split; [cbn [pp_value]; rewrite Elit; reflexivity|]. intros; reflexivity.
    + destruct (reloads_in _ Hs) as (f & Ef & Ev). exists f. split; [cbn [pp_value]; rewrite Elit; exact Ef|exact Ev].
  - (* Hash *) destruct (reloads_in _ Hs) as (f & Ef & Ev). exists f. split; [exact Ef|exact Ev].
  - (* Lam *) destruct (reloads_in _ Hs) as (f & Ef & Ev). exists f. split; [exact Ef|exact Ev].
  - (* Inst: every instance variable through ppValue again *)
    fold (snap_safe_g false) in *.
    assert (Hfws : exists fws, map_res slot_pp slots = Ok (map (fun p => setf_slot (fst p) (snd p)) (combine (map fst slots) fws)) /\
              forall e, env_ok e ->
                (fix go (l : list (string * obj)) : bool := match l with [] => true | (_, w) :: r => insts_in e w && go r end) slots = true ->
                Forall2 (fun kv fw => forall cur, eval (("inst", Inst f cur) :: e) fw = Ok (snd kv)) slots fws).
    { induction slots as [|[k w] r IHr].
      - exists []. split; [reflexivity|]. intros; constructor.
      - inversion H as [|? ? Pw Pr]; subst. cbn [snd] in Pw.
        apply andb_true_iff in Hs. destruct Hs as [Hw Hr]. apply andb_true_iff in Hw. destruct Hw as [_ Hw].
        destruct (IHr Pr Hr) as (fws & Efws & Hfws). destruct (Pw Hw) as (fw & Efw & Evw).
        exists (fw :: fws). split.
        + cbn [map_res]. unfold slot_pp at 1. cbn [fst snd]. rewrite Efw. cbn [bind]. rewrite Efws. reflexivity.
        + intros e He Hi. apply andb_true_iff in Hi. destruct Hi as [Hiw Hir].
          constructor; [|apply Hfws; assumption]. intro cur. cbn [snd].
          apply Evw; [apply env_ok_inst; exact He|apply insts_in_inst; exact Hiw]. }
    destruct Hfws as (fws & Efws & Hfws).
    eexists. split.
    + rewrite pp_value_Inst, Efws. reflexivity.
    + intros e He Hi. cbn [insts_in] in Hi. apply andb_true_iff in Hi. destruct Hi as [Hi Hg]. apply andb_true_iff in Hi. destruct Hi as [Hi Hn].
      apply andb_true_iff in Hi. destruct Hi as [_ Hlk].
      destruct (lookup e f) as [fv|] eqn:El; [|discriminate]. destruct fv; try discriminate.
      apply strings_eqb_eq in Hlk. apply keys_nodupb_nodup in Hn.
      rewrite (eval_inst_let e f _ _ _ _ _ _ _ El).
      pose proof (run_inst_all e f slots fws [] ivars (Hfws e He Hg) Hlk) as Hrun. cbn [app map] in Hrun. apply Hrun. exact Hn.
Qed.

(* Theorem 3: for EVERY value inside the guard -- symbols, lists of data, lists that hold tables or instances, hash
   tables, lambdas, instances whose variables hold any such value, nested without bound -- the form the snapshot writes
   evaluates back to the value, in every environment that knows the flavors of the instances *)
Theorem value_reloads : forall v, snap_safe v = true -> forall e, env_ok e -> insts_in e v = true ->
  exists f, pp_value v = Ok f /\ eval e f = Ok v.
Proof.
  intros v Hs e He Hi. destruct (value_reloads_in v Hs) as (f & Ef & Ev). exists f. split; [exact Ef|exact (Ev e He Hi)].
Qed.

(* ---- single steps of the loader ---- *)
Lemma exec_defconstant : forall s n f v d,
  eval (env_of s) f = Ok v -> alookup (s_vars s) n = None ->
  exec s (L ([Sym "defconstant"; Sym (qual n); f] ++ (if (d =? "")%string then [] else [Str d])))
  = Ok (set_var s n (mkV (Some v) d true)).
Proof.
  intros s n f v d Hev Hl. cbn [app exec]. cbn [String.eqb Ascii.eqb Bool.eqb]. rewrite resolve_qual.
  rewrite Hev. cbn [bind]. destruct (d =? "") eqn:Ed.
  - apply String.eqb_eq in Ed. subst. cbn [bind]. rewrite Hl. reflexivity.
  - cbn [bind]. rewrite Hl. reflexivity.
Qed.

Lemma exec_defvar_unbound : forall s n, alookup (s_vars s) n = None ->
  exec s (L [Sym "defvar"; Sym (qual n)]) = Ok (set_var s n (mkV None "" false)).
Proof.
  intros s n Hl. cbn [exec]. cbn [String.eqb Ascii.eqb Bool.eqb]. rewrite resolve_qual. rewrite Hl. reflexivity.
Qed.

Lemma exec_defvar_new : forall s n d, alookup (s_vars s) n = None ->
  exists r0, exec s (L ([Sym "defvar"; Sym (qual n)] ++ (if (d =? "")%string then [] else [Nil; Str d]))) = Ok (set_var s n r0)
             /\ v_doc r0 = d /\ v_const r0 = false.
Proof.
  intros s n d Hl. cbn [app exec]. cbn [String.eqb Ascii.eqb Bool.eqb]. rewrite resolve_qual. rewrite Hl.
  destruct (d =? "") eqn:Ed.
  - apply String.eqb_eq in Ed. subst. eexists. split; [reflexivity|]. split; reflexivity.
  - eexists. split; [reflexivity|]. split; reflexivity.
Qed.

Lemma exec_setq : forall s n f v r0, eval (env_of s) f = Ok v -> alookup (s_vars s) n = Some r0 -> v_const r0 = false ->
  exec s (L [Sym "setq"; Sym (qual n); f]) = Ok (set_var s n (mkV (Some v) (v_doc r0) false)).
Proof.
  intros s n f v r0 Hev Hl Hc. cbn [exec]. cbn [String.eqb Ascii.eqb Bool.eqb]. rewrite resolve_qual.
  rewrite Hev. cbn [bind]. rewrite Hl. destruct r0 as [ov d c]. cbn [v_const v_doc] in *. subst c. reflexivity.
Qed.

Lemma exec_fun_form : forall s n m ll d body, has_colon n = false -> lam_ok ll d body = true ->
  exec s (fun_form (n, mkF m ll d body)) = Ok (set_fun s n (mkF m ll d body)).
Proof.
  intros s n m ll d body Hc Hl.
  pose proof (eval_lambda_form [] ll d body Hl) as Hlam. cbn [app eval] in Hlam. cbn [String.eqb Ascii.eqb Bool.eqb] in Hlam.
  unfold fun_form. destruct m; cbn [app exec]; cbn [String.eqb Ascii.eqb Bool.eqb]; unfold def_function;
    rewrite (resolve_plain n Hc); rewrite Hlam; reflexivity.
Qed.

(* ---- loading the three parts of a snapshot ---- *)
Definition is_const (kv : string * vrec) : bool := v_const (snd kv).
Definition consts_of (l : list (string * vrec)) := filter is_const l.
Definition vars_of (l : list (string * vrec)) := filter (fun kv => negb (is_const kv)) l.

Lemma load_forms_app : forall a b s,
  load_forms s (a ++ b) = let '(s1, o1) := load_forms s a in let '(s2, o2) := load_forms s1 b in (s2, o1 ++ o2).
Proof.
  induction a as [|f a IH]; intros b s; cbn [app load_forms].
  - destruct (load_forms s b). reflexivity.
  - destruct (exec s f) as [s'|]; rewrite IH.
    + destruct (load_forms s' a) as [s1 o1]. destruct (load_forms s1 b). reflexivity.
    + destruct (load_forms s a) as [s1 o1]. destruct (load_forms s1 b). reflexivity.
Qed.

Lemma var_ok_name : forall kv, var_ok kv = true ->
  has_colon (fst kv) = false /\ existsb (String.eqb (fst kv)) self_bound = false.
Proof.
  intros kv H. unfold var_ok, name_ok in H. apply andb_true_iff in H. destruct H as [H _].
  apply andb_true_iff in H. destruct H as [H H2]. apply andb_true_iff in H. destruct H as [_ H1].
  apply negb_true_iff in H1. apply negb_true_iff in H2. split; assumption.
Qed.

Lemma names_free_app : forall a b, names_free a -> names_free b -> names_free (a ++ b).
Proof. intros a b Ha Hb k Hin. rewrite map_app in Hin. apply in_app_or in Hin. destruct Hin; auto. Qed.
Lemma names_free_one : forall kv, var_ok kv = true -> names_free [kv].
Proof. intros kv H k [<-|[]]. apply var_ok_name. exact H. Qed.
Lemma names_free_one' : forall n r r', var_ok (n, r) = true -> names_free [(n, r')].
Proof. intros n r r' H k [<-|[]]. apply (var_ok_name (n, r)). exact H. Qed.

Lemma var_ok_value : forall n v d c, var_ok (n, mkV (Some v) d c) = true -> snap_safe v = true /\ no_inst v = true.
Proof.
  intros n v d c H. unfold var_ok in H. cbn [fst snd] in H. apply andb_true_iff in H. destruct H as [_ H].
  apply andb_true_iff in H. exact H.
Qed.

Lemma load_consts : forall l vars funs,
  forallb var_ok l = true -> NoDup (map fst l) -> (forall k, In k (map fst l) -> ~ In k (map fst vars)) -> names_free vars ->
  load_forms (mkS vars funs) (flat_map const_forms l)
  = (mkS (vars ++ consts_of l) funs, repeat true (List.length (consts_of l))).
Proof.
  induction l as [|[n r] l IH]; intros vars funs Hok Hnd Hfresh Hfree.
  - cbn. rewrite app_nil_r. reflexivity.
  - cbn [forallb] in Hok. apply andb_true_iff in Hok. destruct Hok as [Hkv Hok].
    cbn [map fst] in Hnd. inversion Hnd as [|? ? Hn Hnd']; subst.
    assert (Hnv : ~ In n (map fst vars)) by (apply Hfresh; left; reflexivity).
    assert (Hfresh' : forall k, In k (map fst l) -> ~ In k (map fst vars)) by (intros k Hk; apply Hfresh; right; exact Hk).
    cbn [flat_map]. unfold consts_of in *. cbn [filter]. unfold is_const at 1 3. cbn [snd].
    destruct r as [[v|] d [|]]; cbn [const_forms v_const].
    + (* a constant: its value is written by ppValue *)
      destruct (var_ok_value _ _ _ _ Hkv) as [Hss Hni].
      destruct (value_reloads v Hss (env_of (mkS vars funs)) (env_of_ok (mkS vars funs) Hfree) (no_inst_insts_in v _ Hni)) as (f & Ef & Evf).
      rewrite Ef. rewrite load_forms_app. cbn [load_forms].
      rewrite (exec_defconstant (mkS vars funs) n f v d Evf (alookup_none vars n Hnv)).
      unfold set_var. cbn [s_vars s_funs]. rewrite (aset_new vars n _ Hnv).
      rewrite (IH (vars ++ [(n, mkV (Some v) d true)]) funs Hok Hnd').
      * rewrite <- app_assoc. reflexivity.
      * intros k Hk Hin. rewrite map_app in Hin. apply in_app_or in Hin. destruct Hin as [Hin|[<-|[]]];
          [exact (Hfresh' k Hk Hin)|exact (Hn Hk)].
      * apply names_free_app; [exact Hfree|exact (names_free_one _ Hkv)].
    + apply (IH vars funs Hok Hnd' Hfresh' Hfree).
    + unfold var_ok in Hkv. cbn [fst snd negb] in Hkv. rewrite !andb_false_r in Hkv. discriminate.
    + apply (IH vars funs Hok Hnd' Hfresh' Hfree).
Qed.

Lemma load_vars : forall l vars funs,
  forallb var_ok l = true -> NoDup (map fst l) ->
  (forall k, In k (map fst (filter (fun kv => negb (is_const kv)) l)) -> ~ In k (map fst vars)) -> names_free vars ->
  load_forms (mkS vars funs) (flat_map var_forms l)
  = (mkS (vars ++ vars_of l) funs, repeat true (List.length (flat_map var_forms l))).
Proof.
  induction l as [|[n r] l IH]; intros vars funs Hok Hnd Hfresh Hfree.
  - cbn. rewrite app_nil_r. reflexivity.
  - cbn [forallb] in Hok. apply andb_true_iff in Hok. destruct Hok as [Hkv Hok].
    cbn [map fst] in Hnd. inversion Hnd as [|? ? Hn Hnd']; subst.
    cbn [flat_map]. unfold vars_of in *. cbn [filter] in Hfresh |- *. unfold is_const at 1 3. unfold is_const at 1 in Hfresh. cbn [snd] in Hfresh |- *.
    destruct r as [[v|] d [|]]; cbn [var_forms v_const negb] in Hfresh |- *.
    + apply (IH vars funs Hok Hnd' Hfresh Hfree).
    + (* a variable with a value: defvar then setq *)
      assert (Hnv : ~ In n (map fst vars)) by (apply Hfresh; left; reflexivity).
      assert (Hfresh' : forall k, In k (map fst (filter (fun kv => negb (is_const kv)) l)) -> ~ In k (map fst vars))
        by (intros k Hk; apply Hfresh; right; exact Hk).
      destruct (var_ok_value _ _ _ _ Hkv) as [Hss Hni].
      destruct (exec_defvar_new (mkS vars funs) n d (alookup_none vars n Hnv)) as (r0 & Ex & Hd & Hc).
      set (s1 := set_var (mkS vars funs) n r0).
      assert (Hs1 : s_vars s1 = vars ++ [(n, r0)]) by (unfold s1, set_var; cbn [s_vars]; apply aset_new; exact Hnv).
      assert (Hfree1 : names_free (s_vars s1)).
      { rewrite Hs1. apply names_free_app; [exact Hfree|]. exact (names_free_one' n _ r0 Hkv). }
      destruct (value_reloads v Hss (env_of s1) (env_of_ok s1 Hfree1) (no_inst_insts_in v _ Hni)) as (f & Ef & Evf).
      rewrite Ef. cbn [app] in Ex |- *. cbn [load_forms]. rewrite Ex. fold s1.
      rewrite (exec_setq s1 n f v r0 Evf); [|rewrite Hs1; apply alookup_last; exact Hnv|exact Hc].
      unfold set_var at 1. rewrite Hs1. rewrite (aset_last vars n r0 _ Hnv). rewrite Hd. unfold s1, set_var at 1. cbn [s_funs].
      rewrite (IH (vars ++ [(n, mkV (Some v) d false)]) funs Hok Hnd').
      * rewrite <- app_assoc. unfold is_const. cbn [snd v_const negb List.length app]. reflexivity.
      * intros k Hk Hin. rewrite map_app in Hin. apply in_app_or in Hin. destruct Hin as [Hin|[<-|[]]];
          [exact (Hfresh' k Hk Hin)|].
        apply Hn. apply in_map_iff in Hk. destruct Hk as (kv & E & Hf). apply filter_In in Hf. apply in_map_iff. exists kv. tauto.
      * apply names_free_app; [exact Hfree|exact (names_free_one _ Hkv)].
    + unfold var_ok in Hkv. cbn [fst snd negb] in Hkv. rewrite !andb_false_r in Hkv. discriminate.
    + (* declared without a value: the defvar alone *)
      assert (Hnv : ~ In n (map fst vars)) by (apply Hfresh; left; reflexivity).
      assert (Hfresh' : forall k, In k (map fst (filter (fun kv => negb (is_const kv)) l)) -> ~ In k (map fst vars))
        by (intros k Hk; apply Hfresh; right; exact Hk).
      assert (Hd : d = "").
      { unfold var_ok in Hkv. cbn [fst snd] in Hkv. apply andb_true_iff in Hkv. destruct Hkv as [_ Hkv].
        apply andb_true_iff in Hkv. destruct Hkv as [Hd _]. apply String.eqb_eq in Hd. exact Hd. }
      subst d. cbn [String.eqb app]. cbn [load_forms].
      rewrite (exec_defvar_unbound (mkS vars funs) n (alookup_none vars n Hnv)).
      unfold set_var. cbn [s_vars s_funs]. rewrite (aset_new vars n _ Hnv).
      rewrite (IH (vars ++ [(n, mkV None "" false)]) funs Hok Hnd').
      * rewrite <- app_assoc. unfold is_const. cbn [snd v_const negb List.length app]. reflexivity.
      * intros k Hk Hin. rewrite map_app in Hin. apply in_app_or in Hin. destruct Hin as [Hin|[<-|[]]];
          [exact (Hfresh' k Hk Hin)|].
        apply Hn. apply in_map_iff in Hk. destruct Hk as (kv & E & Hf). apply filter_In in Hf. apply in_map_iff. exists kv. tauto.
      * apply names_free_app; [exact Hfree|exact (names_free_one _ Hkv)].
Qed.

Lemma load_funs : forall allf l vars funs,
  forallb (fun_ok allf) l = true -> NoDup (map fst l) -> (forall k, In k (map fst l) -> ~ In k (map fst funs)) ->
  load_forms (mkS vars funs) (map fun_form l) = (mkS vars (funs ++ l), repeat true (List.length l)).
Proof.
  intros allf. induction l as [|[n [m ll d body]] l IH]; intros vars funs Hok Hnd Hfresh.
  - cbn. rewrite app_nil_r. reflexivity.
  - cbn [forallb] in Hok. apply andb_true_iff in Hok. destruct Hok as [Hkv Hok].
    cbn [map fst] in Hnd. inversion Hnd as [|? ? Hn Hnd']; subst.
    assert (Hnv : ~ In n (map fst funs)) by (apply Hfresh; left; reflexivity).
    unfold fun_ok, name_ok in Hkv. cbn [fst snd f_ll f_doc f_body] in Hkv.
    apply andb_true_iff in Hkv. destruct Hkv as [Hkv _]. apply andb_true_iff in Hkv. destruct Hkv as [Hnm Hlam].
    apply andb_true_iff in Hnm. destruct Hnm as [Hnm _]. apply andb_true_iff in Hnm. destruct Hnm as [_ Hcol].
    apply negb_true_iff in Hcol.
    cbn [map load_forms]. rewrite (exec_fun_form (mkS vars funs) n m ll d body Hcol Hlam).
    unfold set_fun. cbn [s_vars s_funs]. rewrite (aset_new funs n _ Hnv).
    rewrite (IH vars (funs ++ [(n, mkF m ll d body)]) Hok Hnd').
    + rewrite <- app_assoc. reflexivity.
    + intros k Hk Hin. rewrite map_app in Hin. apply in_app_or in Hin. destruct Hin as [Hin|[<-|[]]];
        [exact (Hfresh k (or_intror Hk) Hin)|exact (Hn Hk)].
Qed.

Lemma filter_partition_perm : forall {A} (p : A -> bool) l, Permutation (filter p l ++ filter (fun x => negb (p x)) l) l.
Proof.
  induction l as [|a l IH]; [reflexivity|]. cbn [filter]. destruct (p a); cbn [negb app].
  - constructor. exact IH.
  - rewrite <- Permutation_middle. constructor. exact IH.
Qed.

Lemma forallb_perm : forall {A} (p : A -> bool) l l', Permutation l l' -> forallb p l = true -> forallb p l' = true.
Proof.
  intros A p l l' P H. apply forallb_forall. intros x Hx. rewrite forallb_forall in H. apply H.
  eapply Permutation_in; [symmetry; exact P|exact Hx].
Qed.

Lemma filter_keys_disjoint : forall {A} (p : string * A -> bool) l k, NoDup (map fst l) ->
  In k (map fst (filter (fun x => negb (p x)) l)) -> ~ In k (map fst (filter p l)).
Proof.
  induction l as [|a l IH]; intros k Hnd H1 H2; [destruct H1|].
  cbn [map fst] in Hnd. inversion Hnd as [|? ? Hn Hnd']; subst.
  assert (Hsub : forall q k0, In k0 (map fst (filter q l)) -> In k0 (map fst l)).
  { intros q k0 Hk. apply in_map_iff in Hk. destruct Hk as (kv & E & Hf). apply filter_In in Hf. apply in_map_iff. exists kv. tauto. }
  cbn [filter] in H1, H2. destruct (p a); cbn [negb map fst] in H1, H2.
  - destruct H2 as [H2|H2]; [subst; apply Hn; eapply Hsub; exact H1|exact (IH k Hnd' H1 H2)].
  - destruct H1 as [H1|H1]; [subst; apply Hn; eapply Hsub; exact H2|exact (IH k Hnd' H1 H2)].
Qed.

(* inside this guard no variable holds a flavor: the flavors section of the snapshot is empty *)
Lemma no_flavor_forms : forall l, forallb var_ok l = true -> flat_map flavor_forms l = [].
Proof.
  induction l as [|[n [ov d c]] l IH]; intro H; [reflexivity|].
  cbn [forallb] in H. apply andb_true_iff in H. destruct H as [Hkv Hl].
  cbn [flat_map]. rewrite (IH Hl). rewrite app_nil_r.
  destruct ov as [v|]; [|reflexivity]. destruct v; try reflexivity. destruct c; [reflexivity|].
  destruct (var_ok_value _ _ _ _ Hkv) as [Hss _]. discriminate.
Qed.

Lemma repeat_true_all : forall n, forallb (fun b : bool => b) (repeat true n) = true.
Proof. induction n; [reflexivity|exact IHn]. Qed.

Lemma funs_order_perm : forall l, Permutation (funs_order l) l.
Proof. intro l. unfold funs_order. apply filter_partition_perm. Qed.

(* Theorem 2: a session inside the guard whose keys are unique (which every history guarantees) is rebuilt by loading
   its snapshot; every form of the snapshot loads; the snapshot of the rebuilt session is the same list of forms *)
Theorem session_roundtrip : forall s, keys_nodup s -> sess_ok s = true ->
  canon (reload_session s) = canon s
  /\ snapshot (reload_session s) = snapshot s
  /\ forallb (fun b => b) (snd (load_forms empty_session (snapshot s))) = true.
Proof.
  intros s [Hnv Hnf] Hok. unfold sess_ok in Hok. apply andb_true_iff in Hok. destruct Hok as [Hvok Hfok].
  set (sv := sort_by (s_vars s)). set (sf := sort_by (s_funs s)). set (of := funs_order sf).
  assert (Hsvok : forallb var_ok sv = true) by (eapply forallb_perm; [symmetry; apply sort_perm|exact Hvok]).
  assert (Hpof : Permutation of (s_funs s)) by (etransitivity; [apply funs_order_perm|apply sort_perm]).
  assert (Hofok : forallb (fun_ok (s_funs s)) of = true) by (eapply forallb_perm; [symmetry; exact Hpof|exact Hfok]).
  assert (Hsvnd : NoDup (map fst sv)) by (apply sort_nodup; exact Hnv).
  assert (Hofnd : NoDup (map fst of)) by (eapply Permutation_NoDup; [apply Permutation_map; symmetry; exact Hpof|exact Hnf]).
  assert (Hload : exists oks, load_forms empty_session (snapshot s) = (mkS (consts_of sv ++ vars_of sv) of, oks)
                              /\ forallb (fun b => b) oks = true).
  { unfold snapshot. fold sv sf of. rewrite (no_flavor_forms sv Hsvok). cbn [app].
    rewrite load_forms_app. unfold empty_session.
    rewrite (load_consts sv [] [] Hsvok Hsvnd); [|intros k _ []|intros k []]. cbn [app].
    rewrite load_forms_app.
    rewrite (load_vars sv (consts_of sv) [] Hsvok Hsvnd).
    - rewrite (load_funs (s_funs s) of _ [] Hofok Hofnd); [|intros k _ []]. eexists. split; [reflexivity|].
      rewrite !forallb_app, !repeat_true_all. reflexivity.
    - intros k Hk. apply filter_keys_disjoint; assumption.
    - intros k Hin. unfold consts_of in Hin.
      apply in_map_iff in Hin. destruct Hin as (kv & <- & Hf). apply filter_In in Hf. destruct Hf as [Hkv _].
      rewrite forallb_forall in Hsvok. apply var_ok_name. apply Hsvok. exact Hkv. }
  destruct Hload as (oks & Hload & Hoks).
  assert (Hrs : reload_session s = mkS (consts_of sv ++ vars_of sv) of).
  { unfold reload_session, load. rewrite Hload. reflexivity. }
  assert (Hperm : Permutation (consts_of sv ++ vars_of sv) (s_vars s)).
  { etransitivity; [apply filter_partition_perm|apply sort_perm]. }
  assert (Hcv : sort_by (consts_of sv ++ vars_of sv) = sort_by (s_vars s)).
  { apply sort_canonical; [exact Hperm|]. eapply Permutation_NoDup; [|exact Hnv]. apply Permutation_map. symmetry. exact Hperm. }
  assert (Hcf : sort_by of = sort_by (s_funs s)).
  { apply sort_canonical; [exact Hpof|exact Hofnd]. }
  split; [|split].
  - rewrite Hrs. unfold canon. cbn [s_vars s_funs]. rewrite Hcv, Hcf. reflexivity.
  - rewrite Hrs. unfold snapshot. cbn [s_vars s_funs]. rewrite Hcv, Hcf. reflexivity.
  - rewrite Hload. cbn [snd]. exact Hoks.
Qed.

(* ... for the session built by EVERY history of definition forms the interpreter accepts *)
Theorem history_roundtrip : forall hist s, run empty_session hist = Ok s -> sess_ok s = true ->
  canon (reload_session s) = canon s /\ snapshot (reload_session s) = snapshot s
  /\ forallb (fun b => b) (snd (load_forms empty_session (snapshot s))) = true.
Proof.
  intros hist s Hrun Hok. apply session_roundtrip; [|exact Hok].
  exact (run_keys_nodup hist empty_session s empty_keys_nodup Hrun).
Qed.

(* ---- non-vacuity: a history with redefinition, setq, every kind of value (symbols, a table with several entries and
   list values), a list constant, a variable without a value, functions calling later-named ones, a macro used by an
   earlier-named function ---- *)
Definition ex_history : list obj :=
  [ L [Sym "defvar"; Sym "*va*"; Fix 5; Str "my x"];
    L [Sym "defvar"; Sym "*va*"; Fix 6];
    L [Sym "defparameter"; Sym "*vb*"; quote (L [Fix 1; L [Fix 2; Str "s"]; Vec [Fix 1; Sym "a"] T true None; Sym "b"])];
    L [Sym "setq"; Sym "*vb*"; quote (Dot [Fix 1; Fix 2] (Fix 3))];
    L [Sym "defvar"; Sym "*vc*"; L [Sym "let"; L [L [Sym "table"; L [Sym "make-hash-table"]]];
                                   L [Sym "setf"; L [Sym "gethash"; quote (Sym "k"); Sym "table"]; Fix 12];
                                   L [Sym "setf"; L [Sym "gethash"; Fix 1; Sym "table"]; quote (L [Fix 1; Sym "two"])];
                                   L [Sym "setf"; L [Sym "gethash"; Str "s"; Sym "table"]; quote (Sym "sym")]; Sym "table"]];
    L [Sym "defvar"; Sym "*vd*"; L [Sym "lambda"; L [Sym "x"]; L [Sym "*"; Sym "x"; Fix 2]]];
    L [Sym "defvar"; Sym "*ve*"; quote (Sym "abc")];
    L [Sym "defvar"; Sym "*vf*"];
    L [Sym "defvar"; Sym "*vg*"; L [Sym "list"; Fix 1; L [Sym "lambda"; L [Sym "x"]; Sym "x"]; quote (L [Sym "a"; Sym "b"])]];
    L [Sym "defconstant"; Sym "+ca+"; Fix 42; Str "the answer"];
    L [Sym "defconstant"; Sym "+cb+"; quote (L [Fix 1; Sym "two"])];
    L [Sym "defun"; Sym "fa"; L [Sym "x"; Sym "&optional"; L [Sym "y"; Fix 2]]; Str "adds"; L [Sym "+"; Sym "x"; Sym "y"]];
    L [Sym "defun"; Sym "fb"; L [Sym "x"]; L [Sym "zz"; L [Sym "ma"; Sym "x"]; Fix 1]];
    L [Sym "defmacro"; Sym "ma"; L [Sym "x"]; L [Sym "list"; quote (Sym "+"); Sym "x"; Sym "x"]];
    L [Sym "defun"; Sym "zz"; L [Sym "x"; Sym "y"]; L [Sym "fa"; Sym "x"; Sym "y"]];
    L [Sym "defun"; Sym "fa"; L [Sym "x"]; L [Sym "*"; Sym "x"; Fix 3]] ].

Lemma ex_history_ok : exists s, run empty_session ex_history = Ok s /\ sess_ok s = true
  /\ List.length (s_vars s) = 9 /\ List.length (s_funs s) = 4 /\ List.length (snapshot s) = 19
  /\ alookup (s_vars s) "*va*" = Some (mkV (Some (Fix 5)) "my x" false)
  /\ map (fun f => match f with L (_ :: Sym n :: _) => n | _ => "" end) (skipn 15 (snapshot s)) = ["ma"; "fa"; "fb"; "zz"].
Proof. eexists. split; [vm_compute; reflexivity|]. repeat split; vm_compute; reflexivity. Qed.

Definition run_or_empty (h : list obj) : session := match run empty_session h with Ok s => s | Err _ => empty_session end.

(* ---- the decidable form of the specification used by the per-run self-check ---- *)
Lemma obj_eqb_refl : forall v, obj_eqb v v = true.
Proof.
  assert (Hall : forall l, Forall (fun v => obj_eqb v v = true) l ->
            (fix all2 (l1 l2 : list obj) : bool :=
               match l1, l2 with
               | [], [] => true
               | x :: r1, y :: r2 => obj_eqb x y && all2 r1 r2
               | _, _ => false
               end) l l = true).
  { induction l as [|a r IH]; intro H; [reflexivity|]. inversion H; subst. rewrite H2. cbn [andb]. apply IH. assumption. }
  assert (Halls : forall l, Forall (fun kv : string * obj => obj_eqb (snd kv) (snd kv) = true) l ->
            (fix alls (l1 l2 : list (string * obj)) : bool :=
               match l1, l2 with
               | [], [] => true
               | (k1, v1) :: r1, (k2, v2) :: r2 => (k1 =? k2)%string && obj_eqb v1 v2 && alls r1 r2
               | _, _ => false
               end) l l = true).
  { induction l as [|[k w] r IH]; intro H; [reflexivity|]. inversion H as [|? ? Hw Hr]; subst. cbn [snd] in Hw.
    rewrite String.eqb_refl, Hw. cbn [andb]. apply IH. exact Hr. }
  induction v using obj_ind2; cbn [obj_eqb];
    try reflexivity; try apply Z.eqb_refl; try apply String.eqb_refl;
    rewrite ?String.eqb_refl, ?Hall, ?Halls, ?IHv, ?Bool.eqb_reflx by assumption; try reflexivity.
  - destruct fp; [apply Nat.eqb_refl|reflexivity].
  - destruct (list_eq_dec Nat.eq_dec dims dims); [reflexivity|contradiction].
  - induction kvs as [|[k w] r IH]; [reflexivity|]. inversion H as [|? ? [Hk Hw] Hr]; subst. cbn [fst snd] in *.
    rewrite Hk, Hw. cbn [andb]. apply IH. exact Hr.
Qed.

Lemma objs_eqb_refl : forall l, objs_eqb l l = true.
Proof. induction l as [|a r IH]; [reflexivity|]. cbn [objs_eqb]. rewrite obj_eqb_refl. exact IH. Qed.

Lemma session_eqb_refl : forall s, session_eqb s s = true.
Proof.
  intros [vars funs]. unfold session_eqb. cbn [s_vars s_funs]. apply andb_true_iff. split.
  - induction vars as [|[k [ov d c]] r IH]; [reflexivity|]. cbn [alist_eqb]. rewrite String.eqb_refl, IH.
    unfold vrec_eqb. cbn [v_val v_doc v_const]. rewrite String.eqb_refl, Bool.eqb_reflx.
    destruct ov; [rewrite obj_eqb_refl|]; reflexivity.
  - induction funs as [|[k [m ll d body]] r IH]; [reflexivity|]. cbn [alist_eqb]. rewrite String.eqb_refl, IH.
    unfold frec_eqb. cbn [f_macro f_ll f_doc f_body]. rewrite String.eqb_refl, Bool.eqb_reflx, !objs_eqb_refl. reflexivity.
Qed.

Theorem guard_meets_spec : forall hist s, run empty_session hist = Ok s -> sess_ok s = true -> meets_spec s = true.
Proof.
  intros hist s Hrun Hok. destruct (history_roundtrip hist s Hrun Hok) as (H1 & H2 & H3).
  unfold meets_spec. rewrite H3, H1, H2. rewrite session_eqb_refl, objs_eqb_refl. reflexivity.
Qed.

(* ---- non-vacuity of Theorem 3: an instance holding lists, a list that holds an instance and a table ---- *)
Definition ex_instance : obj :=
  Inst "blk" [("sa", L [Fix 1; L [Fix 2; Str "two"]; Sym "three"]);
              ("sb", L [Inst "blk" [("sa", Dot [Sym "a"] (Sym "b")); ("sb", Fix 2)]; Hash [(Sym "k", L [Fix 1])]; Sym ":kw"])].
Lemma ex_instance_ok : snap_safe ex_instance = true /\ insts_in ex_env ex_instance = true
  /\ bind (pp_value ex_instance) (eval ex_env) = Ok ex_instance.
Proof. repeat split; vm_compute; reflexivity. Qed.

(* a session with a flavor, an instance holding a list, a nested instance and the flavor itself, changed by send: the
   extended guard holds and the decidable specification too (evaluated, as on every run; not covered by Theorem 2) *)
Definition ex_flavor_history : list obj :=
  [ L [Sym "defflavor"; Sym "blk"; L [Sym "sa"; L [Sym "sb"; Fix 2]]; Nil; Sym ":gettable-instance-variables";
       Sym ":settable-instance-variables"; Sym ":inittable-instance-variables"];
    L [Sym "defvar"; Sym "*bi*"; L [Sym "make-instance"; quote (Sym "blk"); Sym ":sa"; quote (L [Fix 1; Fix 2; Fix 3])]];
    L [Sym "send"; Sym "*bi*"; Sym ":set-sb"; L [Sym "make-instance"; quote (Sym "blk"); Sym ":sa"; Sym "blk"]] ].
Lemma ex_flavor_history_ok :
  let s := run_or_empty ex_flavor_history in
  sess_ok_x s = true /\ sess_ok s = false /\ meets_spec s = true /\ List.length (snapshot s) = 5.
Proof. repeat split; vm_compute; reflexivity. Qed.
