(* C19 — specification S and guard, part 1 (data load forms).
   S: evaluating the load form of v rebuilds v (structural equality on the modelled universe, which is finer than
   slip's Equal: it also looks at the adjustable flag).  The guard `loadable` delimits the values for which the
   code (with repo_fixes/C19-2 .. C19-9) meets S; what is left are restrictions of the modelled universe. *)
From Coq Require Import List String ZArith Bool Ascii.
From C19 Require Import Model.
Import ListNotations.
Open Scope string_scope.
Open Scope list_scope.

Definition spec_reload (v : obj) : res obj := Ok v.

(* --- tokens that survive the printer and the reader unchanged (the lexical side is Lex.v) --- *)
Definition delim (c : ascii) : bool :=
  let n := nat_of_ascii c in
  ((n <=? 32) || (127 <=? n) || (n =? 34) || (n =? 39) || (n =? 40) || (n =? 41) || (n =? 44) || (n =? 59) || (n =? 96)
  || (n =? 124) || (n =? 92) || (n =? 35))%nat.
Fixpoint no_delim (s : string) : bool :=
  match s with EmptyString => true | String c r => negb (delim c) && no_delim r end.
Definition upper (c : ascii) : bool := let n := nat_of_ascii c in ((65 <=? n) && (n <=? 90))%nat.
Fixpoint no_upper (s : string) : bool :=
  match s with EmptyString => true | String c r => negb (upper c) && no_upper r end.
Definition digitc (c : ascii) : bool := let n := nat_of_ascii c in ((48 <=? n) && (n <=? 57))%nat.
Definition letterc (c : ascii) : bool := let n := nat_of_ascii c in ((97 <=? n) && (n <=? 122))%nat.
(* a plain symbol: starts with a lower-case letter, '*', '&', or '+' followed by a letter; no delimiter, no upper
   case, no '.'  *)
Fixpoint no_dot (s : string) : bool :=
  match s with EmptyString => true | String c r => negb (Nat.eqb (nat_of_ascii c) 46) && no_dot r end.
Definition plain_name (s : string) : bool :=
  match s with
  | EmptyString => false
  | String c r => (letterc c || Nat.eqb (nat_of_ascii c) 42 || Nat.eqb (nat_of_ascii c) 38
                   || (Nat.eqb (nat_of_ascii c) 43 && match r with String d _ => letterc d | EmptyString => false end))
                  && no_delim r && no_upper r && no_dot r
  end.
Definition plain_sym (s : string) : bool :=
  match s with
  | String ":"%char r => plain_name r
  | _ => plain_name s
  end.

(* atoms whose kind survives a print/read cycle in slip; characters only when the character itself is not
   a delimiter: #\( #\) are rejected by slip's reader [C19-char-paren] *)
Definition atom_ok (k tok : string) : bool :=
  ((k =? "ratio") || (k =? "double-float") || (k =? "single-float") || (k =? "long-float")) && no_delim tok
  || ((k =? "character") && match tok with
                            | String "#"%char (String "\"%char r) => negb (r =? "") && no_delim r
                            | _ => false
                            end).

(* data that may stand inside (quote ...): it is printed readably and read back *)
Fixpoint quotable (v : obj) : bool :=
  match v with
  | Nil | T | Fix _ | Str _ => true
  | Big z => negb (is_int64 z)                 (* a small bignum is read back as a fixnum *)
  | Atom k tok => atom_ok k tok
  | Sym s => plain_sym s
  | L xs => negb (match xs with [] => true | _ => false end) && forallb quotable xs
  | Dot xs tl => negb (match xs with [] => true | _ => false end) && forallb quotable xs && quotable tl
                 && match tl with Nil | L _ | Dot _ _ => false | _ => true end
  | Vec xs et adj fp => forallb quotable xs && obj_eqb et T && adj   (* #(...) is read as an adjustable vector *)
                        && match fp with None => true | Some _ => false end   (* ... without a fill pointer *)
  | _ => false
  end.

Definition self_evaluating (v : obj) : bool :=
  match v with
  | Nil | T | Fix _ | Str _ => true
  | Big z => negb (is_int64 z)
  | Atom k tok => atom_ok k tok
  | Sym s => (is_keyword s && plain_sym s) || existsb (String.eqb s) self_bound
  | Vec _ _ _ _ => quotable v
  | _ => false
  end.

(* keys that Go compares by value (pointer-typed numbers -- bignums, ratios, long floats -- as keys are C16's finding; a
   vector or an instance as a key is compared by identity, which no load form can restore) *)
Definition hash_key_ok (k : obj) : bool :=
  match k with
  | Nil | T => true
  | Sym s => plain_sym s
  | Str _ | Fix _ => true
  | Atom kd tok => (((kd =? "double-float") || (kd =? "single-float")) && no_delim tok) || ((kd =? "character") && atom_ok kd tok)
  | _ => false
  end.
Fixpoint keys_distinct (ks : list obj) : bool :=
  match ks with [] => true | k :: r => negb (existsb (obj_eqb k) r) && keys_distinct r end.

(* a lambda-list element: a parameter name (or &optional, &key, ...), or (name default) where the default is a FORM
   (any code tree: it is stored unevaluated and evaluated at call time), written as it is by FuncDoc.LoadForm,
   FuncInfo.LoadForm and Dynamic.LoadForm; (name nil) is the same as name *)
Definition ll_elem_ok (a : obj) : bool :=
  match a with
  | Sym s => plain_sym s
  | L [Sym s; d] => plain_sym s && negb (obj_eqb d Nil)
  | _ => false
  end.

(* a documentation string the pretty printer leaves alone: printer.go:760 AppendDoc drops every '_', does not escape
   quotes or backslashes, and re-flows the text at the margin [C19-doc-string-mangled]; inside the guard a lambda
   carries a doc string only at top level, where 2 + 2 + 14 columns fit the narrowest margin *)
Definition doc_char_ok (c : ascii) : bool :=
  let n := nat_of_ascii c in ((32 <=? n) && (n <? 127) && negb (n =? 34) && negb (n =? 92) && negb (n =? 95))%nat.
Fixpoint doc_chars_ok (s : string) : bool :=
  match s with EmptyString => true | String c r => doc_char_ok c && doc_chars_ok r end.
Definition doc_ok (s : string) : bool := doc_chars_ok s && (String.length s <=? 14)%nat.

Definition lam_ok (ll : list obj) (doc : string) (body : list obj) : bool :=
  forallb ll_elem_ok ll
  && (negb (doc =? "") || match body with Str _ :: _ :: _ => false | _ => true end)
  && ((doc =? "") || negb (match body with [] => true | _ => false end)).

Fixpoint strings_eqb (a b : list string) : bool :=
  match a, b with
  | [], [] => true
  | x :: a', y :: b' => (x =? y)%string && strings_eqb a' b'
  | _, _ => false
  end.
Fixpoint keys_nodupb (l : list string) : bool :=
  match l with [] => true | k :: r => negb (existsb (String.eqb k) r) && keys_nodupb r end.

(* the guard, for a value nested inside another (an element).  What is left are restrictions of the modelled universe
   (element type t, readable tokens, keys compared by value, the doc/body shape of DefLambda). *)
Fixpoint loadable_in (v : obj) : bool :=
  match v with
  | Nil | T | Fix _ | Str _ | Big _ => true
  | Atom k tok => atom_ok k tok
  | Sym s => plain_sym s                      (* an element: a keyword stands for itself, any other symbol is quoted *)
  | L xs => negb (match xs with [] => true | _ => false end) && forallb loadable_in xs
  | Dot xs tl => negb (match xs with [] => true | _ => false end) && forallb loadable_in xs && loadable_in tl
                 && match tl with Nil | L _ | Dot _ _ => false | _ => true end
  | Vec xs et adj fp => obj_eqb et T && forallb quotable xs
  | Arr dims xs et adj =>
      (2 <=? List.length dims)%nat        (* rank 1 is a vector; rank 0 only the Go API can build [C19-rank-zero-array] *)
      && Nat.eqb (List.length xs) (prod_dims dims) && obj_eqb et T && forallb quotable xs
  | Hash kvs =>
      forallb (fun kv => hash_key_ok (fst kv) && loadable_in (snd kv)) kvs
      && keys_distinct (map fst kvs)
  | Lam ll doc body => lam_ok ll doc body && (doc =? "")
  | Inst f slots =>
      (fix go (l : list (string * obj)) : bool := match l with [] => true | (_, w) :: r => loadable_in w && go r end) slots
  | Flv _ _ _ _ _ _ => false     (* a flavor's load form is its defflavor form: Session.v *)
  | Opaque _ => false
  end.

(* every instance inside v belongs to a flavor the environment knows, with exactly its instance variables; no such
   flavor is called table or inst: the load forms of hash tables and instances bind these two variables around the
   forms of the values, a flavor of that name would be hidden from them *)
Fixpoint insts_in (e : env) (v : obj) : bool :=
  match v with
  | Inst f slots =>
      negb (f =? "inst")%string && negb (f =? "table")%string &&
      match lookup e f with
      | Some (Flv _ ivars _ _ _ _) => strings_eqb (map fst ivars) (map fst slots)
      | _ => false
      end && keys_nodupb (map fst slots) &&
      (fix go (l : list (string * obj)) : bool := match l with [] => true | (_, w) :: r => insts_in e w && go r end) slots
  | L xs => forallb (insts_in e) xs
  | Dot xs tl => forallb (insts_in e) xs && insts_in e tl
  | Hash kvs => forallb (fun kv => insts_in e (snd kv)) kvs
  | _ => true
  end.
(* no instance anywhere (where load forms look: vectors and arrays hold quoted data) *)
Fixpoint no_inst (v : obj) : bool :=
  match v with
  | Inst _ _ => false
  | L xs => forallb no_inst xs
  | Dot xs tl => forallb no_inst xs && no_inst tl
  | Hash kvs => forallb (fun kv => no_inst (snd kv)) kvs
  | _ => true
  end.

(* the guard *)
Definition loadable (v : obj) : bool :=
  match v with
  | Lam ll doc body => lam_ok ll doc body && doc_ok doc
  (* a symbol on its own: Symbol.LoadForm is the symbol (make-load-form of a symbol is about what it names); it
     evaluates to itself only when it is a keyword or a constant bound to itself *)
  | Sym s => (is_keyword s && plain_sym s) || existsb (String.eqb s) self_bound
  | _ => loadable_in v
  end.

Fixpoint has_lambda (v : obj) : bool :=
  match v with
  | Lam _ _ _ => true
  | L xs => existsb has_lambda xs
  | Dot xs tl => existsb has_lambda xs || has_lambda tl
  | Vec xs _ _ _ | Arr _ xs _ _ => existsb has_lambda xs
  | Hash kvs => existsb (fun kv => has_lambda (snd kv)) kvs
  | _ => false
  end.
