(* C19 — a one-line printer of objects, for replays and debugging only (nothing depends on it). *)
From Coq Require Import List String ZArith Bool Ascii DecimalString.
From C19 Require Import Model.
Import ListNotations.
Open Scope string_scope.

Definition show_Z (z : Z) : string := NilZero.string_of_int (Z.to_int z).
Fixpoint show (v : obj) : string :=
  let fix many (l : list obj) : string :=
      match l with [] => "" | [a] => show a | a :: r => show a ++ " " ++ many r end in
  match v with
  | Nil => "nil" | T => "t"
  | Fix z => show_Z z | Big z => show_Z z ++ "B"
  | Atom _ t => t
  | Str s => """" ++ s ++ """"
  | Sym s => s
  | L xs => "(" ++ many xs ++ ")"
  | Dot xs t => "(" ++ many xs ++ " . " ++ show t ++ ")"
  | Vec xs _ adj _ => "#" ++ (if adj then "" else "!") ++ "(" ++ many xs ++ ")"
  | Arr _ xs _ _ => "#A(" ++ many xs ++ ")"
  | Hash kvs => "#H(" ++ (fix go (l : list (obj * obj)) : string :=
                            match l with [] => "" | (k, w) :: r => show k ++ "=" ++ show w ++ " " ++ go r end) kvs ++ ")"
  | Lam ll d body => "#<lambda (" ++ many ll ++ ") """ ++ d ++ """ " ++ many body ++ ">"
  | Inst f slots => "#<" ++ f ++ " " ++ (fix go (l : list (string * obj)) : string :=
                            match l with [] => "" | (k, w) :: r => k ++ "=" ++ show w ++ " " ++ go r end) slots ++ ">"
  | Flv n _ _ _ _ _ => "#<flavor " ++ n ++ ">"
  | Opaque w => "#<" ++ w ++ ">"
  end.
