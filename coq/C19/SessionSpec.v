(* C19 — specification and guard for sessions.
   S: loading the snapshot of a session into an empty session rebuilds the same definitions (sessions are compared
   as sorted association lists: the order in which definitions were made is not part of a session), and the snapshot
   of the rebuilt session is the same list of forms (the text fixed point, on forms). *)
From Coq Require Import List String ZArith Bool Ascii.
From C19 Require Import Model Spec Session.
Import ListNotations.
Open Scope string_scope.
Open Scope list_scope.

(* a value that the form the snapshot writes for it evaluates back to (and whose text is readable: quotable).
   fl: whether a flavor object is accepted as a value (it is written (find-flavor "name"); the theorem about values
   leaves it out, the per-run guard of sessions with flavors takes it in). What is left are restrictions of the modelled
   universe; the only clause that still hides a defect is Arr (a variable holding an array of rank >= 2 is written
   #2A(...) as it is, which is about the reader, C03). *)
Fixpoint snap_safe_g (fl : bool) (v : obj) : bool :=
  match v with
  | L xs => if forallb is_literal xs then quotable v else forallb (snap_safe_g fl) xs
  | Dot _ _ => if is_literal v then quotable v else loadable_in v
  | Sym s => plain_sym s                                 (* quoted unless a keyword *)
  | Hash _ | Lam _ _ _ => loadable_in v                  (* written as their load forms *)
  | Vec _ _ _ _ => quotable v
  | Arr _ _ _ _ | Opaque _ => false
  | Inst f slots =>
      (fix go (l : list (string * obj)) : bool :=
         match l with [] => true | (k, w) :: r => plain_name k && snap_safe_g fl w && go r end) slots
  | Flv _ _ _ _ _ _ => fl
  | _ => self_evaluating v
  end.
Definition snap_safe := snap_safe_g false.

(* a user's name: plain, unqualified, and not one of the constants bound to themselves *)
Definition name_ok (n : string) : bool :=
  plain_name n && negb (has_colon n) && negb (existsb (String.eqb n) self_bound).
Definition var_ok (kv : string * vrec) : bool :=
  name_ok (fst kv) &&
  match snd kv with
  | mkV (Some v) _ _ => snap_safe v && no_inst v      (* constants and variables alike: both values go through ppValue *)
  | mkV None d c => (d =? "")%string && negb c        (* declared, no value: only the defvar is written *)
  end.

(* symbols in head position of a code tree *)
Fixpoint heads (f : obj) : list string :=
  match f with
  | L (Sym h :: args) =>
      if (h =? "quote")%string then [] else
      h :: (fix go (l : list obj) : list string := match l with [] => [] | a :: r => heads a ++ go r end) args
  | L xs => (fix go (l : list obj) : list string := match l with [] => [] | a :: r => heads a ++ go r end) xs
  | _ => []
  end.
(* the macros are reloaded first, in name order, then the functions: a function may use every macro and call every
   function (a function called before it is defined keeps its name: repo_fixes/C19-15, C19-16); a MACRO whose body uses a
   macro with a later name is still compiled before that macro exists [C19-macro-uses-later-macro] *)
Definition calls_ok (funs : list (string * frec)) (kv : string * frec) : bool :=
  negb (f_macro (snd kv)) ||
  forallb (fun h => match alookup funs h with
                    | Some r => negb (f_macro r) || String.ltb h (fst kv)
                    | None => true
                    end) (flat_map heads (f_body (snd kv))).
Definition fun_ok (funs : list (string * frec)) (kv : string * frec) : bool :=
  name_ok (fst kv) && lam_ok (f_ll (snd kv)) (f_doc (snd kv)) (f_body (snd kv)) && calls_ok funs kv.

Definition sess_ok (s : session) : bool :=
  forallb var_ok (s_vars s) && forallb (fun_ok (s_funs s)) (s_funs s).

(* ---- sessions with a flavor and instances of it (evaluated per run; the value-level theorem is
   SessionProofs.inst_value_reloads, the session-level round trip with flavors is not proved) ---- *)

Definition snap_safe_x := snap_safe_g true.

(* every instance inside v is an instance of a flavor of the session, with exactly its instance variables *)
Fixpoint insts_ok (vars : list (string * vrec)) (v : obj) : bool :=
  match v with
  | Inst f slots =>
      negb (f =? "inst")%string && negb (f =? "table")%string &&
      match alookup vars f with
      | Some (mkV (Some (Flv f' ivars _ _ _ _)) _ false) => (f' =? f)%string && strings_eqb (map fst ivars) (map fst slots)
      | _ => false
      end &&
      (fix go (l : list (string * obj)) : bool := match l with [] => true | (_, w) :: r => insts_ok vars w && go r end) slots
  | Flv n _ _ _ _ _ => match alookup vars n with Some (mkV (Some (Flv _ _ _ _ _ _)) _ false) => true | _ => false end
  | L xs => forallb (insts_ok vars) xs
  | Dot xs tl => forallb (insts_ok vars) xs && insts_ok vars tl
  | Hash kvs => forallb (fun kv => insts_ok vars (snd kv)) kvs
  | _ => true
  end.
Definition is_flavor_var (kv : string * vrec) : bool :=
  match snd kv with mkV (Some (Flv _ _ _ _ _ _)) _ _ => true | _ => false end.
Definition var_ok_x (vars : list (string * vrec)) (kv : string * vrec) : bool :=
  name_ok (fst kv) &&
  match snd kv with
  | mkV (Some (Flv n ivars _ _ _ _)) _ false =>
      (* the variable a flavor defines; a default is written as the form that evaluates to it (repo_fixes/C19-19) *)
      (n =? fst kv)%string && keys_nodupb (map fst ivars)
      && forallb (fun iv => plain_name (fst iv) && loadable_in (snd iv) && no_inst (snd iv)) ivars
  | mkV (Some v) _ _ => snap_safe_x v && insts_ok vars v
  | mkV None d c => (d =? "")%string && negb c
  end.
Definition sess_ok_x (s : session) : bool :=
  forallb (var_ok_x (s_vars s)) (s_vars s)
  && forallb (fun_ok (s_funs s)) (s_funs s).

(* the specification as a decidable statement about one session *)
Definition vrec_eqb (a b : vrec) : bool :=
  match v_val a, v_val b with
  | Some x, Some y => obj_eqb x y
  | None, None => true
  | _, _ => false
  end && (v_doc a =? v_doc b)%string && Bool.eqb (v_const a) (v_const b).
Fixpoint objs_eqb (a b : list obj) : bool :=
  match a, b with
  | [], [] => true
  | x :: a', y :: b' => obj_eqb x y && objs_eqb a' b'
  | _, _ => false
  end.
Definition frec_eqb (a b : frec) : bool :=
  Bool.eqb (f_macro a) (f_macro b) && objs_eqb (f_ll a) (f_ll b) && (f_doc a =? f_doc b)%string && objs_eqb (f_body a) (f_body b).
Fixpoint alist_eqb {A} (eqb : A -> A -> bool) (a b : list (string * A)) : bool :=
  match a, b with
  | [], [] => true
  | (k, x) :: a', (k', y) :: b' => (k =? k')%string && eqb x y && alist_eqb eqb a' b'
  | _, _ => false
  end.
Definition session_eqb (a b : session) : bool :=
  alist_eqb vrec_eqb (s_vars a) (s_vars b) && alist_eqb frec_eqb (s_funs a) (s_funs b).

Definition meets_spec (s : session) : bool :=
  forallb (fun b => b) (snd (load_forms empty_session (snapshot s)))       (* every form of the snapshot loads *)
  && session_eqb (canon (reload_session s)) (canon s)                       (* the same definitions *)
  && objs_eqb (snapshot (reload_session s)) (snapshot s).                   (* the same snapshot again *)
