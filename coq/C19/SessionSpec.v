(* C19 — specification and guard for sessions.
   S: loading the snapshot of a session into an empty session rebuilds the same definitions (sessions are compared
   as sorted association lists: the order in which definitions were made is not part of a session), and the snapshot
   of the rebuilt session is the same list of forms (the text fixed point, on forms). *)
From Coq Require Import List String ZArith Bool Ascii.
From C19 Require Import Model Spec Session.
Import ListNotations.
Open Scope string_scope.
Open Scope list_scope.

(* a value that the snapshot's (setq name <value>) form evaluates back to *)
Definition snap_safe (v : obj) : bool :=
  match v with
  | L _ | Dot _ _ => quotable v                         (* written quoted *)
  | Sym s => (is_keyword s && plain_sym s) || existsb (String.eqb s) self_bound   (* [C19-snapshot-symbol-unquoted] *)
  | Hash kvs => loadable_in v && no_inst v     (* written as its load form; instances inside: snap_safe_x *)
  | Lam _ _ _ => loadable_in v
  | Vec _ _ _ _ => quotable v
  | Arr _ _ _ _ | Opaque _ => false
  | _ => self_evaluating v
  end.

(* a constant's value is written unquoted and unconverted: it must evaluate to itself [C19-constant-unquoted] *)
Definition const_safe (v : obj) : bool :=
  match v with
  | L _ | Dot _ _ | Hash _ | Lam _ _ _ | Arr _ _ _ _ | Opaque _ => false
  | _ => self_evaluating v
  end.

(* a user's name: plain, unqualified, and not one of the constants bound to themselves *)
Definition name_ok (n : string) : bool :=
  plain_name n && negb (has_colon n) && negb (existsb (String.eqb n) self_bound).
Definition var_ok (kv : string * vrec) : bool :=
  name_ok (fst kv) &&
  match snd kv with
  | mkV (Some v) _ true => const_safe v
  | mkV (Some v) _ false => snap_safe v
  | mkV None _ _ => false                                (* [C19-unbound-variable-garbage] *)
  end.

(* symbols in head position of a code tree *)
Fixpoint heads (f : obj) : list string :=
  match f with
  | L (Sym h :: args) =>
      if (h =? "quote")%string then [] else
      h :: (fix go (l : list obj) : list string := match l with [] => [] | a :: r => heads a ++ go r end) args
  | L xs => (fix go (l : list obj) : list string := match l with [] => [] | a :: r => heads a ++ go r end) xs
  | _ => []
  end.
(* functions and macros are reloaded together in name order: a body may only call user functions and use user macros
   that sort before its own name.  A macro used before it exists is compiled as a call [C19-macro-after-function];
   a function that is called before it is defined works since slip commit e532307, but it is then registered
   without its name and the NEXT snapshot writes (defun (x) ...) [C19-forward-reference-nameless]. *)
Definition calls_ok (funs : list (string * frec)) (kv : string * frec) : bool :=
  forallb (fun h => match alookup funs h with
                    | Some _ => String.ltb h (fst kv)
                    | None => true
                    end) (flat_map heads (f_body (snd kv))).
Definition fun_ok (funs : list (string * frec)) (kv : string * frec) : bool :=
  name_ok (fst kv) && lam_ok (f_ll (snd kv)) (f_doc (snd kv)) (f_body (snd kv)) && calls_ok funs kv.

Definition sess_ok (s : session) : bool :=
  forallb var_ok (s_vars s) && forallb (fun_ok (s_funs s)) (s_funs s).

(* ---- sessions with a flavor and instances of it (evaluated per run; the value-level theorem is
   SessionProofs.inst_value_reloads, the session-level round trip with flavors is not proved) ---- *)

(* a value the snapshot's (setq name <value>) form evaluates back to, instances included: every instance variable's
   value must itself be such a value (snapshot.go ppInstance passes each through ppValue again) *)
Fixpoint snap_safe_x (v : obj) : bool :=
  match v with
  | Inst f slots =>
      negb (f =? "inst")%string &&
      (fix go (l : list (string * obj)) : bool :=
         match l with [] => true | (k, w) :: r => plain_name k && snap_safe_x w && go r end) slots
  | Flv _ _ _ _ _ _ => true
  | _ => snap_safe v
  end.

(* every instance inside v is an instance of a flavor of the session, with exactly its instance variables *)
Fixpoint insts_ok (vars : list (string * vrec)) (v : obj) : bool :=
  match v with
  | Inst f slots =>
      match alookup vars f with
      | Some (mkV (Some (Flv f' ivars _ _ _ _)) _ false) => (f' =? f)%string && strings_eqb (map fst ivars) (map fst slots)
      | _ => false
      end &&
      (fix go (l : list (string * obj)) : bool := match l with [] => true | (_, w) :: r => insts_ok vars w && go r end) slots
  | Flv n _ _ _ _ _ => match alookup vars n with Some (mkV (Some (Flv _ _ _ _ _ _)) _ false) => true | _ => false end
  | _ => true
  end.
Definition is_flavor_var (kv : string * vrec) : bool :=
  match snd kv with mkV (Some (Flv _ _ _ _ _ _)) _ _ => true | _ => false end.
Definition var_ok_x (vars : list (string * vrec)) (kv : string * vrec) : bool :=
  name_ok (fst kv) &&
  match snd kv with
  | mkV (Some v) _ true => const_safe v
  | mkV (Some (Flv n ivars _ _ _ _)) _ false =>
      (* the variable a flavor defines; defaults are written evaluated and unquoted [C19-flavor-default-unquoted] *)
      (n =? fst kv)%string && keys_nodupb (map fst ivars)
      && forallb (fun iv => plain_name (fst iv) && self_evaluating (snd iv)) ivars
  | mkV (Some v) _ false => snap_safe_x v && insts_ok vars v
  | mkV None _ _ => false
  end.
Definition sess_ok_x (s : session) : bool :=
  forallb (var_ok_x (s_vars s)) (s_vars s)
  && (List.length (filter is_flavor_var (s_vars s)) <=? 1)%nat      (* [C19-flavor-order-unstable] *)
  && forallb (fun_ok (s_funs s)) (s_funs s).

(* the specification as a decidable statement about one session *)
Definition vrec_eqb (a b : vrec) : bool :=
  match v_val a, v_val b with
  | Some x, Some y => obj_eqb x y
  | None, None => true
  | _, _ => false
  end && (v_doc a =? v_doc b)%string && Bool.eqb (v_const a) (v_const b).
Fixpoint objs_eqb (a b : list obj) : bool :=
  match a, b with
  | [], [] => true
  | x :: a', y :: b' => obj_eqb x y && objs_eqb a' b'
  | _, _ => false
  end.
Definition frec_eqb (a b : frec) : bool :=
  Bool.eqb (f_macro a) (f_macro b) && objs_eqb (f_ll a) (f_ll b) && (f_doc a =? f_doc b)%string && objs_eqb (f_body a) (f_body b).
Fixpoint alist_eqb {A} (eqb : A -> A -> bool) (a b : list (string * A)) : bool :=
  match a, b with
  | [], [] => true
  | (k, x) :: a', (k', y) :: b' => (k =? k')%string && eqb x y && alist_eqb eqb a' b'
  | _, _ => false
  end.
Definition session_eqb (a b : session) : bool :=
  alist_eqb vrec_eqb (s_vars a) (s_vars b) && alist_eqb frec_eqb (s_funs a) (s_funs b).

Definition meets_spec (s : session) : bool :=
  forallb (fun b => b) (snd (load_forms empty_session (snapshot s)))       (* every form of the snapshot loads *)
  && session_eqb (canon (reload_session s)) (canon s)                       (* the same definitions *)
  && objs_eqb (snapshot (reload_session s)) (snapshot s).                   (* the same snapshot again *)
