(* C19 — model M, part 1: the object universe, LoadForm of data objects (list.go:113-164, hash-table.go:100-117,
   array.go:371-394 (vectors embed Array), bignum.go:147-152, lambda.go:345-354; the other atoms return
   themselves) and the fragment of the evaluator those forms need (quote, list, cons, append, coerce,
   make-array: pkg/cl/make-array.go:78-186, the let/make-hash-table/setf-gethash shape, lambda: lambda.go:210-262).
   Executable definitions only; the model is the code WITH repo_fixes/C19-2 .. C19-9 applied. *)
From Coq Require Import List String ZArith Bool Ascii.
Import ListNotations.
Open Scope string_scope.
Open Scope list_scope.

(* Forms ARE objects in slip (a form is a slip.List), so one type serves for values and forms.
   Opaque atoms (ratios, floats, characters) carry their kind and their readable token: the printer and the
   reader of numbers are C03/C05's subject, here they only have to evaluate to themselves. *)
Inductive obj : Type :=
| Nil | T
| Fix (z : Z)                       (* slip.Fixnum *)
| Big (z : Z)                       (* *slip.Bignum *)
| Atom (kind : string) (tok : string)
| Str (s : string)
| Sym (s : string)                  (* includes keywords ":k" *)
| L (xs : list obj)                 (* non-empty slip.List without Tail; the empty list is Nil *)
| Dot (xs : list obj) (tl : obj)    (* slip.List{xs..., Tail{tl}} *)
| Vec (xs : list obj) (et : obj) (adj : bool) (fp : option nat) (* *slip.Vector; et: T or Sym; fp: the fill pointer *)
| Arr (dims : list nat) (xs : list obj) (et : obj) (adj : bool) (* *slip.Array, row-major elements *)
| Hash (kvs : list (obj * obj))     (* slip.HashTable as an association list *)
| Lam (ll : list obj) (doc : string) (body : list obj)          (* *slip.Lambda as its code tree *)
| Inst (flavor : string) (slots : list (string * obj))          (* *flavors.Instance: every instance variable (own and
                                                                    inherited, without self) sorted by name, with its value *)
| Flv (name : string) (ivars : list (string * obj)) (init get set : bool) (doc : string)
                                    (* *flavors.Flavor without components: instance variables sorted by name with
                                       their evaluated defaults (nil: none), the three blanket options, documentation *)
| Opaque (what : string).           (* anything that offers no load form (streams, ...) *)

(* error outcomes are explicit; EUnmodelled marks forms outside the modelled fragment of the evaluator *)
Inductive err := EUnbound (s : string) | ENotFunction | EBadForm | ENotReadable | EType | EMalformed | EUnmodelled.
Inductive res (A : Type) := Ok (a : A) | Err (e : err).
Arguments Ok {A} a. Arguments Err {A} e.
Definition bind {A B} (r : res A) (f : A -> res B) : res B := match r with Ok a => f a | Err e => Err e end.

Definition bs (l : list N) : string := string_of_list_ascii (map ascii_of_N l).
(* lines joined by newline characters: how the harness writes multi-line texts *)
Definition ln (l : list string) : string := String.concat (String (ascii_of_N 10) EmptyString) l.
Definition mkL (xs : list obj) : obj := match xs with [] => Nil | _ => L xs end.
Definition quote (x : obj) : obj := L [Sym "quote"; x].
Definition elems_of (o : obj) : option (list obj) := match o with Nil => Some [] | L xs => Some xs | _ => None end.

Fixpoint map_res {A B} (f : A -> res B) (l : list A) : res (list B) :=
  match l with
  | [] => Ok []
  | a :: r => bind (f a) (fun b => bind (map_res f r) (fun bs => Ok (b :: bs)))
  end.

(* ---- LoadForm ------------------------------------------------------------------------------- *)

Definition is_int64 (z : Z) : bool := (Z.leb (-9223372036854775808) z && Z.leb z 9223372036854775807)%Z.
Definition prod_dims (ds : list nat) : nat := fold_right Nat.mul 1 ds.

(* n consecutive chunks of k elements *)
Fixpoint chunk (n k : nat) (xs : list obj) : list (list obj) :=
  match n with
  | O => []
  | S n' => firstn k xs :: chunk n' k (skipn k xs)
  end.
(* Array.AsList / listifyDim (array.go:217-240): nested lists following dims; rank 0 gives the nil list *)
Fixpoint nest (dims : list nat) (xs : list obj) : obj :=
  match dims with
  | [] => Nil
  | d :: ds =>
      match ds with
      | [] => mkL (firstn d xs)
      | _ => mkL (map (nest ds) (chunk d (prod_dims ds) xs))
      end
  end.

Definition et_form (et : obj) : obj := match et with T => T | _ => quote et end.
(* array.go Array.LoadForm: :adjustable is written for both values (repo_fixes/C19-4: make-array makes an adjustable
   array unless told otherwise); vector.go Vector.LoadForm appends :fill-pointer n (repo_fixes/C19-5) *)
Definition make_array_form (dims : obj) (et : obj) (contents : obj) (adj : bool) (extra : list obj) : obj :=
  L ([Sym "make-array"; quote dims; Sym ":element-type"; et_form et; Sym ":initial-contents"; quote contents;
      Sym ":adjustable"; if adj then T else Nil] ++ extra).
Definition fp_items (fp : option nat) : list obj :=
  match fp with Some n => [Sym ":fill-pointer"; Fix (Z.of_nat n)] | None => [] end.

Definition is_keyword (s : string) : bool := match s with String ":"%char _ => true | _ => false end.

Definition setf_gethash (kf wf : obj) : obj := L [Sym "setf"; L [Sym "gethash"; kf; Sym "table"]; wf].
Definition table_let (entries : list obj) : obj :=
  L ([Sym "let"; L [L [Sym "table"; L [Sym "make-hash-table"]]]] ++ entries ++ [Sym "table"]).
Definition setf_slot (k : string) (fw : obj) : obj := L [Sym "setf"; L [Sym "slot-value"; Sym "inst"; quote (Sym k)]; fw].
Definition inst_let (f : string) (setfs : list obj) : obj :=
  L ([Sym "let"; L [L [Sym "inst"; L [Sym "make-instance"; quote (Sym f)]]]] ++ setfs ++ [Sym "inst"]).

(* LoadForm.  el = true: the value is an ELEMENT of another object and the form is what loadformer.go LoadFormOf
   returns (repo_fixes/C19-2): nil stays nil, a keyword stands for itself, any other symbol is quoted, a LoadFormer is
   asked, anything else panics print-not-readable.  el = false: the object's own LoadForm method (Symbol.LoadForm is
   the symbol).  The elements of lists, the keys and values of hash tables (repo_fixes/C19-6, C19-7; the order of the
   entries, repo_fixes/C19-8, is canonicalised by the harness) and the values of instance variables (instance.go
   InstanceLoadForm, repo_fixes/C19-9) are written as elements. *)
Fixpoint lform (el : bool) (v : obj) : res obj :=
  match v with
  | Nil => Ok Nil
  | Sym s => if el && negb (is_keyword s) then Ok (quote v) else Ok v
  | T | Fix _ | Atom _ _ | Str _ => Ok v
  | Big z => if is_int64 z then Ok (L [Sym "coerce"; Fix z; quote (Sym "bignum")]) else Ok v
  | L xs =>
      bind ((fix go (l : list obj) : res (list obj) :=
               match l with
               | [] => Ok []
               | a :: r => bind (lform true a) (fun b => bind (go r) (fun bs => Ok (b :: bs)))
               end) xs)
           (fun fs => Ok (L (Sym "list" :: fs)))
  | Dot xs tl =>
      (* list.go List.LoadForm: the element before the tail and the tail make (cons a b); the elements before that, if
         any, are wrapped as (append (list ...) (cons a b)) *)
      bind ((fix go (l : list obj) : res (list obj) :=
               match l with
               | [] => Ok []
               | a :: r => bind (lform true a) (fun b => bind (go r) (fun bs => Ok (b :: bs)))
               end) xs)
           (fun fs => bind (lform true tl) (fun ft =>
              match rev fs with
              | [] => Err EBadForm
              | lastf :: revhead =>
                  let c := L [Sym "cons"; lastf; ft] in
                  match revhead with
                  | [] => Ok c
                  | _ => Ok (L [Sym "append"; L (Sym "list" :: rev revhead); c])
                  end
              end))
  | Vec xs et adj fp => Ok (make_array_form (L [Fix (Z.of_nat (List.length xs))]) et (mkL xs) adj (fp_items fp))
  | Arr dims xs et adj => Ok (make_array_form (mkL (map (fun d => Fix (Z.of_nat d)) dims)) et (nest dims xs) adj [])
  | Hash kvs =>
      bind ((fix go (l : list (obj * obj)) : res (list obj) :=
               match l with
               | [] => Ok []
               | (k, w) :: r => bind (lform true k) (fun kf => bind (lform true w) (fun wf => bind (go r) (fun es =>
                                  Ok (setf_gethash kf wf :: es))))
               end) kvs)
           (fun es => Ok (table_let es))
  | Lam ll doc body => Ok (L ([Sym "lambda"; mkL ll] ++ (if (doc =? "")%string then [] else [Str doc]) ++ body))
  | Inst f slots =>
      bind ((fix go (l : list (string * obj)) : res (list obj) :=
               match l with
               | [] => Ok []
               | (k, w) :: r => bind (lform true w) (fun wf => bind (go r) (fun es => Ok (setf_slot k wf :: es)))
               end) slots)
           (fun es => Ok (inst_let f es))
  | Flv _ _ _ _ _ _ => Err EUnmodelled        (* Flavor.LoadForm is modelled by Session.flavor_form *)
  | Opaque _ => Err ENotReadable
  end.
Definition load_form (v : obj) : res obj := lform false v.
Definition elem_form (v : obj) : res obj := lform true v.
(* one entry of a hash table's load form, one instance variable of an instance's *)
Definition entry_form (kv : obj * obj) : res obj :=
  bind (elem_form (fst kv)) (fun kf => bind (elem_form (snd kv)) (fun wf => Ok (setf_gethash kf wf))).
Definition slot_form (kv : string * obj) : res obj := bind (elem_form (snd kv)) (fun wf => Ok (setf_slot (fst kv) wf)).

(* ---- the evaluator fragment ------------------------------------------------------------------- *)

Definition env := list (string * obj).
Fixpoint lookup (e : env) (s : string) : option obj :=
  match e with [] => None | (k, v) :: r => if (k =? s)%string then Some v else lookup r s end.

(* cons / append on the slice representation of lists *)
Definition cons_val (a b : obj) : obj :=
  match b with
  | Nil => L [a]
  | L ys => L (a :: ys)
  | Dot ys t => Dot (a :: ys) t
  | _ => Dot [a] b
  end.
Definition append_val (a b : obj) : res obj :=
  match elems_of a with
  | None => Err EType
  | Some xs =>
      match xs with
      | [] => Ok b
      | _ => match b with
             | Nil => Ok (L xs)
             | L ys => Ok (L (xs ++ ys))
             | Dot ys t => Ok (Dot (xs ++ ys) t)
             | _ => Ok (Dot xs b)
             end
      end
  end.

(* make-array, pkg/cl/make-array.go:78-186 *)
Fixpoint dims_of (l : list obj) : res (list nat) :=
  match l with
  | [] => Ok []
  | Fix z :: r => if (0 <=? z)%Z then bind (dims_of r) (fun ds => Ok (Z.to_nat z :: ds)) else Err EType
  | _ => Err EType
  end.
Fixpoint key_value (k : string) (l : list obj) : option obj :=
  match l with
  | Sym s :: v :: r => if (s =? k)%string then Some v else key_value k r
  | _ :: _ :: r => key_value k r
  | _ => None
  end.
(* Array.setDim (array.go:249-272): the nested initial contents must have exactly the dimensions *)
Fixpoint flatten_dims (dims : list nat) (c : list obj) : res (list obj) :=
  match dims with
  | [] => Ok []
  | d :: ds =>
      if negb (Nat.eqb d (List.length c)) then Err EMalformed
      else match ds with
           | [] => Ok c
           | _ => bind (map_res (fun sub => match sub with
                                            | L ys => flatten_dims ds ys
                                            | Nil => flatten_dims ds []     (* nil is the empty row (repo_fixes/C19-3) *)
                                            | _ => Err EType
                                            end) c)
                       (fun ls => Ok (List.concat ls))
           end
  end.
Definition make_array_vals (vals : list obj) : res obj :=
  match vals with
  | [] => Err EBadForm
  | d0 :: rest =>
      bind (match d0 with
            | Fix z => if (z <? 0)%Z then Err EType else Ok [Z.to_nat z]
            | L ds => dims_of ds  (* non-negative fixnums (repo_fixes/C19-3) *)
            | _ => Err EType      (* nil: rank 0 is rejected *)
            end)
      (fun dims =>
       bind (match key_value ":element-type" rest with
             | None | Some T => Ok T
             | Some (Sym s) => Ok (Sym s)
             | Some _ => Err EType
             end)
       (fun et =>
        let adj := match key_value ":adjustable" rest with None => true | Some Nil => false | Some _ => true end in
        bind (match key_value ":initial-contents" rest with
              | None => Ok None
              | Some (L c) => Ok (Some c)
              | Some Nil => Ok (Some [])   (* the empty list (repo_fixes/C19-3) *)
              | Some _ => Err EType
              end)
        (fun oc =>
         match dims with
         | [d] =>
             (* :fill-pointer nil: none; a fixnum: that; anything else: the dimension *)
             let fp := match key_value ":fill-pointer" rest with
                       | None | Some Nil => None
                       | Some (Fix z) => if (z <? 0)%Z then None else Some (Z.to_nat z)
                       | Some _ => Some d
                       end in
             (* NewVector: the initial contents become the elements as they are *)
             match oc with
             | Some c => Ok (Vec c et adj fp)
             | None => Ok (Vec (repeat Nil d) et adj fp)
             end
         | _ =>
             match oc with
             | Some c => bind (flatten_dims dims c) (fun xs => Ok (Arr dims xs et adj))
             | None => Ok (Arr dims (repeat Nil (prod_dims dims)) et adj)
             end
         end)))
  end.

Definition apply_fn (h : string) (vals : list obj) : res obj :=
  if (h =? "list")%string then Ok (mkL vals)
  else if (h =? "cons")%string then match vals with [a; b] => Ok (cons_val a b) | _ => Err EBadForm end
  else if (h =? "append")%string then match vals with [a; b] => append_val a b | _ => Err EUnmodelled end
  else if (h =? "coerce")%string then
    match vals with
    | [Fix z; Sym "bignum"] => Ok (Big z)
    | _ => Err EUnmodelled
    end
  else if (h =? "make-array")%string then make_array_vals vals
  else if (h =? "make-hash-table")%string then match vals with [] => Ok (Hash []) | _ => Err EUnmodelled end
  else Err EUnmodelled.

(* lambda.go:210-262 DefLambda: lambda list, optional doc string (only when a form follows), forms.
   A lambda-list element (name nil) loses its default. *)
Definition norm_ll_elem (a : obj) : res obj :=
  match a with
  | Sym _ => Ok a
  | L [Sym n; Nil] => Ok (Sym n)
  | L [Sym _; _] => Ok a
  | _ => Err EType
  end.
Definition mk_lambda (args : list obj) : res obj :=
  match args with
  | [] => Err EBadForm
  | llf :: rest =>
      match elems_of llf with
      | None => Err EType
      | Some ll =>
          bind (map_res norm_ll_elem ll) (fun ll' =>
            match rest with
            | Str d :: (_ :: _) as body => Ok (Lam ll' d (tl rest))
            | _ => Ok (Lam ll' "" rest)
            end)
      end
  end.

Fixpoint hash_set (kvs : list (obj * obj)) (eqb : obj -> obj -> bool) (k v : obj) : list (obj * obj) :=
  match kvs with
  | [] => [(k, v)]
  | (k', v') :: r => if eqb k' k then (k, v) :: r else (k', v') :: hash_set r eqb k v
  end.

(* structural equality, used for hash keys here and for the comparison with the implementation in Corr *)
Fixpoint obj_eqb (a b : obj) : bool :=
  let fix all2 (l1 l2 : list obj) : bool :=
      match l1, l2 with
      | [], [] => true
      | x :: r1, y :: r2 => obj_eqb x y && all2 r1 r2
      | _, _ => false
      end in
  let fix all2p (l1 l2 : list (obj * obj)) : bool :=
      match l1, l2 with
      | [], [] => true
      | (k1, v1) :: r1, (k2, v2) :: r2 => obj_eqb k1 k2 && obj_eqb v1 v2 && all2p r1 r2
      | _, _ => false
      end in
  match a, b with
  | Nil, Nil | T, T => true
  | Fix x, Fix y | Big x, Big y => Z.eqb x y
  | Atom k1 t1, Atom k2 t2 => (k1 =? k2)%string && (t1 =? t2)%string
  | Str x, Str y | Sym x, Sym y | Opaque x, Opaque y => (x =? y)%string
  | L x, L y => all2 x y
  | Dot x t1, Dot y t2 => all2 x y && obj_eqb t1 t2
  | Vec x e1 a1 f1, Vec y e2 a2 f2 =>
      all2 x y && obj_eqb e1 e2 && Bool.eqb a1 a2
      && match f1, f2 with Some m, Some n => Nat.eqb m n | None, None => true | _, _ => false end
  | Arr d1 x e1 a1, Arr d2 y e2 a2 =>
      (if list_eq_dec Nat.eq_dec d1 d2 then true else false) && all2 x y && obj_eqb e1 e2 && Bool.eqb a1 a2
  | Hash x, Hash y => all2p x y
  | Lam l1 d1 b1, Lam l2 d2 b2 => all2 l1 l2 && (d1 =? d2)%string && all2 b1 b2
  | Inst f1 s1, Inst f2 s2 =>
      (f1 =? f2)%string &&
      (fix alls (l1 l2 : list (string * obj)) : bool :=
         match l1, l2 with
         | [], [] => true
         | (k1, v1) :: r1, (k2, v2) :: r2 => (k1 =? k2)%string && obj_eqb v1 v2 && alls r1 r2
         | _, _ => false
         end) s1 s2
  | Flv n1 i1 a1 b1 c1 d1, Flv n2 i2 a2 b2 c2 d2 =>
      (n1 =? n2)%string && Bool.eqb a1 a2 && Bool.eqb b1 b2 && Bool.eqb c1 c2 && (d1 =? d2)%string &&
      (fix alls (l1 l2 : list (string * obj)) : bool :=
         match l1, l2 with
         | [], [] => true
         | (k1, v1) :: r1, (k2, v2) :: r2 => (k1 =? k2)%string && obj_eqb v1 v2 && alls r1 r2
         | _, _ => false
         end) i1 i2
  | _, _ => false
  end.

(* instances: make-instance with init keywords (only when the flavor is inittable), setting an instance variable *)
Fixpoint slot_set (slots : list (string * obj)) (k : string) (v : obj) : option (list (string * obj)) :=
  match slots with
  | [] => None
  | (k', v') :: r => if (k' =? k)%string then Some ((k, v) :: r)
                     else match slot_set r k v with Some r' => Some ((k', v') :: r') | None => None end
  end.
Definition keyword_name (s : string) : option string := match s with String ":"%char r => Some r | _ => None end.
Fixpoint apply_inits (slots : list (string * obj)) (inits : list obj) : res (list (string * obj)) :=
  match inits with
  | [] => Ok slots
  | Sym k :: v :: r =>
      match keyword_name k with
      | Some n => match slot_set slots n v with Some s' => apply_inits s' r | None => Err EType end
      | None => Err EType
      end
  | _ => Err EBadForm
  end.
Definition make_instance (e : env) (vals : list obj) : res obj :=
  match vals with
  | Sym f :: inits =>
      match lookup e f with
      | Some (Flv _ ivars init _ _ _) =>
          match inits with
          | [] => Ok (Inst f ivars)
          | _ => if init then bind (apply_inits ivars inits) (fun s => Ok (Inst f s)) else Err EType
          end
      | _ => Err EType          (* class not found *)
      end
  | _ => Err EBadForm
  end.
Definition find_flavor (e : env) (vals : list obj) : res obj :=
  match vals with
  | [Str n] => match lookup e n with Some (Flv a b c d x y) => Ok (Flv a b c d x y) | _ => Ok Nil end
  | _ => Err EUnmodelled
  end.

(* eval: structural recursion on the form; arguments are evaluated left to right *)
Fixpoint eval (e : env) (f : obj) : res obj :=
  match f with
  | Nil | T | Fix _ | Big _ | Atom _ _ | Str _ => Ok f
  | Vec _ _ _ _ | Arr _ _ _ _ | Hash _ | Lam _ _ _ | Inst _ _ | Flv _ _ _ _ _ _ | Opaque _ => Ok f   (* their Eval returns the receiver *)
  | Sym s => if is_keyword s then Ok f
             else match lookup e s with Some v => Ok v | None => Err (EUnbound s) end
  | Dot _ _ => Err EUnmodelled
  | L [] => Ok Nil
  | L (Sym h :: args) =>
      if (h =? "quote")%string then match args with [x] => Ok x | _ => Err EBadForm end
      else if (h =? "lambda")%string then mk_lambda args
      else if (h =? "let")%string then
        (* only the shape HashTable.LoadForm produces: (let ((table (make-hash-table))) (setf (gethash K table) V) ... table) *)
        match args with
        | L [L [Sym tv; L [Sym mh]]] :: body =>
            if negb (mh =? "make-hash-table")%string then Err EUnmodelled else
            (fix go (tbl : list (obj * obj)) (l : list obj) : res obj :=
               match l with
               | [] => Ok Nil
               | [Sym r] => if (r =? tv)%string then Ok (Hash tbl) else Err EUnmodelled
               | L [Sym sf; L [Sym gh; kf; Sym tv']; vf] :: rest =>
                   if (sf =? "setf")%string && (gh =? "gethash")%string && (tv' =? tv)%string then
                     (* setf evaluates the value first, then the place *)
                     bind (eval ((tv, Hash tbl) :: e) vf) (fun v =>
                     bind (eval ((tv, Hash tbl) :: e) kf) (fun k =>
                     go (hash_set tbl obj_eqb k v) rest))
                   else Err EUnmodelled
               | _ => Err EUnmodelled
               end) [] body
        (* ... and the shape the snapshot writes for a flavor instance (snapshot.go ppInstance, instance.go
           InstanceLoadForm): (let ((inst (make-instance 'f))) (setf (slot-value inst 'v) VALUE) ... inst) *)
        | L [L [Sym iv; (L (Sym mi :: _ :: _)) as mk]] :: body =>
            if negb (mi =? "make-instance")%string then Err EUnmodelled else
            bind (eval e mk) (fun o =>
              match o with
              | Inst fl slots0 =>
                  (fix go (slots : list (string * obj)) (l : list obj) : res obj :=
                     match l with
                     | [] => Ok Nil
                     | [Sym r] => if (r =? iv)%string then Ok (Inst fl slots) else Err EUnmodelled
                     | L [Sym sf; L [Sym sv; Sym iv'; L [Sym q; Sym k]]; vf] :: rest =>
                         if (sf =? "setf")%string && (sv =? "slot-value")%string && (iv' =? iv)%string && (q =? "quote")%string then
                           bind (eval ((iv, Inst fl slots) :: e) vf) (fun v =>
                             match slot_set slots k v with
                             | Some s' => go s' rest
                             | None => Err EType
                             end)
                         else Err EUnmodelled
                     | _ => Err EUnmodelled
                     end) slots0 body
              | _ => Err EType
              end)
        | _ => Err EUnmodelled
        end
      else if (h =? "make-instance")%string then
        bind ((fix evs (l : list obj) : res (list obj) :=
                 match l with
                 | [] => Ok []
                 | a :: r => bind (eval e a) (fun v => bind (evs r) (fun vs => Ok (v :: vs)))
                 end) args)
             (make_instance e)
      else if (h =? "find-flavor")%string then
        bind ((fix evs (l : list obj) : res (list obj) :=
                 match l with
                 | [] => Ok []
                 | a :: r => bind (eval e a) (fun v => bind (evs r) (fun vs => Ok (v :: vs)))
                 end) args)
             (find_flavor e)
      else
        bind ((fix evs (l : list obj) : res (list obj) :=
                 match l with
                 | [] => Ok []
                 | a :: r => bind (eval e a) (fun v => bind (evs r) (fun vs => Ok (v :: vs)))
                 end) args)
             (apply_fn h)
  | L (L (Sym _ :: _) :: _) => Err EUnmodelled      (* ((lambda ...) args) *)
  | L (_ :: _) => Err ENotFunction
  end.

(* clpkg.go:208-630: the type-name symbols are constants of the common-lisp package bound to themselves *)
Definition self_bound : list string :=
  ["double-float"; "single-float"; "short-float"; "long-float"; "array"; "bignum"; "bit-vector"; "bit"; "byte";
   "character"; "complex"; "file-stream"; "fixnum"; "float"; "hash-table"; "input-stream"; "integer"; "io-stream";
   "list"; "cons"; "number"; "octet"; "octets"; "output-stream"; "package"; "ratio"; "rational"; "real"; "sequence";
   "signed-byte"; "stream"; "string-stream"; "string"; "symbol"; "time"; "unsigned-byte"; "vector"].
Definition global_env : env := map (fun s => (s, Sym s)) self_bound.

Definition reload (v : obj) : res obj := bind (load_form v) (eval global_env).
