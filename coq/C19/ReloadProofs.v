(* C19 — proofs about coq/C19/Reload.v: (A) the classes section keeps every class's precedence, for every hierarchy whose
   class order is accepted by the checker (C19_class_order_ok: every acyclic one); (B) the functions section restores every
   function into its package and ends in the package of the snapshot, for every list of packages, every current package
   and every package the loader happens to be in. Witnesses show that S is sensitive to both mechanisms. *)
From Coq Require Import List String Bool Arith Lia.
From C19 Require Import Model Session Classes ClassesProofs ClassOrder Reload.
Import ListNotations.
Open Scope string_scope.
Open Scope list_scope.

(* ---- (A) ---- *)

Lemma alookup_map_in : forall (f : string -> list string) l c, In c l ->
  alookup (map (fun c => (c, f c)) l) c = Some (f c).
Proof.
  intros f l c. induction l as [|x r IH]; intro H; [destruct H|].
  cbn [map alookup]. destruct (x =? c)%string eqn:E.
  - apply String.eqb_eq in E. subst. reflexivity.
  - destruct H as [->|H]; [rewrite String.eqb_refl in E; discriminate|]. apply IH. exact H.
Qed.
Lemma alookup_map_notin : forall (f : string -> list string) l c, ~ In c l ->
  alookup (map (fun c => (c, f c)) l) c = None.
Proof.
  intros f l c. induction l as [|x r IH]; intro H; [reflexivity|].
  cbn [map alookup]. destruct (x =? c)%string eqn:E.
  - apply String.eqb_eq in E. subst. exfalso. apply H. left. reflexivity.
  - apply IH. intro Hr. apply H. right. exact Hr.
Qed.
Lemma alookup_none_notin : forall (h : hier) c, alookup h c = None -> ~ In c (map fst h).
Proof.
  intros h c. induction h as [|[k a] r IH]; intros H Hin; [destruct Hin|].
  cbn [alookup] in H. destruct (k =? c)%string eqn:E; [discriminate|].
  destruct Hin as [Hk|Hin].
  - cbn [fst] in Hk. subst. rewrite String.eqb_refl in E. discriminate.
  - exact (IH H Hin).
Qed.
Lemma alookup_some_in : forall (h : hier) c s, alookup h c = Some s -> In c (map fst h).
Proof.
  intros h c s. induction h as [|[k a] r IH]; intro H; [discriminate|].
  cbn [alookup] in H. destruct (k =? c)%string eqn:E.
  - apply String.eqb_eq in E. left. exact E.
  - right. exact (IH H).
Qed.

(* a class has the same direct superclasses, in the same order, in the written forms *)
Lemma class_forms_supers : forall h, order_ok h (class_order h) = true ->
  forall c, supers_of (class_forms h) c = supers_of h c.
Proof.
  intros h Hok c. destruct (order_ok_sound _ _ Hok) as [_ Hset].
  unfold supers_of at 1. unfold class_forms.
  destruct (alookup h c) as [s|] eqn:E.
  - rewrite alookup_map_in; [reflexivity|]. apply Hset. eapply alookup_some_in. exact E.
  - rewrite alookup_map_notin; [unfold supers_of; rewrite E; reflexivity|].
    intro Hin. apply Hset in Hin. exact (alookup_none_notin _ _ E Hin).
Qed.

(* mergeSupers looks at a hierarchy only through the direct superclasses of its classes *)
Lemma inherit_list_ext : forall h1 h2, (forall c, supers_of h1 c = supers_of h2 c) ->
  forall fuel c, inherit_list fuel h1 c = inherit_list fuel h2 c.
Proof.
  intros h1 h2 H fuel. induction fuel as [|f IH]; intro c; [reflexivity|].
  cbn [inherit_list]. rewrite H.
  assert (E : forall l acc, fold_left (fun acc d => add_new acc (inherit_list f h1 d)) l acc
                            = fold_left (fun acc d => add_new acc (inherit_list f h2 d)) l acc).
  { induction l as [|d r IHl]; intro acc; [reflexivity|]. cbn [fold_left]. rewrite IH. apply IHl. }
  apply E.
Qed.

Theorem class_forms_keep_precedence : forall h, order_ok h (class_order h) = true ->
  forall fuel c, inherit_list fuel (class_forms h) c = inherit_list fuel h c.
Proof. intros h Hok. apply inherit_list_ext. apply class_forms_supers. exact Hok. Qed.

Theorem class_forms_precedence_kept : forall h, order_ok h (class_order h) = true ->
  precedence_kept h (class_forms h) = true.
Proof.
  intros h Hok. unfold precedence_kept. apply forallb_forall. intros kv _.
  rewrite class_forms_keep_precedence by exact Hok.
  generalize (inherit_list (List.length h) h (fst kv)). intro l. induction l as [|x r IH]; [reflexivity|].
  cbn [strs_eqb]. rewrite String.eqb_refl. exact IH.
Qed.

Theorem class_forms_ranked : forall (h : hier) (rank : string -> nat),
  (forall c sups s, In (c, sups) h -> In s sups -> In s (map fst h) -> rank s < rank c) ->
  (forall c, In c (map fst h) -> rank c <= List.length h) ->
  (forall fuel c, inherit_list fuel (class_forms h) c = inherit_list fuel h c)
  /\ precedence_kept h (class_forms h) = true.
Proof.
  intros h rank H1 H2. pose proof (class_order_ok h rank H1 H2) as Hok.
  split; [exact (class_forms_keep_precedence h Hok)|exact (class_forms_precedence_kept h Hok)].
Qed.

(* S is sensitive to the order: a class that lists its superclasses against the name order gets another precedence when
   the form lists them by name (the duck: (bird animal) both with a slot speed) *)
Example sorted_supers_change_precedence :
  let h := [("c19s-animal", []); ("c19s-bird", []); ("c19s-duck", ["c19s-bird"; "c19s-animal"])] in
  order_ok h (class_order h) = true
  /\ precedence h "c19s-duck" = ["c19s-duck"; "c19s-bird"; "c19s-animal"]
  /\ precedence (class_forms h) "c19s-duck" = ["c19s-duck"; "c19s-bird"; "c19s-animal"]
  /\ precedence (class_forms_sorted h) "c19s-duck" = ["c19s-duck"; "c19s-animal"; "c19s-bird"]
  /\ precedence_kept h (class_forms_sorted h) = false.
Proof. repeat split; vm_compute; reflexivity. Qed.

(* the two-parent and diamond hierarchies of the enumerated block list the parents in both name orders *)
Example block_has_unsorted_supers :
  List.length (filter (fun h => negb (hier_eqb (class_forms h) (class_forms_sorted h))) block) = 15.
Proof. vm_compute. reflexivity. Qed.

(* ---- (B) ---- *)

Lemma load_defs : forall fs p acc,
  fold_left load_line (map Def fs) (p, acc) = (p, acc ++ map (fun f => (p, f)) fs).
Proof.
  induction fs as [|f r IH]; intros p acc; cbn [map fold_left load_line fst snd].
  - rewrite app_nil_r. reflexivity.
  - rewrite IH. rewrite <- app_assoc. reflexivity.
Qed.

Lemma load_blocks : forall ps st,
  snd (fold_left load_line (flat_map pkg_block ps) st) = snd st ++ defs_of ps.
Proof.
  induction ps as [|[p fs] r IH]; intro st; cbn [flat_map defs_of].
  - cbn [fold_left]. rewrite app_nil_r. reflexivity.
  - rewrite fold_left_app. rewrite IH. fold (defs_of r). cbn [fst snd]. destruct st as [q acc].
    unfold pkg_block. cbn [fst snd]. destruct fs as [|f fs'].
    + cbn [fold_left map app snd]. reflexivity.
    + cbn [fold_left]. unfold load_line at 2. cbn [fst snd]. rewrite load_defs. cbn [snd]. rewrite app_assoc. reflexivity.
Qed.

Theorem fun_section_restores : forall start cur ps,
  load_section start (fun_section cur ps) = (cur, defs_of ps).
Proof.
  intros start cur ps. unfold load_section, fun_section. rewrite fold_left_app. cbn [fold_left load_line].
  rewrite load_blocks. reflexivity.
Qed.

Lemma defs_eqb_refl : forall l, defs_eqb l l = true.
Proof. induction l as [|[p f] r IH]; [reflexivity|]. cbn [defs_eqb]. rewrite !String.eqb_refl. exact IH. Qed.

Theorem fun_section_meets_spec : forall start cur ps, section_restores start cur ps (fun_section cur ps) = true.
Proof.
  intros. unfold section_restores. rewrite fun_section_restores. cbn [fst snd]. rewrite String.eqb_refl. apply defs_eqb_refl.
Qed.

Theorem fun_section_both : forall start cur ps,
  load_section start (fun_section cur ps) = (cur, defs_of ps)
  /\ section_restores start cur ps (fun_section cur ps) = true.
Proof. intros. split; [apply fun_section_restores|apply fun_section_meets_spec]. Qed.

(* S is sensitive to the switch: without the line for the current package its functions land in the package of the section
   before *)
Example switch_to_current_package_needed :
  let ps := [("common-lisp-user", ["c19s-helper"]); ("c19s-zoo", ["c19s-twice"])] in
  snd (load_section "common-lisp-user" (fun_section "c19s-zoo" ps))
    = [("common-lisp-user", "c19s-helper"); ("c19s-zoo", "c19s-twice")]
  /\ snd (load_section "common-lisp-user" (fun_section_skip "c19s-zoo" ps))
    = [("common-lisp-user", "c19s-helper"); ("common-lisp-user", "c19s-twice")]
  /\ section_restores "common-lisp-user" "c19s-zoo" ps (fun_section_skip "c19s-zoo" ps) = false
  /\ section_restores "common-lisp-user" "common-lisp-user" ps (fun_section_skip "common-lisp-user" ps) = true.
Proof. repeat split; vm_compute; reflexivity. Qed.
