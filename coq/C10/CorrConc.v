(* C10 — correspondence for the concurrent scenario of the harness (harness/c10/conc.go): one
   routine changes the method table (its mutations are totally ordered), others call the generic
   function, find-method and compute-applicable-methods meanwhile. Every observation carries the
   window [lo, hi] of the numbers of mutations that can have taken effect when it was answered
   (lo: finished before it began; hi: begun before it ended). By C10_concurrent_linearizable the
   answer must be that of the sequential semantics on the table after j mutations for some j in
   the window; by C10_cache_transparent that is the cache-free pure_call. *)
From C10 Require Import Model Spec Proofs Corr ModelConc.

Record ccase := {
  cc_init : list op;                                                         (* definitions before the routines start *)
  cc_muts : list op;                                                         (* the writer's defmethod / remove-method, in order *)
  cc_calls : list (nat * nat * list cls * argv * (list event * result));     (* lo, hi, classes, objects, observed *)
  cc_finds : list (nat * nat * qual * key * bool);
  cc_apps : list (nat * nat * list cls * list (qual * key)) }.

Definition table_after (c : ccase) (j : nat) : list (key * combo) :=
  fold_left spec_step (cc_init c ++ firstn j (cc_muts c)) [].
Definition window (lo hi : nat) : list nat := seq lo (S (hi - lo)).

Definition qual_eqb (a b : qual) : bool :=
  match a, b with QPrimary, QPrimary | QBefore, QBefore | QAfter, QAfter | QAround, QAround => true | _, _ => false end.
Definition qk_eqb (a b : qual * key) : bool := qual_eqb (fst a) (fst b) && key_eqb (snd a) (snd b).

Definition call_unexplained (ct : ctable) (c : ccase) (x : nat * nat * list cls * argv * (list event * result)) : bool :=
  let '(lo, hi, cs, v, obs) := x in
  negb (existsb (fun j => out_eqb (Some obs) (Some (pure_call ct (table_after c j) cs v))) (window lo hi)).
Definition call_in_guard (ct : ctable) (c : ccase) (x : nat * nat * list cls * argv * (list event * result)) : bool :=
  let '(lo, hi, cs, v, obs) := x in forallb (fun j => guardb ct (table_after c j) cs) (window lo hi).
Definition find_unexplained (c : ccase) (x : nat * nat * qual * key * bool) : bool :=
  let '(lo, hi, q, k, b) := x in
  negb (existsb (fun j => Bool.eqb b (find_method (table_after c j) q k)) (window lo hi)).
Definition app_unexplained (ct : ctable) (c : ccase) (x : nat * nat * list cls * list (qual * key)) : bool :=
  let '(lo, hi, cs, l) := x in
  negb (existsb (fun j => list_eqb qk_eqb l (applicable_list (table_after c j) (map (hier_of ct) cs))) (window lo hi)).

(* 0: every answer is explained by a table of its window.
   1: a call is explained by no table of its window, but some table of the window is outside the guard.
   2: an answer is explained by no table of its window (calls: all tables of the window inside the guard) *)
Definition ccheck_case (ct : ctable) (c : ccase) : N :=
  if existsb (fun x => call_unexplained ct c x && call_in_guard ct c x) (cc_calls c)
     || existsb (find_unexplained c) (cc_finds c) || existsb (app_unexplained ct c) (cc_apps c) then 2%N
  else if existsb (call_unexplained ct c) (cc_calls c) then 1%N else 0%N.

Fixpoint ccheck_all_from (ct : ctable) (i : N) (cs : list ccase) : list (N * N) :=
  match cs with
  | [] => []
  | c :: cs' => let r := ccheck_case ct c in
                (if N.eqb r 0 then [] else [(i, r)]) ++ ccheck_all_from ct (N.succ i) cs'
  end.
Definition ccheck_all (ct : ctable) := ccheck_all_from ct 0.

Definition cobs_count (cs : list ccase) : N :=
  fold_left (fun a c => (a + N.of_nat (List.length (cc_calls c) + List.length (cc_finds c) + List.length (cc_apps c)))%N) cs 0%N.
Definition coverlap_count (cs : list ccase) : N :=
  fold_left (fun a c => (a + N.of_nat (
     List.length (filter (fun x => let '(lo, hi, _, _, _) := x in Nat.ltb lo hi) (cc_calls c)) +
     List.length (filter (fun x => let '(lo, hi, _, _, _) := x in Nat.ltb lo hi) (cc_finds c)) +
     List.length (filter (fun x => let '(lo, hi, _, _) := x in Nat.ltb lo hi) (cc_apps c))))%N) cs 0%N.
