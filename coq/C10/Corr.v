(* C10 — correspondence: the harness writes histories with the outputs the Go implementation
   produced; check_case re-runs the model M on the history, compares, and judges a difference
   by the specification S inside the guard. *)
From C10 Require Import Model Spec Proofs ModelDoc.

Fixpoint list_eqb {A} (eqb : A -> A -> bool) (a b : list A) : bool :=
  match a, b with
  | [], [] => true
  | x :: a', y :: b' => eqb x y && list_eqb eqb a' b'
  | _, _ => false
  end.
Definition event_eqb (a b : event) : bool :=
  match a, b with
  | Ev x v, Ev y w => N.eqb x y && list_eqb Bool.eqb v w
  | EvNmp x, EvNmp y => Bool.eqb x y
  | EvEnd x, EvEnd y => N.eqb x y
  | _, _ => false
  end.
Definition result_eqb (a b : result) : bool :=
  match a, b with
  | RVal x, RVal y => N.eqb x y
  | RErr x, RErr y => N.eqb x y
  | RNil, RNil | RNoApplicable, RNoApplicable | RNoNext, RNoNext
  | ROutOfFuel, ROutOfFuel | ROther, ROther => true
  | _, _ => false
  end.
Definition out_eqb (a b : out) : bool :=
  match a, b with
  | None, None => true
  | Some (t1, r1), Some (t2, r2) => list_eqb event_eqb t1 t2 && result_eqb r1 r2
  | _, _ => false
  end.

(* the operations are written with the spelling of each method's parameters (ModelDoc.sop): the
   model run is the spelled one (srun with the table's renderer, the repaired remove-method); S is
   judged on the erased history *)
Record case := { k_ct : ctable; k_n : nat; k_ops : list sop; k_obs : list out }.

(* does the observed output violate S at some call inside the guard? *)
Fixpoint spec_violation (ct : ctable) (tbl : list (key * combo)) (ops : list op) (obs : list out) : bool :=
  match ops, obs with
  | o :: ops', ob :: obs' =>
      (match o with
       | OpCall cs v => guardb ct tbl cs && negb (out_eqb ob (Some (spec_call ct tbl cs v)))
       | _ => false
       end) || spec_violation ct (spec_step tbl o) ops' obs'
  | _, _ => false
  end.

(* 0: model = observed and no in-guard call of it differs from S;
   1: model <> observed, no in-guard violation of S found;
   2: model <> observed and the observed outputs violate S inside the guard;
   3: self-check: model = observed but an in-guard call differs from S (contradicts C10_run_eq_spec_partial) *)
Definition check_case (c : case) : N :=
  let m := snd (srun form_key (k_ct c) (new_saux (k_n c)) (k_ops c)) in
  let viol := spec_violation (k_ct c) [] (map erase (k_ops c)) (k_obs c) in
  if list_eqb out_eqb m (k_obs c) then (if viol then 3%N else 0%N)
  else if viol then 2%N else 1%N.

Fixpoint check_all_from (i : N) (cs : list case) : list (N * N) :=
  match cs with
  | [] => []
  | c :: cs' => let r := check_case c in
                (if N.eqb r 0 then [] else [(i, r)]) ++ check_all_from (N.succ i) cs'
  end.
Definition check_all := check_all_from 0.

(* how many calls of the cases lie inside the guard (reported in the evidence) *)
Fixpoint in_guard_calls (ct : ctable) (tbl : list (key * combo)) (ops : list op) : N :=
  match ops with
  | [] => 0
  | o :: ops' => ((match o with OpCall cs _ => if guardb ct tbl cs then 1 else 0 | _ => 0 end)
                 + in_guard_calls ct (spec_step tbl o) ops')%N
  end.
Definition guard_count (cs : list case) : N :=
  fold_left (fun acc c => (acc + in_guard_calls (k_ct c) [] (map erase (k_ops c)))%N) cs 0%N.

(* how many methods of the cases were written with a bare parameter *)
Definition bare_defs (cs : list case) : N :=
  fold_left (fun acc c => (acc + N.of_nat (List.length (filter (fun o => match o with
     | SDef _ ps _ => existsb (fun p => match p with None => true | Some _ => false end) ps
     | _ => false end) (k_ops c))))%N) cs 0%N.
