(* C10 — the model of the UNREPAIRED dispatch code and the specification as it was stated for it,
   kept verbatim (the development as of the commit before repo_fixes/C10-1..C10-5) so that the
   refutations that motivated the repairs remain checked: with this model the second :around
   method is skipped and daemons run without a primary. Nothing else depends on this file. *)
From Coq Require Import List String Bool Arith NArith Lia Sorting.Sorted.
Import ListNotations.
Open Scope string_scope.
Open Scope list_scope.

Module Orig.
Definition cls := string.
Definition key := list cls.                 (* one specializer per required argument *)
Definition mid := N.                        (* identity of a method body *)

Inductive qual := QPrimary | QBefore | QAfter | QAround.

(* a method body: its identity and whether (for :around) it calls call-next-method *)
Record body := { b_id : mid; b_next : bool }.

Record combo := { c_primary : option body; c_before : option body;
                  c_after : option body; c_wrap : option body }.
Definition empty_combo := {| c_primary := None; c_before := None; c_after := None; c_wrap := None |}.
Definition combo_is_empty (c : combo) : bool :=
  match c_primary c, c_before c, c_after c, c_wrap c with
  | None, None, None, None => true | _, _, _, _ => false end.

Definition set_qual (c : combo) (q : qual) (b : option body) : combo :=
  match q with
  | QPrimary => {| c_primary := b; c_before := c_before c; c_after := c_after c; c_wrap := c_wrap c |}
  | QBefore => {| c_primary := c_primary c; c_before := b; c_after := c_after c; c_wrap := c_wrap c |}
  | QAfter => {| c_primary := c_primary c; c_before := c_before c; c_after := b; c_wrap := c_wrap c |}
  | QAround => {| c_primary := c_primary c; c_before := c_before c; c_after := c_after c; c_wrap := b |}
  end.
Definition get_qual (c : combo) (q : qual) : option body :=
  match q with QPrimary => c_primary c | QBefore => c_before c | QAfter => c_after c | QAround => c_wrap c end.

Definition key_eqb (a b : key) : bool := if list_eq_dec string_dec a b then true else false.

(* association lists stand for the Go maps; only lookup, insert, delete and len are used by the
   code, so iteration order never matters *)
Section Assoc.
  Context {V : Type}.
  Fixpoint alookup (k : key) (m : list (key * V)) : option V :=
    match m with
    | [] => None
    | (k', v) :: m' => if key_eqb k k' then Some v else alookup k m'
    end.
  Fixpoint adelete (k : key) (m : list (key * V)) : list (key * V) :=
    match m with
    | [] => []
    | (k', v) :: m' => if key_eqb k k' then adelete k m' else (k', v) :: adelete k m'
    end.
  Definition ainsert (k : key) (v : V) (m : list (key * V)) : list (key * V) :=
    (k, v) :: adelete k m.
End Assoc.

(* Aux: the cache maps the tuple of *first* hierarchy entries of the arguments (buildSpecKey) to
   the list of combinations collected for it. The Go code stores pointers to the combinations, so
   the cache entry is modelled as the list of method keys and is dereferenced at call time. *)
Record aux := { methods : list (key * combo);
                cache : list (key * list key);
                dflt : option body;
                reqcnt : nat }.

Definition new_aux (n : nat) : aux := {| methods := []; cache := []; dflt := None; reqcnt := n |}.

(* NewAux: defaultKey := string(dk[:len(dk)-2]) where dk = "t|" repeated reqCnt times. *)
Fixpoint rep_t (n : nat) : string := match n with O => "" | S n' => String.append "t|" (rep_t n') end.
Definition default_key (n : nat) : string :=
  let dk := rep_t n in substring 0 (String.length dk - 2) dk.
Fixpoint join_key (k : key) : string :=
  match k with [] => "" | [c] => c | c :: k' => String.append c (String.append "|" (join_key k')) end.

(* updateDefaultCaller *)
Definition update_default (ms : list (key * combo)) (n : nat) : option body :=
  match ms with
  | [(k, c)] =>
      if String.eqb (default_key n) (join_key k) then
        match c_primary c, c_before c, c_after c, c_wrap c with
        | Some p, None, None, None => Some p
        | _, _, _, _ => None
        end
      else None
  | _ => None
  end.

(* addMethodCaller *)
Definition add_method (a : aux) (q : qual) (k : key) (b : body) : aux :=
  let c := match alookup k (methods a) with Some c => c | None => empty_combo end in
  let ms := match alookup k (methods a) with
            | Some _ => map (fun kc => if key_eqb k (fst kc) then (fst kc, set_qual c q (Some b)) else kc) (methods a)
            | None => methods a ++ [(k, set_qual c q (Some b))]
            end in
  {| methods := ms; cache := []; dflt := update_default ms (reqcnt a); reqcnt := reqcnt a |}.

(* find-method followed by remove-method: a no-op when the (key, qualifier) is not defined *)
Definition remove_method (a : aux) (q : qual) (k : key) : aux :=
  match alookup k (methods a) with
  | None => a
  | Some c =>
      match get_qual c q with
      | None => a
      | Some _ =>
          let c' := set_qual c q None in
          let ms := if combo_is_empty c' then adelete k (methods a)
                    else map (fun kc => if key_eqb k (fst kc) then (fst kc, c') else kc) (methods a) in
          {| methods := ms; cache := []; dflt := update_default ms (reqcnt a); reqcnt := reqcnt a |}
      end
  end.

(* collectMethods: nested walk over the hierarchies of the arguments, first argument outermost *)
Fixpoint collect (ms : list (key * combo)) (prefix : key) (hiers : list (list cls)) : list key :=
  match hiers with
  | [] => match alookup prefix ms with Some _ => [prefix] | None => [] end
  | h :: hs => flat_map (fun c => collect ms (prefix ++ [c]) hs) h
  end.

Inductive event := Ev (m : mid) | EvEnd (m : mid).
Inductive result := RVal (m : mid)       (* value of the primary: its identity *)
                  | RNil                  (* no primary ran *)
                  | RNoApplicable         (* no-applicable-method *)
                  | RNoNext               (* no-next-method *)
                  | RNoPrimary            (* applicable methods but no primary (never produced by M) *)
                  | ROutOfFuel
                  | ROther.               (* observed only: any other condition, fault or timeout *)

Definition deref (ms : list (key * combo)) (ks : list key) : list combo :=
  flat_map (fun k => match alookup k ms with Some c => [c] | None => [] end) ks.

Definition opt_ev (o : option body) : list event := match o with Some b => [Ev (b_id b)] | None => [] end.

(* Method.InnerCall *)
Definition inner_call (cs : list combo) : list event * result :=
  let befores := flat_map (fun c => opt_ev (c_before c)) cs in
  let prim := match flat_map (fun c => match c_primary c with Some b => [b] | None => [] end) cs with
              | b :: _ => ([Ev (b_id b)], RVal (b_id b)) | [] => ([], RNil) end in
  let afters := flat_map (fun c => opt_ev (c_after c)) (rev cs) in
  (befores ++ fst prim ++ afters, snd prim).

(* index of the first combination at position >= from that has a Wrap *)
Fixpoint next_wrap (cs : list combo) (from : nat) (fuel : nat) : option nat :=
  match fuel with
  | O => None
  | S fuel' =>
      match nth_error cs from with
      | None => None
      | Some c => match c_wrap c with Some _ => Some from | None => next_wrap cs (S from) fuel' end
      end
  end.
Definition has_inner (cs : list combo) : bool :=
  existsb (fun c => match c_primary c, c_before c, c_after c with None, None, None => false | _, _, _ => true end) cs.

(* run_wrap: the Wrap of combination i runs with a WhopLoc whose Current is cur.
   call-next-method = HasNext (which advances Current!) followed by Continue (which advances again) *)
Fixpoint run_wrap (fuel : nat) (cs : list combo) (i cur : nat) : list event * result :=
  match fuel with
  | O => ([], ROutOfFuel)
  | S fuel' =>
      match nth_error cs i with
      | Some c =>
          match c_wrap c with
          | Some b =>
              if b_next b then
                (* HasNext *)
                let cur1 := S cur in
                let '(hasnext, cur2) :=
                  match next_wrap cs cur1 (List.length cs) with
                  | Some j => (true, j)
                  | None => (has_inner cs, Nat.max cur1 (List.length cs))
                  end in
                if hasnext then
                  (* Continue *)
                  let cur3 := S cur2 in
                  let '(tr, r) :=
                    match next_wrap cs cur3 (List.length cs) with
                    | Some j' => run_wrap fuel' cs j' (S j')
                    | None => inner_call cs
                    end in
                  (* an error raised further in unwinds through this body *)
                  match r with
                  | RNoNext | ROutOfFuel => (Ev (b_id b) :: tr, r)
                  | _ => (Ev (b_id b) :: tr ++ [EvEnd (b_id b)], r)
                  end
                else ([Ev (b_id b)], RNoNext)
              else ([Ev (b_id b); EvEnd (b_id b)], RVal (b_id b))
          | None => ([], ROutOfFuel)
          end
      | None => ([], ROutOfFuel)
      end
  end.

(* Method.Call *)
Definition method_call (cs : list combo) : list event * result :=
  match next_wrap cs 0 (List.length cs) with
  | Some i => run_wrap (S (List.length cs)) cs i i
  | None => inner_call cs
  end.

(* class table: the precedence list (Hierarchy()) of each class, most specific first; a nil
   argument and an unknown class have the hierarchy (t) *)
Definition ctable := list (cls * list cls).
Fixpoint hier_of (ct : ctable) (c : cls) : list cls :=
  match ct with
  | [] => ["t"]
  | (c', h) :: ct' => if String.eqb c c' then h else hier_of ct' c
  end.

(* Aux.Call: the arguments are given by their classes; hiers are their Hierarchy() lists *)
Definition spec_key (hiers : list (list cls)) : key := map (fun h => hd "t" h) hiers.

Definition call (ct : ctable) (a : aux) (cs : list cls) : aux * (list event * result) :=
  let hiers := map (hier_of ct) cs in
  match dflt a with
  | Some b => (a, ([Ev (b_id b)], RVal (b_id b)))
  | None =>
      let ck := spec_key hiers in
      match alookup ck (cache a) with
      | Some ks => (a, method_call (deref (methods a) ks))
      | None =>
          let ks := collect (methods a) [] hiers in
          match ks with
          | [] => (a, ([], RNoApplicable))
          | _ => ({| methods := methods a; cache := ainsert ck ks (cache a); dflt := dflt a; reqcnt := reqcnt a |},
                  method_call (deref (methods a) ks))
          end
      end
  end.

Inductive op :=
| OpDef (q : qual) (k : key) (b : body)
| OpRemove (q : qual) (k : key)
| OpCall (cs : list cls).

Definition out := option (list event * result).

Definition step (ct : ctable) (a : aux) (o : op) : aux * out :=
  match o with
  | OpDef q k b => (add_method a q k b, None)
  | OpRemove q k => (remove_method a q k, None)
  | OpCall cs => let '(a', r) := call ct a cs in (a', Some r)
  end.

Fixpoint run (ct : ctable) (a : aux) (ops : list op) : aux * list out :=
  match ops with
  | [] => (a, [])
  | o :: ops' => let '(a1, r) := step ct a o in let '(a2, rs) := run ct a1 ops' in (a2, r :: rs)
  end.

(* position of a class in a precedence list *)
Fixpoint pos (h : list cls) (c : cls) : nat :=
  match h with
  | [] => 0
  | c' :: h' => if String.eqb c c' then 0 else S (pos h' c)
  end.
Fixpoint posvec (hs : list (list cls)) (k : key) : list nat :=
  match hs, k with
  | h :: hs', c :: k' => pos h c :: posvec hs' k'
  | _, _ => []
  end.
(* lexicographic order on position vectors: the first argument is the most significant *)
Fixpoint lex_lt (a b : list nat) : Prop :=
  match a, b with
  | x :: a', y :: b' => (x < y)%nat \/ (x = y /\ lex_lt a' b')
  | _, _ => False
  end.
Fixpoint lex_ltb (a b : list nat) : bool :=
  match a, b with
  | x :: a', y :: b' => Nat.ltb x y || (Nat.eqb x y && lex_ltb a' b')
  | _, _ => false
  end.

(* a method is applicable when each specializer is in the precedence list of its argument *)
Definition applicable (hs : list (list cls)) (k : key) : Prop := Forall2 (fun c h => In c h) k hs.
Fixpoint applicableb (hs : list (list cls)) (k : key) : bool :=
  match k, hs with
  | [], [] => true
  | c :: k', h :: hs' => existsb (String.eqb c) h && applicableb hs' k'
  | _, _ => false
  end.

Definition more_specific (hs : list (list cls)) (a b : key) : Prop := lex_lt (posvec hs a) (posvec hs b).

(* THE dispatch order: the applicable methods, most specific first *)
Definition dispatch_order (hs : list (list cls)) (tbl : list (key * combo)) (ks : list key) : Prop :=
  StronglySorted (more_specific hs) ks /\
  forall k, In k ks <-> (alookup k tbl <> None /\ applicable hs k).

(* executable version: insertion sort of the applicable keys *)
Fixpoint insert_key (hs : list (list cls)) (k : key) (l : list key) : list key :=
  match l with
  | [] => [k]
  | k' :: l' => if lex_ltb (posvec hs k) (posvec hs k') then k :: l else k' :: insert_key hs k l'
  end.
Definition sort_keys (hs : list (list cls)) (l : list key) : list key := fold_right (insert_key hs) [] l.
Definition dispatch (hs : list (list cls)) (tbl : list (key * combo)) : list key :=
  sort_keys hs (filter (applicableb hs) (map fst tbl)).

(* effective method: arounds most specific first, each wrapping the rest through call-next-method;
   then befores most specific first, the most specific primary, afters least specific first *)
Fixpoint spec_wrap (arounds : list body) (inner : list event * result) : list event * result :=
  match arounds with
  | [] => inner
  | b :: rest =>
      if b_next b then let '(tr, r) := spec_wrap rest inner in (Ev (b_id b) :: tr ++ [EvEnd (b_id b)], r)
      else ([Ev (b_id b); EvEnd (b_id b)], RVal (b_id b))
  end.

Definition opt_list {A} (o : option A) : list A := match o with Some x => [x] | None => [] end.

Definition effective (cs : list combo) : list event * result :=
  let arounds := flat_map (fun c => opt_list (c_wrap c)) cs in
  let befores := flat_map (fun c => opt_list (c_before c)) cs in
  let prims := flat_map (fun c => opt_list (c_primary c)) cs in
  let afters := flat_map (fun c => opt_list (c_after c)) cs in
  match prims with
  | p :: _ =>
      spec_wrap arounds (map (fun b => Ev (b_id b)) befores ++ [Ev (b_id p)] ++
                         map (fun b => Ev (b_id b)) (rev afters), RVal (b_id p))
  | [] => ([], RNoPrimary)   (* no applicable primary method: an error in the language *)
  end.

Definition spec_call (ct : ctable) (tbl : list (key * combo)) (cs : list cls) : list event * result :=
  let hs := map (hier_of ct) cs in
  match dispatch hs tbl with
  | [] => ([], RNoApplicable)
  | ks => effective (deref tbl ks)
  end.

(* abstract method table after a history: a finite map updated by defmethod / remove-method *)
Definition tbl_update (tbl : list (key * combo)) (k : key) (c : combo) : list (key * combo) :=
  match alookup k tbl with
  | Some _ => map (fun kc => if key_eqb k (fst kc) then (fst kc, c) else kc) tbl
  | None => tbl ++ [(k, c)]
  end.
Definition spec_step (tbl : list (key * combo)) (o : op) : list (key * combo) :=
  match o with
  | OpDef q k b =>
      let c := match alookup k tbl with Some c => c | None => empty_combo end in
      tbl_update tbl k (set_qual c q (Some b))
  | OpRemove q k =>
      match alookup k tbl with
      | Some c => match get_qual c q with
                  | Some _ => let c' := set_qual c q None in
                              if combo_is_empty c' then adelete k tbl else tbl_update tbl k c'
                  | None => tbl
                  end
      | None => tbl
      end
  | OpCall _ => tbl
  end.
Definition spec_table (ops : list op) : list (key * combo) := fold_left spec_step ops [].

(* what each operation of a history should return, by the specification *)
Fixpoint spec_run (ct : ctable) (tbl : list (key * combo)) (ops : list op) : list out :=
  match ops with
  | [] => []
  | OpCall cs :: ops' => Some (spec_call ct tbl cs) :: spec_run ct tbl ops'
  | o :: ops' => None :: spec_run ct (spec_step tbl o) ops'
  end.

Definition ct_num : ctable :=
  [("fixnum", ["fixnum"; "integer"; "rational"; "real"; "number"; "t"]);
   ("ratio", ["ratio"; "rational"; "real"; "number"; "t"])]%string.
Definition B (n : N) := {| b_id := n; b_next := true |}.

(* two applicable :around methods: the less specific one is skipped *)
Definition ops_two_arounds : list op :=
  [OpDef QPrimary ["t"] (B 1); OpDef QAround ["fixnum"] (B 2); OpDef QAround ["integer"] (B 3);
   OpCall ["fixnum"]]%string.
Lemma second_around_skipped_refuted :
  snd (run ct_num (new_aux 1) ops_two_arounds) = [None; None; None; Some ([Ev 2; Ev 1; EvEnd 2], RVal 1)]%N /\
  spec_run ct_num [] ops_two_arounds = [None; None; None; Some ([Ev 2; Ev 3; Ev 1; EvEnd 3; EvEnd 2], RVal 1)]%N.
Proof. split; vm_compute; reflexivity. Qed.

(* applicable daemons but no applicable primary: M runs them and returns nil, S signals an error *)
Definition ops_no_primary : list op := [OpDef QBefore ["t"] (B 1); OpCall ["fixnum"]]%string.
Lemma no_primary_refuted :
  snd (run ct_num (new_aux 1) ops_no_primary) = [None; Some ([Ev 1], RNil)]%N /\
  spec_run ct_num [] ops_no_primary = [None; Some ([], RNoPrimary)].
Proof. split; vm_compute; reflexivity. Qed.
End Orig.
