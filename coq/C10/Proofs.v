(* C10 — proofs. *)
From C10 Require Import Model Spec.
From Coq Require Import Sorting.Sorted Permutation.

Lemma key_eqb_eq a b : key_eqb a b = true <-> a = b.
Proof. unfold key_eqb; destruct (list_eq_dec string_dec a b); split; congruence. Qed.
Lemma key_eqb_refl a : key_eqb a a = true.
Proof. apply key_eqb_eq; reflexivity. Qed.
Lemma key_eqb_neq a b : a <> b -> key_eqb a b = false.
Proof. unfold key_eqb; destruct (list_eq_dec string_dec a b); congruence. Qed.

(* ---------- enumeration of specializer tuples in dispatch order ---------- *)

Fixpoint enum (hs : list (list cls)) : list key :=
  match hs with
  | [] => [[]]
  | h :: hs' => flat_map (fun c => map (cons c) (enum hs')) h
  end.

Definition has_key {V} (ms : list (key * V)) (k : key) : bool :=
  match alookup k ms with Some _ => true | None => false end.

Lemma collect_enum (ms : list (key * combo)) hs : forall p,
  collect ms p hs = filter (has_key ms) (map (app p) (enum hs)).
Proof.
  induction hs as [|h hs IH]; intros p; cbn [collect enum].
  - cbn. rewrite app_nil_r. unfold has_key. destruct (alookup p ms); reflexivity.
  - induction h as [|c h IHh]; cbn [flat_map]; [reflexivity|].
    rewrite map_app, filter_app. f_equal; [|exact IHh]. rewrite IH.
    rewrite map_map. f_equal. apply map_ext. intros k. rewrite <- app_assoc. reflexivity.
Qed.

Lemma in_enum hs : forall k, In k (enum hs) <-> applicable hs k.
Proof.
  unfold applicable. induction hs as [|h hs IH]; intros k; cbn [enum].
  - split.
    + intros [<-|[]]. constructor.
    + intros H. inversion H. left; reflexivity.
  - rewrite in_flat_map. split.
    + intros (c & Hc & Hk). apply in_map_iff in Hk as (k' & <- & Hk'). constructor; [exact Hc|]. apply IH, Hk'.
    + intros H. inversion H as [|c h' k' hs' Hc Hk']; subst. exists c; split; [exact Hc|].
      apply in_map. apply IH, Hk'.
Qed.

Lemma pos_lt_app (h1 h2 : list cls) c c' :
  ~ In c' h1 -> In c h1 -> (pos (h1 ++ c' :: h2) c < pos (h1 ++ c' :: h2) c')%nat.
Proof.
  induction h1 as [|x h1 IH]; intros Hn Hc; [destruct Hc|].
  cbn [app pos]. destruct (String.eqb_spec c x) as [->|Hne].
  - destruct (String.eqb_spec c' x) as [->|_]; [exfalso; apply Hn; left; reflexivity|lia].
  - destruct (String.eqb_spec c' x) as [->|_]; [exfalso; apply Hn; left; reflexivity|].
    apply -> Nat.succ_lt_mono. apply IH; [intros Hi; apply Hn; right; exact Hi|].
    destruct Hc as [->|Hc]; [congruence|exact Hc].
Qed.

Lemma StronglySorted_app {A} (R : A -> A -> Prop) l1 l2 :
  StronglySorted R l1 -> StronglySorted R l2 ->
  (forall x y, In x l1 -> In y l2 -> R x y) -> StronglySorted R (l1 ++ l2).
Proof.
  induction l1 as [|a l1 IH]; intros H1 H2 H12; [exact H2|].
  cbn. inversion H1 as [|? ? Hs Hf]; subst. constructor.
  - apply IH; [exact Hs|exact H2|]. intros x y Hx Hy. apply H12; [right; exact Hx|exact Hy].
  - apply Forall_app; split; [exact Hf|]. apply Forall_forall. intros y Hy. apply H12; [left; reflexivity|exact Hy].
Qed.

Lemma StronglySorted_map_cons hs h c l :
  StronglySorted (more_specific hs) l -> StronglySorted (more_specific (h :: hs)) (map (cons c) l).
Proof.
  induction 1 as [|k l Hs IH Hf]; cbn; constructor; [exact IH|].
  apply Forall_forall. intros y Hy. apply in_map_iff in Hy as (y' & <- & Hy').
  unfold more_specific; cbn. right; split; [reflexivity|].
  rewrite Forall_forall in Hf. apply Hf, Hy'.
Qed.

Lemma enum_sorted hs : Forall (@NoDup cls) hs -> StronglySorted (more_specific hs) (enum hs).
Proof.
  induction hs as [|h hs IH]; intros Hnd; cbn [enum].
  - repeat constructor.
  - inversion Hnd as [|? ? Hh Hhs]; subst. specialize (IH Hhs).
    (* generalise over a split h = done ++ todo so that positions refer to the whole list *)
    assert (G : forall todo done, h = done ++ todo ->
              StronglySorted (more_specific (h :: hs)) (flat_map (fun c => map (cons c) (enum hs)) todo)).
    { induction todo as [|c todo IHt]; intros done Heq; cbn [flat_map]; [constructor|].
      apply StronglySorted_app.
      - apply StronglySorted_map_cons, IH.
      - apply (IHt (done ++ [c])). rewrite <- app_assoc. exact Heq.
      - intros x y Hx Hy. apply in_map_iff in Hx as (x' & <- & _).
        apply in_flat_map in Hy as (c' & Hc' & Hy). apply in_map_iff in Hy as (y' & <- & _).
        unfold more_specific; cbn. left.
        (* c is before c' in h *)
        apply in_split in Hc' as (t1 & t2 & ->).
        assert (Hh' : h = (done ++ c :: t1) ++ c' :: t2) by (rewrite Heq, <- app_assoc; reflexivity).
        rewrite Hh'. apply pos_lt_app.
        + rewrite Hh' in Hh. apply NoDup_remove_2 in Hh. intros Hi. apply Hh. apply in_or_app. left. exact Hi.
        + apply in_or_app. right. left. reflexivity. }
    apply (G h []). reflexivity.
Qed.

Lemma StronglySorted_filter {A} (R : A -> A -> Prop) f l :
  StronglySorted R l -> StronglySorted R (filter f l).
Proof.
  induction 1 as [|a l Hs IH Hf]; cbn; [constructor|].
  destruct (f a); [|exact IH]. constructor; [exact IH|].
  apply Forall_forall. intros y Hy. apply filter_In in Hy as [Hy _]. rewrite Forall_forall in Hf. apply Hf, Hy.
Qed.

(* collectMethods yields exactly the applicable methods, most specific first *)
Lemma collect_dispatch_order ms hs :
  Forall (@NoDup cls) hs -> dispatch_order hs ms (collect ms [] hs).
Proof.
  intros Hnd. rewrite collect_enum. cbn [app]. rewrite map_id. split.
  - apply StronglySorted_filter, enum_sorted, Hnd.
  - intros k. rewrite filter_In, in_enum. unfold has_key. destruct (alookup k ms); split; intros [H1 H2]; split; congruence || assumption.
Qed.

(* ---------- the dispatch order is unique, and the insertion sort computes it ---------- *)

Lemma lex_lt_irrefl a : ~ lex_lt a a.
Proof. induction a as [|x a IH]; cbn; [tauto|]. intros [H|[_ H]]; [lia|exact (IH H)]. Qed.
Lemma lex_lt_trans a : forall b c, lex_lt a b -> lex_lt b c -> lex_lt a c.
Proof.
  induction a as [|x a IH]; intros [|y b] [|z c]; cbn; try tauto.
  intros [H1|[-> H1]] [H2|[-> H2]]; try (left; lia). right; split; [reflexivity|]. eapply IH; eassumption.
Qed.
Lemma lex_ltb_spec a : forall b, lex_ltb a b = true <-> lex_lt a b.
Proof.
  induction a as [|x a IH]; intros [|y b]; cbn [lex_ltb lex_lt]; try (split; [discriminate|tauto]).
  rewrite orb_true_iff, andb_true_iff, Nat.ltb_lt, Nat.eqb_eq, IH. tauto.
Qed.
Lemma lex_trichotomy a : forall b, List.length a = List.length b -> lex_lt a b \/ a = b \/ lex_lt b a.
Proof.
  induction a as [|x a IH]; intros [|y b]; cbn; try discriminate; [right; left; reflexivity|].
  intros Hl. injection Hl as Hl. destruct (lt_eq_lt_dec x y) as [[H| ->]|H]; [left; left; exact H| |right; right; left; exact H].
  destruct (IH b Hl) as [H|[ ->|H]]; [left; right; split; [reflexivity|exact H]|right; left; reflexivity|right; right; right; split; [reflexivity|exact H]].
Qed.

Lemma sorted_unique {A} (R : A -> A -> Prop) :
  (forall x, ~ R x x) -> (forall x y z, R x y -> R y z -> R x z) ->
  forall l1 l2, StronglySorted R l1 -> StronglySorted R l2 -> (forall x, In x l1 <-> In x l2) -> l1 = l2.
Proof.
  intros Hirr Htr. induction l1 as [|a l1 IH]; intros [|b l2] H1 H2 Hin.
  - reflexivity.
  - exfalso. apply (proj2 (Hin b)). left; reflexivity.
  - exfalso. apply (proj1 (Hin a)). left; reflexivity.
  - inversion H1 as [|? ? Hs1 Hf1]; inversion H2 as [|? ? Hs2 Hf2]; subst.
    rewrite Forall_forall in Hf1, Hf2.
    assert (a = b) as ->.
    { destruct (proj1 (Hin a) (or_introl eq_refl)) as [->|Ha]; [reflexivity|].
      destruct (proj2 (Hin b) (or_introl eq_refl)) as [->|Hb]; [reflexivity|].
      exfalso. apply (Hirr a). eapply Htr; [apply Hf1, Hb|apply Hf2, Ha]. }
    f_equal. apply IH; [exact Hs1|exact Hs2|]. intros x. split; intros Hx.
    + destruct (proj1 (Hin x) (or_intror Hx)) as [<-|H]; [|exact H]. exfalso. apply (Hirr b), Hf1, Hx.
    + destruct (proj2 (Hin x) (or_intror Hx)) as [<-|H]; [|exact H]. exfalso. apply (Hirr b), Hf2, Hx.
Qed.

Theorem dispatch_order_unique hs tbl ks1 ks2 :
  dispatch_order hs tbl ks1 -> dispatch_order hs tbl ks2 -> ks1 = ks2.
Proof.
  intros [S1 I1] [S2 I2]. apply (sorted_unique (more_specific hs)); try assumption.
  - intros x. apply lex_lt_irrefl.
  - intros x y z. apply lex_lt_trans.
  - intros x. rewrite I1, I2. tauto.
Qed.

Lemma pos_inj h : forall c c', In c h -> In c' h -> pos h c = pos h c' -> c = c'.
Proof.
  induction h as [|x h IH]; intros c c' Hc Hc'; [destruct Hc|]. cbn.
  destruct (String.eqb_spec c x) as [->|Hn]; destruct (String.eqb_spec c' x) as [->|Hn']; try congruence; try discriminate.
  intros H. injection H as H. apply IH; [destruct Hc; congruence|destruct Hc'; congruence|exact H].
Qed.
Lemma posvec_inj hs : forall k k', applicable hs k -> applicable hs k' -> posvec hs k = posvec hs k' -> k = k'.
Proof.
  unfold applicable. induction hs as [|h hs IH]; intros k k' Hk Hk'; inversion Hk; inversion Hk'; subst; [reflexivity|].
  cbn. intros H. injection H as Hp Hr. f_equal; [eapply pos_inj; eassumption|apply IH; assumption].
Qed.
Lemma posvec_length hs : forall k, applicable hs k -> List.length (posvec hs k) = List.length hs.
Proof. unfold applicable. induction hs as [|h hs IH]; intros k Hk; inversion Hk; subst; cbn; [reflexivity|f_equal; apply IH; assumption]. Qed.

Lemma applicableb_spec hs : forall k, applicableb hs k = true <-> applicable hs k.
Proof.
  unfold applicable. induction hs as [|h hs IH]; intros [|c k]; cbn; try (split; [discriminate|intros H; inversion H]).
  - split; constructor.
  - rewrite andb_true_iff, IH, existsb_exists. split.
    + intros [(x & Hx & He) Hk]. apply String.eqb_eq in He as ->. constructor; assumption.
    + intros H. inversion H; subst. split; [|assumption]. exists c. split; [assumption|apply String.eqb_refl].
Qed.

Lemma in_insert_key hs k l x : In x (insert_key hs k l) <-> x = k \/ In x l.
Proof.
  induction l as [|k' l IH]; cbn; [intuition congruence|].
  destruct (lex_ltb _ _); cbn; [intuition congruence|]. rewrite IH. intuition congruence.
Qed.
Lemma in_sort_keys hs l x : In x (sort_keys hs l) <-> In x l.
Proof. induction l as [|k l IH]; cbn; [tauto|]. rewrite in_insert_key, IH. intuition congruence. Qed.

Lemma insert_sorted hs k l :
  StronglySorted (more_specific hs) l ->
  (forall x, In x l -> more_specific hs k x \/ more_specific hs x k) ->
  StronglySorted (more_specific hs) (insert_key hs k l).
Proof.
  induction 1 as [|k' l Hs IH Hf]; intros Htot; cbn; [repeat constructor|].
  destruct (lex_ltb (posvec hs k) (posvec hs k')) eqn:E.
  - apply lex_ltb_spec in E. constructor; [constructor; assumption|]. constructor; [exact E|].
    rewrite Forall_forall in Hf |- *. intros y Hy. eapply lex_lt_trans; [exact E|apply Hf, Hy].
  - assert (Hk : more_specific hs k' k).
    { destruct (Htot k' (or_introl eq_refl)) as [H|H]; [|exact H]. apply lex_ltb_spec in H. unfold more_specific in *. congruence. }
    constructor; [apply IH; intros x Hx; apply Htot; right; exact Hx|].
    apply Forall_forall. intros y Hy. apply in_insert_key in Hy as [->|Hy]; [exact Hk|]. rewrite Forall_forall in Hf. apply Hf, Hy.
Qed.

Lemma sort_keys_sorted hs l :
  NoDup l -> (forall k, In k l -> applicable hs k) -> StronglySorted (more_specific hs) (sort_keys hs l).
Proof.
  induction 1 as [|k l Hni Hnd IH]; intros Happ; cbn; [constructor|].
  apply insert_sorted; [apply IH; intros x Hx; apply Happ; right; exact Hx|].
  intros x Hx. apply in_sort_keys in Hx.
  assert (Hak : applicable hs k) by (apply Happ; left; reflexivity).
  assert (Hax : applicable hs x) by (apply Happ; right; exact Hx).
  destruct (lex_trichotomy (posvec hs k) (posvec hs x)) as [H|[H|H]].
  - rewrite !posvec_length; auto.
  - left; exact H.
  - exfalso. apply posvec_inj in H; [subst; contradiction|assumption|assumption].
  - right; exact H.
Qed.

Lemma alookup_in_fst {V} (ms : list (key * V)) k : alookup k ms <> None <-> In k (map fst ms).
Proof.
  induction ms as [|[k' v] ms IH]; cbn; [tauto|].
  destruct (key_eqb k k') eqn:E.
  - apply key_eqb_eq in E as ->. split; [left; reflexivity|discriminate].
  - rewrite IH. split; [right; assumption|]. intros [<-|H]; [rewrite key_eqb_refl in E; discriminate|exact H].
Qed.

(* the executable dispatch is the dispatch order *)
Theorem dispatch_is_dispatch_order hs tbl :
  NoDup (map fst tbl) -> dispatch_order hs tbl (dispatch hs tbl).
Proof.
  intros Hnd. unfold dispatch. split.
  - apply sort_keys_sorted; [apply NoDup_filter, Hnd|]. intros k Hk. apply filter_In in Hk as [_ Hk]. apply applicableb_spec, Hk.
  - intros k. rewrite in_sort_keys, filter_In, applicableb_spec, alookup_in_fst. tauto.
Qed.

Corollary collect_eq_dispatch hs tbl :
  NoDup (map fst tbl) -> Forall (@NoDup cls) hs -> collect tbl [] hs = dispatch hs tbl.
Proof.
  intros H1 H2. eapply dispatch_order_unique; [apply collect_dispatch_order, H2|apply dispatch_is_dispatch_order, H1].
Qed.

(* ---------- the default-caller fast path is never taken (NewAux computes a key no method has) ---------- *)

Lemma length_append a b : String.length (String.append a b) = String.length a + String.length b.
Proof. induction a as [|c a IH]; cbn; [reflexivity|rewrite IH; reflexivity]. Qed.
Lemma length_substring0 s : forall m, String.length (substring 0 m s) <= m.
Proof. induction s as [|c s IH]; intros [|m]; cbn; try lia. specialize (IH m). lia. Qed.
Lemma length_rep_t n : String.length (rep_t n) = 2 * n.
Proof. induction n as [|n IH]; cbn [rep_t]; [reflexivity|]. rewrite length_append, IH. cbn. lia. Qed.

Definition wf_key (n : nat) (k : key) : Prop := List.length k = n /\ Forall (fun c => c <> EmptyString) k.

Lemma length_join_key k : Forall (fun c => c <> EmptyString) k -> 2 * List.length k - 1 <= String.length (join_key k).
Proof.
  induction 1 as [|c k Hc Hk IH]; [cbn; lia|].
  assert (1 <= String.length c) by (destruct c; [congruence|cbn; lia]).
  destruct k as [|c' k]; [cbn; lia|].
  change (join_key (c :: c' :: k)) with (String.append c (String.append "|" (join_key (c' :: k)))).
  rewrite !length_append. cbn [String.length List.length] in *. lia.
Qed.

Lemma default_key_fresh n k : 1 <= n -> wf_key n k -> String.eqb (default_key n) (join_key k) = false.
Proof.
  intros Hn [Hl Hne]. apply String.eqb_neq. intros E.
  assert (H1 := length_substring0 (rep_t n) (String.length (rep_t n) - 2)).
  assert (H2 := length_join_key k Hne). unfold default_key in E. rewrite E in H1.
  rewrite length_rep_t in H1. unfold key, cls in *. lia.
Qed.

Lemma update_default_none ms n :
  1 <= n -> Forall (wf_key n) (map fst ms) -> update_default ms n = None.
Proof.
  intros Hn Hwf. unfold update_default. destruct ms as [|[k c] [|? ?]]; try reflexivity.
  inversion Hwf; subst. cbn [fst] in *. rewrite default_key_fresh; auto.
Qed.

(* ---------- method tables ---------- *)

Lemma map_fst_update {V} (ms : list (key * V)) k (v : V) :
  map fst (map (fun kc => if key_eqb k (fst kc) then (fst kc, v) else kc) ms) = map fst ms.
Proof. induction ms as [|[k' v'] ms IH]; cbn; [reflexivity|]. destruct (key_eqb k k'); cbn; rewrite IH; reflexivity. Qed.

Lemma in_adelete {V} (ms : list (key * V)) k x : In x (map fst (adelete k ms)) <-> In x (map fst ms) /\ x <> k.
Proof.
  induction ms as [|[k' v] ms IH]; cbn; [tauto|]. destruct (key_eqb k k') eqn:E.
  - apply key_eqb_eq in E as <-. rewrite IH. intuition congruence.
  - cbn. rewrite IH. assert (k <> k') by (intros ->; rewrite key_eqb_refl in E; discriminate). intuition congruence.
Qed.
Lemma nodup_adelete {V} (ms : list (key * V)) k : NoDup (map fst ms) -> NoDup (map fst (adelete k ms)).
Proof.
  induction ms as [|[k' v] ms IH]; cbn; [constructor|]. intros H. inversion H; subst.
  destruct (key_eqb k k'); [apply IH; assumption|]. cbn. constructor; [|apply IH; assumption].
  rewrite in_adelete. tauto.
Qed.

Definition wf_tbl (n : nat) (tbl : list (key * combo)) : Prop :=
  NoDup (map fst tbl) /\ Forall (wf_key n) (map fst tbl).

Definition wf_op (n : nat) (o : op) : Prop :=
  match o with
  | OpDef _ k _ => wf_key n k
  | OpRemove _ k => True
  | OpCall cs => List.length cs = n
  end.

Lemma tbl_update_wf n tbl k c : wf_key n k -> wf_tbl n tbl -> wf_tbl n (tbl_update tbl k c).
Proof.
  intros Hk [Hnd Hwf]. unfold tbl_update. destruct (alookup k tbl) eqn:E.
  - split; rewrite map_fst_update; assumption.
  - split; rewrite map_app; cbn.
    + apply (Permutation_NoDup (Permutation_cons_append _ _)). constructor; [|exact Hnd]. intros Hi. apply alookup_in_fst in Hi. congruence.
    + apply Forall_app; split; [exact Hwf|]. constructor; [exact Hk|constructor].
Qed.

Lemma adelete_wf n tbl k : wf_tbl n tbl -> wf_tbl n (adelete k tbl).
Proof.
  intros [Hnd Hwf]. split; [apply nodup_adelete, Hnd|].
  rewrite Forall_forall in *. intros x Hx. apply in_adelete in Hx as [Hx _]. apply Hwf, Hx.
Qed.

Lemma alookup_wf n tbl k (c : combo) : wf_tbl n tbl -> alookup k tbl = Some c -> wf_key n k.
Proof.
  intros [_ Hwf] E. rewrite Forall_forall in Hwf. apply Hwf. apply alookup_in_fst. congruence.
Qed.

Lemma spec_step_wf n tbl o : wf_op n o -> wf_tbl n tbl -> wf_tbl n (spec_step tbl o).
Proof.
  intros Ho Ht. destruct o as [q k b|q k|cs]; cbn [spec_step]; [apply tbl_update_wf; assumption| |exact Ht].
  destruct (alookup k tbl) as [c|] eqn:E; [|exact Ht]. destruct (get_qual c q); [|exact Ht].
  destruct (combo_is_empty _); [apply adelete_wf, Ht|]. apply tbl_update_wf; [|exact Ht]. eapply alookup_wf; eassumption.
Qed.

(* ---------- the cache is transparent: Inv and its preservation ---------- *)

Definition wf_cls (ct : ctable) (c : cls) : Prop := NoDup (hier_of ct c) /\ hd "t"%string (hier_of ct c) = c.

Definition Inv (ct : ctable) (n : nat) (a : aux) : Prop :=
  dflt a = None /\ reqcnt a = n /\ wf_tbl n (methods a) /\
  forall ck ks, alookup ck (cache a) = Some ks ->
                ks = collect (methods a) [] (map (hier_of ct) ck) /\ ks <> [].

Lemma Inv_init ct n : Inv ct n (new_aux n).
Proof. repeat split; cbn; try constructor; discriminate. Qed.

(* the implementation's semantics of a call with the cache and fast path erased *)
Definition pure_call (ct : ctable) (tbl : list (key * combo)) (cs : list cls) : list event * result :=
  match collect tbl [] (map (hier_of ct) cs) with
  | [] => ([], RNoApplicable)
  | ks => method_call (deref tbl ks)
  end.

Lemma add_method_spec a q k b : methods (add_method a q k b) = spec_step (methods a) (OpDef q k b).
Proof. unfold add_method, spec_step, tbl_update. cbn [methods]. destruct (alookup k (methods a)); reflexivity. Qed.
Lemma remove_method_spec a q k : methods (remove_method a q k) = spec_step (methods a) (OpRemove q k).
Proof.
  unfold remove_method, spec_step, tbl_update. destruct (alookup k (methods a)) as [c|] eqn:E; [|reflexivity].
  destruct (get_qual c q); [|reflexivity]. cbn [methods]. destruct (combo_is_empty _); reflexivity.
Qed.

Lemma alookup_ainsert {V} (m : list (key * V)) k v k' :
  alookup k' (ainsert k v m) = if key_eqb k' k then Some v else alookup k' m.
Proof.
  unfold ainsert. cbn. destruct (key_eqb k' k) eqn:E; [reflexivity|].
  induction m as [|[k2 v2] m IH]; cbn; [reflexivity|].
  destruct (key_eqb k k2) eqn:E2; [|cbn; rewrite IH; reflexivity].
  apply key_eqb_eq in E2 as <-. rewrite E. exact IH.
Qed.

Lemma spec_key_wf ct cs : Forall (wf_cls ct) cs -> spec_key (map (hier_of ct) cs) = cs.
Proof. unfold spec_key. induction 1 as [|c cs [_ Hc] _ IH]; cbn; [reflexivity|]. rewrite Hc. f_equal. exact IH. Qed.

Lemma step_refines ct n a o :
  1 <= n -> wf_op n o -> (match o with OpCall cs => Forall (wf_cls ct) cs | _ => True end) -> Inv ct n a ->
  Inv ct n (fst (step ct a o)) /\
  methods (fst (step ct a o)) = spec_step (methods a) o /\
  snd (step ct a o) = match o with OpCall cs => Some (pure_call ct (methods a) cs) | _ => None end.
Proof.
  intros Hn Ho Hc (Hd & Hr & Ht & Hcache).
  assert (HI : Inv ct n a) by (exact (conj Hd (conj Hr (conj Ht Hcache)))).
  destruct o as [q k b|q k|cs]; cbn [step fst snd].
  - assert (Ht' := spec_step_wf n _ (OpDef q k b) Ho Ht). rewrite <- add_method_spec in Ht'.
    split; [|split; [apply add_method_spec|reflexivity]].
    repeat split; try apply Ht'.
    + unfold add_method at 1. cbn [dflt]. rewrite Hr. apply update_default_none; [exact Hn|]. apply Ht'.
    + exact Hr.
    + cbn in H. discriminate.
    + cbn in H. discriminate.
  - assert (Ht' := spec_step_wf n _ (OpRemove q k) Ho Ht). rewrite <- remove_method_spec in Ht'.
    split; [|split; [apply remove_method_spec|reflexivity]].
    unfold remove_method in *. destruct (alookup k (methods a)) as [c|] eqn:E; [|exact HI].
    destruct (get_qual c q); [|exact HI].
    repeat split; try apply Ht'.
    + cbn [dflt]. rewrite Hr. apply update_default_none; [exact Hn|]. apply Ht'.
    + exact Hr.
    + cbn in H. discriminate.
    + cbn in H. discriminate.
  - unfold call, pure_call. rewrite Hd. rewrite (spec_key_wf ct cs Hc).
    destruct (alookup cs (cache a)) as [ks|] eqn:E.
    + cbn [fst snd]. destruct (Hcache cs ks E) as [-> Hne]. split; [exact HI|split; [reflexivity|]].
      destruct (collect (methods a) [] (map (hier_of ct) cs)); [congruence|reflexivity].
    + destruct (collect (methods a) [] (map (hier_of ct) cs)) as [|k0 ks] eqn:Ec; cbn [fst snd].
      * split; [exact HI|split; reflexivity].
      * split; [|split; reflexivity]. repeat split; try assumption; cbn [dflt reqcnt methods cache] in *.
        -- apply Ht. -- apply Ht.
        -- rewrite alookup_ainsert in H. destruct (key_eqb ck cs) eqn:Ek.
           ++ apply key_eqb_eq in Ek as ->. injection H as <-. symmetry; exact Ec.
           ++ apply Hcache, H.
        -- rewrite alookup_ainsert in H. destruct (key_eqb ck cs) eqn:Ek.
           ++ injection H as <-. discriminate.
           ++ apply (Hcache ck ks0), H.
Qed.

Fixpoint pure_run (ct : ctable) (tbl : list (key * combo)) (ops : list op) : list out :=
  match ops with
  | [] => []
  | o :: ops' => (match o with OpCall cs => Some (pure_call ct tbl cs) | _ => None end)
                 :: pure_run ct (spec_step tbl o) ops'
  end.

Definition wf_ops (ct : ctable) (n : nat) (ops : list op) : Prop :=
  Forall (fun o => wf_op n o /\ match o with OpCall cs => Forall (wf_cls ct) cs | _ => True end) ops.

(* Every history: the outputs are those of the cache-free, fast-path-free semantics on the
   method table defined at that moment *)
Theorem run_cache_transparent ct n ops : 1 <= n -> forall a, wf_ops ct n ops -> Inv ct n a ->
  snd (run ct a ops) = pure_run ct (methods a) ops /\
  Inv ct n (fst (run ct a ops)) /\
  methods (fst (run ct a ops)) = fold_left spec_step ops (methods a).
Proof.
  intros Hn. induction ops as [|o ops IH]; intros a Hwf HI; cbn [run pure_run fold_left].
  - split; [reflexivity|split; [exact HI|reflexivity]].
  - inversion Hwf as [|? ? [Ho Hc] Hwf']; subst.
    destruct (step_refines ct n a o Hn Ho Hc HI) as (HI' & Hm & Hout).
    destruct (step ct a o) as [a1 r] eqn:Es. cbn [fst snd] in *.
    destruct (IH a1 Hwf' HI') as (H1 & H2 & H3).
    destruct (run ct a1 ops) as [a2 rs] eqn:Er. cbn [fst snd] in *.
    rewrite <- Hm. split; [|split; [exact H2|exact H3]]. rewrite H1, Hout. reflexivity.
Qed.

(* ---------- Method.Call against the effective method ---------- *)

Definition wraps (cs : list combo) : list body := flat_map (fun c => opt_list (c_wrap c)) cs.
Definition prims (cs : list combo) : list body := flat_map (fun c => opt_list (c_primary c)) cs.

Lemma next_wrap_none cs : forall fuel from,
  (forall j c, from <= j -> nth_error cs j = Some c -> c_wrap c = None) -> next_wrap cs from fuel = None.
Proof.
  induction fuel as [|fuel IH]; intros from H; cbn; [reflexivity|].
  destruct (nth_error cs from) as [c|] eqn:E; [|reflexivity].
  rewrite (H from c (le_n _) E). apply IH. intros j c' Hj. apply H. lia.
Qed.

Lemma next_wrap_some cs i b c : forall fuel from,
  from <= i -> i - from < fuel -> nth_error cs i = Some c -> c_wrap c = Some b ->
  (forall j c', from <= j < i -> nth_error cs j = Some c' -> c_wrap c' = None) ->
  next_wrap cs from fuel = Some i.
Proof.
  induction fuel as [|fuel IH]; intros from Hle Hf Hi Hw Hno; [lia|]. cbn.
  destruct (Nat.eq_dec from i) as [->|Hne].
  - rewrite Hi, Hw. reflexivity.
  - destruct (nth_error cs from) as [c'|] eqn:E.
    + rewrite (Hno from c'); [|lia|exact E]. apply IH; try lia; try assumption. intros j c2 Hj. apply Hno. lia.
    + exfalso. apply nth_error_None in E. assert (i < List.length cs) by (apply nth_error_Some; congruence). lia.
Qed.

Lemma wraps_app l1 l2 : wraps (l1 ++ l2) = wraps l1 ++ wraps l2.
Proof. unfold wraps. apply flat_map_app. Qed.

Lemma wraps_nil_nth cs : wraps cs = [] -> forall j c, nth_error cs j = Some c -> c_wrap c = None.
Proof.
  induction cs as [|c0 cs IH]; intros H j c Hj; [destruct j; discriminate|].
  unfold wraps in H; cbn in H. apply app_eq_nil in H as [H0 H1].
  destruct j as [|j]; cbn in Hj; [injection Hj as <-; destruct (c_wrap c0); [discriminate|reflexivity]|].
  eapply IH; eassumption.
Qed.

(* a combination list with exactly one :around splits around it *)
Lemma wraps_single cs b : wraps cs = [b] ->
  exists pre c post, cs = pre ++ c :: post /\ c_wrap c = Some b /\ wraps pre = [] /\ wraps post = [].
Proof.
  induction cs as [|c0 cs IH]; intros H; [discriminate|].
  unfold wraps in H; cbn in H. destruct (c_wrap c0) as [b0|] eqn:E; cbn in H.
  - injection H as -> H. exists [], c0, cs. repeat split; auto.
  - destruct (IH H) as (pre & c & post & -> & Hc & Hp & Hq). exists (c0 :: pre), c, post. repeat split; auto.
    unfold wraps; cbn. rewrite E. exact Hp.
Qed.

Lemma flat_map_rev_opt {A B} (f : A -> option B) l :
  flat_map (fun x => opt_list (f x)) (rev l) = rev (flat_map (fun x => opt_list (f x)) l).
Proof.
  induction l as [|x l IH]; cbn; [reflexivity|]. rewrite flat_map_app, IH, rev_app_distr. cbn. rewrite app_nil_r.
  destruct (f x); reflexivity.
Qed.

Lemma flat_map_opt_ev (g : combo -> option body) l :
  flat_map (fun c => opt_ev (g c)) l = map (fun b => Ev (b_id b)) (flat_map (fun c => opt_list (g c)) l).
Proof. induction l as [|c l IH]; cbn; [reflexivity|]. rewrite map_app, IH. destruct (g c); reflexivity. Qed.

(* InnerCall = befores ++ primary ++ reversed afters *)
Lemma inner_call_spec cs p ps : prims cs = p :: ps ->
  inner_call cs =
    (map (fun b => Ev (b_id b)) (flat_map (fun c => opt_list (c_before c)) cs) ++ [Ev (b_id p)] ++
     map (fun b => Ev (b_id b)) (rev (flat_map (fun c => opt_list (c_after c)) cs)), RVal (b_id p)).
Proof.
  intros Hp. unfold inner_call.
  replace (flat_map (fun c => match c_primary c with Some b => [b] | None => [] end) cs) with (prims cs) by reflexivity.
  rewrite Hp. cbn [fst snd]. rewrite !flat_map_opt_ev, flat_map_rev_opt. reflexivity.
Qed.

Lemma has_inner_prims cs p ps : prims cs = p :: ps -> has_inner cs = true.
Proof.
  induction cs as [|c cs IH]; [discriminate|]. unfold prims, has_inner. cbn [flat_map existsb].
  destruct (c_primary c); cbn [opt_list app]; [reflexivity|].
  intros H. apply orb_true_iff. right. apply IH, H.
Qed.

(* the guard: at most one applicable :around, and an applicable primary *)
Definition guard_cs (cs : list combo) : Prop := List.length (wraps cs) <= 1 /\ prims cs <> [].

Theorem method_call_effective cs : guard_cs cs -> method_call cs = effective cs.
Proof.
  intros [Hw Hp]. destruct (prims cs) as [|p ps] eqn:Ep; [congruence|]. clear Hp.
  unfold effective. fold (prims cs). fold (wraps cs). rewrite Ep.
  rewrite <- (inner_call_spec cs p ps Ep).
  unfold method_call. destruct (wraps cs) as [|b [|b2 ws]] eqn:Ew; [| |cbn in Hw; lia].
  - rewrite next_wrap_none; [reflexivity|]. intros j c _. apply wraps_nil_nth, Ew.
  - destruct (wraps_single cs b Ew) as (pre & c & post & -> & Hc & Hpre & Hpost).
    set (cs := pre ++ c :: post) in *. set (i := List.length pre).
    assert (Hi : nth_error cs i = Some c) by (unfold cs, i; rewrite nth_error_app2 by lia; rewrite Nat.sub_diag; reflexivity).
    assert (Hbefore : forall j c', j < i -> nth_error cs j = Some c' -> c_wrap c' = None).
    { intros j c' Hj Hn. unfold cs in Hn. rewrite nth_error_app1 in Hn by exact Hj. eapply (wraps_nil_nth pre Hpre); eassumption. }
    assert (Hafter : forall j c', S i <= j -> nth_error cs j = Some c' -> c_wrap c' = None).
    { intros j c' Hj Hn. unfold cs in Hn. rewrite nth_error_app2 in Hn by (fold i; lia). fold i in Hn.
      destruct (j - i) as [|d] eqn:Ed; [lia|]. cbn in Hn. eapply (wraps_nil_nth post Hpost); eassumption. }
    assert (Hlen : i < List.length cs) by (apply nth_error_Some; congruence).
    rewrite (next_wrap_some cs i b c); [|lia|lia|exact Hi|exact Hc|intros j c' Hj; apply Hbefore; lia].
    cbn [run_wrap]. rewrite Hi, Hc. cbn [spec_wrap].
    destruct (b_next b); [|reflexivity].
    rewrite (next_wrap_none cs (List.length cs) (S i)) by exact Hafter.
    rewrite (has_inner_prims cs p ps Ep).
    rewrite next_wrap_none.
    + rewrite (inner_call_spec cs p ps Ep). reflexivity.
    + intros j c' Hj. apply Hafter. lia.
Qed.

(* ---------- dispatch equals the specification on the guard ---------- *)

Definition guard (ct : ctable) (tbl : list (key * combo)) (cs : list cls) : Prop :=
  let ks := dispatch (map (hier_of ct) cs) tbl in ks = [] \/ guard_cs (deref tbl ks).

Definition guardb (ct : ctable) (tbl : list (key * combo)) (cs : list cls) : bool :=
  match dispatch (map (hier_of ct) cs) tbl with
  | [] => true
  | ks => let c := deref tbl ks in Nat.leb (List.length (wraps c)) 1 && negb (match prims c with [] => true | _ => false end)
  end.
Lemma guardb_spec ct tbl cs : guardb ct tbl cs = true -> guard ct tbl cs.
Proof.
  unfold guardb, guard. destruct (dispatch _ tbl) as [|k ks]; [left; reflexivity|].
  rewrite andb_true_iff, Nat.leb_le. intros [H1 H2]. right. split; [exact H1|].
  destruct (prims _); [discriminate|discriminate].
Qed.

Theorem pure_call_eq_spec ct n tbl cs :
  wf_tbl n tbl -> Forall (wf_cls ct) cs -> guard ct tbl cs -> pure_call ct tbl cs = spec_call ct tbl cs.
Proof.
  intros [Hnd _] Hc Hg. unfold pure_call, spec_call, guard in *.
  rewrite collect_eq_dispatch; [|exact Hnd|].
  - destruct (dispatch _ tbl) as [|k ks]; [reflexivity|]. destruct Hg as [Hg|Hg]; [discriminate|].
    apply method_call_effective, Hg.
  - apply Forall_forall. intros h Hh. apply in_map_iff in Hh as (c & <- & Hcin).
    rewrite Forall_forall in Hc. apply Hc, Hcin.
Qed.

(* every call of the history is inside the guard, judged on the table defined at that moment *)
Fixpoint guard_ops (ct : ctable) (tbl : list (key * combo)) (ops : list op) : Prop :=
  match ops with
  | [] => True
  | o :: ops' => (match o with OpCall cs => guard ct tbl cs | _ => True end) /\ guard_ops ct (spec_step tbl o) ops'
  end.

Lemma pure_run_eq_spec ct n ops : forall tbl,
  wf_tbl n tbl -> wf_ops ct n ops -> guard_ops ct tbl ops -> pure_run ct tbl ops = spec_run ct tbl ops.
Proof.
  induction ops as [|o ops IH]; intros tbl Ht Hwf Hg; [reflexivity|].
  inversion Hwf as [|? ? [Ho Hc] Hwf']; subst. destruct Hg as [Hg Hg'].
  assert (Ht' := spec_step_wf n tbl o Ho Ht).
  destruct o as [q k b|q k|cs]; cbn [pure_run spec_run]; f_equal; try (apply IH; assumption).
  f_equal. eapply pure_call_eq_spec; eassumption.
Qed.

Theorem run_eq_spec ct n ops :
  1 <= n -> wf_ops ct n ops -> guard_ops ct [] ops ->
  snd (run ct (new_aux n) ops) = spec_run ct [] ops.
Proof.
  intros Hn Hwf Hg. destruct (run_cache_transparent ct n ops Hn (new_aux n) Hwf (Inv_init ct n)) as (H & _ & _).
  rewrite H. cbn [methods new_aux]. apply (pure_run_eq_spec ct n); [split; constructor|exact Hwf|exact Hg].
Qed.

(* ---------- a law of the specification: the standard method combination order ---------- *)
Lemma spec_wrap_all_next arounds tr r :
  forallb b_next arounds = true ->
  spec_wrap arounds (tr, r) =
    (map (fun b => Ev (b_id b)) arounds ++ tr ++ map (fun b => EvEnd (b_id b)) (rev arounds), r).
Proof.
  induction arounds as [|b ar IH]; cbn [spec_wrap forallb map rev app]; intros H.
  - rewrite app_nil_r. reflexivity.
  - apply andb_true_iff in H as [Hb Har]. rewrite Hb, (IH Har). cbn [app]. f_equal. f_equal.
    rewrite map_app, <- !app_assoc. reflexivity.
Qed.

Theorem effective_order cs p ps :
  prims cs = p :: ps -> forallb b_next (wraps cs) = true ->
  effective cs =
    (map (fun b => Ev (b_id b)) (wraps cs) ++
     (map (fun b => Ev (b_id b)) (flat_map (fun c => opt_list (c_before c)) cs) ++ [Ev (b_id p)] ++
      map (fun b => Ev (b_id b)) (rev (flat_map (fun c => opt_list (c_after c)) cs))) ++
     map (fun b => EvEnd (b_id b)) (rev (wraps cs)), RVal (b_id p)).
Proof.
  intros Hp Hn. unfold effective. fold (prims cs). fold (wraps cs). rewrite Hp. apply spec_wrap_all_next, Hn.
Qed.

(* ---------- refutations outside the guard (the faithful model M against S) ---------- *)

Definition ct_num : ctable :=
  [("fixnum", ["fixnum"; "integer"; "rational"; "real"; "number"; "t"]);
   ("ratio", ["ratio"; "rational"; "real"; "number"; "t"])]%string.
Definition B (n : N) := {| b_id := n; b_next := true |}.

(* two applicable :around methods: the less specific one is skipped *)
Definition ops_two_arounds : list op :=
  [OpDef QPrimary ["t"] (B 1); OpDef QAround ["fixnum"] (B 2); OpDef QAround ["integer"] (B 3);
   OpCall ["fixnum"]]%string.
Lemma second_around_skipped_refuted :
  wf_ops ct_num 1 ops_two_arounds /\
  snd (run ct_num (new_aux 1) ops_two_arounds) <> spec_run ct_num [] ops_two_arounds.
Proof.
  split.
  - repeat constructor; cbn; try discriminate; intuition discriminate.
  - vm_compute. discriminate.
Qed.

(* applicable daemons but no applicable primary: M runs them and returns nil, S signals an error *)
Definition ops_no_primary : list op := [OpDef QBefore ["t"] (B 1); OpCall ["fixnum"]]%string.
Lemma no_primary_refuted :
  wf_ops ct_num 1 ops_no_primary /\
  snd (run ct_num (new_aux 1) ops_no_primary) <> spec_run ct_num [] ops_no_primary.
Proof.
  split.
  - repeat constructor; cbn; try discriminate; intuition discriminate.
  - vm_compute. discriminate.
Qed.

(* non-vacuity: a history inside the guard that exercises every qualifier, replacement, removal and
   a cached call *)
Definition ops_example : list op :=
  [OpDef QPrimary ["t"; "t"] (B 1); OpDef QPrimary ["integer"; "t"] (B 2); OpDef QBefore ["fixnum"; "rational"] (B 3);
   OpDef QAfter ["t"; "ratio"] (B 4); OpDef QAround ["rational"; "t"] (B 5);
   OpCall ["fixnum"; "ratio"]; OpCall ["fixnum"; "ratio"];
   OpDef QPrimary ["fixnum"; "ratio"] (B 6); OpCall ["fixnum"; "ratio"];
   OpRemove QPrimary ["fixnum"; "ratio"]; OpRemove QAround ["rational"; "t"]; OpCall ["fixnum"; "ratio"];
   OpCall ["ratio"; "fixnum"]]%string.
Lemma guardb_ops_sound ct : forall ops tbl,
  (fix go tbl ops := match ops with [] => true
     | o :: ops' => (match o with OpCall cs => guardb ct tbl cs | _ => true end) && go (spec_step tbl o) ops' end) tbl ops = true ->
  guard_ops ct tbl ops.
Proof.
  induction ops as [|o ops IH]; intros tbl H; [exact I|]. apply andb_true_iff in H as [H1 H2]. split; [|apply IH, H2].
  destruct o; try exact I. apply guardb_spec, H1.
Qed.
Example example_in_guard :
  wf_ops ct_num 2 ops_example /\ guard_ops ct_num [] ops_example /\
  snd (run ct_num (new_aux 2) ops_example) =
    [None; None; None; None; None;
     Some ([Ev 5; Ev 3; Ev 2; Ev 4; EvEnd 5], RVal 2); Some ([Ev 5; Ev 3; Ev 2; Ev 4; EvEnd 5], RVal 2);
     None; Some ([Ev 5; Ev 3; Ev 6; Ev 4; EvEnd 5], RVal 6);
     None; None; Some ([Ev 3; Ev 2; Ev 4], RVal 2); Some ([Ev 1], RVal 1)]%N.
Proof.
  split; [|split].
  - repeat constructor; cbn; try discriminate; intuition discriminate.
  - apply guardb_ops_sound. vm_compute. reflexivity.
  - vm_compute. reflexivity.
Qed.
