(* C10 — proofs. *)
From C10 Require Import Model Spec.
From Coq Require Import Sorting.Sorted Permutation.

Lemma key_eqb_eq a b : key_eqb a b = true <-> a = b.
Proof. unfold key_eqb; destruct (list_eq_dec string_dec a b); split; congruence. Qed.
Lemma key_eqb_refl a : key_eqb a a = true.
Proof. apply key_eqb_eq; reflexivity. Qed.
Lemma key_eqb_neq a b : a <> b -> key_eqb a b = false.
Proof. unfold key_eqb; destruct (list_eq_dec string_dec a b); congruence. Qed.

(* ---------- enumeration of specializer tuples in dispatch order ---------- *)

Fixpoint enum (hs : list (list cls)) : list key :=
  match hs with
  | [] => [[]]
  | h :: hs' => flat_map (fun c => map (cons c) (enum hs')) h
  end.

Definition has_key {V} (ms : list (key * V)) (k : key) : bool :=
  match alookup k ms with Some _ => true | None => false end.

Lemma collect_enum (ms : list (key * combo)) hs : forall p,
  collect ms p hs = filter (has_key ms) (map (app p) (enum hs)).
Proof.
  induction hs as [|h hs IH]; intros p; cbn [collect enum].
  - cbn. rewrite app_nil_r. unfold has_key. destruct (alookup p ms); reflexivity.
  - induction h as [|c h IHh]; cbn [flat_map]; [reflexivity|].
    rewrite map_app, filter_app. f_equal; [|exact IHh]. rewrite IH.
    rewrite map_map. f_equal. apply map_ext. intros k. rewrite <- app_assoc. reflexivity.
Qed.

Lemma in_enum hs : forall k, In k (enum hs) <-> applicable hs k.
Proof.
  unfold applicable. induction hs as [|h hs IH]; intros k; cbn [enum].
  - split.
    + intros [<-|[]]. constructor.
    + intros H. inversion H. left; reflexivity.
  - rewrite in_flat_map. split.
    + intros (c & Hc & Hk). apply in_map_iff in Hk as (k' & <- & Hk'). constructor; [exact Hc|]. apply IH, Hk'.
    + intros H. inversion H as [|c h' k' hs' Hc Hk']; subst. exists c; split; [exact Hc|].
      apply in_map. apply IH, Hk'.
Qed.

Lemma pos_lt_app (h1 h2 : list cls) c c' :
  ~ In c' h1 -> In c h1 -> (pos (h1 ++ c' :: h2) c < pos (h1 ++ c' :: h2) c')%nat.
Proof.
  induction h1 as [|x h1 IH]; intros Hn Hc; [destruct Hc|].
  cbn [app pos]. destruct (String.eqb_spec c x) as [->|Hne].
  - destruct (String.eqb_spec c' x) as [->|_]; [exfalso; apply Hn; left; reflexivity|lia].
  - destruct (String.eqb_spec c' x) as [->|_]; [exfalso; apply Hn; left; reflexivity|].
    apply -> Nat.succ_lt_mono. apply IH; [intros Hi; apply Hn; right; exact Hi|].
    destruct Hc as [->|Hc]; [congruence|exact Hc].
Qed.

Lemma StronglySorted_app {A} (R : A -> A -> Prop) l1 l2 :
  StronglySorted R l1 -> StronglySorted R l2 ->
  (forall x y, In x l1 -> In y l2 -> R x y) -> StronglySorted R (l1 ++ l2).
Proof.
  induction l1 as [|a l1 IH]; intros H1 H2 H12; [exact H2|].
  cbn. inversion H1 as [|? ? Hs Hf]; subst. constructor.
  - apply IH; [exact Hs|exact H2|]. intros x y Hx Hy. apply H12; [right; exact Hx|exact Hy].
  - apply Forall_app; split; [exact Hf|]. apply Forall_forall. intros y Hy. apply H12; [left; reflexivity|exact Hy].
Qed.

Lemma StronglySorted_map_cons hs h c l :
  StronglySorted (more_specific hs) l -> StronglySorted (more_specific (h :: hs)) (map (cons c) l).
Proof.
  induction 1 as [|k l Hs IH Hf]; cbn; constructor; [exact IH|].
  apply Forall_forall. intros y Hy. apply in_map_iff in Hy as (y' & <- & Hy').
  unfold more_specific; cbn. right; split; [reflexivity|].
  rewrite Forall_forall in Hf. apply Hf, Hy'.
Qed.

Lemma enum_sorted hs : Forall (@NoDup cls) hs -> StronglySorted (more_specific hs) (enum hs).
Proof.
  induction hs as [|h hs IH]; intros Hnd; cbn [enum].
  - repeat constructor.
  - inversion Hnd as [|? ? Hh Hhs]; subst. specialize (IH Hhs).
    (* generalise over a split h = done ++ todo so that positions refer to the whole list *)
    assert (G : forall todo done, h = done ++ todo ->
              StronglySorted (more_specific (h :: hs)) (flat_map (fun c => map (cons c) (enum hs)) todo)).
    { induction todo as [|c todo IHt]; intros done Heq; cbn [flat_map]; [constructor|].
      apply StronglySorted_app.
      - apply StronglySorted_map_cons, IH.
      - apply (IHt (done ++ [c])). rewrite <- app_assoc. exact Heq.
      - intros x y Hx Hy. apply in_map_iff in Hx as (x' & <- & _).
        apply in_flat_map in Hy as (c' & Hc' & Hy). apply in_map_iff in Hy as (y' & <- & _).
        unfold more_specific; cbn. left.
        (* c is before c' in h *)
        apply in_split in Hc' as (t1 & t2 & ->).
        assert (Hh' : h = (done ++ c :: t1) ++ c' :: t2) by (rewrite Heq, <- app_assoc; reflexivity).
        rewrite Hh'. apply pos_lt_app.
        + rewrite Hh' in Hh. apply NoDup_remove_2 in Hh. intros Hi. apply Hh. apply in_or_app. left. exact Hi.
        + apply in_or_app. right. left. reflexivity. }
    apply (G h []). reflexivity.
Qed.

Lemma StronglySorted_filter {A} (R : A -> A -> Prop) f l :
  StronglySorted R l -> StronglySorted R (filter f l).
Proof.
  induction 1 as [|a l Hs IH Hf]; cbn; [constructor|].
  destruct (f a); [|exact IH]. constructor; [exact IH|].
  apply Forall_forall. intros y Hy. apply filter_In in Hy as [Hy _]. rewrite Forall_forall in Hf. apply Hf, Hy.
Qed.

(* collectMethods yields exactly the applicable methods, most specific first *)
Lemma collect_dispatch_order ms hs :
  Forall (@NoDup cls) hs -> dispatch_order hs ms (collect ms [] hs).
Proof.
  intros Hnd. rewrite collect_enum. cbn [app]. rewrite map_id. split.
  - apply StronglySorted_filter, enum_sorted, Hnd.
  - intros k. rewrite filter_In, in_enum. unfold has_key. destruct (alookup k ms); split; intros [H1 H2]; split; congruence || assumption.
Qed.

(* ---------- the dispatch order is unique, and the insertion sort computes it ---------- *)

Lemma lex_lt_irrefl a : ~ lex_lt a a.
Proof. induction a as [|x a IH]; cbn; [tauto|]. intros [H|[_ H]]; [lia|exact (IH H)]. Qed.
Lemma lex_lt_trans a : forall b c, lex_lt a b -> lex_lt b c -> lex_lt a c.
Proof.
  induction a as [|x a IH]; intros [|y b] [|z c]; cbn; try tauto.
  intros [H1|[-> H1]] [H2|[-> H2]]; try (left; lia). right; split; [reflexivity|]. eapply IH; eassumption.
Qed.
Lemma lex_ltb_spec a : forall b, lex_ltb a b = true <-> lex_lt a b.
Proof.
  induction a as [|x a IH]; intros [|y b]; cbn [lex_ltb lex_lt]; try (split; [discriminate|tauto]).
  rewrite orb_true_iff, andb_true_iff, Nat.ltb_lt, Nat.eqb_eq, IH. tauto.
Qed.
Lemma lex_trichotomy a : forall b, List.length a = List.length b -> lex_lt a b \/ a = b \/ lex_lt b a.
Proof.
  induction a as [|x a IH]; intros [|y b]; cbn; try discriminate; [right; left; reflexivity|].
  intros Hl. injection Hl as Hl. destruct (lt_eq_lt_dec x y) as [[H| ->]|H]; [left; left; exact H| |right; right; left; exact H].
  destruct (IH b Hl) as [H|[ ->|H]]; [left; right; split; [reflexivity|exact H]|right; left; reflexivity|right; right; right; split; [reflexivity|exact H]].
Qed.

Lemma sorted_unique {A} (R : A -> A -> Prop) :
  (forall x, ~ R x x) -> (forall x y z, R x y -> R y z -> R x z) ->
  forall l1 l2, StronglySorted R l1 -> StronglySorted R l2 -> (forall x, In x l1 <-> In x l2) -> l1 = l2.
Proof.
  intros Hirr Htr. induction l1 as [|a l1 IH]; intros [|b l2] H1 H2 Hin.
  - reflexivity.
  - exfalso. apply (proj2 (Hin b)). left; reflexivity.
  - exfalso. apply (proj1 (Hin a)). left; reflexivity.
  - inversion H1 as [|? ? Hs1 Hf1]; inversion H2 as [|? ? Hs2 Hf2]; subst.
    rewrite Forall_forall in Hf1, Hf2.
    assert (a = b) as ->.
    { destruct (proj1 (Hin a) (or_introl eq_refl)) as [->|Ha]; [reflexivity|].
      destruct (proj2 (Hin b) (or_introl eq_refl)) as [->|Hb]; [reflexivity|].
      exfalso. apply (Hirr a). eapply Htr; [apply Hf1, Hb|apply Hf2, Ha]. }
    f_equal. apply IH; [exact Hs1|exact Hs2|]. intros x. split; intros Hx.
    + destruct (proj1 (Hin x) (or_intror Hx)) as [<-|H]; [|exact H]. exfalso. apply (Hirr b), Hf1, Hx.
    + destruct (proj2 (Hin x) (or_intror Hx)) as [<-|H]; [|exact H]. exfalso. apply (Hirr b), Hf2, Hx.
Qed.

Theorem dispatch_order_unique hs tbl ks1 ks2 :
  dispatch_order hs tbl ks1 -> dispatch_order hs tbl ks2 -> ks1 = ks2.
Proof.
  intros [S1 I1] [S2 I2]. apply (sorted_unique (more_specific hs)); try assumption.
  - intros x. apply lex_lt_irrefl.
  - intros x y z. apply lex_lt_trans.
  - intros x. rewrite I1, I2. tauto.
Qed.

Lemma pos_inj h : forall c c', In c h -> In c' h -> pos h c = pos h c' -> c = c'.
Proof.
  induction h as [|x h IH]; intros c c' Hc Hc'; [destruct Hc|]. cbn.
  destruct (String.eqb_spec c x) as [->|Hn]; destruct (String.eqb_spec c' x) as [->|Hn']; try congruence; try discriminate.
  intros H. injection H as H. apply IH; [destruct Hc; congruence|destruct Hc'; congruence|exact H].
Qed.
Lemma posvec_inj hs : forall k k', applicable hs k -> applicable hs k' -> posvec hs k = posvec hs k' -> k = k'.
Proof.
  unfold applicable. induction hs as [|h hs IH]; intros k k' Hk Hk'; inversion Hk; inversion Hk'; subst; [reflexivity|].
  cbn. intros H. injection H as Hp Hr. f_equal; [eapply pos_inj; eassumption|apply IH; assumption].
Qed.
Lemma posvec_length hs : forall k, applicable hs k -> List.length (posvec hs k) = List.length hs.
Proof. unfold applicable. induction hs as [|h hs IH]; intros k Hk; inversion Hk; subst; cbn; [reflexivity|f_equal; apply IH; assumption]. Qed.

Lemma applicableb_spec hs : forall k, applicableb hs k = true <-> applicable hs k.
Proof.
  unfold applicable. induction hs as [|h hs IH]; intros [|c k]; cbn; try (split; [discriminate|intros H; inversion H]).
  - split; constructor.
  - rewrite andb_true_iff, IH, existsb_exists. split.
    + intros [(x & Hx & He) Hk]. apply String.eqb_eq in He as ->. constructor; assumption.
    + intros H. inversion H; subst. split; [|assumption]. exists c. split; [assumption|apply String.eqb_refl].
Qed.

Lemma in_insert_key hs k l x : In x (insert_key hs k l) <-> x = k \/ In x l.
Proof.
  induction l as [|k' l IH]; cbn; [intuition congruence|].
  destruct (lex_ltb _ _); cbn; [intuition congruence|]. rewrite IH. intuition congruence.
Qed.
Lemma in_sort_keys hs l x : In x (sort_keys hs l) <-> In x l.
Proof. induction l as [|k l IH]; cbn; [tauto|]. rewrite in_insert_key, IH. intuition congruence. Qed.

Lemma insert_sorted hs k l :
  StronglySorted (more_specific hs) l ->
  (forall x, In x l -> more_specific hs k x \/ more_specific hs x k) ->
  StronglySorted (more_specific hs) (insert_key hs k l).
Proof.
  induction 1 as [|k' l Hs IH Hf]; intros Htot; cbn; [repeat constructor|].
  destruct (lex_ltb (posvec hs k) (posvec hs k')) eqn:E.
  - apply lex_ltb_spec in E. constructor; [constructor; assumption|]. constructor; [exact E|].
    rewrite Forall_forall in Hf |- *. intros y Hy. eapply lex_lt_trans; [exact E|apply Hf, Hy].
  - assert (Hk : more_specific hs k' k).
    { destruct (Htot k' (or_introl eq_refl)) as [H|H]; [|exact H]. apply lex_ltb_spec in H. unfold more_specific in *. congruence. }
    constructor; [apply IH; intros x Hx; apply Htot; right; exact Hx|].
    apply Forall_forall. intros y Hy. apply in_insert_key in Hy as [->|Hy]; [exact Hk|]. rewrite Forall_forall in Hf. apply Hf, Hy.
Qed.

Lemma sort_keys_sorted hs l :
  NoDup l -> (forall k, In k l -> applicable hs k) -> StronglySorted (more_specific hs) (sort_keys hs l).
Proof.
  induction 1 as [|k l Hni Hnd IH]; intros Happ; cbn; [constructor|].
  apply insert_sorted; [apply IH; intros x Hx; apply Happ; right; exact Hx|].
  intros x Hx. apply in_sort_keys in Hx.
  assert (Hak : applicable hs k) by (apply Happ; left; reflexivity).
  assert (Hax : applicable hs x) by (apply Happ; right; exact Hx).
  destruct (lex_trichotomy (posvec hs k) (posvec hs x)) as [H|[H|H]].
  - rewrite !posvec_length; auto.
  - left; exact H.
  - exfalso. apply posvec_inj in H; [subst; contradiction|assumption|assumption].
  - right; exact H.
Qed.

Lemma alookup_in_fst {V} (ms : list (key * V)) k : alookup k ms <> None <-> In k (map fst ms).
Proof.
  induction ms as [|[k' v] ms IH]; cbn; [tauto|].
  destruct (key_eqb k k') eqn:E.
  - apply key_eqb_eq in E as ->. split; [left; reflexivity|discriminate].
  - rewrite IH. split; [right; assumption|]. intros [<-|H]; [rewrite key_eqb_refl in E; discriminate|exact H].
Qed.

(* the executable dispatch is the dispatch order *)
Theorem dispatch_is_dispatch_order hs tbl :
  NoDup (map fst tbl) -> dispatch_order hs tbl (dispatch hs tbl).
Proof.
  intros Hnd. unfold dispatch. split.
  - apply sort_keys_sorted; [apply NoDup_filter, Hnd|]. intros k Hk. apply filter_In in Hk as [_ Hk]. apply applicableb_spec, Hk.
  - intros k. rewrite in_sort_keys, filter_In, applicableb_spec, alookup_in_fst. tauto.
Qed.

Corollary collect_eq_dispatch hs tbl :
  NoDup (map fst tbl) -> Forall (@NoDup cls) hs -> collect tbl [] hs = dispatch hs tbl.
Proof.
  intros H1 H2. eapply dispatch_order_unique; [apply collect_dispatch_order, H2|apply dispatch_is_dispatch_order, H1].
Qed.

(* ---------- the default-caller fast path is never taken (NewAux computes a key no method has) ---------- *)

Lemma length_append a b : String.length (String.append a b) = String.length a + String.length b.
Proof. induction a as [|c a IH]; cbn; [reflexivity|rewrite IH; reflexivity]. Qed.
Lemma length_substring0 s : forall m, String.length (substring 0 m s) <= m.
Proof. induction s as [|c s IH]; intros [|m]; cbn; try lia. specialize (IH m). lia. Qed.
Lemma length_rep_t n : String.length (rep_t n) = 2 * n.
Proof. induction n as [|n IH]; cbn [rep_t]; [reflexivity|]. rewrite length_append, IH. cbn. lia. Qed.

Definition wf_key (n : nat) (k : key) : Prop := List.length k = n /\ Forall (fun c => c <> EmptyString) k.

Lemma length_join_key k : Forall (fun c => c <> EmptyString) k -> 2 * List.length k - 1 <= String.length (join_key k).
Proof.
  induction 1 as [|c k Hc Hk IH]; [cbn; lia|].
  assert (1 <= String.length c) by (destruct c; [congruence|cbn; lia]).
  destruct k as [|c' k]; [cbn; lia|].
  change (join_key (c :: c' :: k)) with (String.append c (String.append "|" (join_key (c' :: k)))).
  rewrite !length_append. cbn [String.length List.length] in *. lia.
Qed.

Lemma default_key_fresh n k : 1 <= n -> wf_key n k -> String.eqb (default_key n) (join_key k) = false.
Proof.
  intros Hn [Hl Hne]. apply String.eqb_neq. intros E.
  assert (H1 := length_substring0 (rep_t n) (String.length (rep_t n) - 2)).
  assert (H2 := length_join_key k Hne). unfold default_key in E. rewrite E in H1.
  rewrite length_rep_t in H1. unfold key, cls in *. lia.
Qed.

Lemma update_default_none ms n :
  1 <= n -> Forall (wf_key n) (map fst ms) -> update_default ms n = None.
Proof.
  intros Hn Hwf. unfold update_default. destruct ms as [|[k c] [|? ?]]; try reflexivity.
  inversion Hwf; subst. cbn [fst] in *. rewrite default_key_fresh; auto.
Qed.

(* ---------- method tables ---------- *)

Lemma map_fst_update {V} (ms : list (key * V)) k (v : V) :
  map fst (map (fun kc => if key_eqb k (fst kc) then (fst kc, v) else kc) ms) = map fst ms.
Proof. induction ms as [|[k' v'] ms IH]; cbn; [reflexivity|]. destruct (key_eqb k k'); cbn; rewrite IH; reflexivity. Qed.

Lemma in_adelete {V} (ms : list (key * V)) k x : In x (map fst (adelete k ms)) <-> In x (map fst ms) /\ x <> k.
Proof.
  induction ms as [|[k' v] ms IH]; cbn; [tauto|]. destruct (key_eqb k k') eqn:E.
  - apply key_eqb_eq in E as <-. rewrite IH. intuition congruence.
  - cbn. rewrite IH. assert (k <> k') by (intros ->; rewrite key_eqb_refl in E; discriminate). intuition congruence.
Qed.
Lemma nodup_adelete {V} (ms : list (key * V)) k : NoDup (map fst ms) -> NoDup (map fst (adelete k ms)).
Proof.
  induction ms as [|[k' v] ms IH]; cbn; [constructor|]. intros H. inversion H; subst.
  destruct (key_eqb k k'); [apply IH; assumption|]. cbn. constructor; [|apply IH; assumption].
  rewrite in_adelete. tauto.
Qed.

Definition wf_tbl (n : nat) (tbl : list (key * combo)) : Prop :=
  NoDup (map fst tbl) /\ Forall (wf_key n) (map fst tbl).

(* :before / :after bodies only trace (they have no next method) *)
Definition plain (b : body) : Prop := b_nmp b = false /\ b_fail b = false /\ b_calls b = [].
Definition wf_op (n : nat) (o : op) : Prop :=
  match o with
  | OpDef q k b => wf_key n k /\ match q with QBefore | QAfter => plain b | _ => True end
  | OpRemove _ k => True
  | OpCall cs v => List.length cs = n
  end.

Lemma tbl_update_wf n tbl k c : wf_key n k -> wf_tbl n tbl -> wf_tbl n (tbl_update tbl k c).
Proof.
  intros Hk [Hnd Hwf]. unfold tbl_update. destruct (alookup k tbl) eqn:E.
  - split; rewrite map_fst_update; assumption.
  - split; rewrite map_app; cbn.
    + apply (Permutation_NoDup (Permutation_cons_append _ _)). constructor; [|exact Hnd]. intros Hi. apply alookup_in_fst in Hi. congruence.
    + apply Forall_app; split; [exact Hwf|]. constructor; [exact Hk|constructor].
Qed.

Lemma adelete_wf n tbl k : wf_tbl n tbl -> wf_tbl n (adelete k tbl).
Proof.
  intros [Hnd Hwf]. split; [apply nodup_adelete, Hnd|].
  rewrite Forall_forall in *. intros x Hx. apply in_adelete in Hx as [Hx _]. apply Hwf, Hx.
Qed.

Lemma alookup_wf n tbl k (c : combo) : wf_tbl n tbl -> alookup k tbl = Some c -> wf_key n k.
Proof.
  intros [_ Hwf] E. rewrite Forall_forall in Hwf. apply Hwf. apply alookup_in_fst. congruence.
Qed.

Lemma spec_step_wf n tbl o : wf_op n o -> wf_tbl n tbl -> wf_tbl n (spec_step tbl o).
Proof.
  intros Ho Ht. destruct o as [q k b|q k|cs v]; cbn [spec_step]; [apply tbl_update_wf; [exact (proj1 Ho)|exact Ht]| |exact Ht].
  destruct (alookup k tbl) as [c|] eqn:E; [|exact Ht]. destruct (get_qual c q); [|exact Ht].
  destruct (combo_is_empty _); [apply adelete_wf, Ht|]. apply tbl_update_wf; [|exact Ht]. eapply alookup_wf; eassumption.
Qed.

(* ---------- the cache is transparent: Inv and its preservation ---------- *)

Definition wf_cls (ct : ctable) (c : cls) : Prop := NoDup (hier_of ct c) /\ hd "t"%string (hier_of ct c) = c.

(* every cached effective method is what buildCacheMeth computes from the present table *)
Definition Inv (ct : ctable) (n : nat) (a : aux) : Prop :=
  dflt a = None /\ reqcnt a = n /\ wf_tbl n (methods a) /\
  forall ck snap, alookup ck (cache a) = Some snap -> build (methods a) (map (hier_of ct) ck) = Some snap.

Lemma Inv_init ct n : Inv ct n (new_aux n).
Proof. repeat split; cbn; try constructor; discriminate. Qed.

(* the implementation's semantics of a call with the cache and fast path erased *)
Definition pure_call (ct : ctable) (tbl : list (key * combo)) (cs : list cls) (v : argv) : list event * result :=
  match build tbl (map (hier_of ct) cs) with
  | None => ([], RNoApplicable)
  | Some snap => method_call snap v
  end.

Lemma add_method_spec a q k b : methods (add_method a q k b) = spec_step (methods a) (OpDef q k b).
Proof. unfold add_method, spec_step, tbl_update. cbn [methods]. destruct (alookup k (methods a)); reflexivity. Qed.
Lemma remove_method_spec a q k : methods (remove_method a q k) = spec_step (methods a) (OpRemove q k).
Proof.
  unfold remove_method, spec_step, tbl_update. destruct (alookup k (methods a)) as [c|] eqn:E; [|reflexivity].
  destruct (get_qual c q); [|reflexivity]. cbn [methods]. destruct (combo_is_empty _); reflexivity.
Qed.

Lemma alookup_ainsert {V} (m : list (key * V)) k v k' :
  alookup k' (ainsert k v m) = if key_eqb k' k then Some v else alookup k' m.
Proof.
  unfold ainsert. cbn. destruct (key_eqb k' k) eqn:E; [reflexivity|].
  induction m as [|[k2 v2] m IH]; cbn; [reflexivity|].
  destruct (key_eqb k k2) eqn:E2; [|cbn; rewrite IH; reflexivity].
  apply key_eqb_eq in E2 as <-. rewrite E. exact IH.
Qed.

Lemma spec_key_wf ct cs : Forall (wf_cls ct) cs -> spec_key (map (hier_of ct) cs) = cs.
Proof. unfold spec_key. induction 1 as [|c cs [_ Hc] _ IH]; cbn; [reflexivity|]. rewrite Hc. f_equal. exact IH. Qed.

Lemma step_refines ct n a o :
  1 <= n -> wf_op n o -> (match o with OpCall cs _ => Forall (wf_cls ct) cs | _ => True end) -> Inv ct n a ->
  Inv ct n (fst (step ct a o)) /\
  methods (fst (step ct a o)) = spec_step (methods a) o /\
  snd (step ct a o) = match o with OpCall cs v => Some (pure_call ct (methods a) cs v) | _ => None end.
Proof.
  intros Hn Ho Hc (Hd & Hr & Ht & Hcache).
  assert (HI : Inv ct n a) by (exact (conj Hd (conj Hr (conj Ht Hcache)))).
  destruct o as [q k b|q k|cs v]; cbn [step fst snd].
  - assert (Ht' := spec_step_wf n _ (OpDef q k b) Ho Ht). rewrite <- add_method_spec in Ht'.
    split; [|split; [apply add_method_spec|reflexivity]].
    repeat split; try apply Ht'.
    + unfold add_method at 1. cbn [dflt]. rewrite Hr. apply update_default_none; [exact Hn|]. apply Ht'.
    + exact Hr.
    + intros ck snap H. cbn in H. discriminate.
  - assert (Ht' := spec_step_wf n _ (OpRemove q k) Ho Ht). rewrite <- remove_method_spec in Ht'.
    split; [|split; [apply remove_method_spec|reflexivity]].
    unfold remove_method in *. destruct (alookup k (methods a)) as [c|] eqn:E; [|exact HI].
    destruct (get_qual c q); [|exact HI].
    repeat split; try apply Ht'.
    + cbn [dflt]. rewrite Hr. apply update_default_none; [exact Hn|]. apply Ht'.
    + exact Hr.
    + intros ck snap H. cbn in H. discriminate.
  - unfold call, pure_call. rewrite Hd. rewrite (spec_key_wf ct cs Hc).
    destruct (alookup cs (cache a)) as [snap|] eqn:E.
    + cbn [fst snd]. rewrite (Hcache cs snap E). split; [exact HI|split; reflexivity].
    + destruct (build (methods a) (map (hier_of ct) cs)) as [snap|] eqn:Eb; cbn [fst snd].
      * split; [|split; reflexivity]. repeat split; try assumption; cbn [dflt reqcnt methods cache] in *; try apply Ht.
        intros ck snap' H. rewrite alookup_ainsert in H. destruct (key_eqb ck cs) eqn:Ek.
        -- apply key_eqb_eq in Ek as ->. injection H as <-. exact Eb.
        -- apply Hcache, H.
      * split; [exact HI|split; reflexivity].
Qed.

Fixpoint pure_run (ct : ctable) (tbl : list (key * combo)) (ops : list op) : list out :=
  match ops with
  | [] => []
  | o :: ops' => (match o with OpCall cs v => Some (pure_call ct tbl cs v) | _ => None end)
                 :: pure_run ct (spec_step tbl o) ops'
  end.

Definition wf_ops (ct : ctable) (n : nat) (ops : list op) : Prop :=
  Forall (fun o => wf_op n o /\ match o with OpCall cs _ => Forall (wf_cls ct) cs | _ => True end) ops.

(* Every history: the outputs are those of the cache-free, fast-path-free semantics on the
   method table defined at that moment *)
Theorem run_cache_transparent ct n ops : 1 <= n -> forall a, wf_ops ct n ops -> Inv ct n a ->
  snd (run ct a ops) = pure_run ct (methods a) ops /\
  Inv ct n (fst (run ct a ops)) /\
  methods (fst (run ct a ops)) = fold_left spec_step ops (methods a).
Proof.
  intros Hn. induction ops as [|o ops IH]; intros a Hwf HI; cbn [run pure_run fold_left].
  - split; [reflexivity|split; [exact HI|reflexivity]].
  - inversion Hwf as [|? ? [Ho Hc] Hwf']; subst.
    destruct (step_refines ct n a o Hn Ho Hc HI) as (HI' & Hm & Hout).
    destruct (step ct a o) as [a1 r] eqn:Es. cbn [fst snd] in *.
    destruct (IH a1 Hwf' HI') as (H1 & H2 & H3).
    destruct (run ct a1 ops) as [a2 rs] eqn:Er. cbn [fst snd] in *.
    rewrite <- Hm. split; [|split; [exact H2|exact H3]]. rewrite H1, Hout. reflexivity.
Qed.

(* ---------- Method.Call against the effective method ---------- *)

(* run_body depends on its continuation only through its values *)
Lemma run_calls_ext v h n1 n2 : (forall v', n1 v' = n2 v') ->
  forall calls last, run_calls v h n1 calls last = run_calls v h n2 calls last.
Proof.
  intros He. induction calls as [|[f c] rest IH]; intros last; cbn [run_calls]; [reflexivity|].
  rewrite He. destruct (if h then n2 (xor_args v f) else ([], RNoNext)) as [tr r].
  destruct (is_err r); [destruct (c && catchable r)|]; rewrite ?IH; reflexivity.
Qed.
Lemma run_body_ext ends b v h n1 n2 : (forall v', n1 v' = n2 v') ->
  run_body ends b v h n1 = run_body ends b v h n2.
Proof. intros He. unfold run_body. rewrite (run_calls_ext v h n1 n2 He). reflexivity. Qed.

Definition sel_list (sel : combo -> option body) (l : list combo) : list body :=
  flat_map (fun c => opt_list (sel c)) l.

Lemma skipn_skipn' {A} (l : list A) : forall a b, skipn a (skipn b l) = skipn (a + b) l.
Proof.
  induction l as [|x l IH]; intros a b; [rewrite !skipn_nil; reflexivity|].
  destruct b as [|b]; [rewrite Nat.add_0_r; reflexivity|].
  rewrite Nat.add_succ_r. cbn [skipn]. apply IH.
Qed.

Lemma find_idx_none sel l : forall i, find_idx sel l i = None <-> sel_list sel l = [].
Proof.
  unfold sel_list. induction l as [|c l IH]; intros i; cbn [find_idx flat_map]; [tauto|].
  destruct (sel c); cbn [opt_list app]; [split; discriminate|apply IH].
Qed.
Lemma find_idx_some sel l : forall i j b, find_idx sel l i = Some (j, b) ->
  exists d, j = i + d /\ d < List.length l /\ sel_list sel l = b :: sel_list sel (skipn (S d) l).
Proof.
  unfold sel_list. induction l as [|c l IH]; intros i j b; cbn [find_idx flat_map]; [discriminate|].
  destruct (sel c) as [b0|] eqn:E; cbn [opt_list app].
  - intros H. injection H as <- <-. exists 0. cbn. split; [lia|split; [lia|reflexivity]].
  - intros H. destruct (IH _ _ _ H) as (d & -> & Hd & Hs). exists (S d). cbn [List.length].
    split; [lia|split; [lia|exact Hs]].
Qed.

Lemma find_from_none sel cs i : find_from sel cs i = None <-> sel_list sel (skipn i cs) = [].
Proof. apply find_idx_none. Qed.
Lemma find_from_some sel cs i j b : find_from sel cs i = Some (j, b) ->
  i <= j /\ j < List.length cs /\ sel_list sel (skipn i cs) = b :: sel_list sel (skipn (S j) cs).
Proof.
  intros H. apply find_idx_some in H as (d & -> & Hd & Hs). rewrite skipn_length in Hd.
  split; [lia|split; [lia|]]. rewrite Hs, skipn_skipn'. replace (S d + i) with (S (i + d)) by lia. reflexivity.
Qed.
Lemma find_from_is_some sel cs i : is_some (find_from sel cs i) = negb (is_nil (sel_list sel (skipn i cs))).
Proof.
  destruct (find_from sel cs i) as [[j b]|] eqn:E.
  - apply find_from_some in E as (_ & _ & ->). reflexivity.
  - apply find_from_none in E as ->. reflexivity.
Qed.

(* primaryCall(i) = the chain of the primaries from combination i on *)
Lemma run_prim_spec cs : forall fuel i v, List.length cs - i < fuel ->
  run_prim fuel cs i v = spec_prims (sel_list c_primary (skipn i cs)) v.
Proof.
  induction fuel as [|fuel IH]; intros i v Hf; [lia|]. cbn [run_prim].
  destruct (find_from c_primary cs i) as [[j b]|] eqn:E.
  - destruct (find_from_some _ _ _ _ _ E) as (Hij & Hj & ->). cbn [spec_prims].
    rewrite find_from_is_some. apply run_body_ext. intros v'. apply IH. lia.
  - apply find_from_none in E as ->. reflexivity.
Qed.

Lemma flat_map_rev_opt {A B} (f : A -> option B) l :
  flat_map (fun x => opt_list (f x)) (rev l) = rev (flat_map (fun x => opt_list (f x)) l).
Proof.
  induction l as [|x l IH]; cbn; [reflexivity|]. rewrite flat_map_app, IH, rev_app_distr. cbn. rewrite app_nil_r.
  destruct (f x); reflexivity.
Qed.
Lemma flat_map_opt_ev (g : combo -> option body) v l :
  flat_map (fun c => opt_ev (g c) v) l = evs (flat_map (fun c => opt_list (g c)) l) v.
Proof. unfold evs. induction l as [|c l IH]; cbn; [reflexivity|]. rewrite map_app, IH. destruct (g c); reflexivity. Qed.

(* InnerCall = befores ++ primary chain ++ reversed afters *)
Lemma inner_call_spec cs fuel v : List.length cs < fuel ->
  inner_call fuel cs v = spec_inner (befores cs) (prims cs) (afters cs) v.
Proof.
  intros Hf. unfold inner_call, spec_inner. rewrite run_prim_spec by lia. cbn [skipn].
  change (sel_list c_primary cs) with (prims cs). rewrite !flat_map_opt_ev, flat_map_rev_opt.
  destruct (spec_prims (prims cs) v) as [tr r]. reflexivity.
Qed.

Lemma prims_find cs : prims cs <> [] -> is_some (find_from c_primary cs 0) = true.
Proof.
  intros H. rewrite find_from_is_some. cbn [skipn]. change (sel_list c_primary cs) with (prims cs). destruct (prims cs); [congruence|reflexivity].
Qed.

(* the Wrap of combination i = the chain of the :around methods from i on, ending in InnerCall *)
Lemma run_wrap_spec cs : prims cs <> [] -> forall fuel i b v, List.length cs - i <= fuel -> i < List.length cs ->
  run_wrap fuel cs i b v =
  spec_arounds (b :: sel_list c_wrap (skipn (S i) cs)) (spec_inner (befores cs) (prims cs) (afters cs)) v.
Proof.
  intros Hp. induction fuel as [|fuel IH]; intros i b v Hf Hi; [lia|]. cbn [run_wrap spec_arounds].
  rewrite (prims_find cs Hp), orb_true_r. apply run_body_ext. intros v'.
  destruct (find_from c_wrap cs (S i)) as [[j b']|] eqn:E.
  - destruct (find_from_some _ _ _ _ _ E) as (Hij & Hj & ->). apply IH; lia.
  - apply find_from_none in E as ->. cbn [spec_arounds]. apply inner_call_spec. lia.
Qed.

Theorem method_call_effective cs v : prims cs <> [] -> method_call cs v = effective cs v.
Proof.
  intros Hp. unfold method_call, effective. destruct (prims cs) as [|p ps] eqn:Ep; [congruence|]. rewrite <- Ep.
  destruct (find_from c_wrap cs 0) as [[i b]|] eqn:E.
  - destruct (find_from_some _ _ _ _ _ E) as (_ & Hi & Hs). cbn [skipn] in Hs. change (sel_list c_wrap cs) with (wraps cs) in Hs. rewrite Hs.
    apply run_wrap_spec; [congruence|lia|exact Hi].
  - apply find_from_none in E. cbn [skipn] in E. change (sel_list c_wrap cs) with (wraps cs) in E. rewrite E. cbn [spec_arounds].
    apply inner_call_spec. lia.
Qed.

Lemma callable_false cs : callable cs = false -> prims cs = [] /\ wraps cs = [].
Proof.
  unfold callable, prims, wraps. induction cs as [|c cs IH]; cbn [existsb flat_map]; [split; reflexivity|].
  intros H. apply orb_false_iff in H as [H1 H2]. apply orb_false_iff in H1 as [Hp Hw].
  destruct (IH H2) as [-> ->]. destruct (c_primary c); [discriminate|]. destruct (c_wrap c); [discriminate|].
  split; reflexivity.
Qed.
Lemma callable_true cs : callable cs = true -> prims cs <> [] \/ wraps cs <> [].
Proof.
  unfold callable, prims, wraps. induction cs as [|c cs IH]; cbn [existsb flat_map]; [discriminate|].
  intros H. apply orb_true_iff in H as [H|H].
  - apply orb_true_iff in H as [H|H]; [left; destruct (c_primary c); [discriminate|discriminate]
                                     |right; destruct (c_wrap c); [discriminate|discriminate]].
  - destruct (IH H) as [H'|H']; [left|right]; intros E; apply app_eq_nil in E as [_ E]; contradiction.
Qed.

(* ---------- dispatch equals the specification on the guard ---------- *)

(* the guard that is left after the repairs: when an :around method is applicable, a primary
   method is applicable too *)
Definition guard_cs (cs : list combo) : Prop := prims cs <> [] \/ wraps cs = [].
Definition guard (ct : ctable) (tbl : list (key * combo)) (cs : list cls) : Prop :=
  guard_cs (deref tbl (dispatch (map (hier_of ct) cs) tbl)).
Definition guardb (ct : ctable) (tbl : list (key * combo)) (cs : list cls) : bool :=
  let c := deref tbl (dispatch (map (hier_of ct) cs) tbl) in negb (is_nil (prims c)) || is_nil (wraps c).
Lemma guardb_spec ct tbl cs : guardb ct tbl cs = true -> guard ct tbl cs.
Proof.
  unfold guardb, guard, guard_cs. intros H. apply orb_true_iff in H as [H|H].
  - left. destruct (prims _); [discriminate|discriminate].
  - right. destruct (wraps _); [reflexivity|discriminate].
Qed.

Theorem pure_call_eq_spec ct n tbl cs v :
  wf_tbl n tbl -> Forall (wf_cls ct) cs -> guard ct tbl cs -> pure_call ct tbl cs v = spec_call ct tbl cs v.
Proof.
  intros [Hnd _] Hc Hg. unfold pure_call, spec_call, build, guard in *.
  rewrite collect_eq_dispatch; [|exact Hnd|].
  - set (ks := dispatch (map (hier_of ct) cs) tbl) in *.
    destruct (callable (deref tbl ks)) eqn:Ec.
    + assert (Hp : prims (deref tbl ks) <> []).
      { destruct Hg as [Hg|Hg]; [exact Hg|]. destruct (callable_true _ Ec) as [H|H]; [exact H|contradiction]. }
      rewrite method_call_effective by exact Hp.
      destruct ks as [|k ks]; [exfalso; apply Hp; reflexivity|reflexivity].
    + destruct (callable_false _ Ec) as [Hp _]. destruct ks as [|k ks]; [reflexivity|].
      unfold effective. rewrite Hp. reflexivity.
  - apply Forall_forall. intros h Hh. apply in_map_iff in Hh as (c & <- & Hcin).
    rewrite Forall_forall in Hc. apply Hc, Hcin.
Qed.

(* every call of the history is inside the guard, judged on the table defined at that moment *)
Fixpoint guard_ops (ct : ctable) (tbl : list (key * combo)) (ops : list op) : Prop :=
  match ops with
  | [] => True
  | o :: ops' => (match o with OpCall cs _ => guard ct tbl cs | _ => True end) /\ guard_ops ct (spec_step tbl o) ops'
  end.

Lemma pure_run_eq_spec ct n ops : forall tbl,
  wf_tbl n tbl -> wf_ops ct n ops -> guard_ops ct tbl ops -> pure_run ct tbl ops = spec_run ct tbl ops.
Proof.
  induction ops as [|o ops IH]; intros tbl Ht Hwf Hg; [reflexivity|].
  inversion Hwf as [|? ? [Ho Hc] Hwf']; subst. destruct Hg as [Hg Hg'].
  assert (Ht' := spec_step_wf n tbl o Ho Ht).
  destruct o as [q k b|q k|cs v]; cbn [pure_run spec_run]; f_equal; try (apply IH; assumption).
  f_equal. eapply pure_call_eq_spec; eassumption.
Qed.

Theorem run_eq_spec ct n ops :
  1 <= n -> wf_ops ct n ops -> guard_ops ct [] ops ->
  snd (run ct (new_aux n) ops) = spec_run ct [] ops.
Proof.
  intros Hn Hwf Hg. destruct (run_cache_transparent ct n ops Hn (new_aux n) Hwf (Inv_init ct n)) as (H & _ & _).
  rewrite H. cbn [methods new_aux]. apply (pure_run_eq_spec ct n); [split; constructor|exact Hwf|exact Hg].
Qed.

(* ---------- laws of the specification ---------- *)

(* body shapes: [once]: one call-next-method with the arguments received; [plain] is above *)
Definition once (b : body) : Prop := b_nmp b = false /\ b_fail b = false /\ b_calls b = [([], false)].

Lemma xor_args_nil v : xor_args v [] = v.
Proof. destruct v; reflexivity. Qed.

Lemma spec_arounds_all_once arounds inner v tr r :
  Forall once arounds -> inner v = (tr, r) -> is_err r = false ->
  spec_arounds arounds inner v =
    (evs arounds v ++ tr ++ map (fun b => EvEnd (b_id b)) (rev arounds), r).
Proof.
  intros Ho Hi He. induction Ho as [|b ar (Hn & Hf & Hc) _ IH]; cbn [spec_arounds evs map rev app].
  - rewrite app_nil_r. exact Hi.
  - unfold run_body. rewrite Hc, Hn, Hf. cbn [run_calls]. rewrite xor_args_nil, IH, He. cbn [is_err app].
    rewrite He. f_equal. cbn [app]. f_equal. unfold evs. rewrite map_app, <- !app_assoc. reflexivity.
Qed.

(* (a) the standard order: every :around calls call-next-method once, the most specific primary
   does not: arounds, befores, primary, afters in reverse, the arounds end in reverse *)
Theorem effective_order cs p ps v :
  prims cs = p :: ps -> plain p -> Forall once (wraps cs) ->
  effective cs v =
    (evs (wraps cs) v ++
     (evs (befores cs) v ++ [Ev (b_id p) v] ++ evs (rev (afters cs)) v) ++
     map (fun b => EvEnd (b_id b)) (rev (wraps cs)), RVal (b_id p)).
Proof.
  intros Hp (Hn & Hf & Hc) Ho. unfold effective. rewrite Hp.
  apply spec_arounds_all_once; [exact Ho| |reflexivity].
  unfold spec_inner. cbn [spec_prims]. unfold run_body, prim_ends. rewrite Hc, Hn, Hf. cbn. reflexivity.
Qed.

(* (b) an :around method that does not call call-next-method: nothing else runs *)
Theorem effective_around_declines cs a rest v :
  prims cs <> [] -> wraps cs = a :: rest -> b_fail a = false -> b_calls a = [] ->
  effective cs v = (Ev (b_id a) v :: (if b_nmp a then [EvNmp true] else []) ++ [EvEnd (b_id a)], RVal (b_id a)).
Proof.
  intros Hp Hw Hf Hc. unfold effective. destruct (prims cs); [congruence|]. rewrite Hw. cbn [spec_arounds].
  unfold run_body. rewrite Hc, Hf. cbn. reflexivity.
Qed.

(* (c) an :around method with two call-next-method forms, the second with changed arguments:
   the rest of the effective method runs twice, the second time with the changed arguments, and
   the value is that of the second run *)
Theorem effective_around_twice cs a rest f c1 c2 v tr1 r1 tr2 r2 :
  prims cs <> [] -> wraps cs = a :: rest -> b_nmp a = false -> b_fail a = false -> b_calls a = [([], c1); (f, c2)] ->
  let inner := spec_inner (befores cs) (prims cs) (afters cs) in
  spec_arounds rest inner v = (tr1, r1) -> is_err r1 = false ->
  spec_arounds rest inner (xor_args v f) = (tr2, r2) -> is_err r2 = false ->
  effective cs v = (Ev (b_id a) v :: tr1 ++ tr2 ++ [EvEnd (b_id a)], r2).
Proof.
  intros Hp Hw Hn Hf Hc inner H1 E1 H2 E2. unfold effective. destruct (prims cs); [congruence|]. rewrite Hw. cbn [spec_arounds].
  unfold run_body. rewrite Hc, Hn, Hf. cbn [run_calls]. rewrite xor_args_nil. fold inner. rewrite H1, E1, H2, E2.
  cbn [app]. rewrite E2. rewrite app_nil_r, <- app_assoc. reflexivity.
Qed.

(* (c') ... and when the first call-next-method, wrapped in ignore-errors, is ended by an error
   signalled further in, the second one walks THE SAME next methods again (the less specific
   :around methods the failed attempt had entered included); the value is that of the second run *)
Theorem effective_retry_after_error cs a rest f c2 v tr1 r1 tr2 r2 :
  prims cs <> [] -> wraps cs = a :: rest -> b_nmp a = false -> b_fail a = false -> b_calls a = [([], true); (f, c2)] ->
  let inner := spec_inner (befores cs) (prims cs) (afters cs) in
  spec_arounds rest inner v = (tr1, r1) -> catchable r1 = true ->
  spec_arounds rest inner (xor_args v f) = (tr2, r2) -> is_err r2 = false ->
  effective cs v = (Ev (b_id a) v :: tr1 ++ tr2 ++ [EvEnd (b_id a)], r2).
Proof.
  intros Hp Hw Hn Hf Hc inner H1 E1 H2 E2. unfold effective. destruct (prims cs); [congruence|]. rewrite Hw. cbn [spec_arounds].
  unfold run_body. rewrite Hc, Hn, Hf. cbn [run_calls]. rewrite xor_args_nil. fold inner. rewrite H1.
  assert (Ee : is_err r1 = true) by (destruct r1; try discriminate; reflexivity). rewrite Ee, E1. cbn [andb].
  rewrite H2, E2. cbn [app]. rewrite E2. rewrite app_nil_r, <- app_assoc. reflexivity.
Qed.

(* (d) call-next-method in a primary method runs the next most specific primary; in the least
   specific one it signals no-next-method, which unwinds (no :after method runs) *)
Theorem effective_primary_chain cs p1 p2 ps v :
  wraps cs = [] -> prims cs = p1 :: p2 :: ps -> once p1 -> plain p2 ->
  effective cs v =
    (evs (befores cs) v ++ [Ev (b_id p1) v; Ev (b_id p2) v; EvEnd (b_id p1)] ++ evs (rev (afters cs)) v, RVal (b_id p2)).
Proof.
  intros Hw Hp (Hn1 & Hf1 & Hc1) (Hn2 & Hf2 & Hc2). unfold effective. rewrite Hp, Hw. cbn [spec_arounds]. unfold spec_inner.
  cbn [spec_prims]. unfold run_body, prim_ends. rewrite Hc1, Hn1, Hf1, Hc2, Hn2, Hf2. cbn. rewrite xor_args_nil. reflexivity.
Qed.
Theorem effective_primary_no_next cs p f v :
  wraps cs = [] -> prims cs = [p] -> b_fail p = false -> b_calls p = [(f, false)] ->
  effective cs v = (evs (befores cs) v ++ Ev (b_id p) v :: (if b_nmp p then [EvNmp false] else []), RNoNext).
Proof.
  intros Hw Hp Hf Hc. unfold effective. rewrite Hp, Hw. cbn [spec_arounds]. unfold spec_inner.
  cbn [spec_prims]. unfold run_body. rewrite Hc, Hf. cbn. rewrite app_nil_r. reflexivity.
Qed.
(* (e) a body that signals an error: the condition unwinds through every running method (no
   :after method, no end of an :around method) *)
Theorem effective_primary_fails cs p ps v :
  prims cs = p :: ps -> b_fail p = true -> Forall once (wraps cs) ->
  effective cs v =
    (evs (wraps cs) v ++ evs (befores cs) v ++ Ev (b_id p) v :: (if b_nmp p then [EvNmp (negb (is_nil ps))] else []),
     RErr (b_id p)).
Proof.
  intros Hp Hf Ho. unfold effective. rewrite Hp.
  assert (Hi : spec_inner (befores cs) (p :: ps) (afters cs) v =
               (evs (befores cs) v ++ Ev (b_id p) v :: (if b_nmp p then [EvNmp (negb (is_nil ps))] else []), RErr (b_id p))).
  { unfold spec_inner. cbn [spec_prims]. unfold run_body. rewrite Hf. reflexivity. }
  revert Hi. generalize (spec_inner (befores cs) (p :: ps) (afters cs)). intros inner Hi.
  induction Ho as [|b ar (Hn & Hfb & Hc) _ IH]; cbn [spec_arounds evs map app]; [exact Hi|].
  unfold run_body. rewrite Hc, Hn, Hfb. cbn [run_calls]. rewrite xor_args_nil, IH. cbn [is_err andb]. reflexivity.
Qed.

(* ---------- the clause of the guard that is left: a refutation ---------- *)

Definition ct_num : ctable :=
  [("fixnum", ["fixnum"; "integer"; "rational"; "real"; "number"; "t"]);
   ("ratio", ["ratio"; "rational"; "real"; "number"; "t"])]%string.
Definition B (n : N) := {| b_id := n; b_nmp := false; b_fail := false; b_calls := [] |}.       (* plain *)
Definition B1 (n : N) := {| b_id := n; b_nmp := false; b_fail := false; b_calls := [([], false)] |}.    (* once *)

(* an applicable :around method and no applicable primary: slip runs the :around method (its
   own tests require that) and call-next-method signals no-next-method; the language signals an
   error without running anything *)
Definition ops_around_only : list op := [OpDef QAround ["t"] (B1 1); OpCall ["fixnum"] [false]]%string.
Lemma around_without_primary_refuted :
  wf_ops ct_num 1 ops_around_only /\
  snd (run ct_num (new_aux 1) ops_around_only) = [None; Some ([Ev 1 [false]], RNoNext)]%N /\
  spec_run ct_num [] ops_around_only = [None; Some ([], RNoApplicable)].
Proof.
  split; [|split].
  - repeat constructor; cbn; try discriminate; intuition discriminate.
  - vm_compute. reflexivity.
  - vm_compute. reflexivity.
Qed.

(* the repaired cases now agree with S (they were the witnesses of the former guard clauses) *)
Definition ops_two_arounds : list op :=
  [OpDef QPrimary ["t"] (B 1); OpDef QAround ["fixnum"] (B1 2); OpDef QAround ["integer"] (B1 3);
   OpDef QAround ["real"] (B1 4); OpCall ["fixnum"] [false]]%string.
Definition ops_no_primary : list op := [OpDef QBefore ["t"] (B 1); OpCall ["fixnum"] [false]]%string.
Definition ops_next_in_primary : list op :=
  [OpDef QPrimary ["integer"] (B 1); OpDef QPrimary ["fixnum"] (B1 2); OpCall ["fixnum"] [false]]%string.
Lemma repaired_cases :
  snd (run ct_num (new_aux 1) ops_two_arounds) = spec_run ct_num [] ops_two_arounds /\
  nth 4 (snd (run ct_num (new_aux 1) ops_two_arounds)) None =
    Some ([Ev 2 [false]; Ev 3 [false]; Ev 4 [false]; Ev 1 [false]; EvEnd 4; EvEnd 3; EvEnd 2], RVal 1)%N /\
  snd (run ct_num (new_aux 1) ops_no_primary) = [None; Some ([], RNoApplicable)] /\
  snd (run ct_num (new_aux 1) ops_no_primary) = spec_run ct_num [] ops_no_primary /\
  snd (run ct_num (new_aux 1) ops_next_in_primary) = [None; None; Some ([Ev 2 [false]; Ev 1 [false]; EvEnd 2], RVal 1)]%N /\
  snd (run ct_num (new_aux 1) ops_next_in_primary) = spec_run ct_num [] ops_next_in_primary.
Proof. vm_compute. repeat split; reflexivity. Qed.

(* the walk of call-next-method is the same after an error: the primary on fixnum signals an
   error; the :around on fixnum calls call-next-method in ignore-errors twice; both attempts enter
   the :around on integer and the primary *)
Definition ops_retry : list op :=
  [OpDef QPrimary ["fixnum"] {| b_id := 1%N; b_nmp := false; b_fail := true; b_calls := [] |};
   OpDef QAround ["integer"] (B1 2);
   OpDef QAround ["fixnum"] {| b_id := 3%N; b_nmp := false; b_fail := false; b_calls := [([], true); ([], true)] |};
   OpCall ["fixnum"] [false]]%string.
Lemma retry_example :
  wf_ops ct_num 1 ops_retry /\
  snd (run ct_num (new_aux 1) ops_retry) =
    [None; None; None;
     Some ([Ev 3 [false]; Ev 2 [false]; Ev 1 [false]; Ev 2 [false]; Ev 1 [false]; EvEnd 3], RNil)]%N /\
  snd (run ct_num (new_aux 1) ops_retry) = spec_run ct_num [] ops_retry.
Proof.
  split; [|split].
  - repeat constructor; cbn; try discriminate; intuition discriminate.
  - vm_compute. reflexivity.
  - vm_compute. reflexivity.
Qed.

(* non-vacuity: a history inside the guard that exercises every qualifier, replacement, removal,
   a cached call, two :around methods, call-next-method twice with changed arguments,
   next-method-p and call-next-method in a primary *)
Definition ops_example : list op :=
  [OpDef QPrimary ["t"; "t"] (B 1); OpDef QPrimary ["integer"; "t"] {| b_id := 2%N; b_nmp := true; b_fail := false; b_calls := [([], false)] |};
   OpDef QBefore ["fixnum"; "rational"] (B 3);
   OpDef QAfter ["t"; "ratio"] (B 4); OpDef QAround ["rational"; "t"] {| b_id := 5%N; b_nmp := true; b_fail := false; b_calls := [([], false); ([true; false], false)] |};
   OpDef QAround ["t"; "t"] (B1 7);
   OpCall ["fixnum"; "ratio"] [false; false]; OpCall ["fixnum"; "ratio"] [false; true];
   OpDef QPrimary ["fixnum"; "ratio"] (B 6); OpCall ["fixnum"; "ratio"] [false; false];
   OpRemove QPrimary ["fixnum"; "ratio"]; OpRemove QAround ["rational"; "t"]; OpCall ["fixnum"; "ratio"] [false; false];
   OpCall ["ratio"; "fixnum"] [false; false]]%string.
Lemma guardb_ops_sound ct : forall ops tbl,
  (fix go tbl ops := match ops with [] => true
     | o :: ops' => (match o with OpCall cs _ => guardb ct tbl cs | _ => true end) && go (spec_step tbl o) ops' end) tbl ops = true ->
  guard_ops ct tbl ops.
Proof.
  induction ops as [|o ops IH]; intros tbl H; [exact I|]. apply andb_true_iff in H as [H1 H2]. split; [|apply IH, H2].
  destruct o; try exact I. apply guardb_spec, H1.
Qed.
Example example_in_guard :
  wf_ops ct_num 2 ops_example /\ guard_ops ct_num [] ops_example /\
  snd (run ct_num (new_aux 2) ops_example) =
    [None; None; None; None; None; None;
     Some ([Ev 5 [false; false]; EvNmp true;
            Ev 7 [false; false]; Ev 3 [false; false]; Ev 2 [false; false]; EvNmp true; Ev 1 [false; false]; EvEnd 2; Ev 4 [false; false]; EvEnd 7;
            Ev 7 [true; false]; Ev 3 [true; false]; Ev 2 [true; false]; EvNmp true; Ev 1 [true; false]; EvEnd 2; Ev 4 [true; false]; EvEnd 7;
            EvEnd 5], RVal 1);
     Some ([Ev 5 [false; true]; EvNmp true;
            Ev 7 [false; true]; Ev 3 [false; true]; Ev 2 [false; true]; EvNmp true; Ev 1 [false; true]; EvEnd 2; Ev 4 [false; true]; EvEnd 7;
            Ev 7 [true; true]; Ev 3 [true; true]; Ev 2 [true; true]; EvNmp true; Ev 1 [true; true]; EvEnd 2; Ev 4 [true; true]; EvEnd 7;
            EvEnd 5], RVal 1);
     None;
     Some ([Ev 5 [false; false]; EvNmp true;
            Ev 7 [false; false]; Ev 3 [false; false]; Ev 6 [false; false]; Ev 4 [false; false]; EvEnd 7;
            Ev 7 [true; false]; Ev 3 [true; false]; Ev 6 [true; false]; Ev 4 [true; false]; EvEnd 7;
            EvEnd 5], RVal 6);
     None; None;
     Some ([Ev 7 [false; false]; Ev 3 [false; false]; Ev 2 [false; false]; EvNmp true; Ev 1 [false; false]; EvEnd 2; Ev 4 [false; false]; EvEnd 7], RVal 1);
     Some ([Ev 7 [false; false]; Ev 1 [false; false]; EvEnd 7], RVal 1)]%N.
Proof.
  split; [|split].
  - repeat constructor; cbn; try discriminate; intuition discriminate.
  - apply guardb_ops_sound. vm_compute. reflexivity.
  - vm_compute. reflexivity.
Qed.
