(* C10 — executable model M of pkg/generic/uax.go (Aux), defmethod.go (addMethodCaller),
   remove-method.go, method.go (Method.Call / InnerCall / primaryCall), whoploc.go (HasNext / Continue),
   call-next-method.go and next-method-p.go, AS REPAIRED by repo_fixes/C10-1 .. C10-8 (the model of the
   unrepaired code is kept in Orig.v for the refutations).
   Definitions only; proofs are in Proofs.v so that the model still runs when a proof breaks. *)
From Coq Require Export List String Bool Arith NArith Lia.
Export ListNotations.
Open Scope string_scope.
Open Scope list_scope.

Definition cls := string.
Definition key := list cls.                 (* one specializer per required argument *)
Definition mid := N.                        (* identity of a method body *)

Inductive qual := QPrimary | QBefore | QAfter | QAround.

(* The arguments of a call are objects of given classes. To observe which arguments a method
   receives, every class has two objects (a main one and an alternate); an argument vector says
   for each required argument which of the two it is. call-next-method with explicit arguments
   passes, for each position, the object it received or the other object of the same class. *)
Definition argv := list bool.
Fixpoint xor_args (v f : list bool) : argv :=
  match v, f with
  | x :: v', y :: f' => xorb x y :: xor_args v' f'
  | _, [] => v
  | [], _ => []
  end.

(* a method body: (vtr id args...) [ (vnp (next-method-p)) ] [ (error "vfail id") ] then one
   (call-next-method ...) per element of b_calls - the element says which arguments are exchanged
   for the alternate object; (call-next-method) without arguments and (call-next-method a b) are
   both the all-false element; the flag of the element says that the form is wrapped in
   ignore-errors (a condition signalled further in ends that call-next-method with nil and the
   body goes on, e.g. with another call-next-method) - then, when it is an :around method or has
   calls, (vtr -id). The value is that of the last call-next-method, or id when there is none.
   :before / :after bodies only trace. *)
Record body := { b_id : mid; b_nmp : bool; b_fail : bool; b_calls : list (list bool * bool) }.

Record combo := { c_primary : option body; c_before : option body;
                  c_after : option body; c_wrap : option body }.
Definition empty_combo := {| c_primary := None; c_before := None; c_after := None; c_wrap := None |}.
Definition combo_is_empty (c : combo) : bool :=
  match c_primary c, c_before c, c_after c, c_wrap c with
  | None, None, None, None => true | _, _, _, _ => false end.

Definition set_qual (c : combo) (q : qual) (b : option body) : combo :=
  match q with
  | QPrimary => {| c_primary := b; c_before := c_before c; c_after := c_after c; c_wrap := c_wrap c |}
  | QBefore => {| c_primary := c_primary c; c_before := b; c_after := c_after c; c_wrap := c_wrap c |}
  | QAfter => {| c_primary := c_primary c; c_before := c_before c; c_after := b; c_wrap := c_wrap c |}
  | QAround => {| c_primary := c_primary c; c_before := c_before c; c_after := c_after c; c_wrap := b |}
  end.
Definition get_qual (c : combo) (q : qual) : option body :=
  match q with QPrimary => c_primary c | QBefore => c_before c | QAfter => c_after c | QAround => c_wrap c end.

Definition key_eqb (a b : key) : bool := if list_eq_dec string_dec a b then true else false.

(* association lists stand for the Go maps; only lookup, insert, delete and len are used by the
   code, so iteration order never matters *)
Section Assoc.
  Context {V : Type}.
  Fixpoint alookup (k : key) (m : list (key * V)) : option V :=
    match m with
    | [] => None
    | (k', v) :: m' => if key_eqb k k' then Some v else alookup k m'
    end.
  Fixpoint adelete (k : key) (m : list (key * V)) : list (key * V) :=
    match m with
    | [] => []
    | (k', v) :: m' => if key_eqb k k' then adelete k m' else (k', v) :: adelete k m'
    end.
  Definition ainsert (k : key) (v : V) (m : list (key * V)) : list (key * V) :=
    (k, v) :: adelete k m.
End Assoc.

(* Aux: the cache maps the tuple of *first* hierarchy entries of the arguments (buildSpecKey) to
   the effective method built for it: since C10-6 a list of COPIES of the combinations. *)
Record aux := { methods : list (key * combo);
                cache : list (key * list combo);
                dflt : option body;
                reqcnt : nat }.

Definition new_aux (n : nat) : aux := {| methods := []; cache := []; dflt := None; reqcnt := n |}.

(* NewAux: defaultKey := string(dk[:len(dk)-2]) where dk = "t|" repeated reqCnt times. *)
Fixpoint rep_t (n : nat) : string := match n with O => "" | S n' => String.append "t|" (rep_t n') end.
Definition default_key (n : nat) : string :=
  let dk := rep_t n in substring 0 (String.length dk - 2) dk.
Fixpoint join_key (k : key) : string :=
  match k with [] => "" | [c] => c | c :: k' => String.append c (String.append "|" (join_key k')) end.

(* updateDefaultCaller *)
Definition update_default (ms : list (key * combo)) (n : nat) : option body :=
  match ms with
  | [(k, c)] =>
      if String.eqb (default_key n) (join_key k) then
        match c_primary c, c_before c, c_after c, c_wrap c with
        | Some p, None, None, None => Some p
        | _, _, _, _ => None
        end
      else None
  | _ => None
  end.

(* addMethodCaller *)
Definition add_method (a : aux) (q : qual) (k : key) (b : body) : aux :=
  let c := match alookup k (methods a) with Some c => c | None => empty_combo end in
  let ms := match alookup k (methods a) with
            | Some _ => map (fun kc => if key_eqb k (fst kc) then (fst kc, set_qual c q (Some b)) else kc) (methods a)
            | None => methods a ++ [(k, set_qual c q (Some b))]
            end in
  {| methods := ms; cache := []; dflt := update_default ms (reqcnt a); reqcnt := reqcnt a |}.

(* find-method followed by remove-method: a no-op when the (key, qualifier) is not defined *)
Definition remove_method (a : aux) (q : qual) (k : key) : aux :=
  match alookup k (methods a) with
  | None => a
  | Some c =>
      match get_qual c q with
      | None => a
      | Some _ =>
          let c' := set_qual c q None in
          let ms := if combo_is_empty c' then adelete k (methods a)
                    else map (fun kc => if key_eqb k (fst kc) then (fst kc, c') else kc) (methods a) in
          {| methods := ms; cache := []; dflt := update_default ms (reqcnt a); reqcnt := reqcnt a |}
      end
  end.

(* collectMethods: nested walk over the hierarchies of the arguments, first argument outermost *)
Fixpoint collect (ms : list (key * combo)) (prefix : key) (hiers : list (list cls)) : list key :=
  match hiers with
  | [] => match alookup prefix ms with Some _ => [prefix] | None => [] end
  | h :: hs => flat_map (fun c => collect ms (prefix ++ [c]) hs) h
  end.

Inductive event := Ev (m : mid) (v : argv)   (* a body starts, with the arguments it received *)
                 | EvNmp (b : bool)          (* what (next-method-p) answered *)
                 | EvEnd (m : mid).          (* an :around body, or a primary with call-next-method, ends *)
Inductive result := RVal (m : mid)       (* value of a body without call-next-method: its identity *)
                  | RNil                  (* InnerCall found no primary (never reached, see Proofs) *)
                  | RNoApplicable         (* no-applicable-method *)
                  | RNoNext               (* no-next-method *)
                  | RErr (m : mid)        (* the error signalled by body m *)
                  | ROutOfFuel
                  | ROther.               (* observed only: any other condition, fault or timeout *)
(* a condition unwinds through the bodies that are running *)
Definition is_err (r : result) : bool :=
  match r with RVal _ | RNil => false | _ => true end.
(* ... and ignore-errors stops a Lisp error there *)
Definition catchable (r : result) : bool :=
  match r with RErr _ | RNoNext => true | _ => false end.

Definition deref (ms : list (key * combo)) (ks : list key) : list combo :=
  flat_map (fun k => match alookup k ms with Some c => [c] | None => [] end) ks.

Definition opt_ev (o : option body) (v : argv) : list event :=
  match o with Some b => [Ev (b_id b) v] | None => [] end.

(* ---- running one body. [hasnext] is what WhopLoc.HasNext answers for the body's location and
   [next v'] what WhopLoc.Continue does with the arguments v'. ---- *)
Definition run_calls (v : argv) (hasnext : bool) (next : argv -> list event * result) :=
  fix go (calls : list (list bool * bool)) (last : result) : list event * result :=
    match calls with
    | [] => ([], last)
    | (f, caught) :: rest =>
        (* call-next-method applies no-next-method when there is no next method: an error *)
        let '(tr, r) := if hasnext then next (xor_args v f) else ([], RNoNext) in
        if is_err r then
          if caught && catchable r then let '(tr2, r2) := go rest RNil in (tr ++ tr2, r2)
          else (tr, r)
        else let '(tr2, r2) := go rest r in (tr ++ tr2, r2)
    end.
Definition run_body (ends : bool) (b : body) (v : argv) (hasnext : bool)
                    (next : argv -> list event * result) : list event * result :=
  let head := Ev (b_id b) v :: (if b_nmp b then [EvNmp hasnext] else []) in
  if b_fail b then (head, RErr (b_id b)) else
  let '(tr, r) := run_calls v hasnext next (b_calls b) (RVal (b_id b)) in
  if is_err r then (head ++ tr, r)
  else (head ++ tr ++ (if ends then [EvEnd (b_id b)] else []), r).
(* a primary ends with (vtr -id) only when it has a call-next-method form *)
Definition prim_ends (b : body) : bool := match b_calls b with [] => false | _ => true end.

(* first combination at index >= i that has the selected daemon *)
Fixpoint find_idx (sel : combo -> option body) (l : list combo) (i : nat) : option (nat * body) :=
  match l with
  | [] => None
  | c :: l' => match sel c with Some b => Some (i, b) | None => find_idx sel l' (S i) end
  end.
Definition find_from (sel : combo -> option body) (cs : list combo) (i : nat) : option (nat * body) :=
  find_idx sel (skipn i cs) i.
Definition is_some {A} (o : option A) : bool := match o with Some _ => true | None => false end.

(* Method.primaryCall(start = i): the first primary at or after i runs with
   WhopLoc{Current: j, Primary: true}; for that location HasNext = a later primary exists and
   Continue = primaryCall(j+1) *)
Fixpoint run_prim (fuel : nat) (cs : list combo) (i : nat) (v : argv) : list event * result :=
  match fuel with
  | O => ([], ROutOfFuel)
  | S fuel' =>
      match find_from c_primary cs i with
      | None => ([], RNil)
      | Some (j, b) =>
          run_body (prim_ends b) b v (is_some (find_from c_primary cs (S j)))
                   (fun v' => run_prim fuel' cs (S j) v')
      end
  end.

(* Method.InnerCall: befores, primaryCall(0), afters from the last combination to the first *)
Definition inner_call (fuel : nat) (cs : list combo) (v : argv) : list event * result :=
  let befores := flat_map (fun c => opt_ev (c_before c) v) cs in
  let '(tr, r) := run_prim fuel cs 0 v in
  if is_err r then (befores ++ tr, r)
  else (befores ++ tr ++ flat_map (fun c => opt_ev (c_after c) v) (rev cs), r).

(* the Wrap b of combination i runs with WhopLoc{Current: i}: HasNext = a later Wrap exists or
   some combination has a Primary; Continue = the next Wrap j > i (location j) or InnerCall *)
Fixpoint run_wrap (fuel : nat) (cs : list combo) (i : nat) (b : body) (v : argv) : list event * result :=
  match fuel with
  | O => ([], ROutOfFuel)
  | S fuel' =>
      run_body true b v
        (is_some (find_from c_wrap cs (S i)) || is_some (find_from c_primary cs 0))
        (fun v' => match find_from c_wrap cs (S i) with
                   | Some (j, b') => run_wrap fuel' cs j b' v'
                   | None => inner_call (S (List.length cs)) cs v'
                   end)
  end.

(* Method.Call *)
Definition method_call (cs : list combo) (v : argv) : list event * result :=
  match find_from c_wrap cs 0 with
  | Some (i, b) => run_wrap (S (List.length cs)) cs i b v
  | None => inner_call (S (List.length cs)) cs v
  end.

(* class table: the precedence list (Hierarchy()) of each class, most specific first; a nil
   argument and an unknown class have the hierarchy (t) *)
Definition ctable := list (cls * list cls).
Fixpoint hier_of (ct : ctable) (c : cls) : list cls :=
  match ct with
  | [] => ["t"]
  | (c', h) :: ct' => if String.eqb c c' then h else hier_of ct' c
  end.

(* Aux.Call: the arguments are given by their classes; hiers are their Hierarchy() lists *)
Definition spec_key (hiers : list (list cls)) : key := map (fun h => hd "t" h) hiers.

(* buildCacheMeth: daemons alone are not callable *)
Definition callable (cs : list combo) : bool :=
  existsb (fun c => is_some (c_primary c) || is_some (c_wrap c)) cs.
Definition build (ms : list (key * combo)) (hiers : list (list cls)) : option (list combo) :=
  let snap := deref ms (collect ms [] hiers) in
  if callable snap then Some snap else None.
(* the fast path keeps a method of one combination with the primary only *)
Definition dflt_method (b : body) : list combo :=
  [{| c_primary := Some b; c_before := None; c_after := None; c_wrap := None |}].

Definition call (ct : ctable) (a : aux) (cs : list cls) (v : argv) : aux * (list event * result) :=
  let hiers := map (hier_of ct) cs in
  match dflt a with
  | Some b => (a, inner_call 2 (dflt_method b) v)
  | None =>
      let ck := spec_key hiers in
      match alookup ck (cache a) with
      | Some snap => (a, method_call snap v)
      | None =>
          match build (methods a) hiers with
          | None => (a, ([], RNoApplicable))
          | Some snap =>
              ({| methods := methods a; cache := ainsert ck snap (cache a); dflt := dflt a; reqcnt := reqcnt a |},
               method_call snap v)
          end
      end
  end.

Inductive op :=
| OpDef (q : qual) (k : key) (b : body)
| OpRemove (q : qual) (k : key)
| OpCall (cs : list cls) (v : argv).

Definition out := option (list event * result).

Definition step (ct : ctable) (a : aux) (o : op) : aux * out :=
  match o with
  | OpDef q k b => (add_method a q k b, None)
  | OpRemove q k => (remove_method a q k, None)
  | OpCall cs v => let '(a', r) := call ct a cs v in (a', Some r)
  end.

Fixpoint run (ct : ctable) (a : aux) (ops : list op) : aux * list out :=
  match ops with
  | [] => (a, [])
  | o :: ops' => let '(a1, r) := step ct a o in let '(a2, rs) := run ct a1 ops' in (a2, r :: rs)
  end.
