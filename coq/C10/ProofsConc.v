(* C10 — proofs about the concurrent machine of ModelConc.v. *)
From C10 Require Import Model ModelConc.

(* ---------- lists ---------- *)
Lemma nth_error_set_nth_eq {A} (l : list A) : forall i x, i < List.length l -> nth_error (set_nth i x l) i = Some x.
Proof. induction l as [|y l IH]; intros [|i] x H; cbn in *; try lia; [reflexivity|apply IH; lia]. Qed.
Lemma nth_error_set_nth_neq {A} (l : list A) : forall i j x, i <> j -> nth_error (set_nth i x l) j = nth_error l j.
Proof.
  induction l as [|y l IH]; intros [|i] [|j] x H; cbn; try reflexivity; try congruence.
  apply IH. congruence.
Qed.
Lemma nth_error_lt {A} (l : list A) i x : nth_error l i = Some x -> i < List.length l.
Proof. intros H. apply nth_error_Some. congruence. Qed.

(* ---------- the sequential reference over a growing log ---------- *)
Lemma crun_app ct : forall l1 a l2,
  crun ct a (l1 ++ l2) =
  let '(a1, o1) := crun ct a l1 in let '(a2, o2) := crun ct a1 l2 in (a2, o1 ++ o2).
Proof.
  induction l1 as [|o l1 IH]; intros a l2; cbn [crun app].
  - destruct (crun ct a l2); reflexivity.
  - destruct (cstep ct a o) as [a1 r]. rewrite IH. destruct (crun ct a1 l1) as [a2 o1].
    destruct (crun ct a2 l2) as [a3 o2]. reflexivity.
Qed.
Lemma crun_length ct : forall l a, List.length (snd (crun ct a l)) = List.length l.
Proof.
  induction l as [|o l IH]; intros a; cbn [crun]; [reflexivity|].
  destruct (cstep ct a o) as [a1 r]. specialize (IH a1). destruct (crun ct a1 l). cbn in *. lia.
Qed.

Section Lin.
  Variable ct : ctable.
  Variable n : nat.
  Variable progs : list (list cop).

  Definition A_of (log : list (nat * cop)) : aux := fst (crun ct (new_aux n) (map snd log)).
  Definition outs_of (log : list (nat * cop)) : list cout := snd (crun ct (new_aux n) (map snd log)).

  Lemma A_of_snoc log r o : A_of (log ++ [(r, o)]) = fst (cstep ct (A_of log) o).
  Proof.
    unfold A_of. rewrite map_app, crun_app. cbn [map snd crun].
    destruct (crun ct (new_aux n) (map snd log)) as [a1 o1]. cbn [fst]. destruct (cstep ct a1 o). reflexivity.
  Qed.
  Lemma outs_of_snoc log r o : outs_of (log ++ [(r, o)]) = outs_of log ++ [snd (cstep ct (A_of log) o)].
  Proof.
    unfold outs_of, A_of. rewrite map_app, crun_app. cbn [map snd crun].
    destruct (crun ct (new_aux n) (map snd log)) as [a1 o1]. cbn [fst snd]. destruct (cstep ct a1 o). reflexivity.
  Qed.
  Lemma outs_of_length log : List.length (outs_of log) = List.length log.
  Proof. unfold outs_of. rewrite crun_length, map_length. reflexivity. Qed.

  Lemma answers_of_snoc r : forall log outs r' o x, List.length outs = List.length log ->
    answers_of r (log ++ [(r', o)]) (outs ++ [x]) = answers_of r log outs ++ (if Nat.eqb r r' then [x] else []).
  Proof.
    induction log as [|[r1 o1] log IH]; intros [|y outs] r' o x Hl; cbn in Hl; try lia; cbn [answers_of app].
    - destruct (Nat.eqb r r'); reflexivity.
    - destruct (Nat.eqb r r1); cbn [app]; rewrite IH by lia; reflexivity.
  Qed.
  Lemma ops_of_snoc r : forall log r' o, ops_of r (log ++ [(r', o)]) = ops_of r log ++ (if Nat.eqb r r' then [o] else []).
  Proof.
    induction log as [|[r1 o1] log IH]; intros r' o; cbn [ops_of app].
    - destruct (Nat.eqb r r'); reflexivity.
    - destruct (Nat.eqb r r1); cbn [app]; rewrite IH; reflexivity.
  Qed.

  (* ---------- one critical section = the operation run alone ---------- *)
  Definition exec_list (o : cop) (is : list instr) (sl : shared * locals) : shared * locals :=
    fold_left (fun sl i => exec1 ct fixed o i (fst sl) (snd sl)) is sl.
  Lemma exec_list_snoc o is i sl : exec_list o (is ++ [i]) sl = exec1 ct fixed o i (fst (exec_list o is sl)) (snd (exec_list o is sl)).
  Proof. unfold exec_list. rewrite fold_left_app. reflexivity. Qed.

  Lemma map_update_absent k c (ms : list (key * combo)) : alookup k ms = None -> map_update k c ms = ms.
  Proof.
    unfold map_update. induction ms as [|[k' c'] ms IH]; cbn [alookup map fst]; [reflexivity|].
    destruct (key_eqb k k'); [discriminate|]. intros H. rewrite (IH H). reflexivity.
  Qed.
  Lemma key_eqb_refl' k : key_eqb k k = true.
  Proof. unfold key_eqb. destruct (list_eq_dec string_dec k k); congruence. Qed.
  Lemma map_update_snoc k c c0 (ms : list (key * combo)) :
    alookup k ms = None -> map_update k c (ms ++ [(k, c0)]) = ms ++ [(k, c)].
  Proof.
    intros E. unfold map_update. rewrite map_app. fold (map_update k c ms). rewrite (map_update_absent _ _ _ E).
    cbn [map fst]. rewrite key_eqb_refl'. reflexivity.
  Qed.
  Lemma adelete_map_update k c (ms : list (key * combo)) : adelete k (map_update k c ms) = adelete k ms.
  Proof.
    unfold map_update. induction ms as [|[k' c'] ms IH]; cbn [adelete map fst]; [reflexivity|].
    destruct (key_eqb k k') eqn:E; cbn [adelete fst]; rewrite E; rewrite IH; reflexivity.
  Qed.

  Lemma crit_correct o s : s_writing s = false ->
    s_aux (fst (exec_list o (crit o) (s, locals0))) = fst (cstep ct (s_aux s) o) /\
    s_writing (fst (exec_list o (crit o) (s, locals0))) = false /\
    forall s'', l_out (snd (exec_list o (post fixed o) (s'', snd (exec_list o (crit o) (s, locals0))))) =
                Some (snd (cstep ct (s_aux s) o)).
  Proof.
    intros Hw. destruct s as [a w pc cl]. cbn [s_writing] in Hw. subst w.
    destruct o as [q k b|q k|cs v|q k|cs]; unfold exec_list; cbn [crit post fixed v_ownloc fold_left fst snd].
    - (* defmethod *)
      unfold cstep, add_method. cbn [exec1 s_aux l_combo locals0 fst snd].
      destruct (alookup k (methods a)) as [c|] eqn:E; cbn [exec1 s_aux s_writing l_combo fst snd set_aux set_writing set_methods methods cache dflt reqcnt l_out].
      + repeat split.
      + rewrite !(map_update_snoc _ _ _ _ E). repeat split.
    - (* remove-method *)
      unfold cstep, remove_raw. cbn [exec1 s_aux l_combo locals0 fst snd].
      destruct (alookup k (methods a)) as [c|] eqn:E; cbn [exec1 s_aux s_writing l_combo fst snd set_aux set_writing set_methods methods cache dflt reqcnt l_out].
      + destruct (combo_is_empty (set_qual c q None)) eqn:Ee;
          cbn [exec1 s_aux s_writing l_combo fst snd set_aux set_writing set_methods methods cache dflt reqcnt l_out].
        * rewrite adelete_map_update. repeat split.
        * repeat split.
      + destruct a; repeat split.
    - (* call *)
      unfold cstep, call. cbn [exec1 s_aux l_dflt locals0 fst snd].
      destruct (dflt a) as [b|] eqn:Ed; cbn [exec1 s_aux s_writing l_dflt l_miss l_meth fst snd].
      + cbn [l_out]. repeat split.
      + destruct (alookup (spec_key (map (hier_of ct) cs)) (cache a)) as [snap|] eqn:Ec;
          cbn [exec1 is_some negb s_aux s_writing l_dflt l_miss l_meth fst snd].
        * cbn [l_out v_copy fixed run_method v_ownloc]. repeat split.
        * destruct (build (methods a) (map (hier_of ct) cs)) as [snap|] eqn:Eb;
            cbn [exec1 s_aux s_writing l_dflt l_miss l_meth l_out fst snd v_copy fixed run_method v_ownloc]; repeat split;
            rewrite Ed; reflexivity.
    - (* find-method *)
      unfold cstep, find_method. cbn [exec1 s_aux s_writing l_combo l_fault l_out fst snd]. repeat split.
    - (* compute-applicable-methods *)
      unfold cstep. cbn [exec1 s_aux s_writing l_list l_fault l_out fst snd]. repeat split.
  Qed.

  (* the steps after the unlock do not touch what is shared *)
  Lemma post_pure o i s l : In i (post fixed o) -> fst (exec1 ct fixed o i s l) = s.
  Proof. destruct o; cbn [post fixed v_ownloc]; intros [<-|[]]; reflexivity. Qed.
  Lemma post_single o : exists i, post fixed o = [i] /\ i <> ILock /\ i <> IUnlock.
  Proof. destruct o; cbn [post fixed v_ownloc]; eexists; (split; [reflexivity|split; discriminate]). Qed.
  Lemma crit_no_lock o i : In i (crit o) -> i <> ILock /\ i <> IUnlock.
  Proof. destruct o; cbn [crit]; intros H; repeat (destruct H as [<-|H]; [split; discriminate|]); destruct H. Qed.
  Lemma prog_fixed o : prog fixed o = ILock :: crit o ++ IUnlock :: post fixed o.
  Proof. unfold prog. cbn [fixed v_rlock negb]. rewrite andb_false_r. reflexivity. Qed.

  (* ---------- the invariant ---------- *)
  Definition P (r : nat) : list cop := nth r progs [].

  Inductive phase (g : gstate) (r : nat) (rt : routine) : Prop :=
  | PhIdle : r_cur rt = None -> r_prog rt = [] -> g_lock g <> Some r ->
      answers_of r (g_log g) (outs_of (g_log g)) = r_outs rt ->
      ops_of r (g_log g) ++ r_todo rt = P r -> phase g r rt
  | PhStarted o : r_cur rt = Some o -> r_prog rt = prog fixed o -> r_loc rt = locals0 -> g_lock g <> Some r ->
      answers_of r (g_log g) (outs_of (g_log g)) = r_outs rt ->
      ops_of r (g_log g) ++ o :: r_todo rt = P r -> phase g r rt
  | PhHolding o done rem log' sh0 : r_cur rt = Some o -> g_lock g = Some r ->
      crit o = done ++ rem -> r_prog rt = rem ++ IUnlock :: post fixed o ->
      g_log g = log' ++ [(r, o)] -> s_aux sh0 = A_of log' -> s_writing sh0 = false ->
      exec_list o done (sh0, locals0) = (g_sh g, r_loc rt) ->
      answers_of r log' (outs_of log') = r_outs rt ->
      ops_of r (g_log g) ++ r_todo rt = P r -> phase g r rt
  | PhAfter o x : r_cur rt = Some o -> g_lock g <> Some r -> r_prog rt = post fixed o ->
      (forall s, l_out (snd (exec_list o (post fixed o) (s, r_loc rt))) = Some x) ->
      answers_of r (g_log g) (outs_of (g_log g)) = r_outs rt ++ [x] ->
      ops_of r (g_log g) ++ r_todo rt = P r -> phase g r rt.

  Definition GInv (g : gstate) : Prop :=
    (g_lock g = None -> s_aux (g_sh g) = A_of (g_log g) /\ s_writing (g_sh g) = false) /\
    (forall r rt, nth_error (g_rs g) r = Some rt -> phase g r rt).

  Lemma phase_same g g' r rt :
    g_lock g' = g_lock g -> g_log g' = g_log g -> g_sh g' = g_sh g -> phase g r rt -> phase g' r rt.
  Proof.
    intros Hl Hg Hs H. destruct H.
    - apply PhIdle; rewrite ?Hl, ?Hg; assumption.
    - eapply PhStarted; rewrite ?Hl, ?Hg; eassumption.
    - eapply PhHolding; rewrite ?Hl, ?Hg, ?Hs; eassumption.
    - eapply PhAfter; rewrite ?Hl, ?Hg; eassumption.
  Qed.
  (* a routine that does not hold the mutex does not care about the shared state *)
  Lemma phase_other g g' r r' rt :
    g_lock g = Some r' -> r <> r' -> g_lock g' = g_lock g -> g_log g' = g_log g -> phase g r rt -> phase g' r rt.
  Proof.
    intros Hh Hne Hl Hg H. destruct H.
    - apply PhIdle; rewrite ?Hl, ?Hg; assumption.
    - eapply PhStarted; rewrite ?Hl, ?Hg; eassumption.
    - congruence.
    - eapply PhAfter; rewrite ?Hl, ?Hg; eassumption.
  Qed.

  Lemma GInv_init : GInv (ginit n progs).
  Proof.
    split.
    - intros _. split; reflexivity.
    - intros r rt H. cbn [ginit g_rs] in H. rewrite nth_error_map in H.
      destruct (nth_error progs r) as [p|] eqn:E; [|discriminate]. injection H as <-.
      apply PhIdle; try reflexivity; [discriminate|]. cbn. unfold P. symmetry. apply nth_error_nth. exact E.
  Qed.

  Ltac other_routine Hph r r1 rt1 H1 :=
    rewrite nth_error_set_nth_neq in H1 by congruence; specialize (Hph r1 rt1 H1).

  Lemma gstep_inv g r : GInv g -> GInv (gstep ct fixed g r).
  Proof.
    intros [Hsh Hph]. unfold gstep. destruct (nth_error (g_rs g) r) as [rt|] eqn:Er; [|split; assumption].
    assert (Hlen := nth_error_lt _ _ _ Er). assert (Hr := Hph r rt Er).
    destruct Hr as [Hc Hp Hl Ha Ho | o Hc Hp Hloc Hl Ha Ho | o done rem log' sh0 Hc Hl Hcr Hp Hlog Hs0 Hw0 Hex Ha Ho | o x Hc Hl Hp Hx Ha Ho];
      rewrite Hc.
    - (* idle: invoke the next operation, if any *)
      destruct (r_todo rt) as [|o rest] eqn:Et; [split; assumption|]. split; [exact Hsh|]. cbn [g_rs].
      intros r1 rt1 H1. destruct (Nat.eq_dec r r1) as [<-|Hne].
      + rewrite nth_error_set_nth_eq in H1 by exact Hlen. injection H1 as <-.
        eapply PhStarted; cbn [r_cur r_prog r_loc r_outs r_todo g_lock g_log]; try reflexivity; assumption.
      + other_routine Hph r r1 rt1 H1. eapply phase_same; [| | |exact Hph]; reflexivity.
    - (* started: take the mutex when it is free *)
      rewrite Hp, prog_fixed. destruct (g_lock g) as [h|] eqn:Elk; [split; [intros H; rewrite Elk in H; discriminate|exact Hph]|].
      destruct (Hsh eq_refl) as [HA HW]. split; [discriminate|]. cbn [g_rs].
      intros r1 rt1 H1. destruct (Nat.eq_dec r r1) as [<-|Hne].
      + rewrite nth_error_set_nth_eq in H1 by exact Hlen. injection H1 as <-.
        eapply (PhHolding _ _ _ o [] (crit o) (g_log g) (g_sh g)); cbn [r_cur r_prog r_loc r_outs r_todo g_lock g_log g_sh];
          try reflexivity; try assumption.
        * rewrite Hloc. reflexivity.
        * rewrite ops_of_snoc, Nat.eqb_refl, <- app_assoc. exact Ho.
      + other_routine Hph r r1 rt1 H1. destruct Hph as [Hc1 Hp1 Hl1 Ha1 Ho1 | o1 Hc1 Hp1 Hloc1 Hl1 Ha1 Ho1 | o1 d1 rm1 lg1 s1 Hc1 Hl1 | o1 x1 Hc1 Hl1 Hp1 Hx1 Ha1 Ho1].
        * apply PhIdle; cbn [g_lock g_log]; try assumption; [congruence| |].
          -- rewrite outs_of_snoc, answers_of_snoc by apply outs_of_length.
             replace (Nat.eqb r1 r) with false by (symmetry; apply Nat.eqb_neq; congruence). rewrite app_nil_r. exact Ha1.
          -- rewrite ops_of_snoc. replace (Nat.eqb r1 r) with false by (symmetry; apply Nat.eqb_neq; congruence). rewrite app_nil_r. exact Ho1.
        * eapply PhStarted; cbn [g_lock g_log]; try eassumption; [congruence| |].
          -- rewrite outs_of_snoc, answers_of_snoc by apply outs_of_length.
             replace (Nat.eqb r1 r) with false by (symmetry; apply Nat.eqb_neq; congruence). rewrite app_nil_r. exact Ha1.
          -- rewrite ops_of_snoc. replace (Nat.eqb r1 r) with false by (symmetry; apply Nat.eqb_neq; congruence). rewrite app_nil_r. exact Ho1.
        * congruence.
        * eapply PhAfter; cbn [g_lock g_log]; try eassumption; [congruence| |].
          -- rewrite outs_of_snoc, answers_of_snoc by apply outs_of_length.
             replace (Nat.eqb r1 r) with false by (symmetry; apply Nat.eqb_neq; congruence). rewrite app_nil_r. exact Ha1.
          -- rewrite ops_of_snoc. replace (Nat.eqb r1 r) with false by (symmetry; apply Nat.eqb_neq; congruence). rewrite app_nil_r. exact Ho1.
    - (* holding the mutex *)
      rewrite Hp. destruct rem as [|i rem'].
      + (* unlock: the critical section is complete *)
        cbn [app]. rewrite app_nil_r in Hcr. rewrite <- Hcr in Hex.
        destruct (crit_correct o sh0 Hw0) as (C1 & C2 & C3). rewrite Hex in C1, C2, C3. cbn [fst snd] in C1, C2, C3.
        split.
        * intros _. cbn [g_sh g_log]. rewrite Hlog, A_of_snoc, <- Hs0. split; assumption.
        * cbn [g_rs]. intros r1 rt1 H1. destruct (Nat.eq_dec r r1) as [<-|Hne].
          -- rewrite nth_error_set_nth_eq in H1 by exact Hlen. injection H1 as <-.
             eapply (PhAfter _ _ _ o (snd (cstep ct (s_aux sh0) o))); cbn [r_cur r_prog r_loc r_outs r_todo g_lock g_log];
               try reflexivity; try assumption; [discriminate|].
             rewrite Hlog, outs_of_snoc, answers_of_snoc, Nat.eqb_refl, Ha, Hs0 by apply outs_of_length. reflexivity.
          -- other_routine Hph r r1 rt1 H1. destruct Hph as [Hc1 Hp1 Hl1 Ha1 Ho1 | o1 Hc1 Hp1 Hloc1 Hl1 Ha1 Ho1 | o1 d1 rm1 lg1 s1 Hc1 Hl1 | o1 x1 Hc1 Hl1 Hp1 Hx1 Ha1 Ho1].
             ++ apply PhIdle; cbn [g_lock g_log]; try assumption. discriminate.
             ++ eapply PhStarted; cbn [g_lock g_log]; try eassumption. discriminate.
             ++ congruence.
             ++ eapply PhAfter; cbn [g_lock g_log]; try eassumption. discriminate.
      + (* one more step of the critical section *)
        cbn [app].
        assert (Hi : i <> ILock /\ i <> IUnlock) by (apply (crit_no_lock o); rewrite Hcr; apply in_or_app; right; left; reflexivity).
        destruct (rem' ++ IUnlock :: post fixed o) as [|i2 l2] eqn:Erest; [destruct rem'; discriminate|].
        destruct (exec1 ct fixed o i (g_sh g) (r_loc rt)) as [s' l'] eqn:Ee.
        assert (Hnew : GInv {| g_sh := s'; g_lock := g_lock g; g_log := g_log g;
                               g_rs := set_nth r {| r_todo := r_todo rt; r_cur := Some o; r_prog := i2 :: l2;
                                                    r_loc := l'; r_outs := r_outs rt |} (g_rs g) |}).
        { split; [cbn [g_lock]; congruence|]. cbn [g_rs]. intros r1 rt1 H1. destruct (Nat.eq_dec r r1) as [<-|Hne].
          - rewrite nth_error_set_nth_eq in H1 by exact Hlen. injection H1 as <-.
            eapply (PhHolding _ _ _ o (done ++ [i]) rem' log' sh0); cbn [r_cur r_prog r_loc r_outs r_todo g_lock g_log g_sh];
              try reflexivity; try assumption.
            + rewrite <- app_assoc. exact Hcr.
            + symmetry. exact Erest.
            + rewrite exec_list_snoc, Hex. cbn [fst snd]. exact Ee.
          - other_routine Hph r r1 rt1 H1. eapply (phase_other g _ r1 r); try eassumption; try reflexivity. congruence. }
        destruct i; try (destruct Hi; congruence); exact Hnew.
    - (* after the unlock: the last step produces the answer *)
      rewrite Hp. destruct (post_single o) as (i & Hpo & Hi1 & Hi2). rewrite Hpo.
      destruct (exec1 ct fixed o i (g_sh g) (r_loc rt)) as [s' l'] eqn:Ee.
      assert (Hs' : s' = g_sh g).
      { assert (H := post_pure o i (g_sh g) (r_loc rt)). rewrite Hpo in H. specialize (H (or_introl eq_refl)). rewrite Ee in H. exact H. }
      assert (Hout : l_out l' = Some x).
      { specialize (Hx (g_sh g)). rewrite Hpo in Hx. unfold exec_list in Hx. cbn [fold_left fst snd] in Hx. rewrite Ee in Hx. exact Hx. }
      assert (Hnew : GInv {| g_sh := s'; g_lock := g_lock g; g_log := g_log g;
                             g_rs := set_nth r {| r_todo := r_todo rt; r_cur := None; r_prog := []; r_loc := l';
                                                  r_outs := r_outs rt ++ [match l_out l' with Some y => y | None => CoNone end] |} (g_rs g) |}).
      { subst s'. split; [exact Hsh|]. cbn [g_rs]. intros r1 rt1 H1. destruct (Nat.eq_dec r r1) as [<-|Hne].
        - rewrite nth_error_set_nth_eq in H1 by exact Hlen. injection H1 as <-.
          apply PhIdle; cbn [r_cur r_prog r_loc r_outs r_todo g_lock g_log]; try reflexivity; try assumption.
          rewrite Hout. exact Ha.
        - other_routine Hph r r1 rt1 H1. eapply phase_same; [| | |exact Hph]; reflexivity. }
      destruct i; try congruence; exact Hnew.
  Qed.

  Lemma grun_inv sched : forall g, GInv g -> GInv (grun ct fixed sched g).
  Proof. induction sched as [|r sched IH]; intros g H; [exact H|]. apply IH, gstep_inv, H. Qed.

  (* ---------- linearizability ---------- *)
  Definition is_prefix {A} (l1 l2 : list A) : Prop := exists tl, l2 = l1 ++ tl.

  Theorem concurrent_linearizable sched :
    let g := grun ct fixed sched (ginit n progs) in
    let seq := map snd (g_log g) in
    let answers := snd (crun ct (new_aux n) seq) in
    forall r rt, nth_error (g_rs g) r = Some rt ->
      (* the log respects the program order of the routine and holds the operations it has begun *)
      is_prefix (ops_of r (g_log g)) (nth r progs []) /\
      (* every completed operation was answered as in the sequential run of the log *)
      is_prefix (r_outs rt) (answers_of r (g_log g) answers) /\
      (* a routine that has finished its program: all of it is in the log, all answers are those *)
      (r_cur rt = None -> r_todo rt = [] ->
         ops_of r (g_log g) = nth r progs [] /\ r_outs rt = answers_of r (g_log g) answers).
  Proof.
    intros g seq answers r rt H. destruct (grun_inv sched _ GInv_init) as [_ Hph]. specialize (Hph r rt H).
    fold g in Hph. change answers with (outs_of (g_log g)).
    destruct Hph as [Hc Hp Hl Ha Ho | o Hc Hp Hloc Hl Ha Ho | o done rem log' sh0 Hc Hl Hcr Hp Hlog Hs0 Hw0 Hex Ha Ho | o x Hc Hl Hp Hx Ha Ho]; unfold P in Ho.
    - split; [eexists; symmetry; exact Ho|]. split; [exists []; rewrite app_nil_r; exact Ha|].
      intros _ Ht. rewrite Ht, app_nil_r in Ho. split; [exact Ho|symmetry; exact Ha].
    - split; [eexists; symmetry; exact Ho|]. split; [exists []; rewrite app_nil_r; exact Ha|]. congruence.
    - split; [eexists; symmetry; exact Ho|]. split; [|congruence].
      rewrite Hlog, outs_of_snoc, answers_of_snoc, Ha by apply outs_of_length. eexists; reflexivity.
    - split; [eexists; symmetry; exact Ho|]. split; [eexists; exact Ha|congruence].
  Qed.
End Lin.

(* ---------- remove-method proper against find-method + remove-method of Model.v ---------- *)
Lemma remove_raw_found a q k : find_method (methods a) q k = true -> remove_raw a q k = remove_method a q k.
Proof.
  unfold find_method, remove_raw, remove_method, map_update. destruct (alookup k (methods a)) as [c|]; [|discriminate].
  destruct (get_qual c q); [reflexivity|discriminate].
Qed.
Lemma remove_not_found a q k : find_method (methods a) q k = false -> remove_method a q k = a.
Proof.
  unfold find_method, remove_method. destruct (alookup k (methods a)) as [c|]; [|reflexivity].
  destruct (get_qual c q); [discriminate|reflexivity].
Qed.

(* ---------- the original code is not linearizable: three witnesses ---------- *)
Definition ct2 : ctable :=
  [("fixnum", ["fixnum"; "integer"; "rational"; "real"; "number"; "t"]); ("string", ["string"; "t"])]%string.
Definition PB (i : N) := {| b_id := i; b_nmp := false; b_fail := false; b_calls := [] |}.
Definition AB (i : N) := {| b_id := i; b_nmp := false; b_fail := false; b_calls := [([], false)] |}.
Definition rp (k r : nat) : list nat := repeat r k.

(* (1) C10-6. Routine 0 calls (g 1) and has fetched the effective method [integer: 1] when routine 1
   defines a primary on fixnum (3) and replaces the one on integer (2): the call then runs 2, which
   no order of the four operations explains (1 before the definitions, 3 after the first) *)
Definition progs_shared : list (list cop) :=
  [[CCall ["fixnum"] [false]];
   [CDef QPrimary ["integer"] (PB 1); CDef QPrimary ["fixnum"] (PB 3); CDef QPrimary ["integer"] (PB 2)]]%string.
Definition sched_shared : list nat := rp 10 1 ++ rp 7 0 ++ rp 20 1 ++ rp 3 0.
Lemma original_shared_combination_refuted :
  map r_outs (g_rs (grun ct2 original sched_shared (ginit 1 progs_shared))) =
    [[CoCall ([Ev 2 [false]], RVal 2)]; [CoNone; CoNone; CoNone]]%N /\
  (forall seq, In seq (merges2 progs_shared) ->
     answers_of 0 seq (snd (crun ct2 (new_aux 1) (map snd seq))) <> [CoCall ([Ev 2 [false]], RVal 2)]%N) /\
  map r_outs (g_rs (grun ct2 fixed sched_shared (ginit 1 progs_shared))) =
    [[CoCall ([Ev 1 [false]], RVal 1)]; [CoNone; CoNone; CoNone]]%N.
Proof.
  split; [vm_compute; reflexivity|]. split; [|vm_compute; reflexivity].
  intros seq H. vm_compute in H. repeat (destruct H as [<-|H]; [vm_compute; discriminate|]). destruct H.
Qed.

(* (2) C10-7. Primaries on fixnum (1) and string (2), an :around on t (3). Routine 0 calls (g 1),
   routine 1 calls (g "s"); both have stored their location in the Closure field of the one :around
   lambda before either runs: routine 0's call-next-method continues in routine 1's effective
   method and runs the primary on string *)
Definition progs_closure : list (list cop) :=
  [[CDef QPrimary ["fixnum"] (PB 1); CDef QPrimary ["string"] (PB 2); CDef QAround ["t"] (AB 3); CCall ["fixnum"] [false]];
   [CCall ["string"] [false]]]%string.
Definition sched_closure : list nat := rp 30 0 ++ rp 8 0 ++ rp 8 1 ++ rp 2 0 ++ rp 2 1.
Lemma original_closure_race_refuted :
  nth 0 (map r_outs (g_rs (grun ct2 original sched_closure (ginit 1 progs_closure)))) [] =
    [CoNone; CoNone; CoNone; CoCall ([Ev 3 [false]; Ev 2 [false]; EvEnd 3], RVal 2)]%N /\
  (forall seq, In seq (merges2 progs_closure) ->
     answers_of 0 seq (snd (crun ct2 (new_aux 1) (map snd seq))) <>
       [CoNone; CoNone; CoNone; CoCall ([Ev 3 [false]; Ev 2 [false]; EvEnd 3], RVal 2)]%N) /\
  map r_outs (g_rs (grun ct2 fixed sched_closure (ginit 1 progs_closure))) =
    [[CoNone; CoNone; CoNone; CoCall ([Ev 3 [false]; Ev 1 [false]; EvEnd 3], RVal 1)];
     [CoCall ([Ev 3 [false]; Ev 2 [false]; EvEnd 3], RVal 2)]]%N.
Proof.
  split; [vm_compute; reflexivity|]. split; [|vm_compute; reflexivity].
  intros seq H. vm_compute in H. repeat (destruct H as [<-|H]; [vm_compute; discriminate|]). destruct H.
Qed.

(* (3) C10-8. find-method reads the method table while defmethod is inserting a new key: the Go
   runtime stops the process; with the mutex taken the same schedule answers like the order
   defmethod, find-method *)
Definition progs_reader : list (list cop) :=
  [[CDef QPrimary ["fixnum"] (PB 1)]; [CFind QPrimary ["fixnum"]]]%string.
Definition sched_reader : list nat := rp 4 0 ++ rp 3 1 ++ rp 10 0 ++ rp 5 1.
Lemma original_unlocked_reader_refuted :
  map r_outs (g_rs (grun ct2 original sched_reader (ginit 1 progs_reader))) = [[CoNone]; [CoFault]] /\
  (forall seq, In seq (merges2 progs_reader) ->
     answers_of 1 seq (snd (crun ct2 (new_aux 1) (map snd seq))) <> [CoFault]) /\
  map r_outs (g_rs (grun ct2 fixed sched_reader (ginit 1 progs_reader))) = [[CoNone]; [CoFind true]].
Proof.
  split; [vm_compute; reflexivity|]. split; [|vm_compute; reflexivity].
  intros seq H. vm_compute in H. repeat (destruct H as [<-|H]; [vm_compute; discriminate|]). destruct H.
Qed.

(* ---------- non-vacuity: three routines interleaved step by step, every operation completes ---------- *)
Definition progs_example : list (list cop) :=
  [[CDef QPrimary ["t"] (PB 1); CCall ["fixnum"] [false]; CRemove QAround ["integer"]; CCall ["fixnum"] [true]];
   [CDef QAround ["integer"] (AB 2); CCall ["string"] [false]; CFind QAround ["integer"]];
   [CApplicable ["fixnum"]; CCall ["fixnum"] [false]; CDef QBefore ["fixnum"] (PB 3); CApplicable ["fixnum"]]]%string.
Definition sched_example : list nat := List.concat (repeat [0; 0; 1; 2] 60).
Example example_schedule :
  let g := grun ct2 fixed sched_example (ginit 1 progs_example) in
  Forall (fun rt => r_cur rt = None /\ r_todo rt = []) (g_rs g) /\
  List.length (g_log g) = 11 /\
  map fst (g_log g) = [0; 1; 2; 0; 1; 2; 0; 1; 2; 0; 2] /\
  map r_outs (g_rs g) =
    [[CoNone; CoCall ([Ev 2 [false]; Ev 1 [false]; EvEnd 2], RVal 1); CoNone; CoCall ([Ev 3 [true]; Ev 1 [true]], RVal 1)];
     [CoNone; CoCall ([Ev 1 [false]], RVal 1); CoFind false];
     [CoApplicable [(QAround, ["integer"]); (QPrimary, ["t"])]; CoCall ([Ev 2 [false]; Ev 1 [false]; EvEnd 2], RVal 1); CoNone;
      CoApplicable [(QBefore, ["fixnum"]); (QPrimary, ["t"])]]]%N%string.
Proof. vm_compute. repeat split; repeat constructor. Qed.

(* ---------- the sequential reference of the concurrent theorem against the specification ---------- *)
From C10 Require Import Spec Proofs.

Definition wf_cop (ct : ctable) (n : nat) (o : cop) : Prop :=
  match o with
  | CDef q k b => wf_op n (OpDef q k b)
  | CCall cs v => List.length cs = n /\ Forall (wf_cls ct) cs
  | _ => True
  end.

Lemma map_update_fst k c (ms : list (key * combo)) : map fst (map_update k c ms) = map fst ms.
Proof. unfold map_update. apply map_fst_update. Qed.

Lemma remove_raw_inv ct n a q k : 1 <= n -> Inv ct n a -> Inv ct n (remove_raw a q k).
Proof.
  intros Hn (Hd & Hr & Ht & Hc). unfold remove_raw. destruct (alookup k (methods a)) as [c|] eqn:E; [|exact (conj Hd (conj Hr (conj Ht Hc)))].
  assert (Ht' : wf_tbl n (if combo_is_empty (set_qual c q None) then adelete k (methods a)
                          else map_update k (set_qual c q None) (methods a))).
  { destruct (combo_is_empty _); [apply adelete_wf, Ht|]. destruct Ht as [H1 H2]. split; rewrite map_update_fst; assumption. }
  repeat split; cbn [dflt reqcnt methods cache]; try apply Ht'.
  - rewrite Hr. apply update_default_none; [exact Hn|apply Ht'].
  - exact Hr.
  - intros ck snap H. cbn in H. discriminate.
Qed.

Lemma cstep_inv ct n a o : 1 <= n -> wf_cop ct n o -> Inv ct n a ->
  Inv ct n (fst (cstep ct a o)) /\
  match o with
  | CCall cs v => snd (cstep ct a o) = CoCall (pure_call ct (methods a) cs v) /\ methods (fst (cstep ct a o)) = methods a
  | _ => True
  end.
Proof.
  intros Hn Hw HI. destruct o as [q k b|q k|cs v|q k|cs]; cbn [cstep fst snd].
  - split; [|exact I]. apply (step_refines ct n a (OpDef q k b) Hn Hw I HI).
  - split; [apply remove_raw_inv; assumption|exact I].
  - destruct Hw as [Hl Hc]. destruct (step_refines ct n a (OpCall cs v) Hn Hl Hc HI) as (H1 & H2 & H3).
    cbn [step] in H1, H2, H3. destruct (call ct a cs v) as [a' r]. cbn [fst snd] in *.
    split; [exact H1|]. split; [injection H3 as ->; reflexivity|exact H2].
  - split; [exact HI|exact I].
  - split; [exact HI|exact I].
Qed.

(* the answers of the sequential reference with every call replaced by the cache-free semantics
   on the method table of that moment *)
Fixpoint cpure (ct : ctable) (a : aux) (ops : list cop) : list cout :=
  match ops with
  | [] => []
  | o :: ops' => (match o with CCall cs v => CoCall (pure_call ct (methods a) cs v) | _ => snd (cstep ct a o) end)
                 :: cpure ct (fst (cstep ct a o)) ops'
  end.
Theorem crun_cache_transparent ct n : 1 <= n -> forall ops a, Forall (wf_cop ct n) ops -> Inv ct n a ->
  snd (crun ct a ops) = cpure ct a ops.
Proof.
  intros Hn. induction ops as [|o ops IH]; intros a Hw HI; [reflexivity|]. inversion Hw as [|? ? Ho Hw']; subst.
  destruct (cstep_inv ct n a o Hn Ho HI) as [HI' Hc]. cbn [crun cpure].
  destruct (cstep ct a o) as [a1 r] eqn:Es. cbn [fst snd] in *. specialize (IH a1 Hw' HI').
  destruct (crun ct a1 ops) as [a2 rs]. cbn [snd] in *. rewrite IH. f_equal.
  destruct o; try reflexivity. destruct Hc as [-> _]. reflexivity.
Qed.
(* ... and inside the guard that is what the specification demands of the call *)
Theorem ccall_eq_spec ct n a cs v : wf_tbl n (methods a) -> Forall (wf_cls ct) cs -> guard ct (methods a) cs ->
  pure_call ct (methods a) cs v = spec_call ct (methods a) cs v.
Proof. apply pure_call_eq_spec. Qed.
