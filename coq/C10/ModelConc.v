(* C10 — the concurrent clause: the locking protocol of a generic function's Aux
   (pkg/generic/uax.go Aux.Call / compMethList / LoadForm, defmethod.go addMethodCaller,
   remove-method.go, find-method.go) as a machine of atomic steps. Every operation is the
   sequence of steps the Go code performs, in its order; a schedule interleaves the steps of
   any number of routines. A [version] says which of the three concurrency repairs are in:
   - v_copy   (repo_fixes/C10-6): the cached effective method holds copies of the combinations
              (original: pointers into the method table, followed when the method RUNS, after the unlock)
   - v_ownloc (repo_fixes/C10-7): a wrapper finds its location in its own scope
              (original: in Lambda.Closure of the shared method lambda, written before each call)
   - v_rlock  (repo_fixes/C10-8): find-method and compute-applicable-methods take the mutex
              (original: they read the map unlocked; the Go runtime stops the process when a map is
               read while another routine is writing it)
   Definitions only; the proofs are in ProofsConc.v. *)
From C10 Require Export Model.

Record version := { v_copy : bool; v_ownloc : bool; v_rlock : bool }.
Definition fixed : version := {| v_copy := true; v_ownloc := true; v_rlock := true |}.
Definition original : version := {| v_copy := false; v_ownloc := false; v_rlock := false |}.

(* ---- the operations and what each answers when it runs alone (the sequential reference) ---- *)
Inductive cop :=
| CDef (q : qual) (k : key) (b : body)       (* defmethod *)
| CRemove (q : qual) (k : key)               (* remove-method with a method object for (q, k) *)
| CCall (cs : list cls) (v : argv)           (* a call *)
| CFind (q : qual) (k : key)                 (* find-method: is (q, k) defined *)
| CApplicable (cs : list cls).               (* compute-applicable-methods *)

Inductive cout :=
| CoNone
| CoCall (r : list event * result)
| CoFind (found : bool)
| CoApplicable (l : list (qual * key))
| CoFault.      (* fatal error: concurrent map read and map write - the process is gone *)

(* remove-method proper (Model.remove_method is find-method followed by it): when the key is in
   the table the field is cleared whether it was set or not, the cache emptied, the fast path recomputed *)
Definition map_update (k : key) (c : combo) (ms : list (key * combo)) : list (key * combo) :=
  map (fun kc => if key_eqb k (fst kc) then (fst kc, c) else kc) ms.
Definition remove_raw (a : aux) (q : qual) (k : key) : aux :=
  match alookup k (methods a) with
  | None => a
  | Some c =>
      let c' := set_qual c q None in
      let ms := if combo_is_empty c' then adelete k (methods a) else map_update k c' (methods a) in
      {| methods := ms; cache := []; dflt := update_default ms (reqcnt a); reqcnt := reqcnt a |}
  end.
Definition find_method (ms : list (key * combo)) (q : qual) (k : key) : bool :=
  match alookup k ms with Some c => is_some (get_qual c q) | None => false end.
(* compMethList: same walk as collectMethods; all :around, all :before, the first primary, the
   :after methods in reverse; a method is reported by its qualifier and specializers *)
Definition applicable_list (ms : list (key * combo)) (hiers : list (list cls)) : list (qual * key) :=
  let ks := collect ms [] hiers in
  let has (sel : combo -> option body) k := match alookup k ms with Some c => is_some (sel c) | None => false end in
  map (pair QAround) (filter (has c_wrap) ks) ++
  map (pair QBefore) (filter (has c_before) ks) ++
  map (pair QPrimary) (firstn 1 (filter (has c_primary) ks)) ++
  map (pair QAfter) (rev (filter (has c_after) ks)).

Definition cstep (ct : ctable) (a : aux) (o : cop) : aux * cout :=
  match o with
  | CDef q k b => (add_method a q k b, CoNone)
  | CRemove q k => (remove_raw a q k, CoNone)
  | CCall cs v => let '(a', r) := call ct a cs v in (a', CoCall r)
  | CFind q k => (a, CoFind (find_method (methods a) q k))
  | CApplicable cs => (a, CoApplicable (applicable_list (methods a) (map (hier_of ct) cs)))
  end.
Fixpoint crun (ct : ctable) (a : aux) (ops : list cop) : aux * list cout :=
  match ops with
  | [] => (a, [])
  | o :: ops' => let '(a1, r) := cstep ct a o in let '(a2, rs) := crun ct a1 ops' in (a2, r :: rs)
  end.

(* ---- the steps ---- *)
Inductive instr :=
| ILock | IUnlock                               (* aux.moo *)
| IReadDefault | IReadCache | IBuild | IStore   (* Aux.Call: defaultCaller, cache[key], buildCacheMeth, cache[key] = meth *)
| ISetClosure                                   (* Method.Call, original: the Closure field of the wrapper lambda is set to ws *)
| IRun                                          (* Method.Call: the effective method runs *)
| ILookup                                       (* meth := aux.methods[key] *)
| IAssignBegin | IAssignEnd                     (* aux.methods[key] = meth, when the key is new *)
| ISetField                                     (* c.Primary / Before / After / Wrap = caller *)
| IClearField                                   (* gcomb.X = nil *)
| IDeleteBegin | IDeleteEnd                     (* delete(aux.methods, key), when the combination is empty *)
| IClearCache | IUpdateDefault
| IReadTable                                    (* find-method: aux.methods[key]; compute-applicable-methods: compMeths *)
| IReturn.

(* what is shared between the routines: the Aux, the "a write is in progress" flag the Go runtime
   keeps in the map header, and - for the original version only - the cache as the pointers it
   really held and the Closure field of the method lambdas *)
Record shared := { s_aux : aux; s_writing : bool;
                   s_ptrcache : list (key * list key);
                   s_closure : list (mid * list combo) }.
Record locals := { l_dflt : option body;              (* caller := aux.defaultCaller *)
                   l_miss : bool;
                   l_meth : option (list combo);      (* meth: the copies (repaired) *)
                   l_keys : list key;                 (* meth: the pointers (original) *)
                   l_combo : option combo;            (* aux.methods[key] *)
                   l_list : list (qual * key);
                   l_fault : bool;
                   l_out : option cout }.
Definition locals0 : locals :=
  {| l_dflt := None; l_miss := false; l_meth := None; l_keys := []; l_combo := None; l_list := []; l_fault := false; l_out := None |}.

Definition set_aux (s : shared) (a : aux) : shared :=
  {| s_aux := a; s_writing := s_writing s; s_ptrcache := s_ptrcache s; s_closure := s_closure s |}.
Definition set_writing (s : shared) (w : bool) : shared :=
  {| s_aux := s_aux s; s_writing := w; s_ptrcache := s_ptrcache s; s_closure := s_closure s |}.
Definition set_methods (a : aux) (ms : list (key * combo)) : aux :=
  {| methods := ms; cache := cache a; dflt := dflt a; reqcnt := reqcnt a |}.

Fixpoint clookup (m : mid) (l : list (mid * list combo)) : option (list combo) :=
  match l with [] => None | (m', x) :: l' => if N.eqb m m' then Some x else clookup m l' end.

(* Method.Call for the call's effective method [snap] - in the original version the first wrapper
   reads its location from the Closure field of its lambda: the effective method of whichever
   call wrote it last *)
Definition run_method (ver : version) (s : shared) (snap : list combo) (v : argv) : list event * result :=
  if v_ownloc ver then method_call snap v
  else match find_from c_wrap snap 0 with
       | Some (_, b) =>
           match clookup (b_id b) (s_closure s) with
           | Some snap' =>
               match find_from c_wrap snap' 0 with
               | Some (i', _) => run_wrap (S (List.length snap')) snap' i' b v
               | None => method_call snap v
               end
           | None => method_call snap v
           end
       | None => method_call snap v
       end.

Definition exec1 (ct : ctable) (ver : version) (o : cop) (i : instr) (s : shared) (l : locals) : shared * locals :=
  let a := s_aux s in
  match o, i with
  (* ---- Aux.Call ---- *)
  | CCall cs v, IReadDefault =>
      (s, {| l_dflt := dflt a; l_miss := l_miss l; l_meth := l_meth l; l_keys := l_keys l; l_combo := l_combo l;
             l_list := l_list l; l_fault := l_fault l; l_out := l_out l |})
  | CCall cs v, IReadCache =>
      match l_dflt l with
      | Some _ => (s, l)
      | None =>
          let ck := spec_key (map (hier_of ct) cs) in
          let hit := alookup ck (cache a) in
          (s, {| l_dflt := l_dflt l; l_miss := negb (is_some hit); l_meth := hit;
                 l_keys := match alookup ck (s_ptrcache s) with Some ks => ks | None => [] end;
                 l_combo := l_combo l; l_list := l_list l; l_fault := l_fault l; l_out := l_out l |})
      end
  | CCall cs v, IBuild =>
      if l_miss l then
        let hiers := map (hier_of ct) cs in
        (s, {| l_dflt := l_dflt l; l_miss := true; l_meth := build (methods a) hiers;
               l_keys := collect (methods a) [] hiers;
               l_combo := l_combo l; l_list := l_list l; l_fault := l_fault l; l_out := l_out l |})
      else (s, l)
  | CCall cs v, IStore =>
      match l_miss l, l_meth l with
      | true, Some snap =>
          let ck := spec_key (map (hier_of ct) cs) in
          ({| s_aux := {| methods := methods a; cache := ainsert ck snap (cache a); dflt := dflt a; reqcnt := reqcnt a |};
              s_writing := s_writing s; s_ptrcache := ainsert ck (l_keys l) (s_ptrcache s); s_closure := s_closure s |}, l)
      | _, _ => (s, l)
      end
  | CCall cs v, ISetClosure =>
      match l_dflt l, l_meth l with
      | None, Some snap =>
          let cur := if v_copy ver then snap else deref (methods a) (l_keys l) in
          match find_from c_wrap cur 0 with
          | Some (_, b) => ({| s_aux := a; s_writing := s_writing s; s_ptrcache := s_ptrcache s;
                               s_closure := (b_id b, cur) :: s_closure s |}, l)
          | None => (s, l)
          end
      | _, _ => (s, l)
      end
  | CCall cs v, IRun =>
      let r := match l_dflt l with
               | Some b => inner_call 2 (dflt_method b) v
               | None =>
                   match l_meth l with
                   | None => ([], RNoApplicable)
                   | Some snap =>
                       (* original: the cached method points INTO the method table, which is read now *)
                       let cur := if v_copy ver then snap else deref (methods a) (l_keys l) in
                       run_method ver s cur v
                   end
               end in
      (s, {| l_dflt := l_dflt l; l_miss := l_miss l; l_meth := l_meth l; l_keys := l_keys l; l_combo := l_combo l;
             l_list := l_list l; l_fault := l_fault l; l_out := Some (CoCall r) |})
  (* ---- addMethodCaller ---- *)
  | CDef _ k _, ILookup | CRemove _ k, ILookup =>
      (s, {| l_dflt := l_dflt l; l_miss := l_miss l; l_meth := l_meth l; l_keys := l_keys l; l_combo := alookup k (methods a);
             l_list := l_list l; l_fault := l_fault l; l_out := l_out l |})
  | CDef q k b, IAssignBegin =>
      match l_combo l with
      | None => (set_writing (set_aux s (set_methods a (methods a ++ [(k, empty_combo)]))) true, l)
      | Some _ => (s, l)
      end
  | CDef _ _ _, IAssignEnd | CRemove _ _, IDeleteEnd => (set_writing s false, l)
  | CDef q k b, ISetField =>
      let c := match l_combo l with Some c => c | None => empty_combo end in
      (set_aux s (set_methods a (map_update k (set_qual c q (Some b)) (methods a))), l)
  | CDef q k b, IClearCache =>
      ({| s_aux := {| methods := methods a; cache := []; dflt := dflt a; reqcnt := reqcnt a |};
          s_writing := s_writing s; s_ptrcache := []; s_closure := s_closure s |}, l)
  | CDef q k b, IUpdateDefault =>
      (set_aux s {| methods := methods a; cache := cache a; dflt := update_default (methods a) (reqcnt a); reqcnt := reqcnt a |}, l)
  (* ---- remove-method ---- *)
  | CRemove q k, IClearField =>
      match l_combo l with
      | Some c => (set_aux s (set_methods a (map_update k (set_qual c q None) (methods a))), l)
      | None => (s, l)
      end
  | CRemove q k, IDeleteBegin =>
      match l_combo l with
      | Some c => if combo_is_empty (set_qual c q None)
                  then (set_writing (set_aux s (set_methods a (adelete k (methods a)))) true, l)
                  else (s, l)
      | None => (s, l)
      end
  | CRemove q k, IClearCache =>
      match l_combo l with
      | Some _ => ({| s_aux := {| methods := methods a; cache := []; dflt := dflt a; reqcnt := reqcnt a |};
                      s_writing := s_writing s; s_ptrcache := []; s_closure := s_closure s |}, l)
      | None => (s, l)
      end
  | CRemove q k, IUpdateDefault =>
      match l_combo l with
      | Some _ => (set_aux s {| methods := methods a; cache := cache a; dflt := update_default (methods a) (reqcnt a); reqcnt := reqcnt a |}, l)
      | None => (s, l)
      end
  | CDef _ _ _, IReturn | CRemove _ _, IReturn =>
      (s, {| l_dflt := l_dflt l; l_miss := l_miss l; l_meth := l_meth l; l_keys := l_keys l; l_combo := l_combo l;
             l_list := l_list l; l_fault := l_fault l; l_out := Some CoNone |})
  (* ---- the readers ---- *)
  | CFind q k, IReadTable =>
      (s, {| l_dflt := l_dflt l; l_miss := l_miss l; l_meth := l_meth l; l_keys := l_keys l;
             l_combo := alookup k (methods a); l_list := l_list l; l_fault := s_writing s; l_out := l_out l |})
  | CApplicable cs, IReadTable =>
      (s, {| l_dflt := l_dflt l; l_miss := l_miss l; l_meth := l_meth l; l_keys := l_keys l; l_combo := l_combo l;
             l_list := applicable_list (methods a) (map (hier_of ct) cs); l_fault := s_writing s; l_out := l_out l |})
  | CFind q k, IReturn =>
      (s, {| l_dflt := l_dflt l; l_miss := l_miss l; l_meth := l_meth l; l_keys := l_keys l; l_combo := l_combo l;
             l_list := l_list l; l_fault := l_fault l;
             l_out := Some (if l_fault l then CoFault
                            else CoFind (match l_combo l with Some c => is_some (get_qual c q) | None => false end)) |})
  | CApplicable cs, IReturn =>
      (s, {| l_dflt := l_dflt l; l_miss := l_miss l; l_meth := l_meth l; l_keys := l_keys l; l_combo := l_combo l;
             l_list := l_list l; l_fault := l_fault l;
             l_out := Some (if l_fault l then CoFault else CoApplicable (l_list l)) |})
  | _, _ => (s, l)
  end.

(* the steps of each operation, in the order of the Go code *)
Definition crit (o : cop) : list instr :=
  match o with
  | CCall _ _ => [IReadDefault; IReadCache; IBuild; IStore]
  | CDef _ _ _ => [ILookup; IAssignBegin; IAssignEnd; ISetField; IClearCache; IUpdateDefault]
  | CRemove _ _ => [ILookup; IClearField; IDeleteBegin; IDeleteEnd; IClearCache; IUpdateDefault]
  | CFind _ _ | CApplicable _ => [IReadTable]
  end.
Definition post (ver : version) (o : cop) : list instr :=
  match o with
  | CCall _ _ => if v_ownloc ver then [IRun] else [ISetClosure; IRun]
  | _ => [IReturn]
  end.
Definition is_reader (o : cop) : bool := match o with CFind _ _ | CApplicable _ => true | _ => false end.
Definition prog (ver : version) (o : cop) : list instr :=
  if is_reader o && negb (v_rlock ver) then crit o ++ post ver o
  else ILock :: crit o ++ IUnlock :: post ver o.

(* ---- the machine ---- *)
Record routine := { r_todo : list cop;          (* operations not yet started *)
                    r_cur : option cop;         (* the operation in progress *)
                    r_prog : list instr;        (* its remaining steps *)
                    r_loc : locals;
                    r_outs : list cout }.       (* answers of the completed operations, oldest first *)
Record gstate := { g_sh : shared;
                   g_lock : option nat;         (* who holds aux.moo *)
                   g_rs : list routine;
                   g_log : list (nat * cop) }.  (* the operations in the order they took the lock *)

Definition routine0 (ops : list cop) : routine :=
  {| r_todo := ops; r_cur := None; r_prog := []; r_loc := locals0; r_outs := [] |}.
Definition ginit (n : nat) (progs : list (list cop)) : gstate :=
  {| g_sh := {| s_aux := new_aux n; s_writing := false; s_ptrcache := []; s_closure := [] |};
     g_lock := None; g_rs := map routine0 progs; g_log := [] |}.

Fixpoint set_nth {A} (i : nat) (x : A) (l : list A) : list A :=
  match l, i with
  | [], _ => []
  | _ :: l', O => x :: l'
  | y :: l', S i' => y :: set_nth i' x l'
  end.

(* one step of routine r; a routine that is finished, or waits for the mutex, does not move *)
Definition gstep (ct : ctable) (ver : version) (g : gstate) (r : nat) : gstate :=
  match nth_error (g_rs g) r with
  | None => g
  | Some rt =>
      match r_cur rt, r_prog rt with
      | None, _ =>
          match r_todo rt with
          | [] => g
          | o :: rest =>       (* the operation is invoked *)
              {| g_sh := g_sh g; g_lock := g_lock g; g_log := g_log g;
                 g_rs := set_nth r {| r_todo := rest; r_cur := Some o; r_prog := prog ver o; r_loc := locals0; r_outs := r_outs rt |} (g_rs g) |}
          end
      | Some o, [] => g      (* never: the last step completes the operation *)
      | Some o, i :: rest =>
          match i with
          | ILock =>
              match g_lock g with
              | Some _ => g
              | None => {| g_sh := g_sh g; g_lock := Some r; g_log := g_log g ++ [(r, o)];
                           g_rs := set_nth r {| r_todo := r_todo rt; r_cur := Some o; r_prog := rest; r_loc := r_loc rt; r_outs := r_outs rt |} (g_rs g) |}
              end
          | IUnlock =>
              {| g_sh := g_sh g; g_lock := None; g_log := g_log g;
                 g_rs := set_nth r {| r_todo := r_todo rt; r_cur := Some o; r_prog := rest; r_loc := r_loc rt; r_outs := r_outs rt |} (g_rs g) |}
          | _ =>
              let '(s', l') := exec1 ct ver o i (g_sh g) (r_loc rt) in
              let rt' := match rest with
                         | [] => {| r_todo := r_todo rt; r_cur := None; r_prog := []; r_loc := l';
                                    r_outs := r_outs rt ++ [match l_out l' with Some x => x | None => CoNone end] |}
                         | _ => {| r_todo := r_todo rt; r_cur := Some o; r_prog := rest; r_loc := l'; r_outs := r_outs rt |}
                         end in
              {| g_sh := s'; g_lock := g_lock g; g_log := g_log g; g_rs := set_nth r rt' (g_rs g) |}
          end
      end
  end.

(* a schedule names the routine that moves at each instant *)
Definition grun (ct : ctable) (ver : version) (sched : list nat) (g : gstate) : gstate :=
  fold_left (gstep ct ver) sched g.

(* the answers the operations of routine r get when the logged operations run one after the
   other, alone, in the order of the log *)
Fixpoint answers_of (r : nat) (log : list (nat * cop)) (outs : list cout) : list cout :=
  match log, outs with
  | (r', _) :: log', x :: outs' => if Nat.eqb r r' then x :: answers_of r log' outs' else answers_of r log' outs'
  | _, _ => []
  end.
Fixpoint ops_of (r : nat) (log : list (nat * cop)) : list cop :=
  match log with
  | [] => []
  | (r', o) :: log' => if Nat.eqb r r' then o :: ops_of r log' else ops_of r log'
  end.

(* all interleavings of two programs (for the refutations: no order of the operations explains
   what the original machine answers) *)
Fixpoint merge2 {A} (l1 : list A) : list A -> list (list A) :=
  match l1 with
  | [] => fun l2 => [l2]
  | x :: l1' => fix aux (l2 : list A) : list (list A) :=
                  match l2 with
                  | [] => [l1]
                  | y :: l2' => map (cons x) (merge2 l1' l2) ++ map (cons y) (aux l2')
                  end
  end.
Definition merges2 (progs : list (list cop)) : list (list (nat * cop)) :=
  merge2 (map (pair 0) (nth 0 progs [])) (map (pair 1) (nth 1 progs [])).
