(* C10 — the cache key. Aux.Call looks the effective method up under buildSpecKey(args), a
   function of the arguments. Model.call uses the tuple of the first precedence-list entries
   (spec_key). Here the key function is a parameter: cache transparency holds for EVERY key
   function that separates arguments with different precedence lists, and fails for one that
   does not (two classes behind one key: whichever is called first after a cache clear decides
   the effective method of both). *)
From C10 Require Import Model Spec Proofs.

Section Key.
  Variable kf : list (list cls) -> key.

  Definition call_k (ct : ctable) (a : aux) (cs : list cls) (v : argv) : aux * (list event * result) :=
    let hiers := map (hier_of ct) cs in
    match dflt a with
    | Some b => (a, inner_call 2 (dflt_method b) v)
    | None =>
        let ck := kf hiers in
        match alookup ck (cache a) with
        | Some snap => (a, method_call snap v)
        | None =>
            match build (methods a) hiers with
            | None => (a, ([], RNoApplicable))
            | Some snap =>
                ({| methods := methods a; cache := ainsert ck snap (cache a); dflt := dflt a; reqcnt := reqcnt a |},
                 method_call snap v)
            end
        end
    end.
  Definition step_k (ct : ctable) (a : aux) (o : op) : aux * out :=
    match o with
    | OpDef q k b => (add_method a q k b, None)
    | OpRemove q k => (remove_method a q k, None)
    | OpCall cs v => let '(a', r) := call_k ct a cs v in (a', Some r)
    end.
  Fixpoint run_k (ct : ctable) (a : aux) (ops : list op) : aux * list out :=
    match ops with
    | [] => (a, [])
    | o :: ops' => let '(a1, r) := step_k ct a o in let '(a2, rs) := run_k ct a1 ops' in (a2, r :: rs)
    end.

  (* arguments that get the same key have the same precedence lists *)
  Definition separates (ct : ctable) (n : nat) : Prop :=
    forall cs cs', List.length cs = n -> List.length cs' = n -> Forall (wf_cls ct) cs -> Forall (wf_cls ct) cs' ->
      kf (map (hier_of ct) cs) = kf (map (hier_of ct) cs') -> map (hier_of ct) cs = map (hier_of ct) cs'.

  Definition Inv_k (ct : ctable) (n : nat) (a : aux) : Prop :=
    dflt a = None /\ reqcnt a = n /\ wf_tbl n (methods a) /\
    forall ck snap, alookup ck (cache a) = Some snap ->
      forall cs, List.length cs = n -> Forall (wf_cls ct) cs -> kf (map (hier_of ct) cs) = ck ->
        build (methods a) (map (hier_of ct) cs) = Some snap.

  Lemma Inv_k_init ct n : Inv_k ct n (new_aux n).
  Proof. repeat split; cbn; try constructor; discriminate. Qed.

  Lemma step_k_refines ct n a o :
    separates ct n -> 1 <= n -> wf_op n o -> (match o with OpCall cs _ => Forall (wf_cls ct) cs | _ => True end) -> Inv_k ct n a ->
    Inv_k ct n (fst (step_k ct a o)) /\
    methods (fst (step_k ct a o)) = spec_step (methods a) o /\
    snd (step_k ct a o) = match o with OpCall cs v => Some (pure_call ct (methods a) cs v) | _ => None end.
  Proof.
    intros Hsep Hn Ho Hc (Hd & Hr & Ht & Hcache).
    assert (HI : Inv_k ct n a) by (exact (conj Hd (conj Hr (conj Ht Hcache)))).
    destruct o as [q k b|q k|cs v]; cbn [step_k fst snd].
    - assert (Ht' := spec_step_wf n _ (OpDef q k b) Ho Ht). rewrite <- add_method_spec in Ht'.
      split; [|split; [apply add_method_spec|reflexivity]].
      repeat split; try apply Ht'.
      + unfold add_method at 1. cbn [dflt]. rewrite Hr. apply update_default_none; [exact Hn|]. apply Ht'.
      + exact Hr.
      + intros ck snap H. cbn in H. discriminate.
    - assert (Ht' := spec_step_wf n _ (OpRemove q k) Ho Ht). rewrite <- remove_method_spec in Ht'.
      split; [|split; [apply remove_method_spec|reflexivity]].
      unfold remove_method in *. destruct (alookup k (methods a)) as [c|] eqn:E; [|exact HI].
      destruct (get_qual c q); [|exact HI].
      repeat split; try apply Ht'.
      + cbn [dflt]. rewrite Hr. apply update_default_none; [exact Hn|]. apply Ht'.
      + exact Hr.
      + intros ck snap H. cbn in H. discriminate.
    - cbn [wf_op] in Ho. unfold call_k, pure_call. rewrite Hd.
      destruct (alookup (kf (map (hier_of ct) cs)) (cache a)) as [snap|] eqn:E.
      + cbn [fst snd]. rewrite (Hcache _ snap E cs Ho Hc eq_refl). split; [exact HI|split; reflexivity].
      + destruct (build (methods a) (map (hier_of ct) cs)) as [snap|] eqn:Eb; cbn [fst snd].
        * split; [|split; reflexivity]. repeat split; try assumption; cbn [dflt reqcnt methods cache] in *; try apply Ht.
          intros ck snap' H cs' Hl' Hc' Hk. rewrite alookup_ainsert in H.
          destruct (key_eqb ck (kf (map (hier_of ct) cs))) eqn:Ek.
          -- apply key_eqb_eq in Ek. injection H as <-.
             rewrite (Hsep cs' cs Hl' Ho Hc' Hc); [exact Eb|congruence].
          -- eapply Hcache; eassumption.
        * split; [exact HI|split; reflexivity].
  Qed.

  (* cache transparency for any separating key function *)
  Theorem run_k_cache_transparent ct n ops : separates ct n -> 1 <= n -> forall a, wf_ops ct n ops -> Inv_k ct n a ->
    snd (run_k ct a ops) = pure_run ct (methods a) ops.
  Proof.
    intros Hsep Hn. induction ops as [|o ops IH]; intros a Hwf HI; cbn [run_k pure_run]; [reflexivity|].
    inversion Hwf as [|? ? [Ho Hc] Hwf']; subst.
    destruct (step_k_refines ct n a o Hsep Hn Ho Hc HI) as (HI' & Hm & Hout).
    destruct (step_k ct a o) as [a1 r] eqn:Es. cbn [fst snd] in *.
    specialize (IH a1 Hwf' HI'). destruct (run_k ct a1 ops) as [a2 rs]. cbn [snd] in *.
    rewrite <- Hm, IH, Hout. reflexivity.
  Qed.
End Key.

(* the key of the code is the instance spec_key, and it separates *)
Lemma run_k_spec_key ct : forall ops a, run_k spec_key ct a ops = run ct a ops.
Proof.
  induction ops as [|o ops IH]; intros a; cbn [run_k run]; [reflexivity|].
  assert (E : step_k spec_key ct a o = step ct a o) by (destruct o; reflexivity).
  rewrite E. destruct (step ct a o) as [a1 r]. rewrite IH. reflexivity.
Qed.
Lemma spec_key_separates ct n : separates spec_key ct n.
Proof.
  intros cs cs' _ _ Hc Hc' H. rewrite !spec_key_wf in H by assumption. congruence.
Qed.

(* a key function that answers "list" for a cons cell as well (one Go type, two classes): the
   second of the two calls reuses the first one's effective method *)
Definition kf_collapse (hs : list (list cls)) : key :=
  map (fun h => let c := hd "t"%string h in if String.eqb c "cons" then "list"%string else c) hs.
Definition ct_list : ctable :=
  [("list", ["list"; "sequence"; "t"]); ("cons", ["cons"; "list"; "sequence"; "t"])]%string.
Definition ops_list_cons : list op :=
  [OpDef QPrimary ["list"] (B 1); OpDef QPrimary ["cons"] (B 2); OpCall ["list"] [false]; OpCall ["cons"] [false]]%string.
Lemma collapsing_key_refuted :
  wf_ops ct_list 1 ops_list_cons /\
  snd (run_k kf_collapse ct_list (new_aux 1) ops_list_cons) =
    [None; None; Some ([Ev 1 [false]], RVal 1); Some ([Ev 1 [false]], RVal 1)]%N /\
  pure_run ct_list [] ops_list_cons =
    [None; None; Some ([Ev 1 [false]], RVal 1); Some ([Ev 2 [false]], RVal 2)]%N /\
  snd (run ct_list (new_aux 1) ops_list_cons) = pure_run ct_list [] ops_list_cons.
Proof.
  split; [|split; [|split]].
  - repeat constructor; cbn; try discriminate; intuition discriminate.
  - vm_compute. reflexivity.
  - vm_compute. reflexivity.
  - vm_compute. reflexivity.
Qed.
