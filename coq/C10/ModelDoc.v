(* C10 — how a method is WRITTEN. A required parameter of a defmethod is a bare symbol `a` or a
   pair `(a class)`; `a` and `(a t)` denote the same method. The Go code keeps two renderings of
   the parameter list:
     - defGenericMethod computes the key of the method table with formMethKey: "t" for a bare
       symbol, the class name otherwise (pkg/generic/defmethod.go);
     - the *slip.Method stored under that key keeps the FuncDoc of the defmethod that CREATED the
       table entry (addMethodCaller: `meth = &slip.Method{Name: fname, Doc: fd}` only when the key
       is new); DocArg.Type is "" for a bare symbol. find-method hands that Doc out with the
       method it returns, and remove-method computes the key of the entry to change from it.
   Before repo_fixes/C10-9 remove-method joined the DocArg.Type strings as they are: "" for a bare
   parameter, a key that no defmethod ever writes, so the method stayed. Since C10-9 it uses the
   table's rendering (methKeyFromDoc: "t" for an empty Type).
   This file adds the spelling and the Doc to the model; the renderer used by remove-method is a
   parameter so that the unrepaired code can be run as well (doc_key_orig).
   Definitions only; proofs are in ProofsDoc.v. *)
From C10 Require Export Model.

Definition param := option cls.        (* None: `a`; Some c: `(a c)` *)

(* formMethKey *)
Definition form_key (ps : list param) : key :=
  map (fun p => match p with None => "t" | Some c => c end) ps.
(* remove-method before C10-9: DocArg.Type of each required parameter *)
Definition doc_key_orig (ps : list param) : key :=
  map (fun p => match p with None => "" | Some c => c end) ps.

Inductive sop :=
| SDef (q : qual) (ps : list param) (b : body)    (* (defmethod g q (ps) body) *)
| SRemove (q : qual) (k : key)                    (* (let ((m (find-method 'g q 'k))) (if m (remove-method 'g m))) *)
| SCall (cs : list cls) (v : argv).

(* the history as the rest of the development sees it: methods named by their specializers *)
Definition erase (o : sop) : op :=
  match o with
  | SDef q ps b => OpDef q (form_key ps) b
  | SRemove q k => OpRemove q k
  | SCall cs v => OpCall cs v
  end.

(* Aux with the Doc of each table entry. An entry of s_docs whose key is not in the method table
   is the Doc of a deleted *slip.Method: it is never read (find-method reads the Doc of an entry
   it found) and overwritten when a defmethod creates the entry again. *)
Record saux := { s_aux : aux; s_docs : list (key * list param) }.
Definition new_saux (n : nat) : saux := {| s_aux := new_aux n; s_docs := [] |}.

Section Spelled.
  Variable doc_key : list param -> key.   (* remove-method's rendering of a Doc *)

  (* find-method: the Doc of the entry when the entry has a method with the qualifier *)
  Definition find_method_doc (s : saux) (q : qual) (k : key) : option (option (list param)) :=
    match alookup k (methods (s_aux s)) with
    | Some c => match get_qual c q with
                | Some _ => Some (alookup k (s_docs s))
                | None => None
                end
    | None => None
    end.

  Definition sstep (ct : ctable) (s : saux) (o : sop) : saux * out :=
    match o with
    | SDef q ps b =>
        let k := form_key ps in
        let docs := match alookup k (methods (s_aux s)) with
                    | Some _ => s_docs s
                    | None => ainsert k ps (s_docs s)
                    end in
        ({| s_aux := add_method (s_aux s) q k b; s_docs := docs |}, None)
    | SRemove q k =>
        match find_method_doc s q k with
        | Some (Some d) => ({| s_aux := remove_method (s_aux s) q (doc_key d); s_docs := s_docs s |}, None)
        | Some None => (s, Some ([], ROther))   (* a method without a Doc: never happens, see ProofsDoc.docs_inv *)
        | None => (s, None)
        end
    | SCall cs v => let '(a', r) := call ct (s_aux s) cs v in ({| s_aux := a'; s_docs := s_docs s |}, Some r)
    end.

  Fixpoint srun (ct : ctable) (s : saux) (ops : list sop) : saux * list out :=
    match ops with
    | [] => (s, [])
    | o :: ops' => let '(s1, r) := sstep ct s o in let '(s2, rs) := srun ct s1 ops' in (s2, r :: rs)
    end.
End Spelled.
