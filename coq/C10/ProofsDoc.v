(* C10 — the spelling of a method's parameters is irrelevant (repaired code), and was not
   (unrepaired remove-method). *)
From C10 Require Import Model Spec Proofs ModelDoc.

(* every entry of the method table has a Doc, and the Doc renders to the entry's key *)
Definition docs_inv (s : saux) : Prop :=
  forall k, alookup k (methods (s_aux s)) <> None ->
            exists d, alookup k (s_docs s) = Some d /\ form_key d = k.

Lemma docs_inv_init n : docs_inv (new_saux n).
Proof. intros k H. cbn in H. congruence. Qed.

Lemma in_tbl_update tbl k c x : In x (map fst (tbl_update tbl k c)) <-> x = k \/ In x (map fst tbl).
Proof.
  unfold tbl_update. destruct (alookup k tbl) eqn:E.
  - rewrite map_fst_update. split; [tauto|]. intros [->|H]; [|exact H].
    apply alookup_in_fst. congruence.
  - rewrite map_app, in_app_iff. cbn. intuition congruence.
Qed.

Lemma remove_method_dom a q k x :
  alookup x (methods (remove_method a q k)) <> None -> alookup x (methods a) <> None.
Proof.
  rewrite remove_method_spec. cbn [spec_step].
  destruct (alookup k (methods a)) as [c|] eqn:E; [|tauto].
  destruct (get_qual c q); [|tauto].
  destruct (combo_is_empty _).
  - rewrite !alookup_in_fst, in_adelete. tauto.
  - rewrite !alookup_in_fst, in_tbl_update. intros [->|H]; [|exact H].
    apply alookup_in_fst. congruence.
Qed.

(* one step of the repaired code = the step on the erased operation, and the invariant stays *)
Lemma sstep_erase ct s o : docs_inv s ->
  let '(s', r) := sstep form_key ct s o in
  let '(a', r') := step ct (s_aux s) (erase o) in
  s_aux s' = a' /\ r = r' /\ docs_inv s'.
Proof.
  intros I. destruct o as [q ps b|q k|cs v]; cbn [sstep erase step].
  - split; [reflexivity|]. split; [reflexivity|].
    intros x Hx. cbn [s_aux s_docs] in *.
    rewrite add_method_spec in Hx. cbn [spec_step] in Hx.
    apply alookup_in_fst in Hx. apply in_tbl_update in Hx.
    destruct (alookup (form_key ps) (methods (s_aux s))) eqn:E.
    + apply I. destruct Hx as [->|Hx]; [congruence|apply alookup_in_fst; exact Hx].
    + rewrite alookup_ainsert. destruct (key_eqb x (form_key ps)) eqn:Ek.
      * apply key_eqb_eq in Ek as ->. eexists; split; reflexivity.
      * apply I. destruct Hx as [->|Hx]; [rewrite key_eqb_refl in Ek; discriminate|].
        apply alookup_in_fst; exact Hx.
  - unfold find_method_doc.
    destruct (alookup k (methods (s_aux s))) as [c|] eqn:E.
    2:{ split; [unfold remove_method; rewrite E; reflexivity|auto]. }
    destruct (get_qual c q) eqn:G.
    2:{ split; [unfold remove_method; rewrite E, G; reflexivity|auto]. }
    destruct (I k) as (d & Hl & Hd); [congruence|]. rewrite Hl, Hd. cbn [s_aux s_docs].
    split; [reflexivity|]. split; [reflexivity|].
    intros x Hx. apply I. exact (remove_method_dom _ _ _ _ Hx).
  - destruct (call ct (s_aux s) cs v) as [a' r] eqn:E. cbn [s_aux s_docs].
    split; [reflexivity|]. split; [reflexivity|].
    intros x Hx. cbn [s_aux s_docs] in *. apply I.
    unfold call in E. destruct (dflt (s_aux s)); [inversion E; subst; exact Hx|].
    destruct (alookup _ (cache (s_aux s))); [inversion E; subst; exact Hx|].
    destruct (build _ _); inversion E; subst; exact Hx.
Qed.

(* for every history: however the methods were written, the repaired code answers as it does on
   the history with the methods named by their specializers *)
Theorem srun_erase ct ops : forall s, docs_inv s ->
  s_aux (fst (srun form_key ct s ops)) = fst (run ct (s_aux s) (map erase ops)) /\
  snd (srun form_key ct s ops) = snd (run ct (s_aux s) (map erase ops)).
Proof.
  induction ops as [|o ops IH]; intros s I; cbn [srun run map]; [split; reflexivity|].
  pose proof (sstep_erase ct s o I) as H.
  destruct (sstep form_key ct s o) as [s1 r]. destruct (step ct (s_aux s) (erase o)) as [a1 r1].
  destruct H as (Ha & Hr & I1). subst a1 r1.
  specialize (IH s1 I1).
  destruct (srun form_key ct s1 ops) as [s2 rs]. destruct (run ct (s_aux s1) (map erase ops)) as [a2 rs2].
  cbn [fst snd] in *. destruct IH as [-> ->]. split; reflexivity.
Qed.

Corollary spelling_irrelevant ct n ops :
  snd (srun form_key ct (new_saux n) ops) = snd (run ct (new_aux n) (map erase ops)).
Proof. apply (srun_erase ct ops (new_saux n)), docs_inv_init. Qed.

(* two spellings of the same methods give the same answers *)
Corollary same_methods_same_answers ct n ops1 ops2 : map erase ops1 = map erase ops2 ->
  snd (srun form_key ct (new_saux n) ops1) = snd (run ct (new_aux n) (map erase ops2)).
Proof. intros <-. apply spelling_irrelevant. Qed.

(* remove-method removes the method find-method found, however it was written *)
Definition get_qual_of (ms : list (key * combo)) (k : key) (q : qual) : option body :=
  match alookup k ms with Some c => get_qual c q | None => None end.

Lemma alookup_adelete_same {V} (m : list (key * V)) k : alookup k (adelete k m) = None.
Proof. induction m as [|[k' v] m IH]; cbn; [reflexivity|]. destruct (key_eqb k k') eqn:E; cbn; rewrite ?E; exact IH. Qed.
Lemma alookup_update_same {V} (m : list (key * V)) k v : alookup k m <> None ->
  alookup k (map (fun kc => if key_eqb k (fst kc) then (fst kc, v) else kc) m) = Some v.
Proof.
  induction m as [|[k' v'] m IH]; cbn; [congruence|].
  destruct (key_eqb k k') eqn:E; cbn; rewrite E; [reflexivity|exact IH].
Qed.
Lemma get_set_qual_none c q : get_qual (set_qual c q None) q = None.
Proof. destruct q; reflexivity. Qed.

Lemma get_qual_of_remove a q k : get_qual_of (methods (remove_method a q k)) k q = None.
Proof.
  unfold get_qual_of, remove_method.
  destruct (alookup k (methods a)) as [c|] eqn:E; [|rewrite E; reflexivity].
  destruct (get_qual c q) eqn:G; [|rewrite E; exact G]. cbn [methods].
  destruct (combo_is_empty _).
  - rewrite alookup_adelete_same. reflexivity.
  - rewrite alookup_update_same by congruence. apply get_set_qual_none.
Qed.

Theorem remove_removes ct s q k : docs_inv s ->
  get_qual_of (methods (s_aux (fst (sstep form_key ct s (SRemove q k))))) k q = None.
Proof.
  intros I. pose proof (sstep_erase ct s (SRemove q k) I) as H.
  destruct (sstep form_key ct s (SRemove q k)) as [s' r]. cbn [erase step] in H.
  cbn [fst]. destruct H as (-> & _ & _).
  apply get_qual_of_remove.
Qed.

(* a bare parameter and (a t) are one method: the second defmethod replaces the first *)
Theorem redefinition_replaces ct s q ps1 ps2 b1 b2 : form_key ps1 = form_key ps2 ->
  s_aux (fst (srun form_key ct s [SDef q ps1 b1; SDef q ps2 b2])) =
  add_method (add_method (s_aux s) q (form_key ps1) b1) q (form_key ps1) b2.
Proof. intros E. cbn. rewrite E. reflexivity. Qed.

(* ---- the unrepaired remove-method (Doc rendered with "" for a bare parameter) ---- *)
Definition wit_ct : ctable := [("fixnum", ["fixnum"; "integer"; "t"])].
Definition wit_body : body := {| b_id := 1%N; b_nmp := false; b_fail := false; b_calls := [] |}.
(* (defmethod g (a) ..) (remove-method 'g (find-method 'g nil '(t))) (g 1) *)
Definition wit_ops : list sop := [SDef QPrimary [None] wit_body; SRemove QPrimary ["t"]; SCall ["fixnum"] [false]].
(* the same with (defmethod g ((a t)) ..) *)
Definition wit_ops_t : list sop := [SDef QPrimary [Some "t"] wit_body; SRemove QPrimary ["t"]; SCall ["fixnum"] [false]].

Lemma original_bare_remove_refuted :
  map erase wit_ops = map erase wit_ops_t /\
  snd (srun doc_key_orig wit_ct (new_saux 1) wit_ops) = [None; None; Some ([Ev 1%N [false]], RVal 1%N)] /\
  snd (srun doc_key_orig wit_ct (new_saux 1) wit_ops_t) = [None; None; Some ([], RNoApplicable)] /\
  spec_run wit_ct [] (map erase wit_ops) = [None; None; Some ([], RNoApplicable)] /\
  snd (srun form_key wit_ct (new_saux 1) wit_ops) = [None; None; Some ([], RNoApplicable)].
Proof. vm_compute. repeat split; reflexivity. Qed.

(* ... and a method written (a) at first stays unremovable after it was replaced by one written
   ((a t)): the entry keeps the Doc of the defmethod that created it *)
Lemma original_bare_remove_after_redefinition_refuted :
  snd (srun doc_key_orig wit_ct (new_saux 1)
         [SDef QPrimary [None] wit_body; SDef QPrimary [Some "t"] wit_body; SRemove QPrimary ["t"]; SCall ["fixnum"] [false]])
  = [None; None; None; Some ([Ev 1%N [false]], RVal 1%N)].
Proof. vm_compute. reflexivity. Qed.
