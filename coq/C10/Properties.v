(* C10 — property theorems only. Each is closed by `exact` of a lemma proved in Proofs.v /
   ProofsConc.v / Orig.v and is followed by Print Assumptions. *)
From C10 Require Import Model Spec Proofs Orig ModelConc ProofsConc ProofsKey ModelDoc ProofsDoc.
From Coq Require Import Sorting.Sorted.

(* (1) The outcome of a call depends only on the methods defined at that moment: for EVERY
   well-formed history, the outputs of the implementation model (cache of copied effective
   methods, fast path, in-place update) equal those of the cache-free semantics on the abstract
   method table. No guard. *)
Theorem C10_cache_transparent : forall ct n ops, 1 <= n -> forall a, wf_ops ct n ops -> Inv ct n a ->
  snd (run ct a ops) = pure_run ct (methods a) ops /\ Inv ct n (fst (run ct a ops)) /\
  methods (fst (run ct a ops)) = fold_left spec_step ops (methods a).
Proof. exact run_cache_transparent. Qed.
Print Assumptions C10_cache_transparent.

(* (2) The nested hierarchy walk yields exactly the applicable methods, most specific first
   (lexicographic in the class precedence of the arguments, left to right), and that order is unique. *)
Theorem C10_collect_is_dispatch_order : forall ms hs,
  Forall (@NoDup cls) hs -> dispatch_order hs ms (collect ms [] hs).
Proof. exact collect_dispatch_order. Qed.
Print Assumptions C10_collect_is_dispatch_order.

Theorem C10_dispatch_order_unique : forall hs tbl ks1 ks2,
  dispatch_order hs tbl ks1 -> dispatch_order hs tbl ks2 -> ks1 = ks2.
Proof. exact dispatch_order_unique. Qed.
Print Assumptions C10_dispatch_order_unique.

(* (3) The effective method, for EVERY list of applicable combinations that contains a primary
   and every argument vector: Method.Call of the repaired code - any number of :around methods,
   each calling call-next-method zero, one or several times with the same or with changed
   arguments and asking next-method-p, primaries that call the next primary - is the effective
   method of the standard method combination. *)
Theorem C10_method_call_effective : forall cs v, prims cs <> [] -> method_call cs v = effective cs v.
Proof. exact method_call_effective. Qed.
Print Assumptions C10_method_call_effective.

(* (4) Full statement of the property for the model: every history, every call = S.
   FULL (false of the model in one respect, see C10_around_without_primary_refuted):
     forall ct n ops, 1 <= n -> wf_ops ct n ops -> snd (run ct (new_aux n) ops) = spec_run ct [] ops.
   PROVED: the same under guard_ops = "at every call, if an :around method is applicable then a
   primary method is applicable". (Before the repairs C10-1..C10-5 the guard was: at most one
   applicable :around, an applicable primary, and no call-next-method in primaries.) *)
Theorem C10_run_eq_spec_partial : forall ct n ops,
  1 <= n -> wf_ops ct n ops -> guard_ops ct [] ops ->
  snd (run ct (new_aux n) ops) = spec_run ct [] ops.
Proof. exact run_eq_spec. Qed.
Print Assumptions C10_run_eq_spec_partial.

(* (5) S itself runs the standard method combination: *)
(* (a) every :around calls call-next-method once and the most specific primary does not: all
   :around methods most specific first, all :before methods most specific first, the most
   specific primary, all :after methods least specific first, the :around methods end in reverse *)
Theorem C10_effective_order : forall cs p ps v,
  prims cs = p :: ps -> plain p -> Forall once (wraps cs) ->
  effective cs v =
    (evs (wraps cs) v ++
     (evs (befores cs) v ++ [Ev (b_id p) v] ++ evs (rev (afters cs)) v) ++
     map (fun b => EvEnd (b_id b)) (rev (wraps cs)), RVal (b_id p)).
Proof. exact effective_order. Qed.
Print Assumptions C10_effective_order.

(* (b) an :around method without call-next-method: no other method runs, its value is returned *)
Theorem C10_effective_around_declines : forall cs a rest v,
  prims cs <> [] -> wraps cs = a :: rest -> b_fail a = false -> b_calls a = [] ->
  effective cs v = (Ev (b_id a) v :: (if b_nmp a then [EvNmp true] else []) ++ [EvEnd (b_id a)], RVal (b_id a)).
Proof. exact effective_around_declines. Qed.
Print Assumptions C10_effective_around_declines.

(* (c) an :around method with two call-next-method forms, the second with changed arguments: the
   rest of the effective method runs twice, the second time on the changed arguments, and the
   value of the second run is returned *)
Theorem C10_effective_around_twice : forall cs a rest f c1 c2 v tr1 r1 tr2 r2,
  prims cs <> [] -> wraps cs = a :: rest -> b_nmp a = false -> b_fail a = false -> b_calls a = [([], c1); (f, c2)] ->
  let inner := spec_inner (befores cs) (prims cs) (afters cs) in
  spec_arounds rest inner v = (tr1, r1) -> is_err r1 = false ->
  spec_arounds rest inner (xor_args v f) = (tr2, r2) -> is_err r2 = false ->
  effective cs v = (Ev (b_id a) v :: tr1 ++ tr2 ++ [EvEnd (b_id a)], r2).
Proof. exact effective_around_twice. Qed.
Print Assumptions C10_effective_around_twice.

(* (c') call-next-method walks the same order after an error: when the first call-next-method
   of an :around method, wrapped in ignore-errors, is ended by an error signalled further in, the
   second one runs the same next methods again - also the less specific :around methods the
   failed attempt had entered - and its value is returned *)
Theorem C10_effective_retry_after_error : forall cs a rest f c2 v tr1 r1 tr2 r2,
  prims cs <> [] -> wraps cs = a :: rest -> b_nmp a = false -> b_fail a = false -> b_calls a = [([], true); (f, c2)] ->
  let inner := spec_inner (befores cs) (prims cs) (afters cs) in
  spec_arounds rest inner v = (tr1, r1) -> catchable r1 = true ->
  spec_arounds rest inner (xor_args v f) = (tr2, r2) -> is_err r2 = false ->
  effective cs v = (Ev (b_id a) v :: tr1 ++ tr2 ++ [EvEnd (b_id a)], r2).
Proof. exact effective_retry_after_error. Qed.
Print Assumptions C10_effective_retry_after_error.

(* ... on a concrete history (failing primary, two :around methods, two attempts), where the model
   of the code agrees with S *)
Theorem C10_retry_example :
  wf_ops ct_num 1 ops_retry /\
  snd (run ct_num (new_aux 1) ops_retry) =
    [None; None; None;
     Some ([Ev 3 [false]; Ev 2 [false]; Ev 1 [false]; Ev 2 [false]; Ev 1 [false]; EvEnd 3], RNil)]%N /\
  snd (run ct_num (new_aux 1) ops_retry) = spec_run ct_num [] ops_retry.
Proof. exact retry_example. Qed.
Print Assumptions C10_retry_example.

(* (e) a primary that signals an error: the condition unwinds through every running method *)
Theorem C10_effective_primary_fails : forall cs p ps v,
  prims cs = p :: ps -> b_fail p = true -> Forall once (wraps cs) ->
  effective cs v =
    (evs (wraps cs) v ++ evs (befores cs) v ++ Ev (b_id p) v :: (if b_nmp p then [EvNmp (negb (is_nil ps))] else []),
     RErr (b_id p)).
Proof. exact effective_primary_fails. Qed.
Print Assumptions C10_effective_primary_fails.

(* (d) call-next-method in a primary runs the next most specific primary; in the least specific
   one next-method-p is false and call-next-method signals no-next-method (no :after method runs) *)
Theorem C10_effective_primary_chain : forall cs p1 p2 ps v,
  wraps cs = [] -> prims cs = p1 :: p2 :: ps -> once p1 -> plain p2 ->
  effective cs v =
    (evs (befores cs) v ++ [Ev (b_id p1) v; Ev (b_id p2) v; EvEnd (b_id p1)] ++ evs (rev (afters cs)) v, RVal (b_id p2)).
Proof. exact effective_primary_chain. Qed.
Print Assumptions C10_effective_primary_chain.

Theorem C10_effective_primary_no_next : forall cs p f v,
  wraps cs = [] -> prims cs = [p] -> b_fail p = false -> b_calls p = [(f, false)] ->
  effective cs v = (evs (befores cs) v ++ Ev (b_id p) v :: (if b_nmp p then [EvNmp false] else []), RNoNext).
Proof. exact effective_primary_no_next. Qed.
Print Assumptions C10_effective_primary_no_next.

(* (6) the clause of the guard that is left is a known finding: an applicable :around method
   without any applicable primary runs (slip's own tests require it) where the language signals
   an error before running anything *)
Theorem C10_around_without_primary_refuted :
  wf_ops ct_num 1 ops_around_only /\
  snd (run ct_num (new_aux 1) ops_around_only) = [None; Some ([Ev 1%N [false]], RNoNext)] /\
  spec_run ct_num [] ops_around_only = [None; Some ([], RNoApplicable)].
Proof. exact around_without_primary_refuted. Qed.
Print Assumptions C10_around_without_primary_refuted.

(* (7) the former guard clauses, refuted for the model of the UNREPAIRED code (Orig.v) and met
   by the repaired model: three :around methods all run; daemons without a primary signal
   no-applicable-method; call-next-method in a primary runs the next primary *)
Theorem C10_original_second_around_skipped_refuted :
  snd (Orig.run Orig.ct_num (Orig.new_aux 1) Orig.ops_two_arounds) =
    [None; None; None; Some ([Orig.Ev 2; Orig.Ev 1; Orig.EvEnd 2], Orig.RVal 1)]%N /\
  Orig.spec_run Orig.ct_num [] Orig.ops_two_arounds =
    [None; None; None; Some ([Orig.Ev 2; Orig.Ev 3; Orig.Ev 1; Orig.EvEnd 3; Orig.EvEnd 2], Orig.RVal 1)]%N.
Proof. exact Orig.second_around_skipped_refuted. Qed.
Print Assumptions C10_original_second_around_skipped_refuted.

Theorem C10_original_no_primary_refuted :
  snd (Orig.run Orig.ct_num (Orig.new_aux 1) Orig.ops_no_primary) = [None; Some ([Orig.Ev 1], Orig.RNil)]%N /\
  Orig.spec_run Orig.ct_num [] Orig.ops_no_primary = [None; Some ([], Orig.RNoPrimary)].
Proof. exact Orig.no_primary_refuted. Qed.
Print Assumptions C10_original_no_primary_refuted.

Theorem C10_repaired_cases :
  snd (run ct_num (new_aux 1) ops_two_arounds) = spec_run ct_num [] ops_two_arounds /\
  nth 4 (snd (run ct_num (new_aux 1) ops_two_arounds)) None =
    Some ([Ev 2 [false]; Ev 3 [false]; Ev 4 [false]; Ev 1 [false]; EvEnd 4; EvEnd 3; EvEnd 2], RVal 1)%N /\
  snd (run ct_num (new_aux 1) ops_no_primary) = [None; Some ([], RNoApplicable)] /\
  snd (run ct_num (new_aux 1) ops_no_primary) = spec_run ct_num [] ops_no_primary /\
  snd (run ct_num (new_aux 1) ops_next_in_primary) = [None; None; Some ([Ev 2 [false]; Ev 1 [false]; EvEnd 2], RVal 1)]%N /\
  snd (run ct_num (new_aux 1) ops_next_in_primary) = spec_run ct_num [] ops_next_in_primary.
Proof. exact repaired_cases. Qed.
Print Assumptions C10_repaired_cases.

(* (8) the hypotheses of (4) are satisfiable by a non-trivial history (two :around methods, one
   calling call-next-method twice with changed arguments, next-method-p, a primary calling the
   next primary, replacement, removal, cached calls) *)
Theorem C10_guard_nonvacuous :
  wf_ops ct_num 2 ops_example /\ guard_ops ct_num [] ops_example /\
  List.length (filter (fun o => match o with OpCall _ _ => true | _ => false end) ops_example) = 5.
Proof. split; [exact (proj1 example_in_guard)|split; [exact (proj1 (proj2 example_in_guard))|reflexivity]]. Qed.
Print Assumptions C10_guard_nonvacuous.

(* (9) The concurrent clause. The protocol of the Aux mutex as a machine of atomic steps
   (ModelConc.v: every defmethod, remove-method, call, find-method and compute-applicable-methods
   is the sequence of steps of the repaired Go code; a schedule picks the routine that moves).
   For EVERY class table, arity, set of routine programs and schedule (any length, any number of
   routines), in the state reached:
   - the log (the operations in the order they took the mutex - each takes it between its
     invocation and its response, so the order respects real time) contains the operations each
     routine has begun, in its program order;
   - the answers of the operations a routine has completed are a prefix of (and, once it has
     finished, equal to) the answers its operations get when the logged operations run one after
     the other, alone, in the order of the log (crun = the sequential semantics of Model.v). *)
Theorem C10_concurrent_linearizable : forall ct n progs sched,
  let g := grun ct fixed sched (ginit n progs) in
  let answers := snd (crun ct (new_aux n) (map snd (g_log g))) in
  forall r rt, nth_error (g_rs g) r = Some rt ->
    is_prefix (ops_of r (g_log g)) (nth r progs []) /\
    is_prefix (r_outs rt) (answers_of r (g_log g) answers) /\
    (r_cur rt = None -> r_todo rt = [] ->
       ops_of r (g_log g) = nth r progs [] /\ r_outs rt = answers_of r (g_log g) answers).
Proof. exact concurrent_linearizable. Qed.
Print Assumptions C10_concurrent_linearizable.

(* the sequential reference of (9) is itself cache-transparent: in the sequential run of ANY list
   of operations (calls, defmethod, remove-method proper, the two readers) every call answers the
   cache-free semantics on the method table of that moment - which, inside the guard, is the
   specification (C10_call_pure_eq_spec). With (9): every concurrent call is answered as S demands
   on the method table at its place in the lock order. *)
Theorem C10_sequential_reference_cache_transparent : forall ct n, 1 <= n -> forall ops a,
  Forall (wf_cop ct n) ops -> Inv ct n a -> snd (crun ct a ops) = cpure ct a ops.
Proof. exact crun_cache_transparent. Qed.
Print Assumptions C10_sequential_reference_cache_transparent.

Theorem C10_call_pure_eq_spec : forall ct n tbl cs v,
  wf_tbl n tbl -> Forall (wf_cls ct) cs -> guard ct tbl cs -> pure_call ct tbl cs v = spec_call ct tbl cs v.
Proof. exact pure_call_eq_spec. Qed.
Print Assumptions C10_call_pure_eq_spec.

(* the sequential reference of (9) removes with remove-method proper; Model.remove_method (find-method,
   then remove-method when found) is the same function wherever find-method answers true *)
Theorem C10_remove_raw_is_remove : forall a q k,
  (find_method (methods a) q k = true -> remove_raw a q k = remove_method a q k) /\
  (find_method (methods a) q k = false -> remove_method a q k = a).
Proof. intros a q k. split; [apply remove_raw_found|apply remove_not_found]. Qed.
Print Assumptions C10_remove_raw_is_remove.

(* (10) The UNREPAIRED protocol is not linearizable; each witness is a schedule on which the
   original machine gives an answer that NO interleaving of the programs explains, while the
   repaired machine answers like an interleaving on the same schedule. Found by this model,
   reproduced on the implementation, repaired by repo_fixes/C10-6, C10-7, C10-8. *)
(* the cached effective method shared its combinations with the method table and was run after the unlock *)
Theorem C10_original_shared_combination_refuted :
  map r_outs (g_rs (grun ct2 original sched_shared (ginit 1 progs_shared))) =
    [[CoCall ([Ev 2 [false]], RVal 2)]; [CoNone; CoNone; CoNone]]%N /\
  (forall seq, In seq (merges2 progs_shared) ->
     answers_of 0 seq (snd (crun ct2 (new_aux 1) (map snd seq))) <> [CoCall ([Ev 2 [false]], RVal 2)]%N) /\
  map r_outs (g_rs (grun ct2 fixed sched_shared (ginit 1 progs_shared))) =
    [[CoCall ([Ev 1 [false]], RVal 1)]; [CoNone; CoNone; CoNone]]%N.
Proof. exact original_shared_combination_refuted. Qed.
Print Assumptions C10_original_shared_combination_refuted.

(* the location of a wrapper was kept in the Closure field of the method lambda all calls share *)
Theorem C10_original_closure_race_refuted :
  nth 0 (map r_outs (g_rs (grun ct2 original sched_closure (ginit 1 progs_closure)))) [] =
    [CoNone; CoNone; CoNone; CoCall ([Ev 3 [false]; Ev 2 [false]; EvEnd 3], RVal 2)]%N /\
  (forall seq, In seq (merges2 progs_closure) ->
     answers_of 0 seq (snd (crun ct2 (new_aux 1) (map snd seq))) <>
       [CoNone; CoNone; CoNone; CoCall ([Ev 3 [false]; Ev 2 [false]; EvEnd 3], RVal 2)]%N) /\
  map r_outs (g_rs (grun ct2 fixed sched_closure (ginit 1 progs_closure))) =
    [[CoNone; CoNone; CoNone; CoCall ([Ev 3 [false]; Ev 1 [false]; EvEnd 3], RVal 1)];
     [CoCall ([Ev 3 [false]; Ev 2 [false]; EvEnd 3], RVal 2)]]%N.
Proof. exact original_closure_race_refuted. Qed.
Print Assumptions C10_original_closure_race_refuted.

(* find-method / compute-applicable-methods read the method table without the mutex: the Go
   runtime stops the process when the read meets a map write *)
Theorem C10_original_unlocked_reader_refuted :
  map r_outs (g_rs (grun ct2 original sched_reader (ginit 1 progs_reader))) = [[CoNone]; [CoFault]] /\
  (forall seq, In seq (merges2 progs_reader) ->
     answers_of 1 seq (snd (crun ct2 (new_aux 1) (map snd seq))) <> [CoFault]) /\
  map r_outs (g_rs (grun ct2 fixed sched_reader (ginit 1 progs_reader))) = [[CoNone]; [CoFind true]].
Proof. exact original_unlocked_reader_refuted. Qed.
Print Assumptions C10_original_unlocked_reader_refuted.

(* (11) non-vacuity of (9): three routines (calls, defmethod, remove-method, find-method,
   compute-applicable-methods) interleaved step by step; all eleven operations complete *)
Theorem C10_concurrent_example :
  let g := grun ct2 fixed sched_example (ginit 1 progs_example) in
  Forall (fun rt => r_cur rt = None /\ r_todo rt = []) (g_rs g) /\
  List.length (g_log g) = 11 /\
  map fst (g_log g) = [0; 1; 2; 0; 1; 2; 0; 1; 2; 0; 2].
Proof. split; [exact (proj1 example_schedule)|split; [exact (proj1 (proj2 example_schedule))|exact (proj1 (proj2 (proj2 example_schedule)))]]. Qed.
Print Assumptions C10_concurrent_example.

(* (12) The cache key. With the key function of Aux.Call as a parameter: for EVERY key function
   that gives arguments with different precedence lists different keys, every history answers
   the cache-free semantics; the key of the code (first entry of each precedence list) is such a
   function; a key function that answers "list" for a cons cell too is refuted (the call on the
   cons cell reuses the effective method computed for the proper list). *)
Theorem C10_cache_transparent_for_separating_keys : forall kf ct n ops,
  separates kf ct n -> 1 <= n -> forall a, wf_ops ct n ops -> Inv_k kf ct n a ->
  snd (run_k kf ct a ops) = pure_run ct (methods a) ops.
Proof. exact run_k_cache_transparent. Qed.
Print Assumptions C10_cache_transparent_for_separating_keys.

Theorem C10_code_key_separates : forall ct n,
  separates spec_key ct n /\ forall ops a, run_k spec_key ct a ops = run ct a ops.
Proof. intros ct n. split; [apply spec_key_separates|apply run_k_spec_key]. Qed.
Print Assumptions C10_code_key_separates.

Theorem C10_collapsing_key_refuted :
  wf_ops ct_list 1 ops_list_cons /\
  snd (run_k kf_collapse ct_list (new_aux 1) ops_list_cons) =
    [None; None; Some ([Ev 1 [false]], RVal 1); Some ([Ev 1 [false]], RVal 1)]%N /\
  pure_run ct_list [] ops_list_cons =
    [None; None; Some ([Ev 1 [false]], RVal 1); Some ([Ev 2 [false]], RVal 2)]%N /\
  snd (run ct_list (new_aux 1) ops_list_cons) = pure_run ct_list [] ops_list_cons.
Proof. exact collapsing_key_refuted. Qed.
Print Assumptions C10_collapsing_key_refuted.

(* (13) How a method is written. A required parameter specialized on t may be written `a` or
   `(a t)`; the method table entry keeps the parameter list of the defmethod that created it and
   remove-method finds the entry through that list (ModelDoc.v). For EVERY history of
   defmethod in any spelling / find-method + remove-method / call, the repaired code (C10-9)
   answers exactly as on the history in which the methods are named by their specializers - so
   all theorems above apply to it - ; remove-method leaves no method with the qualifier under the
   specializers find-method was given, whatever the state; a second defmethod in another spelling
   replaces the first. The unrepaired remove-method (parameter list rendered with "" for a bare
   parameter) is refuted: after (defmethod g (a) ..) the removal does nothing and the next call
   still runs the method, also when the method was meanwhile redefined as ((a t)). *)
Theorem C10_spelling_irrelevant : forall ct n ops,
  snd (srun form_key ct (new_saux n) ops) = snd (run ct (new_aux n) (map erase ops)).
Proof. exact spelling_irrelevant. Qed.
Print Assumptions C10_spelling_irrelevant.

Theorem C10_spelling_irrelevant_from_any_state : forall ct ops s, docs_inv s ->
  s_aux (fst (srun form_key ct s ops)) = fst (run ct (s_aux s) (map erase ops)) /\
  snd (srun form_key ct s ops) = snd (run ct (s_aux s) (map erase ops)).
Proof. exact srun_erase. Qed.
Print Assumptions C10_spelling_irrelevant_from_any_state.

Theorem C10_remove_method_removes : forall ct s q k, docs_inv s ->
  get_qual_of (methods (s_aux (fst (sstep form_key ct s (SRemove q k))))) k q = None.
Proof. exact remove_removes. Qed.
Print Assumptions C10_remove_method_removes.

Theorem C10_redefinition_in_other_spelling_replaces : forall ct s q ps1 ps2 b1 b2,
  form_key ps1 = form_key ps2 ->
  s_aux (fst (srun form_key ct s [SDef q ps1 b1; SDef q ps2 b2])) =
  add_method (add_method (s_aux s) q (form_key ps1) b1) q (form_key ps1) b2.
Proof. exact redefinition_replaces. Qed.
Print Assumptions C10_redefinition_in_other_spelling_replaces.

Theorem C10_original_bare_remove_refuted :
  map erase wit_ops = map erase wit_ops_t /\
  snd (srun doc_key_orig wit_ct (new_saux 1) wit_ops) = [None; None; Some ([Ev 1%N [false]], RVal 1%N)] /\
  snd (srun doc_key_orig wit_ct (new_saux 1) wit_ops_t) = [None; None; Some ([], RNoApplicable)] /\
  spec_run wit_ct [] (map erase wit_ops) = [None; None; Some ([], RNoApplicable)] /\
  snd (srun form_key wit_ct (new_saux 1) wit_ops) = [None; None; Some ([], RNoApplicable)].
Proof. exact original_bare_remove_refuted. Qed.
Print Assumptions C10_original_bare_remove_refuted.

Theorem C10_original_bare_remove_after_redefinition_refuted :
  snd (srun doc_key_orig wit_ct (new_saux 1)
         [SDef QPrimary [None] wit_body; SDef QPrimary [Some "t"] wit_body; SRemove QPrimary ["t"]; SCall ["fixnum"] [false]])
  = [None; None; None; Some ([Ev 1%N [false]], RVal 1%N)].
Proof. exact original_bare_remove_after_redefinition_refuted. Qed.
Print Assumptions C10_original_bare_remove_after_redefinition_refuted.
