(* C10 — property theorems only. Each is closed by `exact` of a lemma proved in Proofs.v /
   ProofsConc.v / Orig.v and is followed by Print Assumptions. *)
From C10 Require Import Model Spec Proofs Orig.
From Coq Require Import Sorting.Sorted.

(* (1) The outcome of a call depends only on the methods defined at that moment: for EVERY
   well-formed history, the outputs of the implementation model (cache of copied effective
   methods, fast path, in-place update) equal those of the cache-free semantics on the abstract
   method table. No guard. *)
Theorem C10_cache_transparent : forall ct n ops, 1 <= n -> forall a, wf_ops ct n ops -> Inv ct n a ->
  snd (run ct a ops) = pure_run ct (methods a) ops /\ Inv ct n (fst (run ct a ops)) /\
  methods (fst (run ct a ops)) = fold_left spec_step ops (methods a).
Proof. exact run_cache_transparent. Qed.
Print Assumptions C10_cache_transparent.

(* (2) The nested hierarchy walk yields exactly the applicable methods, most specific first
   (lexicographic in the class precedence of the arguments, left to right), and that order is unique. *)
Theorem C10_collect_is_dispatch_order : forall ms hs,
  Forall (@NoDup cls) hs -> dispatch_order hs ms (collect ms [] hs).
Proof. exact collect_dispatch_order. Qed.
Print Assumptions C10_collect_is_dispatch_order.

Theorem C10_dispatch_order_unique : forall hs tbl ks1 ks2,
  dispatch_order hs tbl ks1 -> dispatch_order hs tbl ks2 -> ks1 = ks2.
Proof. exact dispatch_order_unique. Qed.
Print Assumptions C10_dispatch_order_unique.

(* (3) The effective method, for EVERY list of applicable combinations that contains a primary
   and every argument vector: Method.Call of the repaired code - any number of :around methods,
   each calling call-next-method zero, one or several times with the same or with changed
   arguments and asking next-method-p, primaries that call the next primary - is the effective
   method of the standard method combination. *)
Theorem C10_method_call_effective : forall cs v, prims cs <> [] -> method_call cs v = effective cs v.
Proof. exact method_call_effective. Qed.
Print Assumptions C10_method_call_effective.

(* (4) Full statement of the property for the model: every history, every call = S.
   FULL (false of the model in one respect, see C10_around_without_primary_refuted):
     forall ct n ops, 1 <= n -> wf_ops ct n ops -> snd (run ct (new_aux n) ops) = spec_run ct [] ops.
   PROVED: the same under guard_ops = "at every call, if an :around method is applicable then a
   primary method is applicable". (Before the repairs C10-1..C10-5 the guard was: at most one
   applicable :around, an applicable primary, and no call-next-method in primaries.) *)
Theorem C10_run_eq_spec_partial : forall ct n ops,
  1 <= n -> wf_ops ct n ops -> guard_ops ct [] ops ->
  snd (run ct (new_aux n) ops) = spec_run ct [] ops.
Proof. exact run_eq_spec. Qed.
Print Assumptions C10_run_eq_spec_partial.

(* (5) S itself runs the standard method combination: *)
(* (a) every :around calls call-next-method once and the most specific primary does not: all
   :around methods most specific first, all :before methods most specific first, the most
   specific primary, all :after methods least specific first, the :around methods end in reverse *)
Theorem C10_effective_order : forall cs p ps v,
  prims cs = p :: ps -> plain p -> Forall once (wraps cs) ->
  effective cs v =
    (evs (wraps cs) v ++
     (evs (befores cs) v ++ [Ev (b_id p) v] ++ evs (rev (afters cs)) v) ++
     map (fun b => EvEnd (b_id b)) (rev (wraps cs)), RVal (b_id p)).
Proof. exact effective_order. Qed.
Print Assumptions C10_effective_order.

(* (b) an :around method without call-next-method: no other method runs, its value is returned *)
Theorem C10_effective_around_declines : forall cs a rest v,
  prims cs <> [] -> wraps cs = a :: rest -> b_calls a = [] ->
  effective cs v = (Ev (b_id a) v :: (if b_nmp a then [EvNmp true] else []) ++ [EvEnd (b_id a)], RVal (b_id a)).
Proof. exact effective_around_declines. Qed.
Print Assumptions C10_effective_around_declines.

(* (c) an :around method with two call-next-method forms, the second with changed arguments: the
   rest of the effective method runs twice, the second time on the changed arguments, and the
   value of the second run is returned *)
Theorem C10_effective_around_twice : forall cs a rest f v tr1 r1 tr2 r2,
  prims cs <> [] -> wraps cs = a :: rest -> b_nmp a = false -> b_calls a = [[]; f] ->
  let inner := spec_inner (befores cs) (prims cs) (afters cs) in
  spec_arounds rest inner v = (tr1, r1) -> is_err r1 = false ->
  spec_arounds rest inner (xor_args v f) = (tr2, r2) -> is_err r2 = false ->
  effective cs v = (Ev (b_id a) v :: tr1 ++ tr2 ++ [EvEnd (b_id a)], r2).
Proof. exact effective_around_twice. Qed.
Print Assumptions C10_effective_around_twice.

(* (d) call-next-method in a primary runs the next most specific primary; in the least specific
   one next-method-p is false and call-next-method signals no-next-method (no :after method runs) *)
Theorem C10_effective_primary_chain : forall cs p1 p2 ps v,
  wraps cs = [] -> prims cs = p1 :: p2 :: ps -> once p1 -> plain p2 ->
  effective cs v =
    (evs (befores cs) v ++ [Ev (b_id p1) v; Ev (b_id p2) v; EvEnd (b_id p1)] ++ evs (rev (afters cs)) v, RVal (b_id p2)).
Proof. exact effective_primary_chain. Qed.
Print Assumptions C10_effective_primary_chain.

Theorem C10_effective_primary_no_next : forall cs p f v,
  wraps cs = [] -> prims cs = [p] -> b_calls p = [f] ->
  effective cs v = (evs (befores cs) v ++ Ev (b_id p) v :: (if b_nmp p then [EvNmp false] else []), RNoNext).
Proof. exact effective_primary_no_next. Qed.
Print Assumptions C10_effective_primary_no_next.

(* (6) the clause of the guard that is left is a known finding: an applicable :around method
   without any applicable primary runs (slip's own tests require it) where the language signals
   an error before running anything *)
Theorem C10_around_without_primary_refuted :
  wf_ops ct_num 1 ops_around_only /\
  snd (run ct_num (new_aux 1) ops_around_only) = [None; Some ([Ev 1%N [false]], RNoNext)] /\
  spec_run ct_num [] ops_around_only = [None; Some ([], RNoApplicable)].
Proof. exact around_without_primary_refuted. Qed.
Print Assumptions C10_around_without_primary_refuted.

(* (7) the former guard clauses, refuted for the model of the UNREPAIRED code (Orig.v) and met
   by the repaired model: three :around methods all run; daemons without a primary signal
   no-applicable-method; call-next-method in a primary runs the next primary *)
Theorem C10_original_second_around_skipped_refuted :
  snd (Orig.run Orig.ct_num (Orig.new_aux 1) Orig.ops_two_arounds) =
    [None; None; None; Some ([Orig.Ev 2; Orig.Ev 1; Orig.EvEnd 2], Orig.RVal 1)]%N /\
  Orig.spec_run Orig.ct_num [] Orig.ops_two_arounds =
    [None; None; None; Some ([Orig.Ev 2; Orig.Ev 3; Orig.Ev 1; Orig.EvEnd 3; Orig.EvEnd 2], Orig.RVal 1)]%N.
Proof. exact Orig.second_around_skipped_refuted. Qed.
Print Assumptions C10_original_second_around_skipped_refuted.

Theorem C10_original_no_primary_refuted :
  snd (Orig.run Orig.ct_num (Orig.new_aux 1) Orig.ops_no_primary) = [None; Some ([Orig.Ev 1], Orig.RNil)]%N /\
  Orig.spec_run Orig.ct_num [] Orig.ops_no_primary = [None; Some ([], Orig.RNoPrimary)].
Proof. exact Orig.no_primary_refuted. Qed.
Print Assumptions C10_original_no_primary_refuted.

Theorem C10_repaired_cases :
  snd (run ct_num (new_aux 1) ops_two_arounds) = spec_run ct_num [] ops_two_arounds /\
  nth 4 (snd (run ct_num (new_aux 1) ops_two_arounds)) None =
    Some ([Ev 2 [false]; Ev 3 [false]; Ev 4 [false]; Ev 1 [false]; EvEnd 4; EvEnd 3; EvEnd 2], RVal 1)%N /\
  snd (run ct_num (new_aux 1) ops_no_primary) = [None; Some ([], RNoApplicable)] /\
  snd (run ct_num (new_aux 1) ops_no_primary) = spec_run ct_num [] ops_no_primary /\
  snd (run ct_num (new_aux 1) ops_next_in_primary) = [None; None; Some ([Ev 2 [false]; Ev 1 [false]; EvEnd 2], RVal 1)]%N /\
  snd (run ct_num (new_aux 1) ops_next_in_primary) = spec_run ct_num [] ops_next_in_primary.
Proof. exact repaired_cases. Qed.
Print Assumptions C10_repaired_cases.

(* (8) the hypotheses of (4) are satisfiable by a non-trivial history (two :around methods, one
   calling call-next-method twice with changed arguments, next-method-p, a primary calling the
   next primary, replacement, removal, cached calls) *)
Theorem C10_guard_nonvacuous :
  wf_ops ct_num 2 ops_example /\ guard_ops ct_num [] ops_example /\
  List.length (filter (fun o => match o with OpCall _ _ => true | _ => false end) ops_example) = 5.
Proof. split; [exact (proj1 example_in_guard)|split; [exact (proj1 (proj2 example_in_guard))|reflexivity]]. Qed.
Print Assumptions C10_guard_nonvacuous.
