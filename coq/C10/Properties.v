(* C10 — property theorems only. Each is closed by `exact` of a lemma proved in Proofs.v and is
   followed by Print Assumptions. *)
From C10 Require Import Model Spec Proofs.
From Coq Require Import Sorting.Sorted.

(* (1) The outcome of a call depends only on the methods defined at that moment: for EVERY
   well-formed history, the outputs of the implementation model (cache, fast path, in-place update)
   equal those of the cache-free semantics on the abstract method table. No guard. *)
Theorem C10_cache_transparent : forall ct n ops, 1 <= n -> forall a, wf_ops ct n ops -> Inv ct n a ->
  snd (run ct a ops) = pure_run ct (methods a) ops /\ Inv ct n (fst (run ct a ops)) /\
  methods (fst (run ct a ops)) = fold_left spec_step ops (methods a).
Proof. exact run_cache_transparent. Qed.
Print Assumptions C10_cache_transparent.

(* (2) The nested hierarchy walk yields exactly the applicable methods, most specific first
   (lexicographic in the class precedence of the arguments, left to right), and that order is unique. *)
Theorem C10_collect_is_dispatch_order : forall ms hs,
  Forall (@NoDup cls) hs -> dispatch_order hs ms (collect ms [] hs).
Proof. exact collect_dispatch_order. Qed.
Print Assumptions C10_collect_is_dispatch_order.

Theorem C10_dispatch_order_unique : forall hs tbl ks1 ks2,
  dispatch_order hs tbl ks1 -> dispatch_order hs tbl ks2 -> ks1 = ks2.
Proof. exact dispatch_order_unique. Qed.
Print Assumptions C10_dispatch_order_unique.

(* (3) Full statement of the property for the model: every history, every call = S.
   FULL (false of the faithful model, see the two _refuted theorems):
     forall ct n ops, 1 <= n -> wf_ops ct n ops -> snd (run ct (new_aux n) ops) = spec_run ct [] ops.
   PROVED: the same under guard_ops = "at every call at most one applicable :around and at least
   one applicable primary". *)
Theorem C10_run_eq_spec_partial : forall ct n ops,
  1 <= n -> wf_ops ct n ops -> guard_ops ct [] ops ->
  snd (run ct (new_aux n) ops) = spec_run ct [] ops.
Proof. exact run_eq_spec. Qed.
Print Assumptions C10_run_eq_spec_partial.

(* (4) S itself runs the standard method combination *)
Theorem C10_effective_order : forall cs p ps,
  prims cs = p :: ps -> forallb b_next (wraps cs) = true ->
  effective cs =
    (map (fun b => Ev (b_id b)) (wraps cs) ++
     (map (fun b => Ev (b_id b)) (flat_map (fun c => opt_list (c_before c)) cs) ++ [Ev (b_id p)] ++
      map (fun b => Ev (b_id b)) (rev (flat_map (fun c => opt_list (c_after c)) cs))) ++
     map (fun b => EvEnd (b_id b)) (rev (wraps cs)), RVal (b_id p)).
Proof. exact effective_order. Qed.
Print Assumptions C10_effective_order.

(* (5) outside the guard the faithful model violates S: known findings *)
Theorem C10_second_around_skipped_refuted :
  wf_ops ct_num 1 ops_two_arounds /\
  snd (run ct_num (new_aux 1) ops_two_arounds) <> spec_run ct_num [] ops_two_arounds.
Proof. exact second_around_skipped_refuted. Qed.
Print Assumptions C10_second_around_skipped_refuted.

Theorem C10_no_primary_refuted :
  wf_ops ct_num 1 ops_no_primary /\
  snd (run ct_num (new_aux 1) ops_no_primary) <> spec_run ct_num [] ops_no_primary.
Proof. exact no_primary_refuted. Qed.
Print Assumptions C10_no_primary_refuted.

(* (6) the hypotheses of (3) are satisfiable by a non-trivial history *)
Theorem C10_guard_nonvacuous :
  wf_ops ct_num 2 ops_example /\ guard_ops ct_num [] ops_example /\
  List.length (filter (fun o => match o with OpCall _ => true | _ => false end) ops_example) = 5.
Proof. split; [exact (proj1 example_in_guard)|split; [exact (proj1 (proj2 example_in_guard))|reflexivity]]. Qed.
Print Assumptions C10_guard_nonvacuous.
