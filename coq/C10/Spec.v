(* C10 — specification S: what the property says a generic function call does, computed from the
   current set of methods and the class precedence lists only (no cache, no fast path). *)
From C10 Require Export Model.
From Coq Require Import Sorting.Sorted.

(* position of a class in a precedence list *)
Fixpoint pos (h : list cls) (c : cls) : nat :=
  match h with
  | [] => 0
  | c' :: h' => if String.eqb c c' then 0 else S (pos h' c)
  end.
Fixpoint posvec (hs : list (list cls)) (k : key) : list nat :=
  match hs, k with
  | h :: hs', c :: k' => pos h c :: posvec hs' k'
  | _, _ => []
  end.
(* lexicographic order on position vectors: the first argument is the most significant *)
Fixpoint lex_lt (a b : list nat) : Prop :=
  match a, b with
  | x :: a', y :: b' => (x < y)%nat \/ (x = y /\ lex_lt a' b')
  | _, _ => False
  end.
Fixpoint lex_ltb (a b : list nat) : bool :=
  match a, b with
  | x :: a', y :: b' => Nat.ltb x y || (Nat.eqb x y && lex_ltb a' b')
  | _, _ => false
  end.

(* a method is applicable when each specializer is in the precedence list of its argument *)
Definition applicable (hs : list (list cls)) (k : key) : Prop := Forall2 (fun c h => In c h) k hs.
Fixpoint applicableb (hs : list (list cls)) (k : key) : bool :=
  match k, hs with
  | [], [] => true
  | c :: k', h :: hs' => existsb (String.eqb c) h && applicableb hs' k'
  | _, _ => false
  end.

Definition more_specific (hs : list (list cls)) (a b : key) : Prop := lex_lt (posvec hs a) (posvec hs b).

(* THE dispatch order: the applicable methods, most specific first *)
Definition dispatch_order (hs : list (list cls)) (tbl : list (key * combo)) (ks : list key) : Prop :=
  StronglySorted (more_specific hs) ks /\
  forall k, In k ks <-> (alookup k tbl <> None /\ applicable hs k).

(* executable version: insertion sort of the applicable keys *)
Fixpoint insert_key (hs : list (list cls)) (k : key) (l : list key) : list key :=
  match l with
  | [] => [k]
  | k' :: l' => if lex_ltb (posvec hs k) (posvec hs k') then k :: l else k' :: insert_key hs k l'
  end.
Definition sort_keys (hs : list (list cls)) (l : list key) : list key := fold_right (insert_key hs) [] l.
Definition dispatch (hs : list (list cls)) (tbl : list (key * combo)) : list key :=
  sort_keys hs (filter (applicableb hs) (map fst tbl)).

(* The effective method of the standard method combination (CLHS 7.6.6.2), for the applicable
   methods in dispatch order. What ONE body does is given by run_body of the model (trace, ask
   next-method-p, call-next-method as often as it is written, trace the end); the specification
   says what "the next method" is:
   - for the k-th :around method, the (k+1)-th :around method, and for the last one the inner
     part: all :before methods most specific first, the most specific primary, all :after methods
     least specific first. An :around method always has a next method.
   - for a primary method, the next most specific primary; the least specific one has none
     (next-method-p is false, call-next-method signals no-next-method).
   The arguments of a next method are those given to call-next-method. A condition unwinds. *)
Definition opt_list {A} (o : option A) : list A := match o with Some x => [x] | None => [] end.
Definition is_nil {A} (l : list A) : bool := match l with [] => true | _ => false end.
Definition evs (bs : list body) (v : argv) : list event := map (fun b => Ev (b_id b) v) bs.

Fixpoint spec_prims (ps : list body) (v : argv) : list event * result :=
  match ps with
  | [] => ([], RNil)
  | b :: rest => run_body (prim_ends b) b v (negb (is_nil rest)) (fun v' => spec_prims rest v')
  end.
Definition spec_inner (befores prims afters : list body) (v : argv) : list event * result :=
  let '(tr, r) := spec_prims prims v in
  if is_err r then (evs befores v ++ tr, r)
  else (evs befores v ++ tr ++ evs (rev afters) v, r).
Fixpoint spec_arounds (arounds : list body) (inner : argv -> list event * result) (v : argv)
  : list event * result :=
  match arounds with
  | [] => inner v
  | b :: rest => run_body true b v true (fun v' => spec_arounds rest inner v')
  end.

Definition wraps (cs : list combo) : list body := flat_map (fun c => opt_list (c_wrap c)) cs.
Definition prims (cs : list combo) : list body := flat_map (fun c => opt_list (c_primary c)) cs.
Definition befores (cs : list combo) : list body := flat_map (fun c => opt_list (c_before c)) cs.
Definition afters (cs : list combo) : list body := flat_map (fun c => opt_list (c_after c)) cs.

Definition effective (cs : list combo) (v : argv) : list event * result :=
  match prims cs with
  | [] => ([], RNoApplicable)   (* no applicable primary method: an error in the language; the
                                   condition slip signals for it is no-applicable-method-error *)
  | _ => spec_arounds (wraps cs) (spec_inner (befores cs) (prims cs) (afters cs)) v
  end.

Definition spec_call (ct : ctable) (tbl : list (key * combo)) (cs : list cls) (v : argv) : list event * result :=
  let hs := map (hier_of ct) cs in
  match dispatch hs tbl with
  | [] => ([], RNoApplicable)
  | ks => effective (deref tbl ks) v
  end.

(* abstract method table after a history: a finite map updated by defmethod / remove-method *)
Definition tbl_update (tbl : list (key * combo)) (k : key) (c : combo) : list (key * combo) :=
  match alookup k tbl with
  | Some _ => map (fun kc => if key_eqb k (fst kc) then (fst kc, c) else kc) tbl
  | None => tbl ++ [(k, c)]
  end.
Definition spec_step (tbl : list (key * combo)) (o : op) : list (key * combo) :=
  match o with
  | OpDef q k b =>
      let c := match alookup k tbl with Some c => c | None => empty_combo end in
      tbl_update tbl k (set_qual c q (Some b))
  | OpRemove q k =>
      match alookup k tbl with
      | Some c => match get_qual c q with
                  | Some _ => let c' := set_qual c q None in
                              if combo_is_empty c' then adelete k tbl else tbl_update tbl k c'
                  | None => tbl
                  end
      | None => tbl
      end
  | OpCall _ _ => tbl
  end.
Definition spec_table (ops : list op) : list (key * combo) := fold_left spec_step ops [].

(* what each operation of a history should return, by the specification *)
Fixpoint spec_run (ct : ctable) (tbl : list (key * combo)) (ops : list op) : list out :=
  match ops with
  | [] => []
  | OpCall cs v :: ops' => Some (spec_call ct tbl cs v) :: spec_run ct tbl ops'
  | o :: ops' => None :: spec_run ct (spec_step tbl o) ops'
  end.
