(* C20 — property theorems only. *)
From C20 Require Import Model Spec ProofsClear Proofs ProofsStash.
Open Scope N_scope.

(* (1) the history file format round-trips every list of encodable forms (multi-line forms intact) *)
Theorem C20_file_roundtrip : forall fs, Forall (fun f => encodable f = true) fs -> load_bytes (encode fs) = fs.
Proof. exact load_encode. Qed.
Print Assumptions C20_file_roundtrip.

(* (2) restart loads exactly what the user did: for EVERY history of Add / Clear(start, end) with ANY range /
   SetLimit / restart over encodable (or blank) forms, from any directory whose history file encodes the loaded list
   (whatever is left in history.tmp), memory and a fresh session's Load both equal the specification *)
Theorem C20_restart_exact : forall ops h d, Inv h d -> Forall op_ok ops ->
  let '((h', d'), _) := run (h, d) ops in
  Inv h' d' /\ (forms h', limit h') = spec_run (forms h, limit h) ops /\ load d' = forms h'.
Proof. exact run_spec. Qed.
Print Assumptions C20_restart_exact.

(* (3) a process death before ANY primitive file-system step of ANY operation (Add with or without compaction,
   Clear of any range - rewritten through history.tmp since repo fix C20-2) of ANY history leaves a
   directory that a fresh session loads as the remembered list before or after one of the operations:
   never torn, duplicated or resurrected *)
Theorem C20_crash_consistent : forall ops h d K, Inv h d -> Forall op_ok ops ->
  In (load (crash_dir d (snd (run (h, d) ops)) K)) (spec_states (forms h, limit h) ops).
Proof. exact crash_any_point. Qed.
Print Assumptions C20_crash_consistent.

Theorem C20_crash_one_operation : forall h d o k, Inv h d -> op_ok o ->
  let '((h', d'), xs) := step (h, d) o in
  load (crash_dir d xs k) = forms h \/ load (crash_dir d xs k) = forms h'.
Proof. exact crash_one_op. Qed.
Print Assumptions C20_crash_one_operation.

(* (4) none duplicated, bounded by the configured limit.  Add never records a form equal to the most recent
   one; SetLimit, restart and a Clear whose range reaches the most recent or the oldest entry keep the list free
   of adjacent equal entries.  (A Clear strictly inside the list can bring two equal entries together - see
   Proofs.clear_middle_joins; code and specification agree on it and it survives a restart unchanged.) *)
Theorem C20_no_adjacent_duplicates : forall st o,
  no_adj_dup (fst st) -> clear_at_end (fst st) o -> no_adj_dup (fst (spec_step st o)).
Proof. exact spec_no_adjacent_duplicates. Qed.
Print Assumptions C20_no_adjacent_duplicates.

Theorem C20_bounded : forall fs lim f,
  (0 < lim)%Z -> (Z.of_nat (List.length fs) <= lim + Z.quot lim 10)%Z ->
  (Z.of_nat (List.length (spec_add fs lim f)) <= lim + Z.quot lim 10)%Z.
Proof. exact spec_add_bounded. Qed.
Print Assumptions C20_bounded.

(* (5) outside `encodable` the faithful model violates "restart loads what was entered": known findings *)
Theorem C20_leading_blank_refuted :
  let '((h, d), _) := run start0 [OAdd F_lead] in forms h = [F_lead] /\ load d <> [F_lead].
Proof. exact leading_blank_refuted. Qed.
Print Assumptions C20_leading_blank_refuted.
Theorem C20_tab_in_form_refuted :
  let '((h, d), _) := run start0 [OAdd F_tab] in forms h = [F_tab] /\ load d <> [F_tab].
Proof. exact tab_in_form_refuted. Qed.
Print Assumptions C20_tab_in_form_refuted.

(* (6) the hypotheses are met by a history with appends, a multi-line form, a compaction, a clear of an inner
   range and one of everything, a limit change and restarts; it has 24 primitive steps, i.e. 25 crash points *)
Theorem C20_nonvacuous :
  Inv (fst start0) (snd start0) /\ Forall op_ok ex_ops /\
  List.length (snd (run start0 ex_ops)) = 24%nat /\ fst (spec_run ([], 10%Z) ex_ops) = [F 5].
Proof. exact example_ok. Qed.
Print Assumptions C20_nonvacuous.

(* (7) Clear(start, end): the slice arithmetic of Stash.clear (after repo fix C20-1; shared by History and
   Stash, reached by clear-history / clear-stash with :start and :end) removes, for EVERY start and end, exactly the
   entries whose distance from the most recent one lies in start..end (negative end: up to the oldest) and keeps
   the others in order; the code before the fix did not (known finding C20-partial-clear-scrambles, now fixed) *)
Theorem C20_clear_range_exact : forall (fs : list form) s e, clear_range fs s e = spec_clear fs s e.
Proof. exact (@clear_range_spec form). Qed.
Print Assumptions C20_clear_range_exact.
Theorem C20_partial_clear_refuted :
  clear_range_old L5 1 2 = [[[99]]; [[98]]; [[99]]] /\ spec_clear L5 1 2 = [[[97]]; [[98]]; [[101]]] /\
  clear_range L5 1 2 = [[[97]]; [[98]]; [[101]]] /\ clear_range_old L5 1 1 = [[[98]]; [[98]]; []; []].
Proof. exact partial_clear_old_refuted. Qed.
Print Assumptions C20_partial_clear_refuted.

(* (8) the stash.  For EVERY reader (the model is parametric in what slip.Read says about a text: complete /
   ends inside a list or string / error) and EVERY history of Stash.Add / Clear(start, end) / use-stash / restart
   over forms the stash file can carry (`sencodable`: no TAB or NL in a line, the first line not empty, not blank, the reader accepts the
   form after its last line and not before), from any directory whose stash file holds the loaded forms in either
   format (whatever is left in the temporary file): the stash in memory and what a fresh LoadExpanded reads both
   equal the specification - the forms in order, a repetition of the most recent form not recorded *)
Theorem C20_stash_restart_exact : forall rd ops fs d, SInv rd fs d -> Forall (sop_ok rd) ops ->
  let '((fs', d'), _) := srun rd (fs, d) ops in
  SInv rd fs' d' /\ fs' = sspec_run fs ops /\ sload rd d' = (fs', true).
Proof. exact srun_spec. Qed.
Print Assumptions C20_stash_restart_exact.

(* the stash file in either format (Add: expanded, an empty line after each form; Clear: one TAB-joined line per
   form; any mixture) loads as exactly the forms, multi-line forms intact *)
Theorem C20_stash_file_roundtrip : forall rd l,
  Forall (fun p => sencodable rd (snd p) = true) l -> loadx_bytes rd (enc_mixed l) = (map snd l, true).
Proof. exact loadx_enc. Qed.
Print Assumptions C20_stash_file_roundtrip.

(* (9) a process death before ANY primitive file-system step (open, each write, rename; the creation of a missing
   stash file by use-stash) of ANY operation of ANY stash history leaves a directory that a fresh LoadExpanded reads,
   without a reader failure, as the stash before or after one of the operations *)
Theorem C20_stash_crash_consistent : forall rd ops fs d K, SInv rd fs d -> Forall (sop_ok rd) ops ->
  exists fs', In fs' (sspec_states fs ops) /\ sload rd (crash_dir d (snd (srun rd (fs, d) ops)) K) = (fs', true).
Proof. exact scrash_any_point. Qed.
Print Assumptions C20_stash_crash_consistent.
Theorem C20_stash_crash_one_operation : forall rd fs d o k, SInv rd fs d -> sop_ok rd o ->
  let '((fs', d'), xs) := sstep rd (fs, d) o in
  sload rd (crash_dir d xs k) = (fs, true) \/ sload rd (crash_dir d xs k) = (fs', true).
Proof. exact scrash_one_op. Qed.
Print Assumptions C20_stash_crash_one_operation.

(* before repo fix C20-2 Clear truncated the file and wrote the remaining forms in place: a death after the
   truncation or between two writes left a file that loads as neither the list before nor the list after *)
Theorem C20_clear_inplace_crash_refuted :
  let fs := [F 1; F 2; F 3] in
  let d := {| d_hist := Some (encode fs); d_tmp := None |} in
  let keep := clear_range fs 0 0 in
  keep = [F 1; F 2] /\
  load (crash_dir d (rewrite_inplace keep) 1) = [] /\ load (crash_dir d (rewrite_inplace keep) 2) = [F 1] /\
  fst (sload rd_paren (crash_dir d (rewrite_inplace keep) 1)) = [] /\
  fst (sload rd_paren (crash_dir d (rewrite_inplace keep) 2)) = [F 1].
Proof. exact clear_inplace_crash_refuted. Qed.
Print Assumptions C20_clear_inplace_crash_refuted.

(* Stash.Nth numbers the forms from the most recent one; outside the list it is the empty form *)
Theorem C20_nth_most_recent : forall fs n,
  nth_form fs n = if (0 <=? n)%Z then nth (Z.to_nat n) (rev fs) [] else [].
Proof. exact nth_form_spec. Qed.
Print Assumptions C20_nth_most_recent.

(* an empty line inside a stashed form survives a restart; LoadExpanded before repo fix C20-4 dropped it *)
Theorem C20_stash_empty_line_refuted :
  let '((fs, d), _) := srun rd_paren sstart0 [SUse; SAdd SE] in
  fs = [SE] /\ sencodable rd_paren SE = true /\ sload rd_paren d = ([SE], true) /\
  match d_hist d with
  | Some bs => loadx_lines_old rd_paren (file_lines bs) [] [] = ([[[40; 101]; [41]]], true)
  | None => False
  end.
Proof. exact stash_empty_line_refuted. Qed.
Print Assumptions C20_stash_empty_line_refuted.
(* outside `sencodable` (known finding): an incomplete form swallows what is stashed after it *)
Theorem C20_stash_incomplete_form_refuted :
  let '((fs, d), _) := srun rd_paren sstart0 [SUse; SAdd SP; SAdd SA] in
  fs = [SP; SA] /\ sload rd_paren d = ([], true).
Proof. exact stash_incomplete_form_refuted. Qed.
Print Assumptions C20_stash_incomplete_form_refuted.

(* the stash hypotheses are met (with the parenthesis reader) by a history with use-stash on a missing file, single-
   and multi-line forms, a string holding a parenthesis, a repetition, clears of an inner range, of the most recent
   entry and of everything, and restarts: 22 primitive steps *)
Theorem C20_stash_nonvacuous :
  SInv rd_paren (fst sstart0) (snd sstart0) /\ Forall (sop_ok rd_paren) sex_ops /\
  List.length (snd (srun rd_paren sstart0 sex_ops)) = 22%nat /\
  sspec_run [] (firstn 12 sex_ops) = [SA; SD] /\ sspec_run [] (firstn 8 sex_ops) = [SA; SD].
Proof. exact stash_example_ok. Qed.
Print Assumptions C20_stash_nonvacuous.

(* (10) the two open findings about the history file format cannot be repaired compatibly: whatever an encoder
   writes, a History.Load that reads every existing file as it does now never returns a form with a TAB inside a line
   or a first line beginning with white space *)
Theorem C20_no_compatible_encoding : forall enc : list form -> list byte,
  load_bytes (enc [F_lead]) <> [F_lead] /\ load_bytes (enc [F_tab]) <> [F_tab].
Proof. exact no_compatible_encoding. Qed.
Print Assumptions C20_no_compatible_encoding.
Theorem C20_loaded_forms_shape : forall bs f, In f (load_bytes bs) ->
  Forall (fun l => forallb (fun b => negb (N.eqb b TAB)) l = true) f /\
  match f with l :: _ => starts_ok l = true | [] => False end.
Proof. exact load_forms_shape. Qed.
Print Assumptions C20_loaded_forms_shape.

(* saved settings: for EVERY history of sessions (each a list of setq's of watched variables), a session starts
   with, for every variable, the value last set in any earlier session (or the default if it never was):
   the rewrite-all-marked-variables scheme of updateConfigFile loses nothing because evaluating config.lisp
   at start-up marks every variable in it again (C20/Settings.v; the comparison with real REPL processes is
   run on every check) *)
From C20 Require Import Settings.
Theorem C20_settings_persist : forall sessions k,
  look (vals (m_start (fold_left m_session sessions m_init))) k = look (fold_left s_session sessions []) k.
Proof. exact settings_persist. Qed.
Print Assumptions C20_settings_persist.

(* a death while config.lisp is updated (repo fix C20-3: the text goes to config.lisp.tmp, which is renamed over
   config.lisp): for EVERY history of sessions, any settings made so far in the current one, whatever an earlier
   death left in config.lisp.tmp and whichever step (open, write, rename) the process dies at, the next session
   starts with every setting as before the interrupted change or every setting as after it *)
Theorem C20_settings_crash_consistent : forall sessions ops k x t j,
  let m := fold_left (fun m o => m_set m (fst o) (snd o)) ops (m_start (fold_left m_session sessions m_init)) in
  let s := s_session (fold_left s_session sessions []) ops in
  let d := ccrash {| c_cfg := Some (file m); c_tmp := t |} (update_atomic (file (m_set m k x))) j in
  (forall k', look (cload d) k' = look s k') \/ (forall k', look (cload d) k' = look (upd s k x) k').
Proof. exact settings_crash_consistent. Qed.
Print Assumptions C20_settings_crash_consistent.

(* before the fix os.WriteFile truncated config.lisp itself: a death before the write left it empty and the next
   session started with the defaults *)
Theorem C20_settings_crash_inplace_refuted :
  let old := [(0%N, 5%Z)] in let new := [(1%N, 7%Z); (0%N, 5%Z)] in
  let d := ccrash {| c_cfg := Some old; c_tmp := None |} (update_inplace new) 1 in
  look (cload d) 0%N = None /\ look old 0%N = Some 5%Z /\ look new 0%N = Some 5%Z.
Proof. exact settings_crash_inplace_refuted. Qed.
Print Assumptions C20_settings_crash_inplace_refuted.
