(* C20 — property theorems only. *)
From C20 Require Import Model Spec Proofs.
Open Scope N_scope.

(* (1) the history file format round-trips every list of encodable forms (multi-line forms intact) *)
Theorem C20_file_roundtrip : forall fs, Forall (fun f => encodable f = true) fs -> load_bytes (encode fs) = fs.
Proof. exact load_encode. Qed.
Print Assumptions C20_file_roundtrip.

(* (2) restart loads exactly what the user did: for EVERY history of Add / Clear / SetLimit / restart
   over encodable (or blank) forms, from any directory whose history file encodes the loaded list
   (whatever is left in history.tmp), memory and a fresh session's Load both equal the specification *)
Theorem C20_restart_exact : forall ops h d, Inv h d -> Forall op_ok ops ->
  let '((h', d'), _) := run (h, d) ops in
  Inv h' d' /\ (forms h', limit h') = spec_run (forms h, limit h) ops /\ load d' = forms h'.
Proof. exact run_spec. Qed.
Print Assumptions C20_restart_exact.

(* (3) a process death before ANY primitive file-system step of ANY operation of ANY history leaves a
   directory that a fresh session loads as the remembered list before or after one of the operations:
   never torn, duplicated or resurrected *)
Theorem C20_crash_consistent : forall ops h d K, Inv h d -> Forall op_ok ops ->
  In (load (crash_dir d (snd (run (h, d) ops)) K)) (spec_states (forms h, limit h) ops).
Proof. exact crash_any_point. Qed.
Print Assumptions C20_crash_consistent.

Theorem C20_crash_one_operation : forall h d o k, Inv h d -> op_ok o ->
  let '((h', d'), xs) := step (h, d) o in
  load (crash_dir d xs k) = forms h \/ load (crash_dir d xs k) = forms h'.
Proof. exact crash_one_op. Qed.
Print Assumptions C20_crash_one_operation.

(* (4) none duplicated, bounded by the configured limit *)
Theorem C20_no_adjacent_duplicates : forall st o, no_adj_dup (fst st) -> no_adj_dup (fst (spec_step st o)).
Proof. exact spec_no_adjacent_duplicates. Qed.
Print Assumptions C20_no_adjacent_duplicates.

Theorem C20_bounded : forall fs lim f,
  (0 < lim)%Z -> (Z.of_nat (List.length fs) <= lim + Z.quot lim 10)%Z ->
  (Z.of_nat (List.length (spec_add fs lim f)) <= lim + Z.quot lim 10)%Z.
Proof. exact spec_add_bounded. Qed.
Print Assumptions C20_bounded.

(* (5) outside `encodable` the faithful model violates "restart loads what was entered": known findings *)
Theorem C20_leading_blank_refuted :
  let '((h, d), _) := run start0 [OAdd F_lead] in forms h = [F_lead] /\ load d <> [F_lead].
Proof. exact leading_blank_refuted. Qed.
Print Assumptions C20_leading_blank_refuted.
Theorem C20_tab_in_form_refuted :
  let '((h, d), _) := run start0 [OAdd F_tab] in forms h = [F_tab] /\ load d <> [F_tab].
Proof. exact tab_in_form_refuted. Qed.
Print Assumptions C20_tab_in_form_refuted.

(* (6) the hypotheses are met by a history with appends, a multi-line form, a compaction, a clear,
   a limit change and restarts; it has 19 primitive steps, i.e. 20 crash points *)
Theorem C20_nonvacuous :
  Inv (fst start0) (snd start0) /\ Forall op_ok ex_ops /\
  List.length (snd (run start0 ex_ops)) = 19%nat /\ fst (spec_run ([], 10%Z) ex_ops) = [F 5].
Proof. exact example_ok. Qed.
Print Assumptions C20_nonvacuous.

(* saved settings: for EVERY history of sessions (each a list of setq's of watched variables), a session starts
   with, for every variable, the value last set in any earlier session (or the default if it never was):
   the rewrite-all-marked-variables scheme of updateConfigFile loses nothing because evaluating config.lisp
   at start-up marks every variable in it again (C20/Settings.v; the comparison with real REPL processes is
   run on every check) *)
From C20 Require Import Settings.
Theorem C20_settings_persist : forall sessions k,
  look (vals (m_start (fold_left m_session sessions m_init))) k = look (fold_left s_session sessions []) k.
Proof. exact settings_persist. Qed.
Print Assumptions C20_settings_persist.
