(* C20 — the stash (pkg/repl/stash.go): the stash file, written by Add in expanded form and by Clear
   one line per form, loads as exactly the forms in memory; every history of Add / Clear(range) /
   use-stash / restart ends in the specified list on disk and in memory; a death at any file-system
   step leaves the list before or after the interrupted operation.  All for EVERY reader `rd`. *)
From C20 Require Import Model Spec ProofsClear Proofs.
Open Scope N_scope.

Section Stash.
Variable rd : list byte -> rres.

(* ---------- the lines of the file ---------- *)
Lemma file_lines_line l rest :
  forallb (fun b => negb (N.eqb b NL)) l = true -> file_lines (l ++ NL :: rest) = l :: file_lines rest.
Proof. intros H. unfold file_lines. rewrite split_on_app_sep by exact H. apply removelast_cons, split_on_nonempty. Qed.

Lemma expand_app a b : expand (a ++ b) = expand a ++ expand b.
Proof. unfold expand. apply flat_map_app. Qed.

Lemma file_lines_expand f rest : forallb line_ok f = true -> file_lines (expand f ++ rest) = f ++ file_lines rest.
Proof.
  induction f as [|l f IH]; intros H; [reflexivity|]. cbn [forallb] in H. apply andb_true_iff in H as [Hl Hf].
  change (expand (l :: f)) with ((l ++ [NL]) ++ expand f). rewrite <- !app_assoc. cbn [app].
  rewrite file_lines_line by (apply line_ok_no_nl, Hl). rewrite (IH Hf). reflexivity.
Qed.

Lemma split_tab_line l : line_ok l = true -> split_on TAB l = [l].
Proof. intros H. apply split_on_none, line_ok_no_tab, H. Qed.

(* ---------- LoadExpanded, line by line ---------- *)
Lemma loadx_cons l ls buf fm : l <> [] \/ fm <> [] ->
  loadx_lines rd (l :: ls) buf fm =
  match rd (buf ++ expand (split_on TAB l)) with
  | RFull => let r := loadx_lines rd ls [] [] in ((fm ++ split_on TAB l) :: fst r, snd r)
  | RPartial => loadx_lines rd ls (buf ++ expand (split_on TAB l)) (fm ++ split_on TAB l)
  | RErr => ([], false)
  end.
Proof. intros [H|H]; destruct l, fm; try congruence; reflexivity. Qed.

Lemma first_nonempty_cons l f : first_nonempty (l :: f) = true -> l <> [].
Proof. destruct l; [discriminate|discriminate]. Qed.

(* the lines of a form written by Add: collected one by one (an empty line too, once the form has begun);
   the reader accepts after the last *)
Lemma loadx_chain : forall suf pre ls,
  forallb line_ok suf = true -> pre <> [] \/ first_nonempty suf = true -> chain rd pre suf = true ->
  loadx_lines rd (suf ++ ls) (expand pre) pre =
  (let r := loadx_lines rd ls [] [] in ((pre ++ suf) :: fst r, snd r)).
Proof.
  induction suf as [|l suf IH]; intros pre ls Hok Hne Hc; [discriminate Hc|].
  cbn [forallb] in Hok. apply andb_true_iff in Hok as [Hlo Hsuf].
  cbn [app]. rewrite loadx_cons by (destruct Hne as [Hne|Hne]; [right; exact Hne|left; apply (first_nonempty_cons l suf Hne)]).
  rewrite (split_tab_line l Hlo). rewrite <- expand_app.
  assert (Hpre : pre ++ [l] <> []) by (destruct pre; discriminate).
  destruct suf as [|l2 suf].
  - cbn [chain] in Hc. destruct (rd (expand (pre ++ [l]))); try discriminate Hc. reflexivity.
  - change (chain rd pre (l :: l2 :: suf)) with (is_partial (rd (expand (pre ++ [l]))) && chain rd (pre ++ [l]) (l2 :: suf)) in Hc.
    apply andb_true_iff in Hc as [Hp Hc]. destruct (rd (expand (pre ++ [l]))); try discriminate Hp.
    rewrite (IH (pre ++ [l]) ls Hsuf (or_introl Hpre) Hc). rewrite <- app_assoc. reflexivity.
Qed.

Lemma chain_full : forall suf pre, chain rd pre suf = true -> rd (expand (pre ++ suf)) = RFull.
Proof.
  induction suf as [|l suf IH]; intros pre Hc; [discriminate Hc|]. destruct suf as [|l2 suf].
  - cbn [chain] in Hc. destruct (rd (expand (pre ++ [l]))); try discriminate Hc. reflexivity.
  - change (chain rd pre (l :: l2 :: suf)) with (is_partial (rd (expand (pre ++ [l]))) && chain rd (pre ++ [l]) (l2 :: suf)) in Hc.
    apply andb_true_iff in Hc as [_ Hc]. specialize (IH _ Hc). rewrite <- app_assoc in IH. exact IH.
Qed.

Lemma sencodable_parts f : sencodable rd f = true ->
  f <> [] /\ first_nonempty f = true /\ forallb line_ok f = true /\ chain rd [] f = true /\ form_empty f = false.
Proof.
  unfold sencodable. rewrite !andb_true_iff. intros [[[Hl Hf] He] Hc]. apply negb_true_iff in He.
  split; [intros ->; discriminate Hc|]. repeat split; assumption.
Qed.

Lemma join_tab_nonempty f : first_nonempty f = true -> join_tab f <> [].
Proof.
  destruct f as [|l f]; [discriminate|]. intros H. apply first_nonempty_cons in H.
  destruct f; cbn [join_tab]; destruct l; try congruence; discriminate.
Qed.

(* a form written by Clear: one line, TABs between the lines of the form *)
Lemma loadx_tab f ls : sencodable rd f = true ->
  loadx_lines rd (join_tab f :: ls) [] [] = (let r := loadx_lines rd ls [] [] in (f :: fst r, snd r)).
Proof.
  intros H. destruct (sencodable_parts f H) as (Hne & Hs & Hl & Hc & _).
  rewrite loadx_cons by (left; apply join_tab_nonempty; assumption).
  rewrite (split_join_tab f Hne Hl). pose proof (chain_full f [] Hc) as Hf. cbn [app] in Hf |- *. rewrite Hf. reflexivity.
Qed.

(* ---------- the file: a chunk per form, in either format ---------- *)
Lemma file_lines_chunk p rest : sencodable rd (snd p) = true ->
  file_lines (chunk p ++ rest) = (if fst p then snd p ++ [[]] else [join_tab (snd p)]) ++ file_lines rest.
Proof.
  intros H. destruct (sencodable_parts _ H) as (Hne & Hs & Hl & Hc & _). destruct p as [[|] f]; cbn [fst snd chunk] in *.
  - rewrite <- !app_assoc. rewrite file_lines_expand by exact Hl. cbn [app].
    pose proof (file_lines_line [] rest eq_refl) as E. cbn [app] in E. rewrite E. reflexivity.
  - unfold tab_append. destruct f as [|l f]; [congruence|]. rewrite <- app_assoc. cbn [app].
    apply file_lines_line, join_tab_no_nl, Hl.
Qed.

Theorem loadx_enc l : Forall (fun p => sencodable rd (snd p) = true) l -> loadx_bytes rd (enc_mixed l) = (map snd l, true).
Proof.
  unfold loadx_bytes. induction 1 as [|p l Hp Hl IH]; [reflexivity|].
  unfold enc_mixed in *. cbn [flat_map map]. rewrite (file_lines_chunk p _ Hp).
  destruct (sencodable_parts _ Hp) as (Hne & Hs & Hlo & Hc & _).
  destruct p as [[|] f]; cbn [fst snd] in *.
  - rewrite <- app_assoc. change (expand []) with (@nil byte) in *.
    pose proof (loadx_chain f [] ([[]] ++ file_lines (flat_map chunk l)) Hlo (or_intror Hs) Hc) as E. cbn [app expand flat_map] in E.
    cbn [app]. refine (eq_trans E _). cbn [loadx_lines]. rewrite IH. reflexivity.
  - cbn [app]. rewrite (loadx_tab f _ Hp). rewrite IH. reflexivity.
Qed.

(* ---------- the invariant tying the stash in memory to its file ---------- *)
Definition SInv (fs : list form) (d : dir) : Prop :=
  Forall (fun f => sencodable rd f = true) fs /\
  ((exists l, map snd l = fs /\ d_hist d = Some (enc_mixed l)) \/ (d_hist d = None /\ fs = [])).

Lemma Forall_map_snd (P : form -> Prop) (l : list (bool * form)) : Forall P (map snd l) -> Forall (fun p => P (snd p)) l.
Proof. induction l as [|p l IH]; intros H; [constructor|]. inversion H; subst. constructor; auto. Qed.

Lemma SInv_load fs d : SInv fs d -> sload rd d = (fs, true).
Proof.
  intros [He [(l & Hl & Hd)|[Hd Hf]]]; unfold sload; rewrite Hd.
  - subst fs. apply loadx_enc. apply (Forall_map_snd (fun f => sencodable rd f = true)), He.
  - subst fs. reflexivity.
Qed.

Lemma sload_hist_eq d1 d2 : d_hist d1 = d_hist d2 -> sload rd d1 = sload rd d2.
Proof. unfold sload. intros ->. reflexivity. Qed.

Lemma enc_mixed_tab keep : enc_mixed (map (fun f => (false, f)) keep) = encode keep.
Proof. unfold enc_mixed, encode. induction keep as [|f keep IH]; [reflexivity|]. cbn [map flat_map chunk fst snd]. rewrite IH. reflexivity. Qed.
Lemma map_snd_tab (keep : list form) : map snd (map (fun f => (false, f)) keep) = keep.
Proof. induction keep as [|f keep IH]; [reflexivity|]. cbn [map snd]. rewrite IH. reflexivity. Qed.

Definition sop_ok (o : sop) : Prop := sop_encodable rd o = true.

(* one operation: the invariant is kept and memory follows the specification *)
Theorem sstep_spec fs d o :
  SInv fs d -> sop_ok o ->
  let '((fs', d'), _) := sstep rd (fs, d) o in SInv fs' d' /\ fs' = sspec_step fs o.
Proof.
  intros HI Ho. destruct o as [f|cs ce| |]; cbn [sstep].
  - (* Add *)
    unfold sadd, sspec_step, sspec_add.
    destruct (form_empty f) eqn:E1; [split; [exact HI|reflexivity]|].
    destruct (match rev fs with l :: _ => form_eqb f l | [] => false end) eqn:E2; [split; [exact HI|reflexivity]|].
    assert (Hf : sencodable rd f = true).
    { unfold sop_ok, sop_encodable in Ho. rewrite E1, orb_false_r in Ho. exact Ho. }
    destruct HI as [He Hd]. split; [|reflexivity]. split.
    + apply Forall_app. split; [exact He|repeat constructor; exact Hf].
    + left. unfold exec_prims. cbn [fold_left exec_prim dget].
      destruct Hd as [(l & Hl & Hd)|[Hd Hn]].
      * exists (l ++ [(true, f)]). split; [rewrite map_app, Hl; reflexivity|].
        rewrite Hd. cbn [dset dget d_hist]. rewrite Hd. cbn [dset d_hist]. unfold enc_mixed. rewrite flat_map_app. cbn [flat_map chunk fst snd].
        rewrite app_nil_r. reflexivity.
      * exists [(true, f)]. split; [rewrite Hn; reflexivity|].
        rewrite Hd. cbn [dset dget d_hist]. unfold enc_mixed. cbn [flat_map chunk fst snd app]. rewrite app_nil_r. reflexivity.
  - (* Clear *)
    unfold sclear. cbn [sspec_step]. rewrite exec_rewrite, <- clear_range_spec. split; [|reflexivity].
    destruct HI as [He _]. split; [apply Forall_clear_range, He|]. left.
    exists (map (fun f => (false, f)) (clear_range fs cs ce)). split; [apply map_snd_tab|].
    cbn [d_hist]. rewrite enc_mixed_tab. reflexivity.
  - (* use-stash: a missing file is created empty *)
    cbn [sspec_step]. unfold suse_prims. destruct HI as [He [(l & Hl & Hd)|[Hd Hn]]]; rewrite Hd.
    + unfold exec_prims. cbn [fold_left].
      assert (HI : SInv fs d) by (split; [exact He|left; exists l; auto]).
      rewrite (SInv_load fs d HI). cbn [fst]. split; [exact HI|reflexivity].
    + subst fs. unfold exec_prims. cbn [fold_left exec_prim dget]. rewrite Hd. cbn [dset dget d_hist app].
      unfold sload. cbn [d_hist]. cbn. split; [|reflexivity]. split; [constructor|]. left. exists []. split; reflexivity.
  - (* restart *)
    cbn [sspec_step]. rewrite (SInv_load fs d HI). cbn [fst]. split; [exact HI|reflexivity].
Qed.

(* ---------- every history ---------- *)
Theorem srun_spec ops : forall fs d, SInv fs d -> Forall sop_ok ops ->
  let '((fs', d'), _) := srun rd (fs, d) ops in
  SInv fs' d' /\ fs' = sspec_run fs ops /\ sload rd d' = (fs', true).
Proof.
  induction ops as [|o ops IH]; intros fs d HI Hok; cbn [srun].
  - split; [exact HI|split; [reflexivity|apply SInv_load, HI]].
  - inversion Hok as [|? ? Ho Hok']; subst.
    pose proof (sstep_spec fs d o HI Ho) as Hs. destruct (sstep rd (fs, d) o) as [[fs1 d1] xs]. destruct Hs as [HI1 Hsp].
    specialize (IH fs1 d1 HI1 Hok'). destruct (srun rd (fs1, d1) ops) as [[fs2 d2] ys]. destruct IH as (HI2 & Hr & Hl).
    split; [exact HI2|split; [|exact Hl]]. unfold sspec_run in *. cbn [fold_left]. rewrite <- Hsp. exact Hr.
Qed.

(* ---------- a death at any file-system step ---------- *)
Lemma sstep_prims_exec fs d o : let '((_, d'), xs) := sstep rd (fs, d) o in d' = exec_prims d xs.
Proof.
  destruct o; cbn [sstep].
  - destruct (sadd fs f); reflexivity.
  - reflexivity.
  - reflexivity.
  - reflexivity.
Qed.

Theorem scrash_one_op fs d o k :
  SInv fs d -> sop_ok o ->
  let '((fs', d'), xs) := sstep rd (fs, d) o in
  sload rd (crash_dir d xs k) = (fs, true) \/ sload rd (crash_dir d xs k) = (fs', true).
Proof.
  intros HI Ho. pose proof (sstep_spec fs d o HI Ho) as Hs. pose proof (sstep_prims_exec fs d o) as Hx.
  destruct (sstep rd (fs, d) o) as [[fs' d'] xs] eqn:Es. destruct Hs as [HI' _].
  unfold crash_dir.
  destruct (Nat.le_gt_cases (List.length xs) k) as [Hk|Hk].
  - right. rewrite firstn_all2 by exact Hk. rewrite <- Hx. apply SInv_load, HI'.
  - left. rewrite <- (SInv_load fs d HI).
    destruct o as [f|cs ce| |]; cbn [sstep] in Es.
    + unfold sadd in Es.
      destruct (form_empty f); [injection Es as _ _ <-; destruct k; reflexivity|].
      destruct (match rev fs with l :: _ => form_eqb f l | [] => false end); [injection Es as _ _ <-; destruct k; reflexivity|].
      injection Es as _ _ <-. cbn [List.length] in Hk.
      destruct k as [|[|k]]; [reflexivity| |lia].
      cbn [firstn]. unfold exec_prims; cbn [fold_left exec_prim dget].
      destruct HI as [_ [(l & _ & Hd)|[Hd Hn]]]; rewrite Hd; [reflexivity|].
      unfold sload. cbn [dset d_hist]. rewrite Hd. reflexivity.
    + unfold sclear in Es. injection Es as _ _ <-. apply sload_hist_eq, rewrite_crash, Hk.
    + injection Es as _ _ <-. unfold suse_prims in *.
      destruct HI as [_ [(l & _ & Hd)|[Hd Hn]]]; rewrite Hd in *; [cbn [List.length] in Hk; lia|].
      cbn [List.length] in Hk. destruct k as [|[|k]]; [reflexivity| |lia].
      cbn [firstn]. unfold exec_prims; cbn [fold_left exec_prim dget]. rewrite Hd.
      unfold sload. cbn [dset d_hist]. rewrite Hd. reflexivity.
    + injection Es as _ _ <-. destruct k; reflexivity.
Qed.

Lemma sspec_states_head fs ops : In fs (sspec_states fs ops).
Proof. destruct ops; left; reflexivity. Qed.

Theorem scrash_any_point ops : forall fs d K, SInv fs d -> Forall sop_ok ops ->
  exists fs', In fs' (sspec_states fs ops) /\ sload rd (crash_dir d (snd (srun rd (fs, d) ops)) K) = (fs', true).
Proof.
  induction ops as [|o ops IH]; intros fs d K HI Hok.
  - cbn. exists fs. split; [left; reflexivity|]. unfold crash_dir. rewrite firstn_nil. apply SInv_load, HI.
  - inversion Hok as [|? ? Ho Hok']; subst. cbn [srun].
    pose proof (sstep_spec fs d o HI Ho) as Hs. pose proof (scrash_one_op fs d o K HI Ho) as Hc.
    pose proof (sstep_prims_exec fs d o) as Hx.
    destruct (sstep rd (fs, d) o) as [[fs1 d1] xs] eqn:Es. destruct Hs as [HI1 Hsp].
    specialize (IH fs1 d1 (K - List.length xs)%nat HI1 Hok').
    destruct (srun rd (fs1, d1) ops) as [[fs2 d2] ys] eqn:Er. cbn [snd] in *.
    cbn [sspec_states]. rewrite <- Hsp.
    destruct (Nat.le_gt_cases K (List.length xs)) as [Hk|Hk].
    + unfold crash_dir in *. rewrite firstn_app. replace (K - List.length xs)%nat with 0%nat by lia.
      cbn [firstn]. rewrite app_nil_r.
      destruct Hc as [Hc|Hc]; rewrite Hc; [exists fs; split; [left|]; reflexivity|].
      exists fs1. split; [right; apply sspec_states_head|reflexivity].
    + destruct IH as (fs' & Hin & Hl). exists fs'. split; [right; exact Hin|].
      unfold crash_dir in *. rewrite firstn_app, (firstn_all2 xs) by lia.
      unfold exec_prims in *. rewrite fold_left_app. rewrite <- Hx. exact Hl.
Qed.

End Stash.

(* ---------- Stash.Nth: numbered from the most recent form ---------- *)
Theorem nth_form_spec fs n :
  nth_form fs n = if (0 <=? n)%Z then nth (Z.to_nat n) (rev fs) [] else [].
Proof.
  unfold nth_form. set (len := Z.of_nat (List.length fs)).
  destruct (0 <=? n)%Z eqn:E0; [apply Z.leb_le in E0|apply Z.leb_gt in E0].
  - destruct (n <? len)%Z eqn:E1; [apply Z.ltb_lt in E1|apply Z.ltb_ge in E1].
    + replace ((0 <=? len - n - 1)%Z && (len - n - 1 <? len)%Z) with true
        by (symmetry; apply andb_true_iff; split; [apply Z.leb_le|apply Z.ltb_lt]; lia).
      rewrite rev_nth by (unfold len in E1; lia). f_equal. unfold len. lia.
    + replace (0 <=? len - n - 1)%Z with false by (symmetry; apply Z.leb_gt; lia). cbn [andb].
      symmetry. apply nth_overflow. rewrite rev_length. unfold len in E1. lia.
  - replace (len - n - 1 <? len)%Z with false by (symmetry; apply Z.ltb_ge; lia). rewrite andb_false_r. reflexivity.
Qed.

(* ---------- witnesses with the parenthesis reader ---------- *)
Definition B (s : list N) : line := s.
Definition SA : form := [[40; 97; 41]].                         (* (a) *)
Definition SB : form := [[40; 98; 32; 34; 40; 34]; [32; 32; 49; 41]].   (* (b "("  /   1) *)
Definition SC : form := [[32; 40; 99; 41; 32]].                 (* " (c) ": blanks at the ends are kept *)
Definition SD : form := [[40; 100]; [41]].                      (* (d  /  ) *)
Definition sstart0 : list form * dir := ([], {| d_hist := None; d_tmp := None |}).
Definition sex_ops : list sop :=
  [SUse; SAdd SA; SAdd SB; SAdd SB; SRestart; SAdd SC; SAdd SD; SClear 1 2; SUse; SAdd SA; SClear 0 0; SRestart; SClear 0 (-1)].
Lemma stash_example_ok :
  SInv rd_paren (fst sstart0) (snd sstart0) /\ Forall (sop_ok rd_paren) sex_ops /\
  List.length (snd (srun rd_paren sstart0 sex_ops)) = 22%nat /\
  sspec_run [] (firstn 12 sex_ops) = [SA; SD] /\ sspec_run [] (firstn 8 sex_ops) = [SA; SD].
Proof.
  split; [split; [constructor|right; split; reflexivity]|]. split.
  - repeat constructor.
  - repeat split; vm_compute; reflexivity.
Qed.

(* an empty line inside a form: kept by the repaired LoadExpanded, lost by the one before repo fix C20-4 *)
Definition SE : form := [[40; 101]; []; [41]].                  (* (e / <empty> / ) *)
Definition SP : form := [[40; 112]].                            (* (p   -- incomplete *)
Lemma stash_empty_line_refuted :
  let '((fs, d), _) := srun rd_paren sstart0 [SUse; SAdd SE] in
  fs = [SE] /\ sencodable rd_paren SE = true /\ sload rd_paren d = ([SE], true) /\
  match d_hist d with
  | Some bs => loadx_lines_old rd_paren (file_lines bs) [] [] = ([[[40; 101]; [41]]], true)
  | None => False
  end.
Proof. vm_compute. repeat split. Qed.
(* outside the guard (known finding): an incomplete form swallows the forms stashed after it *)
Lemma stash_incomplete_form_refuted :
  let '((fs, d), _) := srun rd_paren sstart0 [SUse; SAdd SP; SAdd SA] in
  fs = [SP; SA] /\ sload rd_paren d = ([], true).
Proof. vm_compute. split; reflexivity. Qed.

(* before repo fix C20-2, Clear rewrote the file in place: a death after the truncation or between the
   writes leaves a file that loads as neither the list before nor the list after (History and Stash) *)
Lemma clear_inplace_crash_refuted :
  let fs := [F 1; F 2; F 3] in
  let d := {| d_hist := Some (encode fs); d_tmp := None |} in
  let keep := clear_range fs 0 0 in
  keep = [F 1; F 2] /\
  load (crash_dir d (rewrite_inplace keep) 1) = [] /\ load (crash_dir d (rewrite_inplace keep) 2) = [F 1] /\
  fst (sload rd_paren (crash_dir d (rewrite_inplace keep) 1)) = [] /\
  fst (sload rd_paren (crash_dir d (rewrite_inplace keep) 2)) = [F 1].
Proof. vm_compute. repeat split. Qed.
