(* C20 — specification S: what the REPL remembers is a pure function of what the user did. *)
From C20 Require Export Model.

(* forms the file format can carry: no TAB or NL inside a line, at least one line, the first line
   does not begin and the last line does not end with white space (so the form is not blank) *)
Definition line_ok (l : line) : bool := forallb (fun b => negb (N.eqb b TAB) && negb (N.eqb b NL)) l.
Definition starts_ok (l : line) : bool := match l with b :: _ => negb (is_space b) | [] => false end.
Definition encodable (f : form) : bool :=
  forallb line_ok f &&
  match f with [] => false | l :: _ => starts_ok l end &&
  match rev f with [] => false | l :: _ => starts_ok (rev l) end.

(* the remembered list: adjacent duplicates and blank forms are not recorded; when the list reaches
   limit + limit/10 entries it is cut back to the most recent `limit` *)
Definition spec_add (fs : list form) (lim : Z) (f : form) : list form :=
  if (lim <=? 0)%Z || form_empty f then fs
  else if match rev fs with l :: _ => form_eqb f l | [] => false end then fs
  else let fs' := fs ++ [f] in
       if (lim + Z.quot lim 10 <=? Z.of_nat (List.length fs'))%Z
       then skipn (List.length fs' - Z.to_nat lim) fs' else fs'.

(* clearing a range: the entries whose distance from the most recent one lies in start..end go, the
   others stay in order (a negative end means "to the oldest") *)
Definition in_range (i s e : Z) : bool := ((s <=? i) && ((e <? 0) || (i <=? e)))%Z.
Fixpoint drop_range {A} (i : Z) (l : list A) (s e : Z) : list A :=
  match l with
  | [] => []
  | x :: l' => (if in_range i s e then [] else [x]) ++ drop_range (i + 1) l' s e
  end.
Definition spec_clear {A} (fs : list A) (s e : Z) : list A := rev (drop_range 0 (rev fs) s e).

Definition spec_step (st : list form * Z) (o : op) : list form * Z :=
  let '(fs, lim) := st in
  match o with
  | OAdd f => (spec_add fs lim f, lim)
  | OClear s e => (spec_clear fs s e, lim)
  | OLimit n => (fs, n)
  | ORestart => (fs, lim)          (* a restart changes nothing *)
  end.
Definition spec_run (st : list form * Z) (ops : list op) : list form * Z := fold_left spec_step ops st.

Definition op_encodable (o : op) : bool := match o with OAdd f => encodable f || form_empty f | _ => true end.

(* the file that holds exactly fs *)
Definition encode (fs : list form) : list byte := flat_map tab_append fs.

(* the remembered list before the first and after every operation of a history *)
Fixpoint spec_states (st : list form * Z) (ops : list op) : list (list form) :=
  fst st :: match ops with [] => [] | o :: ops' => spec_states (spec_step st o) ops' end.

(* ================= Stash ================= *)
(* forms the stash file can carry, given the reader: no TAB or NL inside a line, the first line not
   empty, not blank, and the reader accepts the text exactly when the last line has been read
   (complete, and not complete earlier) *)
Definition first_nonempty (f : form) : bool := match f with (_ :: _) :: _ => true | _ => false end.
Definition is_full (r : rres) : bool := match r with RFull => true | _ => false end.
Definition is_partial (r : rres) : bool := match r with RPartial => true | _ => false end.
Fixpoint chain (rd : list byte -> rres) (pre suf : form) : bool :=
  match suf with
  | [] => false
  | [l] => is_full (rd (expand (pre ++ [l])))
  | l :: suf' => is_partial (rd (expand (pre ++ [l]))) && chain rd (pre ++ [l]) suf'
  end.
Definition sencodable (rd : list byte -> rres) (f : form) : bool :=
  forallb line_ok f && first_nonempty f && negb (form_empty f) && chain rd [] f.

(* the remembered stash: blank forms and a repetition of the most recent form are not recorded *)
Definition sspec_add (fs : list form) (f : form) : list form :=
  if form_empty f then fs
  else if match rev fs with l :: _ => form_eqb f l | [] => false end then fs
  else fs ++ [f].
Definition sspec_step (fs : list form) (o : sop) : list form :=
  match o with
  | SAdd f => sspec_add fs f
  | SClear s e => spec_clear fs s e
  | SUse | SRestart => fs          (* loading the stash again changes nothing *)
  end.
Definition sspec_run (fs : list form) (ops : list sop) : list form := fold_left sspec_step ops fs.
Definition sop_encodable (rd : list byte -> rres) (o : sop) : bool :=
  match o with SAdd f => sencodable rd f || form_empty f | _ => true end.
Fixpoint sspec_states (fs : list form) (ops : list sop) : list (list form) :=
  fs :: match ops with [] => [] | o :: ops' => sspec_states (sspec_step fs o) ops' end.
(* the stash file after a rewrite / with every form appended by Add *)
Definition chunk (p : bool * form) : list byte := if fst p then expand (snd p) ++ [NL] else tab_append (snd p).
Definition enc_mixed (l : list (bool * form)) : list byte := flat_map chunk l.
