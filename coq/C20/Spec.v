(* C20 — specification S: what the REPL remembers is a pure function of what the user did. *)
From C20 Require Export Model.

(* forms the file format can carry: no TAB or NL inside a line, at least one line, the first line
   does not begin and the last line does not end with white space (so the form is not blank) *)
Definition line_ok (l : line) : bool := forallb (fun b => negb (N.eqb b TAB) && negb (N.eqb b NL)) l.
Definition starts_ok (l : line) : bool := match l with b :: _ => negb (is_space b) | [] => false end.
Definition encodable (f : form) : bool :=
  forallb line_ok f &&
  match f with [] => false | l :: _ => starts_ok l end &&
  match rev f with [] => false | l :: _ => starts_ok (rev l) end.

(* the remembered list: adjacent duplicates and blank forms are not recorded; when the list reaches
   limit + limit/10 entries it is cut back to the most recent `limit` *)
Definition spec_add (fs : list form) (lim : Z) (f : form) : list form :=
  if (lim <=? 0)%Z || form_empty f then fs
  else if match rev fs with l :: _ => form_eqb f l | [] => false end then fs
  else let fs' := fs ++ [f] in
       if (lim + Z.quot lim 10 <=? Z.of_nat (List.length fs'))%Z
       then skipn (List.length fs' - Z.to_nat lim) fs' else fs'.

Definition spec_step (st : list form * Z) (o : op) : list form * Z :=
  let '(fs, lim) := st in
  match o with
  | OAdd f => (spec_add fs lim f, lim)
  | OClear => ([], lim)
  | OLimit n => (fs, n)
  | ORestart => (fs, lim)          (* a restart changes nothing *)
  end.
Definition spec_run (st : list form * Z) (ops : list op) : list form * Z := fold_left spec_step ops st.

Definition op_encodable (o : op) : bool := match o with OAdd f => encodable f || form_empty f | _ => true end.

(* the file that holds exactly fs *)
Definition encode (fs : list form) : list byte := flat_map tab_append fs.

(* the remembered list before the first and after every operation of a history *)
Fixpoint spec_states (st : list form * Z) (ops : list op) : list (list form) :=
  fst st :: match ops with [] => [] | o :: ops' => spec_states (spec_step st o) ops' end.
