(* C20 — proofs: the file encoding round-trips, a restart loads exactly the remembered list, and a
   death at any file-system step leaves the list before or after the interrupted operation. *)
From C20 Require Import Model Spec ProofsClear.
Open Scope N_scope.

(* ---------- split_on ---------- *)
Lemma split_on_nonempty sep bs : split_on sep bs <> [].
Proof. induction bs as [|b bs IH]; cbn; [discriminate|]. destruct (N.eqb b sep); [discriminate|]. destruct (split_on sep bs); [contradiction|discriminate]. Qed.

Lemma split_on_app_sep sep l rest :
  forallb (fun b => negb (N.eqb b sep)) l = true ->
  split_on sep (l ++ sep :: rest) = l :: split_on sep rest.
Proof.
  induction l as [|b l IH]; cbn; intros H.
  - rewrite N.eqb_refl. reflexivity.
  - apply andb_true_iff in H as [Hb Hl]. apply negb_true_iff in Hb. rewrite Hb, (IH Hl). reflexivity.
Qed.
Lemma split_on_none sep l : forallb (fun b => negb (N.eqb b sep)) l = true -> split_on sep l = [l].
Proof.
  induction l as [|b l IH]; cbn; intros H; [reflexivity|].
  apply andb_true_iff in H as [Hb Hl]. apply negb_true_iff in Hb. rewrite Hb, (IH Hl). reflexivity.
Qed.

Lemma line_ok_no_tab l : line_ok l = true -> forallb (fun b => negb (N.eqb b TAB)) l = true.
Proof. unfold line_ok. induction l as [|b l IH]; cbn; [reflexivity|]. rewrite !andb_true_iff. intros [[H1 _] H2]. auto. Qed.
Lemma line_ok_no_nl l : line_ok l = true -> forallb (fun b => negb (N.eqb b NL)) l = true.
Proof. unfold line_ok. induction l as [|b l IH]; cbn; [reflexivity|]. rewrite !andb_true_iff. intros [[_ H1] H2]. auto. Qed.

(* splitting the TAB-joined lines gives the lines back *)
Lemma split_join_tab f : f <> [] -> forallb line_ok f = true -> split_on TAB (join_tab f) = f.
Proof.
  induction f as [|l f IH]; [congruence|]. intros _ H. cbn [forallb] in H. apply andb_true_iff in H as [Hl Hf].
  destruct f as [|l2 f].
  - cbn [join_tab]. apply split_on_none, line_ok_no_tab, Hl.
  - change (join_tab (l :: l2 :: f)) with (l ++ TAB :: join_tab (l2 :: f)).
    rewrite split_on_app_sep by (apply line_ok_no_tab, Hl). f_equal. apply IH; [discriminate|exact Hf].
Qed.

Lemma join_tab_no_nl f : forallb line_ok f = true -> forallb (fun b => negb (N.eqb b NL)) (join_tab f) = true.
Proof.
  induction f as [|l f IH]; [reflexivity|]. cbn [forallb]. rewrite andb_true_iff. intros [Hl Hf].
  destruct f as [|l2 f]; [apply line_ok_no_nl, Hl|].
  change (join_tab (l :: l2 :: f)) with (l ++ TAB :: join_tab (l2 :: f)).
  rewrite forallb_app. apply andb_true_intro. split; [apply line_ok_no_nl, Hl|].
  cbn [forallb]. apply andb_true_intro. split; [reflexivity|apply IH, Hf].
Qed.

(* ---------- trim_space ---------- *)
Lemma trim_left_id l : starts_ok l = true -> trim_left l = l.
Proof. destruct l as [|b l]; [discriminate|]. cbn. intros H. apply negb_true_iff in H. rewrite H. reflexivity. Qed.
Lemma trim_space_id l : starts_ok l = true -> starts_ok (rev l) = true -> trim_space l = l.
Proof. intros H1 H2. unfold trim_space. rewrite (trim_left_id l H1), (trim_left_id _ H2). apply rev_involutive. Qed.

Lemma starts_ok_app l r : starts_ok l = true -> starts_ok (l ++ r) = true.
Proof. destruct l; [discriminate|]. cbn. auto. Qed.

Lemma join_tab_starts f l : starts_ok l = true -> starts_ok (join_tab (l :: f)) = true.
Proof. intros H. destruct f; [exact H|]. change (join_tab (l :: l0 :: f)) with (l ++ TAB :: join_tab (l0 :: f)). apply starts_ok_app, H. Qed.

Lemma join_tab_ends f l0 : rev f = l0 :: tl (rev f) -> f <> [] -> starts_ok (rev l0) = true -> starts_ok (rev (join_tab f)) = true.
Proof.
  revert l0. induction f as [|l f IH]; intros l0 Hr Hne Hs; [congruence|].
  destruct f as [|l2 f].
  - cbn in Hr. injection Hr as <-. exact Hs.
  - change (join_tab (l :: l2 :: f)) with (l ++ TAB :: join_tab (l2 :: f)).
    rewrite rev_app_distr. cbn [rev]. rewrite <- app_assoc.
    apply starts_ok_app. apply (IH l0); [|discriminate|exact Hs].
    (* the last line of l :: l2 :: f is the last line of l2 :: f *)
    cbn [rev] in Hr |- *. destruct (rev f ++ [l2]) as [|x xs] eqn:E.
    + destruct (rev f); discriminate.
    + cbn in Hr |- *. injection Hr as Hx. rewrite Hx. reflexivity.
Qed.

(* ---------- the round trip ---------- *)
Lemma encodable_parts f : encodable f = true ->
  f <> [] /\ forallb line_ok f = true /\ starts_ok (join_tab f) = true /\ starts_ok (rev (join_tab f)) = true.
Proof.
  unfold encodable. rewrite !andb_true_iff. intros [[Hl Hs] He].
  destruct f as [|l f]; [discriminate|]. split; [discriminate|]. split; [exact Hl|]. split.
  - apply join_tab_starts, Hs.
  - destruct (rev (l :: f)) as [|l0 r] eqn:Er; [discriminate|].
    apply (join_tab_ends (l :: f) l0); [change (rev (l :: f) = l0 :: tl (rev (l :: f))); rewrite Er; reflexivity|discriminate|exact He].
Qed.

Lemma removelast_cons {A} (a : A) l : l <> [] -> removelast (a :: l) = a :: removelast l.
Proof. destruct l; [congruence|reflexivity]. Qed.

Lemma file_lines_encode fs : Forall (fun f => encodable f = true) fs -> file_lines (encode fs) = map join_tab fs.
Proof.
  unfold file_lines. induction 1 as [|f fs Hf Hfs IH]; [reflexivity|].
  destruct (encodable_parts f Hf) as (Hne & Hl & _ & _).
  unfold encode in *. cbn [flat_map map]. unfold tab_append at 1. destruct f as [|l f']; [congruence|].
  rewrite <- app_assoc. cbn [app]. rewrite split_on_app_sep by (apply join_tab_no_nl, Hl).
  rewrite removelast_cons by apply split_on_nonempty. f_equal. exact IH.
Qed.

Theorem load_encode fs : Forall (fun f => encodable f = true) fs -> load_bytes (encode fs) = fs.
Proof.
  intros H. unfold load_bytes. rewrite (file_lines_encode fs H).
  induction H as [|f fs Hf Hfs IH]; [reflexivity|]. cbn [map flat_map].
  destruct (encodable_parts f Hf) as (Hne & Hl & Hs & He).
  rewrite (trim_space_id _ Hs He). rewrite IH.
  destruct (join_tab f) eqn:Ej; [discriminate Hs|]. rewrite <- Ej. rewrite (split_join_tab f Hne Hl). reflexivity.
Qed.

(* ---------- the invariant tying memory to the history file ---------- *)
Definition Inv (h : hist) (d : dir) : Prop :=
  Forall (fun f => encodable f = true) (forms h) /\
  (d_hist d = Some (encode (forms h)) \/ (d_hist d = None /\ forms h = [])).

Lemma Inv_load h d : Inv h d -> load d = forms h.
Proof.
  intros [He [Hd|[Hd Hf]]]; unfold load; rewrite Hd; [apply load_encode, He|symmetry; exact Hf].
Qed.

Lemma encode_app a b : encode (a ++ b) = encode a ++ encode b.
Proof. unfold encode. apply flat_map_app. Qed.

Lemma Forall_skipn {A} (P : A -> Prop) n l : Forall P l -> Forall P (skipn n l).
Proof. revert l; induction n as [|n IH]; intros l H; [exact H|]. destruct l; [constructor|]. inversion H; subst. apply IH; assumption. Qed.

(* writing the forms one by one appends their encoding *)
Lemma exec_writes p d c fs :
  dget d p = Some c ->
  dget (exec_prims d (map (fun g => PWrite p (tab_append g)) fs)) p = Some (c ++ encode fs) /\
  (forall q, q <> p -> dget (exec_prims d (map (fun g => PWrite p (tab_append g)) fs)) q = dget d q).
Proof.
  revert d c. induction fs as [|f fs IH]; intros d c Hd; cbn.
  - rewrite app_nil_r. auto.
  - unfold exec_prims in *. cbn [fold_left exec_prim]. rewrite Hd.
    destruct (IH (dset d p (Some (c ++ tab_append f))) (c ++ tab_append f)) as [H1 H2].
    { destruct p; reflexivity. }
    split.
    + rewrite H1. unfold encode; cbn [flat_map]. rewrite app_assoc. reflexivity.
    + intros q Hq. rewrite H2 by exact Hq. destruct p, q; try reflexivity; congruence.
Qed.

(* rewriting through the temporary file: afterwards the file holds exactly the forms written and the
   temporary file is gone, whatever was in it before *)
Lemma exec_rewrite d keep : exec_prims d (rewrite_prims keep) = {| d_hist := Some (encode keep); d_tmp := None |}.
Proof.
  unfold rewrite_prims, exec_prims. cbn [fold_left]. rewrite fold_left_app. cbn [fold_left].
  set (d1 := exec_prim d (POpen PTmp true)).
  assert (Ht : dget d1 PTmp = Some []) by (unfold d1; cbn; destruct (d_tmp d); reflexivity).
  destruct (exec_writes PTmp d1 [] keep Ht) as [H1 _]. fold (exec_prims d1 (map (fun g => PWrite PTmp (tab_append g)) keep)).
  cbn [dget] in H1. cbn [exec_prim]. rewrite H1. reflexivity.
Qed.

Definition op_ok (o : op) : Prop := match o with OAdd f => encodable f = true \/ form_empty f = true | _ => True end.

(* one operation: the invariant is kept and memory follows the specification *)
Theorem step_spec h d o :
  Inv h d -> op_ok o ->
  let '((h', d'), _) := step (h, d) o in
  Inv h' d' /\ (forms h', limit h') = spec_step (forms h, limit h) o.
Proof.
  intros HI Ho. destruct o as [f|cs ce|n|]; cbn [step].
  - (* Add *)
    unfold add, spec_step, spec_add, hmax.
    destruct ((limit h <=? 0)%Z || form_empty f) eqn:E1; [split; [exact HI|reflexivity]|].
    destruct (match rev (forms h) with l :: _ => form_eqb f l | [] => false end) eqn:E2; [split; [exact HI|reflexivity]|].
    assert (Hf : encodable f = true).
    { destruct Ho as [Ho|Ho]; [exact Ho|]. apply orb_false_iff in E1 as [_ E1]. congruence. }
    destruct HI as [He Hd].
    assert (He' : Forall (fun g => encodable g = true) (forms h ++ [f])) by (apply Forall_app; split; [exact He|repeat constructor; exact Hf]).
    destruct ((limit h + Z.quot (limit h) 10 <=? Z.of_nat (List.length (forms h ++ [f])))%Z) eqn:E3.
    + (* compaction through the temporary file *)
      cbn [fst snd forms limit]. split; [|reflexivity].
      set (keep := skipn (List.length (forms h ++ [f]) - Z.to_nat (limit h)) (forms h ++ [f])).
      split; [apply Forall_skipn, He'|]. left.
      unfold exec_prims. cbn [fold_left]. rewrite fold_left_app. cbn [fold_left].
      set (d1 := exec_prim d (POpen PTmp true)).
      assert (Ht : dget d1 PTmp = Some []) by (unfold d1; cbn; destruct (d_tmp d); reflexivity).
      destruct (exec_writes PTmp d1 [] keep Ht) as [H1 _]. fold (exec_prims d1 (map (fun g => PWrite PTmp (tab_append g)) keep)).
      cbn [dget] in H1. cbn [exec_prim]. rewrite H1. reflexivity.
    + (* append one line *)
      cbn [fst snd forms limit]. split; [|reflexivity]. split; [exact He'|]. left.
      unfold exec_prims. cbn [fold_left]. unfold exec_prim, dget, dset. cbn [forms].
      destruct Hd as [Hd|[Hd Hn]].
      * rewrite !Hd. cbn [d_hist]. rewrite encode_app. unfold encode at 3. cbn [flat_map]. rewrite app_nil_r. reflexivity.
      * rewrite !Hd, Hn. cbn. unfold encode. cbn. rewrite app_nil_r. reflexivity.
  - (* Clear: the range arithmetic is the specification's; the file is rewritten through the temporary file *)
    unfold clear. cbn [fst snd forms limit spec_step]. rewrite exec_rewrite, <- clear_range_spec.
    split; [|reflexivity]. destruct HI as [He _]. split; [apply Forall_clear_range, He|]. left. reflexivity.
  - (* SetLimit *)
    cbn. split; [exact HI|reflexivity].
  - (* Restart *)
    cbn. rewrite (Inv_load h d HI). split; [|reflexivity]. destruct h; exact HI.
Qed.

(* ---------- every history ---------- *)
Theorem run_spec ops : forall h d, Inv h d -> Forall op_ok ops ->
  let '((h', d'), _) := run (h, d) ops in
  Inv h' d' /\ (forms h', limit h') = spec_run (forms h, limit h) ops /\ load d' = forms h'.
Proof.
  induction ops as [|o ops IH]; intros h d HI Hok; cbn [run].
  - split; [exact HI|split; [reflexivity|apply Inv_load, HI]].
  - inversion Hok as [|? ? Ho Hok']; subst.
    pose proof (step_spec h d o HI Ho) as Hs. destruct (step (h, d) o) as [[h1 d1] xs]. destruct Hs as [HI1 Hsp].
    specialize (IH h1 d1 HI1 Hok'). destruct (run (h1, d1) ops) as [[h2 d2] ys]. destruct IH as (HI2 & Hr & Hl).
    split; [exact HI2|split; [|exact Hl]]. unfold spec_run in *. cbn [fold_left]. rewrite <- Hsp. exact Hr.
Qed.

(* ---------- a death at any file-system step ---------- *)
Definition tmp_only (x : prim) : bool := match x with POpen PTmp _ | PWrite PTmp _ => true | _ => false end.
Lemma tmp_only_hist xs : forall d, forallb tmp_only xs = true -> d_hist (exec_prims d xs) = d_hist d.
Proof.
  unfold exec_prims. induction xs as [|x xs IH]; intros d H; [reflexivity|]. cbn [fold_left].
  cbn [forallb] in H. apply andb_true_iff in H as [Hx Hxs]. rewrite (IH _ Hxs).
  destruct x as [[|] t|[|] bs|]; try discriminate; cbn.
  - destruct (d_tmp d); [destruct t|]; reflexivity.
  - destruct (d_tmp d); reflexivity.
Qed.

Lemma forallb_firstn {A} (f : A -> bool) n l : forallb f l = true -> forallb f (firstn n l) = true.
Proof. revert l; induction n as [|n IH]; intros l H; [reflexivity|]. destruct l; [reflexivity|]. cbn in *. apply andb_true_iff in H as [H1 H2]. rewrite H1, (IH _ H2). reflexivity. Qed.

Lemma load_hist_eq d1 d2 : d_hist d1 = d_hist d2 -> load d1 = load d2.
Proof. unfold load. intros ->. reflexivity. Qed.

(* the file itself is untouched until the rename, the last step *)
Lemma rewrite_crash d keep k : (k < List.length (rewrite_prims keep))%nat ->
  d_hist (exec_prims d (firstn k (rewrite_prims keep))) = d_hist d.
Proof.
  intros Hk. apply tmp_only_hist. unfold rewrite_prims in *.
  set (ws := map (fun g => PWrite PTmp (tab_append g)) keep) in *.
  cbn [List.length] in Hk. rewrite app_length in Hk. cbn [List.length] in Hk.
  replace (firstn k (POpen PTmp true :: ws ++ [PRename])) with (firstn k (POpen PTmp true :: ws)).
  - apply forallb_firstn. cbn [forallb tmp_only andb]. unfold ws. rewrite forallb_forall. intros x Hx.
    apply in_map_iff in Hx as (g & <- & _). reflexivity.
  - rewrite !app_comm_cons. rewrite firstn_app. cbn [List.length].
    replace (k - S (List.length ws))%nat with 0%nat by lia. cbn [firstn]. rewrite app_nil_r. reflexivity.
Qed.

Theorem crash_one_op h d o k :
  Inv h d -> op_ok o ->
  let '((h', d'), xs) := step (h, d) o in
  load (crash_dir d xs k) = forms h \/ load (crash_dir d xs k) = forms h'.
Proof.
  intros HI Ho. pose proof (step_spec h d o HI Ho) as Hs.
  destruct (step (h, d) o) as [[h' d'] xs] eqn:Es. destruct Hs as [HI' _].
  unfold crash_dir.
  destruct (Nat.le_gt_cases (List.length xs) k) as [Hk|Hk].
  - (* every step done *)
    right. rewrite firstn_all2 by exact Hk.
    assert (d' = exec_prims d xs) as <-.
    { destruct o; cbn [step] in Es.
      - destruct (add h f); injection Es as _ <- <-; reflexivity.
      - unfold clear in Es. injection Es as _ <- <-; reflexivity.
      - injection Es as _ <- <-; reflexivity.
      - injection Es as _ <- <-; reflexivity. }
    apply Inv_load, HI'.
  - left. rewrite <- (Inv_load h d HI).
    destruct o as [f|cs ce|n|]; cbn [step] in Es.
    + unfold add in Es.
      destruct ((limit h <=? 0)%Z || form_empty f); [injection Es as _ _ <-; destruct k; reflexivity|].
      destruct (match rev (forms h) with l :: _ => form_eqb f l | [] => false end); [injection Es as _ _ <-; destruct k; reflexivity|].
      destruct ((hmax h <=? Z.of_nat (List.length (forms h ++ [f])))%Z).
      * (* compaction: the history file is untouched until the rename *)
        injection Es as _ _ <-. apply load_hist_eq, tmp_only_hist.
        set (ws := map (fun g => PWrite PTmp (tab_append g)) _) in *.
        cbn [List.length] in Hk. rewrite app_length in Hk. cbn [List.length] in Hk.
        replace (firstn k (POpen PTmp true :: ws ++ [PRename])) with (firstn k (POpen PTmp true :: ws)).
        -- apply forallb_firstn. cbn [forallb tmp_only andb]. unfold ws. rewrite forallb_forall. intros x Hx.
           apply in_map_iff in Hx as (g & <- & _). reflexivity.
        -- rewrite !app_comm_cons. rewrite firstn_app. cbn [List.length].
           replace (k - S (List.length ws))%nat with 0%nat by lia. cbn [firstn]. rewrite app_nil_r. reflexivity.
      * (* append: open (creates an empty file if there is none), then one write *)
        injection Es as _ _ <-. cbn [List.length] in Hk.
        destruct k as [|[|k]]; [reflexivity| |lia].
        cbn [firstn]. unfold exec_prims; cbn [fold_left exec_prim dget].
        destruct HI as [_ [Hd|[Hd Hn]]]; rewrite Hd; [reflexivity|].
        unfold load. cbn. rewrite Hd. reflexivity.
    + unfold clear in Es. injection Es as _ _ <-. apply load_hist_eq, rewrite_crash, Hk.
    + injection Es as _ _ <-. destruct k; reflexivity.
    + injection Es as _ _ <-. destruct k; reflexivity.
Qed.

(* the remembered lists of the specification along a history *)
Lemma spec_states_head st ops : In (fst st) (spec_states st ops).
Proof. destruct ops; left; reflexivity. Qed.

Lemma step_prims_exec h d o : let '((_, d'), xs) := step (h, d) o in d' = exec_prims d xs.
Proof.
  destruct o; cbn [step].
  - destruct (add h f); reflexivity.
  - reflexivity.
  - reflexivity.
  - reflexivity.
Qed.

Theorem crash_any_point ops : forall h d K, Inv h d -> Forall op_ok ops ->
  In (load (crash_dir d (snd (run (h, d) ops)) K)) (spec_states (forms h, limit h) ops).
Proof.
  induction ops as [|o ops IH]; intros h d K HI Hok.
  - cbn. left. unfold crash_dir. rewrite firstn_nil. symmetry. apply Inv_load, HI.
  - inversion Hok as [|? ? Ho Hok']; subst. cbn [run].
    pose proof (step_spec h d o HI Ho) as Hs. pose proof (crash_one_op h d o K HI Ho) as Hc.
    pose proof (step_prims_exec h d o) as Hx.
    destruct (step (h, d) o) as [[h1 d1] xs] eqn:Es. destruct Hs as [HI1 Hsp].
    specialize (IH h1 d1 (K - List.length xs)%nat HI1 Hok').
    destruct (run (h1, d1) ops) as [[h2 d2] ys] eqn:Er. cbn [snd] in *.
    cbn [spec_states]. rewrite <- Hsp. cbn [fst].
    destruct (Nat.le_gt_cases K (List.length xs)) as [Hk|Hk].
    + (* the death falls inside the first operation *)
      unfold crash_dir in *. rewrite firstn_app. replace (K - List.length xs)%nat with 0%nat by lia.
      cbn [firstn]. rewrite app_nil_r.
      destruct Hc as [Hc|Hc]; rewrite Hc; [left; reflexivity|right]. apply (spec_states_head (forms h1, limit h1)).
    + (* later *)
      right. unfold crash_dir in *. rewrite firstn_app, (firstn_all2 xs) by lia.
      unfold exec_prims in *. rewrite fold_left_app. rewrite <- Hx. exact IH.
Qed.

(* ---------- no adjacent duplicates ---------- *)
Fixpoint no_adj_dup (fs : list form) : Prop :=
  match fs with
  | a :: ((b :: _) as t) => a <> b /\ no_adj_dup t
  | _ => True
  end.
Lemma no_adj_dup_app_one fs f :
  no_adj_dup fs -> match rev fs with l :: _ => f <> l | [] => True end -> no_adj_dup (fs ++ [f]).
Proof.
  induction fs as [|a fs IH]; intros H1 H2; [exact I|].
  destruct fs as [|b fs].
  - cbn in *. split; [congruence|exact I].
  - destruct H1 as [Hab Ht]. change ((a :: b :: fs) ++ [f]) with (a :: (b :: fs) ++ [f]).
    cbn [app]. split; [exact Hab|]. apply IH; [exact Ht|].
    cbn [rev] in H2 |- *. destruct (rev fs ++ [b]) as [|x xs] eqn:E; [destruct (rev fs); discriminate|]. cbn in H2. exact H2.
Qed.
Lemma no_adj_dup_skipn n : forall fs, no_adj_dup fs -> no_adj_dup (skipn n fs).
Proof.
  induction n as [|n IH]; intros fs H; [exact H|]. destruct fs as [|a fs]; [exact I|]. cbn [skipn]. apply IH.
  destruct fs; [exact I|]. apply H.
Qed.
Lemma form_eqb_false a b : form_eqb a b = false -> a <> b.
Proof. unfold form_eqb. destruct (list_eq_dec (list_eq_dec N.eq_dec) a b); [discriminate|auto]. Qed.

Lemma no_adj_dup_firstn n : forall fs, no_adj_dup fs -> no_adj_dup (firstn n fs).
Proof.
  induction n as [|n IH]; intros fs H; [exact I|]. destruct fs as [|a fs]; [exact I|]. cbn [firstn].
  destruct fs as [|b fs]; [destruct n; exact I|]. destruct H as [Hab Ht]. specialize (IH _ Ht).
  destruct n as [|n]; [exact I|]. cbn [firstn] in *. split; [exact Hab|exact IH].
Qed.

(* Clearing a range that reaches the most recent or the oldest entry leaves a prefix or a suffix.  (A range
   strictly inside can bring two equal entries together: spec_clear [a; b; a] 1 1 = [a; a]; "not duplicated"
   is Add's rule - a form equal to the most recent one is not recorded - and both the code and the
   specification keep such a pair across a restart.) *)
Definition clear_at_end (fs : list form) (o : op) : Prop :=
  match o with OClear s e => (s <= 0 \/ e < 0 \/ Z.of_nat (List.length fs) <= e)%Z | _ => True end.

Lemma no_adj_dup_clear_at_end fs s e :
  (s <= 0 \/ e < 0 \/ Z.of_nat (List.length fs) <= e)%Z -> no_adj_dup fs -> no_adj_dup (spec_clear fs s e).
Proof.
  intros Hc H. rewrite <- clear_range_spec. unfold clear_range.
  set (n := Z.of_nat (List.length fs)) in *.
  destruct ((0 <? n)%Z && (s <? n)%Z) eqn:E0; [|exact H]. apply andb_true_iff in E0 as [E0 E1].
  apply Z.ltb_lt in E0. apply Z.ltb_lt in E1.
  destruct (_ <=? _)%Z eqn:E2; [|exact H].
  destruct (Z_le_gt_dec s 0) as [Hs|Hs].
  - (* from the most recent entry: a prefix stays *)
    assert (Hs' : (if (s <? 0)%Z then 0%Z else s) = 0%Z) by (destruct (s <? 0)%Z eqn:E; [reflexivity|apply Z.ltb_ge in E; lia]).
    rewrite Hs'. rewrite (skipn_all2 fs) by (unfold n; lia). rewrite app_nil_r. apply no_adj_dup_firstn, H.
  - (* to the oldest entry: a suffix stays *)
    assert (He' : (if ((e <? 0) || (n <=? e))%Z then (n - 1)%Z else e) = (n - 1)%Z).
    { destruct Hc as [Hc|[Hc|Hc]]; [lia| |].
      - replace (e <? 0)%Z with true by (symmetry; apply Z.ltb_lt; exact Hc). reflexivity.
      - replace (n <=? e)%Z with true by (symmetry; apply Z.leb_le; exact Hc). rewrite orb_true_r. reflexivity. }
    rewrite He'. replace (Z.to_nat (n - 1 - (n - 1))) with 0%nat by lia. cbn [firstn app]. apply no_adj_dup_skipn, H.
Qed.

Lemma clear_middle_joins :
  let a : form := [[97]] in let b : form := [[98]] in spec_clear [a; b; a] 1 1 = [a; a].
Proof. vm_compute. reflexivity. Qed.

Theorem spec_no_adjacent_duplicates st o :
  no_adj_dup (fst st) -> clear_at_end (fst st) o -> no_adj_dup (fst (spec_step st o)).
Proof.
  destruct st as [fs lim]. intros H Hc. destruct o as [f|s e|n|]; cbn [spec_step fst]; try exact H.
  2:{ apply no_adj_dup_clear_at_end; [exact Hc|exact H]. }
  unfold spec_add. destruct ((lim <=? 0)%Z || form_empty f); [exact H|].
  destruct (match rev fs with l :: _ => form_eqb f l | [] => false end) eqn:E; [exact H|].
  assert (Hn : no_adj_dup (fs ++ [f])).
  { apply no_adj_dup_app_one; [exact H|]. destruct (rev fs); [exact I|apply form_eqb_false, E]. }
  destruct (_ <=? _)%Z; [apply no_adj_dup_skipn, Hn|exact Hn].
Qed.

(* bounded: with a positive limit the list never grows beyond limit + limit/10 *)
Theorem spec_add_bounded fs lim f :
  (0 < lim)%Z -> (Z.of_nat (List.length fs) <= lim + Z.quot lim 10)%Z ->
  (Z.of_nat (List.length (spec_add fs lim f)) <= lim + Z.quot lim 10)%Z.
Proof.
  intros Hl Hb. unfold spec_add. destruct ((lim <=? 0)%Z || form_empty f); [exact Hb|].
  destruct (match rev fs with l :: _ => form_eqb f l | [] => false end); [exact Hb|].
  assert (0 <= Z.quot lim 10)%Z by (apply Z.quot_pos; lia).
  destruct (lim + Z.quot lim 10 <=? Z.of_nat (List.length (fs ++ [f])))%Z eqn:E.
  - rewrite skipn_length. rewrite app_length in *. cbn [List.length] in *. lia.
  - apply Z.leb_gt in E. lia.
Qed.

(* ---------- outside the domain: forms the file format cannot carry (known findings) ---------- *)
Definition F_lead : form := [[32; 32; 40; 108; 41]].           (* "  (l)" *)
Definition F_tab : form := [[40; 97; 9; 98; 41]].              (* "(a<TAB>b)" *)
Definition start0 : hist * dir := ({| forms := []; limit := 10 |}, {| d_hist := None; d_tmp := None |}).
Lemma leading_blank_refuted :
  let '((h, d), _) := run start0 [OAdd F_lead] in forms h = [F_lead] /\ load d <> [F_lead].
Proof. vm_compute. split; [reflexivity|discriminate]. Qed.
Lemma tab_in_form_refuted :
  let '((h, d), _) := run start0 [OAdd F_tab] in forms h = [F_tab] /\ load d <> [F_tab].
Proof. vm_compute. split; [reflexivity|discriminate]. Qed.

(* non-vacuity: a history with appends, a multi-line form, compaction, clear, limit change and
   restarts satisfies the hypotheses, and crash points exist in it *)
Definition F (n : N) : form := [[40; 102; 32; 48 + n; 41]].
Definition ex_ops : list op :=
  [OAdd (F 1); OAdd (F 2); OAdd [[40; 100]; []; [32; 120; 41]]; ORestart; OLimit 3; OAdd (F 3); OAdd (F 3); OAdd (F 4);
   ORestart; OClear 1 1; ORestart; OClear 0 (-1); OAdd (F 5)].
Lemma example_ok :
  Inv (fst start0) (snd start0) /\ Forall op_ok ex_ops /\
  List.length (snd (run start0 ex_ops)) = 24%nat /\
  fst (spec_run ([], 10%Z) ex_ops) = [F 5].
Proof.
  split; [split; [constructor|right; split; reflexivity]|]. split.
  - repeat constructor; cbn; auto.
  - split; vm_compute; reflexivity.
Qed.

(* ---------- no backwards-compatible repair of the file format exists ----------
   Whatever bytes are in the file, History.Load never returns a form with a TAB inside a line or a
   first line that begins with white space.  So no encoder (escaping or otherwise) can make such forms
   survive a restart as long as Load reads every existing history file as it does now. *)
Lemma split_on_no_sep sep : forall bs p, In p (split_on sep bs) -> forallb (fun b => negb (N.eqb b sep)) p = true.
Proof.
  induction bs as [|b bs IH]; cbn [split_on]; intros p H.
  - destruct H as [<-|[]]. reflexivity.
  - destruct (N.eqb b sep) eqn:E.
    + destruct H as [<-|H]; [reflexivity|apply IH, H].
    + destruct (split_on sep bs) as [|q qs] eqn:Es.
      * destruct H as [<-|[]]. cbn. rewrite E. reflexivity.
      * destruct H as [<-|H]; [|apply IH; right; exact H].
        cbn [forallb]. rewrite E. cbn [negb andb]. apply IH. left. reflexivity.
Qed.

Lemma trim_left_head l : match trim_left l with b :: _ => is_space b = false | [] => True end.
Proof. induction l as [|b l IH]; cbn [trim_left]; [exact I|]. destruct (is_space b) eqn:E; [exact IH|exact E]. Qed.
Lemma trim_left_suffix l : exists p, l = p ++ trim_left l.
Proof.
  induction l as [|b l [p Hp]]; [exists []; reflexivity|]. cbn [trim_left]. destruct (is_space b).
  - exists (b :: p). cbn [app]. rewrite <- Hp. reflexivity.
  - exists []. reflexivity.
Qed.
Lemma trim_space_head l : match trim_space l with b :: _ => is_space b = false | [] => True end.
Proof.
  unfold trim_space. set (u := trim_left l). destruct (trim_left_suffix (rev u)) as [p Hp].
  assert (Hu : u = rev (trim_left (rev u)) ++ rev p).
  { rewrite <- (rev_involutive u) at 1. rewrite Hp at 1. apply rev_app_distr. }
  destruct (rev (trim_left (rev u))) as [|b t]; [exact I|].
  pose proof (trim_left_head l) as Hh. fold u in Hh. rewrite Hu in Hh. exact Hh.
Qed.

Theorem load_forms_shape bs f : In f (load_bytes bs) ->
  Forall (fun l => forallb (fun b => negb (N.eqb b TAB)) l = true) f /\
  match f with l :: _ => starts_ok l = true | [] => False end.
Proof.
  unfold load_bytes. intros H. apply in_flat_map in H as (l0 & _ & H).
  pose proof (trim_space_head l0) as Hh. destruct (trim_space l0) as [|b t] eqn:Et; [destruct H|].
  destruct H as [<-|[]]. split.
  - apply Forall_forall. intros p Hp. apply (split_on_no_sep TAB _ _ Hp).
  - cbn [split_on]. assert (Hb : N.eqb b TAB = false).
    { destruct (N.eqb b TAB) eqn:E; [|reflexivity]. apply N.eqb_eq in E. subst b. discriminate Hh. }
    rewrite Hb. destruct (split_on TAB t); cbn [starts_ok]; rewrite Hh; reflexivity.
Qed.

Theorem no_compatible_encoding (enc : list form -> list byte) :
  load_bytes (enc [F_lead]) <> [F_lead] /\ load_bytes (enc [F_tab]) <> [F_tab].
Proof.
  split; intros H.
  - destruct (load_forms_shape (enc [F_lead]) F_lead) as [_ Hs]; [rewrite H; left; reflexivity|]. discriminate Hs.
  - destruct (load_forms_shape (enc [F_tab]) F_tab) as [Ht _]; [rewrite H; left; reflexivity|].
    inversion Ht as [|? ? Hl _]; subst. discriminate Hl.
Qed.
