(* C20 — Stash.clear: the slice arithmetic of the (repaired) Go code removes exactly the entries whose
   distance from the most recent one lies in start..end, for EVERY start and end; what the code did
   before repo fix C20-1 does not. *)
From C20 Require Import Model Spec.
Open Scope Z_scope.

(* ---------- drop_range in closed form ---------- *)
Lemma drop_range_open {A} (l : list A) : forall i s e, e < 0 ->
  drop_range i l s e = firstn (Z.to_nat (s - i)) l.
Proof.
  induction l as [|x l IH]; intros i s e He; cbn [drop_range]; [rewrite firstn_nil; reflexivity|].
  rewrite (IH (i + 1) s e He). unfold in_range.
  replace (e <? 0) with true by (symmetry; apply Z.ltb_lt; exact He). cbn [orb]. rewrite andb_true_r.
  destruct (s <=? i) eqn:E.
  - apply Z.leb_le in E. replace (Z.to_nat (s - i)) with 0%nat by lia.
    replace (Z.to_nat (s - (i + 1))) with 0%nat by lia. reflexivity.
  - apply Z.leb_gt in E. replace (Z.to_nat (s - i)) with (S (Z.to_nat (s - (i + 1)))) by lia. reflexivity.
Qed.

Lemma drop_range_closed {A} (l : list A) : forall i s e, 0 <= e -> s <= e + 1 ->
  drop_range i l s e = firstn (Z.to_nat (s - i)) l ++ skipn (Z.to_nat (e + 1 - i)) l.
Proof.
  induction l as [|x l IH]; intros i s e He Hs; cbn [drop_range]; [rewrite firstn_nil, skipn_nil; reflexivity|].
  rewrite (IH (i + 1) s e He Hs). unfold in_range.
  replace (e <? 0) with false by (symmetry; apply Z.ltb_ge; exact He). cbn [orb].
  destruct (s <=? i) eqn:E1; [apply Z.leb_le in E1|apply Z.leb_gt in E1].
  - replace (Z.to_nat (s - i)) with 0%nat by lia. replace (Z.to_nat (s - (i + 1))) with 0%nat by lia.
    cbn [firstn app andb]. destruct (i <=? e) eqn:E2; [apply Z.leb_le in E2|apply Z.leb_gt in E2].
    + replace (Z.to_nat (e + 1 - i)) with (S (Z.to_nat (e + 1 - (i + 1)))) by lia. reflexivity.
    + replace (Z.to_nat (e + 1 - i)) with 0%nat by lia. replace (Z.to_nat (e + 1 - (i + 1))) with 0%nat by lia.
      reflexivity.
  - cbn [andb]. replace (Z.to_nat (s - i)) with (S (Z.to_nat (s - (i + 1)))) by lia.
    replace (Z.to_nat (e + 1 - i)) with (S (Z.to_nat (e + 1 - (i + 1)))) by lia. reflexivity.
Qed.

Lemma drop_range_none {A} (l : list A) : forall i s e, 0 <= e -> e < s -> drop_range i l s e = l.
Proof.
  induction l as [|x l IH]; intros i s e He Hs; cbn [drop_range]; [reflexivity|].
  rewrite (IH (i + 1) s e He Hs). unfold in_range.
  replace (e <? 0) with false by (symmetry; apply Z.ltb_ge; exact He). cbn [orb].
  destruct (s <=? i) eqn:E1; [apply Z.leb_le in E1|reflexivity].
  replace (i <=? e) with false by (symmetry; apply Z.leb_gt; lia). reflexivity.
Qed.

Lemma drop_range_beyond {A} (l : list A) : forall i s e, i + Z.of_nat (List.length l) <= s -> drop_range i l s e = l.
Proof.
  induction l as [|x l IH]; intros i s e H; cbn [drop_range]; [reflexivity|].
  cbn [List.length] in H. rewrite IH by lia. unfold in_range.
  replace (s <=? i) with false by (symmetry; apply Z.leb_gt; lia). reflexivity.
Qed.

(* ---------- the Go slice arithmetic = the specification, for every range ---------- *)
Theorem clear_range_spec {A} (fs : list A) (s e : Z) : clear_range fs s e = spec_clear fs s e.
Proof.
  unfold clear_range, spec_clear.
  set (n := Z.of_nat (List.length fs)).
  assert (Hn : Z.of_nat (List.length (rev fs)) = n) by (rewrite rev_length; reflexivity).
  assert (Hn0 : 0 <= n) by (unfold n; lia).
  destruct (0 <? n) eqn:E0; [apply Z.ltb_lt in E0|].
  2:{ apply Z.ltb_ge in E0. cbn [andb]. destruct fs as [|x fs]; [reflexivity|]. unfold n in E0. cbn [List.length] in E0. lia. }
  destruct (s <? n) eqn:E1; [apply Z.ltb_lt in E1|apply Z.ltb_ge in E1]; cbn [andb].
  2:{ rewrite drop_range_beyond by lia. symmetry. apply rev_involutive. }
  assert (Hlen : List.length fs = Z.to_nat n) by (unfold n; lia).
  destruct (e <? 0) eqn:E2; [apply Z.ltb_lt in E2|apply Z.ltb_ge in E2]; cbn [orb].
  - (* to the oldest *)
    rewrite drop_range_open by exact E2. rewrite firstn_rev, rev_involutive.
    destruct (s <? 0) eqn:E3; [apply Z.ltb_lt in E3|apply Z.ltb_ge in E3].
    + replace (0 <=? n - 1) with true by (symmetry; apply Z.leb_le; lia).
      replace (Z.to_nat (n - 1 - (n - 1))) with 0%nat by lia. cbn [firstn app].
      f_equal. rewrite Hlen. lia.
    + replace (s <=? n - 1) with true by (symmetry; apply Z.leb_le; lia).
      replace (Z.to_nat (n - 1 - (n - 1))) with 0%nat by lia. cbn [firstn app].
      f_equal. rewrite Hlen. lia.
  - destruct (n <=? e) eqn:E4; [apply Z.leb_le in E4|apply Z.leb_gt in E4].
    + (* end beyond the oldest *)
      rewrite drop_range_closed by lia. rewrite (skipn_all2 (rev fs)) by (rewrite rev_length, Hlen; lia).
      rewrite app_nil_r, firstn_rev, rev_involutive.
      replace (Z.to_nat (n - 1 - (n - 1))) with 0%nat by lia. cbn [firstn app].
      destruct (s <? 0) eqn:E3; [apply Z.ltb_lt in E3|apply Z.ltb_ge in E3].
      * replace (0 <=? n - 1) with true by (symmetry; apply Z.leb_le; lia). f_equal. rewrite Hlen. lia.
      * replace (s <=? n - 1) with true by (symmetry; apply Z.leb_le; lia). f_equal. rewrite Hlen. lia.
    + (* a range inside *)
      destruct (s <? 0) eqn:E3; [apply Z.ltb_lt in E3|apply Z.ltb_ge in E3].
      * replace (0 <=? e) with true by (symmetry; apply Z.leb_le; lia).
        rewrite drop_range_closed by lia. rewrite rev_app_distr, firstn_rev, skipn_rev, !rev_involutive.
        rewrite Hlen. f_equal; f_equal; lia.
      * destruct (s <=? e) eqn:E5; [apply Z.leb_le in E5|apply Z.leb_gt in E5].
        -- rewrite drop_range_closed by lia. rewrite rev_app_distr, firstn_rev, skipn_rev, !rev_involutive.
           rewrite Hlen. f_equal; f_equal; lia.
        -- rewrite drop_range_none by lia. symmetry. apply rev_involutive.
Qed.

(* what stays is a sub-list: every property of all entries is kept *)
Lemma Forall_firstn {A} (P : A -> Prop) n : forall l, Forall P l -> Forall P (firstn n l).
Proof. induction n as [|n IH]; intros l H; [constructor|]. destruct l; [constructor|]. inversion H; subst. constructor; auto. Qed.
Lemma Forall_skipn' {A} (P : A -> Prop) n : forall l, Forall P l -> Forall P (skipn n l).
Proof. induction n as [|n IH]; intros l H; [exact H|]. destruct l; [constructor|]. inversion H; subst. apply IH; assumption. Qed.
Lemma Forall_clear_range {A} (P : A -> Prop) fs s e : Forall P fs -> Forall P (clear_range fs s e).
Proof.
  intros H. unfold clear_range. destruct (_ && _)%bool; [|exact H]. destruct (_ <=? _); [|exact H].
  apply Forall_app. split; [apply Forall_firstn|apply Forall_skipn']; exact H.
Qed.

(* the whole range: nothing stays *)
Lemma clear_range_all {A} (fs : list A) s e : s <= 0 -> e < 0 -> clear_range fs s e = [].
Proof.
  intros Hs He. unfold clear_range. set (n := Z.of_nat (List.length fs)).
  destruct (0 <? n) eqn:E0; [apply Z.ltb_lt in E0|apply Z.ltb_ge in E0]; cbn [andb].
  2:{ destruct fs; [reflexivity|]. unfold n in E0. cbn [List.length] in E0. lia. }
  replace (s <? n) with true by (symmetry; apply Z.ltb_lt; lia).
  replace (e <? 0) with true by (symmetry; apply Z.ltb_lt; lia). cbn [orb].
  assert (Hs' : (if s <? 0 then 0 else s) = 0) by (destruct (s <? 0) eqn:E; [reflexivity|apply Z.ltb_ge in E; lia]).
  rewrite Hs'. replace (0 <=? n - 1) with true by (symmetry; apply Z.leb_le; lia).
  replace (Z.to_nat (n - 1 - (n - 1))) with 0%nat by lia. cbn [firstn app].
  apply skipn_all2. unfold n. lia.
Qed.

(* ---------- before the repair (known finding C20-partial-clear-scrambles, fixed by C20-1) ---------- *)
Definition L5 : list form := [[[97%N]]; [[98%N]]; [[99%N]]; [[100%N]]; [[101%N]]].     (* a b c d e *)
Lemma partial_clear_old_refuted :
  clear_range_old L5 1 2 = [[[99%N]]; [[98%N]]; [[99%N]]] /\          (* c b c *)
  spec_clear L5 1 2 = [[[97%N]]; [[98%N]]; [[101%N]]] /\               (* a b e *)
  clear_range L5 1 2 = [[[97%N]]; [[98%N]]; [[101%N]]] /\
  clear_range_old L5 1 1 = [[[98%N]]; [[98%N]]; []; []].               (* b b and two empty forms *)
Proof. vm_compute. repeat split. Qed.
