(* C20 — executable model M of pkg/repl/history.go (History.Load/SetLimit/Add/Clear), form.go
   (TabAppend, Empty, Equal) and linereader.go (ReadLine), over a two-file directory whose state
   changes only by the primitive file-system steps the code issues: open (create / truncate), one
   write per form, rename.  A crash is "stop before primitive step k"; a restart is Load. *)
From Coq Require Export List Bool Arith NArith ZArith Lia.
Export ListNotations.

Definition byte := N.
Definition line := list byte.
Definition form := list line.

Definition TAB : byte := 9%N.
Definition NL : byte := 10%N.
Definition SP : byte := 32%N.

(* ---- the directory ---- *)
Inductive path := PHist | PTmp.
Record dir := { d_hist : option (list byte); d_tmp : option (list byte) }.
Definition dget (d : dir) (p : path) := match p with PHist => d_hist d | PTmp => d_tmp d end.
Definition dset (d : dir) (p : path) (c : option (list byte)) : dir :=
  match p with PHist => {| d_hist := c; d_tmp := d_tmp d |} | PTmp => {| d_hist := d_hist d; d_tmp := c |} end.

Inductive prim :=
| POpen (p : path) (trunc : bool)      (* openat(O_APPEND|O_CREATE|O_WRONLY [|O_TRUNC]) *)
| PWrite (p : path) (bs : list byte)   (* one write(2) in O_APPEND mode *)
| PRename.                             (* rename(history.tmp, history) *)

Definition exec_prim (d : dir) (x : prim) : dir :=
  match x with
  | POpen p trunc => match dget d p with
                     | Some c => if trunc then dset d p (Some []) else d
                     | None => dset d p (Some [])
                     end
  | PWrite p bs => match dget d p with Some c => dset d p (Some (c ++ bs)) | None => d end
  | PRename => match d_tmp d with
               | Some c => {| d_hist := Some c; d_tmp := None |}
               | None => d end
  end.
Definition exec_prims (d : dir) (xs : list prim) : dir := fold_left exec_prim xs d.

(* ---- forms ---- *)
Fixpoint join_tab (f : form) : list byte :=
  match f with
  | [] => []
  | [l] => l
  | l :: f' => l ++ TAB :: join_tab f'
  end.
(* Form.TabAppend: lines joined by TAB, terminated by NL; nothing for a form with no lines *)
Definition tab_append (f : form) : list byte := match f with [] => [] | _ => join_tab f ++ [NL] end.

(* Form.Empty: only spaces *)
Definition form_empty (f : form) : bool := forallb (forallb (N.eqb SP)) f.
Definition line_eqb (a b : line) : bool := if list_eq_dec N.eq_dec a b then true else false.
Definition form_eqb (a b : form) : bool := if list_eq_dec (list_eq_dec N.eq_dec) a b then true else false.

(* ---- Load ---- *)
(* split at every occurrence of sep: always returns at least one piece *)
Fixpoint split_on (sep : byte) (bs : list byte) : list (list byte) :=
  match bs with
  | [] => [[]]
  | b :: bs' => if N.eqb b sep then [] :: split_on sep bs'
                else match split_on sep bs' with
                     | p :: ps => (b :: p) :: ps
                     | [] => [[b]]      (* unreachable *)
                     end
  end.
(* LineReader.ReadLine returns the bytes before each NL; an unterminated tail is dropped (the
   error branch of History.Load breaks out without using it) *)
Definition file_lines (bs : list byte) : list (list byte) := removelast (split_on NL bs).

(* bytes.TrimSpace on ASCII white space: TAB LF VT FF CR SPACE (the harness keeps U+0085/U+00A0
   out of first/last position; they are treated as non-space here and the forms with them are
   outside `encodable`) *)
Definition is_space (b : byte) : bool :=
  N.eqb b 9 || N.eqb b 10 || N.eqb b 11 || N.eqb b 12 || N.eqb b 13 || N.eqb b 32.
Fixpoint trim_left (bs : list byte) : list byte :=
  match bs with b :: bs' => if is_space b then trim_left bs' else bs | [] => [] end.
Definition trim_space (bs : list byte) : list byte := rev (trim_left (rev (trim_left bs))).

Definition load_bytes (bs : list byte) : list form :=
  flat_map (fun l => match trim_space l with [] => [] | t => [split_on TAB t] end) (file_lines bs).
Definition load (d : dir) : list form := match d_hist d with Some bs => load_bytes bs | None => [] end.

(* ---- History ---- *)
Record hist := { forms : list form; limit : Z }.
Definition hmax (h : hist) : Z := (limit h + Z.quot (limit h) 10)%Z.

Fixpoint lastn {A} (n : nat) (l : list A) : list A := skipn (List.length l - n) l.

(* History.Add: returns the new memory state and the primitive steps issued, in order *)
Definition add (h : hist) (f : form) : hist * list prim :=
  if (limit h <=? 0)%Z || form_empty f then (h, [])
  else if match rev (forms h) with l :: _ => form_eqb f l | [] => false end then (h, [])
  else
    let fs := forms h ++ [f] in
    if (hmax h <=? Z.of_nat (List.length fs))%Z then
      let keep := skipn (List.length fs - Z.to_nat (limit h)) fs in
      ({| forms := keep; limit := limit h |},
       POpen PTmp true :: map (fun g => PWrite PTmp (tab_append g)) keep ++ [PRename])
    else
      ({| forms := fs; limit := limit h |}, [POpen PHist false; PWrite PHist (tab_append f)]).

(* History.Clear(0, -1): everything *)
Definition clear_all (h : hist) : hist * list prim :=
  ({| forms := []; limit := limit h |}, [POpen PHist true]).

Definition set_limit (h : hist) (n : Z) : hist := {| forms := forms h; limit := n |}.

Inductive op := OAdd (f : form) | OClear | OLimit (n : Z) | ORestart.

Definition step (hd : hist * dir) (o : op) : (hist * dir) * list prim :=
  let '(h, d) := hd in
  match o with
  | OAdd f => let '(h', xs) := add h f in ((h', exec_prims d xs), xs)
  | OClear => let '(h', xs) := clear_all h in ((h', exec_prims d xs), xs)
  | OLimit n => ((set_limit h n, d), [])
  | ORestart => (({| forms := load d; limit := limit h |}, d), [])
  end.

Fixpoint run (hd : hist * dir) (ops : list op) : (hist * dir) * list prim :=
  match ops with
  | [] => (hd, [])
  | o :: ops' => let '(hd1, xs) := step hd o in let '(hd2, ys) := run hd1 ops' in (hd2, xs ++ ys)
  end.

(* the directory a crash before primitive step k leaves behind (k = 0 .. number of steps) *)
Definition crash_dir (d0 : dir) (xs : list prim) (k : nat) : dir := exec_prims d0 (firstn k xs).
