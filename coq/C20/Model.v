(* C20 — executable model M of pkg/repl/history.go (History.Load/SetLimit/Add/Clear), stash.go
   (Stash.LoadExpanded/Add/Clear/clear/Nth), form.go (TabAppend, Append, Empty, Equal) and
   linereader.go (ReadLine), over a two-file directory (the file and <file>.tmp) whose state changes
   only by the primitive file-system steps the code issues: open (create / truncate), one write per
   form, rename.  A crash is "stop before primitive step k"; a restart is Load / LoadExpanded.
   Clear is the code after repo fixes C20-1 (range arithmetic) and C20-2 (rewrite through
   <file>.tmp and rename), LoadExpanded the code after C20-4 (an empty line inside a form is kept);
   the code before the fixes is kept as clear_range_old / rewrite_inplace / loadx_lines_old for the
   refutations. *)
From Coq Require Export List Bool Arith NArith ZArith Lia.
Export ListNotations.

Definition byte := N.
Definition line := list byte.
Definition form := list line.

Definition TAB : byte := 9%N.
Definition NL : byte := 10%N.
Definition SP : byte := 32%N.

(* ---- the directory ---- *)
Inductive path := PHist | PTmp.
Record dir := { d_hist : option (list byte); d_tmp : option (list byte) }.
Definition dget (d : dir) (p : path) := match p with PHist => d_hist d | PTmp => d_tmp d end.
Definition dset (d : dir) (p : path) (c : option (list byte)) : dir :=
  match p with PHist => {| d_hist := c; d_tmp := d_tmp d |} | PTmp => {| d_hist := d_hist d; d_tmp := c |} end.

Inductive prim :=
| POpen (p : path) (trunc : bool)      (* openat(O_APPEND|O_CREATE|O_WRONLY [|O_TRUNC]) *)
| PWrite (p : path) (bs : list byte)   (* one write(2) in O_APPEND mode *)
| PRename.                             (* rename(history.tmp, history) *)

Definition exec_prim (d : dir) (x : prim) : dir :=
  match x with
  | POpen p trunc => match dget d p with
                     | Some c => if trunc then dset d p (Some []) else d
                     | None => dset d p (Some [])
                     end
  | PWrite p bs => match dget d p with Some c => dset d p (Some (c ++ bs)) | None => d end
  | PRename => match d_tmp d with
               | Some c => {| d_hist := Some c; d_tmp := None |}
               | None => d end
  end.
Definition exec_prims (d : dir) (xs : list prim) : dir := fold_left exec_prim xs d.

(* ---- forms ---- *)
Fixpoint join_tab (f : form) : list byte :=
  match f with
  | [] => []
  | [l] => l
  | l :: f' => l ++ TAB :: join_tab f'
  end.
(* Form.TabAppend: lines joined by TAB, terminated by NL; nothing for a form with no lines *)
Definition tab_append (f : form) : list byte := match f with [] => [] | _ => join_tab f ++ [NL] end.

(* Form.Empty: only spaces *)
Definition form_empty (f : form) : bool := forallb (forallb (N.eqb SP)) f.
Definition line_eqb (a b : line) : bool := if list_eq_dec N.eq_dec a b then true else false.
Definition form_eqb (a b : form) : bool := if list_eq_dec (list_eq_dec N.eq_dec) a b then true else false.

(* ---- Load ---- *)
(* split at every occurrence of sep: always returns at least one piece *)
Fixpoint split_on (sep : byte) (bs : list byte) : list (list byte) :=
  match bs with
  | [] => [[]]
  | b :: bs' => if N.eqb b sep then [] :: split_on sep bs'
                else match split_on sep bs' with
                     | p :: ps => (b :: p) :: ps
                     | [] => [[b]]      (* unreachable *)
                     end
  end.
(* LineReader.ReadLine returns the bytes before each NL; an unterminated tail is dropped (the
   error branch of History.Load breaks out without using it) *)
Definition file_lines (bs : list byte) : list (list byte) := removelast (split_on NL bs).

(* bytes.TrimSpace on ASCII white space: TAB LF VT FF CR SPACE (the harness keeps U+0085/U+00A0
   out of first/last position; they are treated as non-space here and the forms with them are
   outside `encodable`) *)
Definition is_space (b : byte) : bool :=
  N.eqb b 9 || N.eqb b 10 || N.eqb b 11 || N.eqb b 12 || N.eqb b 13 || N.eqb b 32.
Fixpoint trim_left (bs : list byte) : list byte :=
  match bs with b :: bs' => if is_space b then trim_left bs' else bs | [] => [] end.
Definition trim_space (bs : list byte) : list byte := rev (trim_left (rev (trim_left bs))).

Definition load_bytes (bs : list byte) : list form :=
  flat_map (fun l => match trim_space l with [] => [] | t => [split_on TAB t] end) (file_lines bs).
Definition load (d : dir) : list form := match d_hist d with Some bs => load_bytes bs | None => [] end.

(* ---- History ---- *)
Record hist := { forms : list form; limit : Z }.
Definition hmax (h : hist) : Z := (limit h + Z.quot (limit h) 10)%Z.

Fixpoint lastn {A} (n : nat) (l : list A) : list A := skipn (List.length l - n) l.

(* History.Add: returns the new memory state and the primitive steps issued, in order *)
Definition add (h : hist) (f : form) : hist * list prim :=
  if (limit h <=? 0)%Z || form_empty f then (h, [])
  else if match rev (forms h) with l :: _ => form_eqb f l | [] => false end then (h, [])
  else
    let fs := forms h ++ [f] in
    if (hmax h <=? Z.of_nat (List.length fs))%Z then
      let keep := skipn (List.length fs - Z.to_nat (limit h)) fs in
      ({| forms := keep; limit := limit h |},
       POpen PTmp true :: map (fun g => PWrite PTmp (tab_append g)) keep ++ [PRename])
    else
      ({| forms := fs; limit := limit h |}, [POpen PHist false; PWrite PHist (tab_append f)]).

(* Stash.clear(start, end) (shared by History and Stash; after repo fix C20-1): positions are counted
   from the most recent form, as Stash.Nth and slip's own TestStashClear do; start < 0 counts as 0,
   end < 0 or end >= n as n-1; nothing happens on an empty list, for start >= n or start > end.
   The Go code moves forms[n-start:] down to index n-1-end and cuts the slice to n-(end-start)-1. *)
Definition clear_range {A} (fs : list A) (s e : Z) : list A :=
  let n := Z.of_nat (List.length fs) in
  if ((0 <? n) && (s <? n))%Z then
    let s' := if (s <? 0)%Z then 0%Z else s in
    let e' := if ((e <? 0) || (n <=? e))%Z then (n - 1)%Z else e in
    if (s' <=? e')%Z then firstn (Z.to_nat (n - 1 - e')) fs ++ skipn (Z.to_nat (n - s')) fs else fs
  else fs.

(* the unrepaired Stash.clear: copy(forms[:start], forms[end:]), entries above `end` set to nil (the
   empty form), slice cut to n-(end-start)-1 *)
Definition clear_range_old (fs : list form) (s e : Z) : list form :=
  let n := Z.of_nat (List.length fs) in
  if ((0 <? n) && (s <? n))%Z then
    let s' := if (s <? 0)%Z then 0%Z else s in
    let e' := if ((e <? 0) || (n <=? e))%Z then (n - 1)%Z else e in
    if (s' <=? e')%Z then
      let moved := Nat.min (Z.to_nat s') (Z.to_nat (n - e')) in
      let a := firstn moved (skipn (Z.to_nat e') fs) ++ skipn moved fs in
      let b := firstn (Z.to_nat (e' + 1)) a ++ repeat [] (Z.to_nat (n - e' - 1)) in
      firstn (Z.to_nat (n - (e' - s') - 1)) b
    else fs
  else fs.

(* rewriting the whole file from memory: through <file>.tmp and a rename (History.Add's compaction;
   Clear after repo fix C20-2) *)
Definition rewrite_prims (keep : list form) : list prim :=
  POpen PTmp true :: map (fun g => PWrite PTmp (tab_append g)) keep ++ [PRename].
(* ... and in place, as Clear did before the fix: truncate, then one write per form *)
Definition rewrite_inplace (keep : list form) : list prim :=
  POpen PHist true :: map (fun g => PWrite PHist (tab_append g)) keep.

(* History.Clear(start, end) *)
Definition clear (h : hist) (s e : Z) : hist * list prim :=
  let keep := clear_range (forms h) s e in
  ({| forms := keep; limit := limit h |}, rewrite_prims keep).

Definition set_limit (h : hist) (n : Z) : hist := {| forms := forms h; limit := n |}.

Inductive op := OAdd (f : form) | OClear (s e : Z) | OLimit (n : Z) | ORestart.

Definition step (hd : hist * dir) (o : op) : (hist * dir) * list prim :=
  let '(h, d) := hd in
  match o with
  | OAdd f => let '(h', xs) := add h f in ((h', exec_prims d xs), xs)
  | OClear s e => let '(h', xs) := clear h s e in ((h', exec_prims d xs), xs)
  | OLimit n => ((set_limit h n, d), [])
  | ORestart => (({| forms := load d; limit := limit h |}, d), [])
  end.

Fixpoint run (hd : hist * dir) (ops : list op) : (hist * dir) * list prim :=
  match ops with
  | [] => (hd, [])
  | o :: ops' => let '(hd1, xs) := step hd o in let '(hd2, ys) := run hd1 ops' in (hd2, xs ++ ys)
  end.

(* the directory a crash before primitive step k leaves behind (k = 0 .. number of steps) *)
Definition crash_dir (d0 : dir) (xs : list prim) (k : nat) : dir := exec_prims d0 (firstn k xs).

(* ================= Stash (pkg/repl/stash.go) ================= *)

(* Form.Append: every line followed by NL *)
Definition expand (f : form) : list byte := flat_map (fun l => l ++ [NL]) f.

(* what LoadExpanded needs from the Lisp reader (fullForm = slip.Read under recover): the text read so
   far is a sequence of complete objects, or it ends inside a list or string (a slip.PartialPanic), or
   the reader fails otherwise (the panic leaves LoadExpanded).  The reader is a parameter of the model:
   the theorems hold for every reader; the correspondence instantiates it with rd_paren below. *)
Inductive rres := RFull | RPartial | RErr.

Section Reader.
Variable rd : list byte -> rres.

(* LoadExpanded over the lines of the file (after repo fix C20-4): an empty line is skipped unless a form
   has begun; a line with TABs is split into the lines of a form; the lines are collected until the
   reader accepts the text collected so far.
   Result: the forms, and false if the reader failed (LoadExpanded panics with the forms so far). *)
Fixpoint loadx_lines (ls : list (list byte)) (buf : list byte) (fm : form) : list form * bool :=
  match ls with
  | [] => ([], true)                                  (* an unfinished form at the end is dropped *)
  | l :: ls' =>
      if match l, fm with [], [] => true | _, _ => false end then loadx_lines ls' buf fm
      else
        let subs := split_on TAB l in
        let buf' := buf ++ expand subs in
        let fm' := fm ++ subs in
        match rd buf' with
        | RFull => let r := loadx_lines ls' [] [] in (fm' :: fst r, snd r)
        | RPartial => loadx_lines ls' buf' fm'
        | RErr => ([], false)
        end
  end.
(* before the fix every empty line was skipped, also inside a form that had begun *)
Fixpoint loadx_lines_old (ls : list (list byte)) (buf : list byte) (fm : form) : list form * bool :=
  match ls with
  | [] => ([], true)
  | [] :: ls' => loadx_lines_old ls' buf fm
  | l :: ls' =>
      let subs := split_on TAB l in
      let buf' := buf ++ expand subs in
      let fm' := fm ++ subs in
      match rd buf' with
      | RFull => let r := loadx_lines_old ls' [] [] in (fm' :: fst r, snd r)
      | RPartial => loadx_lines_old ls' buf' fm'
      | RErr => ([], false)
      end
  end.
Definition loadx_bytes (bs : list byte) : list form * bool := loadx_lines (file_lines bs) [] [].
(* a stash file that cannot be opened leaves the stash empty *)
Definition sload (d : dir) : list form * bool :=
  match d_hist d with Some bs => loadx_bytes bs | None => ([], true) end.
End Reader.

(* Stash.Add (a stash file is in use): blank forms and a repetition of the most recent form are
   ignored; the form is appended to the file expanded, followed by an empty line, in one write *)
Definition sadd (fs : list form) (f : form) : list form * list prim :=
  if form_empty f then (fs, [])
  else if match rev fs with l :: _ => form_eqb f l | [] => false end then (fs, [])
  else (fs ++ [f], [POpen PHist false; PWrite PHist (expand f ++ [NL])]).

(* Stash.Clear(start, end): the file is rewritten, one TAB-joined line per form *)
Definition sclear (fs : list form) (s e : Z) : list form * list prim :=
  let keep := clear_range fs s e in (keep, rewrite_prims keep).

(* use-stash / initStash: a missing stash file is created empty (os.WriteFile(name, {}): open with
   O_CREATE|O_TRUNC, then a write of no bytes), then LoadExpanded *)
Definition suse_prims (d : dir) : list prim :=
  match d_hist d with None => [POpen PHist true; PWrite PHist []] | Some _ => [] end.

(* Stash.Nth: numbered from the most recent form; the empty form outside the range *)
Definition nth_form (fs : list form) (n : Z) : form :=
  let i := (Z.of_nat (List.length fs) - n - 1)%Z in
  if ((0 <=? i) && (i <? Z.of_nat (List.length fs)))%Z then nth (Z.to_nat i) fs [] else [].

Inductive sop := SAdd (f : form) | SClear (s e : Z) | SUse | SRestart.

Definition sstep (rd : list byte -> rres) (sd : list form * dir) (o : sop) : (list form * dir) * list prim :=
  let '(fs, d) := sd in
  match o with
  | SAdd f => let '(fs', xs) := sadd fs f in ((fs', exec_prims d xs), xs)
  | SClear s e => let '(fs', xs) := sclear fs s e in ((fs', exec_prims d xs), xs)
  | SUse => let xs := suse_prims d in let d' := exec_prims d xs in ((fst (sload rd d'), d'), xs)
  | SRestart => ((fst (sload rd d), d), [])
  end.

Fixpoint srun (rd : list byte -> rres) (sd : list form * dir) (ops : list sop) : (list form * dir) * list prim :=
  match ops with
  | [] => (sd, [])
  | o :: ops' => let '(sd1, xs) := sstep rd sd o in let '(sd2, ys) := srun rd sd1 ops' in (sd2, xs ++ ys)
  end.

(* a reader for the witnesses and examples (the theorems hold for every reader; the correspondence asks
   the real one): forms made of lists, atoms, "strings" (backslash escapes) and ; comments, parentheses
   must balance *)
Fixpoint rd_scan (bs : list byte) (depth : Z) (str esc com : bool) : rres :=
  match bs with
  | [] => if str then RPartial else if (0 <? depth)%Z then RPartial else RFull
  | b :: bs' =>
      if com then rd_scan bs' depth false false (negb (N.eqb b NL))
      else if str then
        (if esc then rd_scan bs' depth true false false
         else if N.eqb b 92 then rd_scan bs' depth true true false
         else if N.eqb b 34 then rd_scan bs' depth false false false
         else rd_scan bs' depth true false false)
      else if N.eqb b 34 then rd_scan bs' depth true false false
      else if N.eqb b 59 then rd_scan bs' depth false false true
      else if N.eqb b 40 then rd_scan bs' (depth + 1)%Z false false false
      else if N.eqb b 41 then (if (depth <=? 0)%Z then RErr else rd_scan bs' (depth - 1)%Z false false false)
      else rd_scan bs' depth false false false
  end.
Definition rd_paren (bs : list byte) : rres := rd_scan bs 0%Z false false false.
