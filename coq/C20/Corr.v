From C20 Require Import Model Spec.
Open Scope N_scope.

Fixpoint list_eqb {A} (eqb : A -> A -> bool) (a b : list A) : bool :=
  match a, b with
  | [], [] => true
  | x :: a', y :: b' => eqb x y && list_eqb eqb a' b'
  | _, _ => false
  end.
Definition bytes_eqb := list_eqb N.eqb.
Definition forms_eqb := list_eqb (list_eqb bytes_eqb).
Definition obytes_eqb (a b : option (list byte)) : bool :=
  match a, b with Some x, Some y => bytes_eqb x y | None, None => true | _, _ => false end.

Definition obs := (list form * option (list byte) * option (list byte) * list form)%type.
Definition cobs := (prim * option (list byte) * option (list byte) * list form)%type.
Record case := { k_limit : Z; k_d0 : dir; k_ops : list op; k_obs : list obs; k_crash : list cobs }.

Definition obs_eqb (a b : obs) : bool :=
  let '(m1, h1, t1, l1) := a in let '(m2, h2, t2, l2) := b in
  forms_eqb m1 m2 && obytes_eqb h1 h2 && obytes_eqb t1 t2 && forms_eqb l1 l2.

Definition start (c : case) : hist * dir := ({| forms := load (k_d0 c); limit := k_limit c |}, k_d0 c).

Fixpoint run_obs (hd : hist * dir) (ops : list op) : list obs :=
  match ops with
  | [] => []
  | o :: ops' => let '(hd1, _) := step hd o in
                 (forms (fst hd1), d_hist (snd hd1), d_tmp (snd hd1), load (snd hd1)) :: run_obs hd1 ops'
  end.

(* shape of a primitive step as strace shows it: kind, file, number of bytes *)
Definition prim_shape_eqb (m o : prim) : bool :=
  match m, o with
  | POpen p1 t1, POpen p2 t2 => (match p1, p2 with PHist, PHist | PTmp, PTmp => true | _, _ => false end) && Bool.eqb t1 t2
  | PWrite p1 b1, PWrite p2 b2 => (match p1, p2 with PHist, PHist | PTmp, PTmp => true | _, _ => false end) && Nat.eqb (List.length b1) (List.length b2)
  | PRename, PRename => true
  | _, _ => false
  end.

Fixpoint crash_ok (d0 : dir) (xs : list prim) (k : nat) (co : list cobs) : bool :=
  match co with
  | [] => Nat.eqb k (List.length xs)
  | (x, h, t, l) :: co' =>
      let d := crash_dir d0 xs k in
      (match nth_error xs k with Some m => prim_shape_eqb m x | None => false end) &&
      obytes_eqb (d_hist d) h && obytes_eqb (d_tmp d) t && forms_eqb (load d) l && crash_ok d0 xs (S k) co'
  end.

(* --- judging by S --- *)
Definition all_encodable (ops : list op) : bool := forallb op_encodable ops.
(* after every op, memory and a fresh session's Load must both equal the specification's list *)
Fixpoint spec_ok (st : list form * Z) (ops : list op) (os : list obs) : bool :=
  match ops, os with
  | o :: ops', (m, _, _, l) :: os' =>
      let st' := spec_step st o in forms_eqb m (fst st') && forms_eqb l (fst st') && spec_ok st' ops' os'
  | _, _ => true
  end.
(* a death leaves a history that a fresh session loads as the remembered list before or after
   some operation of the sequence (never torn, duplicated or resurrected) *)
Definition crash_spec_ok (st : list form * Z) (ops : list op) (co : list cobs) : bool :=
  let ss := spec_states st ops in
  forallb (fun c => let '(_, _, _, l) := c in existsb (forms_eqb l) ss) co.

Definition in_domain (c : case) : bool :=
  all_encodable (k_ops c) &&
  (* the initial history file is the encoding of what it loads to *)
  match d_hist (k_d0 c) with Some bs => bytes_eqb bs (encode (load (k_d0 c))) && forallb encodable (load (k_d0 c)) | None => true end.

(* 0 ok; 1 M <> observed, no violation of S in the domain found; 2 M <> observed and S violated in
   the domain; 3 self-check: M = observed, in domain, but M violates S *)
Definition check_case (c : case) : N :=
  let hd := start c in
  let m := run_obs hd (k_ops c) in
  let xs := snd (run hd (k_ops c)) in
  let st := (load (k_d0 c), k_limit c) in
  let agree := list_eqb obs_eqb m (k_obs c) &&
               (match k_crash c with [] => true | co => crash_ok (k_d0 c) xs 0 co end) in
  let sok := spec_ok st (k_ops c) (k_obs c) && crash_spec_ok st (k_ops c) (k_crash c) in
  if agree then (if in_domain c && negb sok then 3 else 0)
  else if in_domain c && negb sok then 2 else 1.

Fixpoint check_all_from (i : N) (cs : list case) : list (N * N) :=
  match cs with
  | [] => []
  | c :: cs' => let r := check_case c in
                (if N.eqb r 0 then [] else [(i, r)]) ++ check_all_from (N.succ i) cs'
  end.
Definition check_all := check_all_from 0.
Definition guard_count (cs : list case) : N := N.of_nat (List.length (filter in_domain cs)).

(* ================= Stash ================= *)
Definition lres_eqb (a b : list form * bool) : bool := forms_eqb (fst a) (fst b) && Bool.eqb (snd a) (snd b).
(* memory, stash file, stash.tmp, what a fresh Stash loads (forms, loaded without a reader failure) *)
Definition sobs := (list form * option (list byte) * option (list byte) * (list form * bool))%type.
Definition scobs := (prim * option (list byte) * option (list byte) * (list form * bool))%type.
(* The reader's verdicts are not modelled: the harness asks the real reader (slip.Read under recover, in the
   REPL's scope, exactly what fullForm does) about every text LoadExpanded puts to it on the files it observed,
   and about every line-prefix of every form of the history, and sends the answers along with the case
   (0 complete, 1 ends inside a list or string, 2 reader error).  A text that is not in the table counts as a
   reader error; since the model then differs from what was observed, a gap in the table shows as a mismatch,
   and a gap that would touch the guard is reported by oracle_covers. *)
Record scase := { s_d0 : dir; s_ops : list sop; s_obs : list sobs; s_crash : list scobs; s_rd : list (list byte * N) }.
Definition rd_table (tbl : list (list byte * N)) (bs : list byte) : rres :=
  match find (fun p => bytes_eqb (fst p) bs) tbl with
  | Some (_, 0) => RFull
  | Some (_, 1) => RPartial
  | _ => RErr
  end.
Definition in_table (tbl : list (list byte * N)) (bs : list byte) : bool := existsb (fun p => bytes_eqb (fst p) bs) tbl.
(* every text the guard asks about (the line-prefixes of a form) has an answer from the real reader *)
Fixpoint prefixes_in (tbl : list (list byte * N)) (pre suf : form) : bool :=
  match suf with
  | [] => true
  | l :: suf' => in_table tbl (expand (pre ++ [l])) && prefixes_in tbl (pre ++ [l]) suf'
  end.

Definition sobs_eqb (a b : sobs) : bool :=
  let '(m1, h1, t1, l1) := a in let '(m2, h2, t2, l2) := b in
  forms_eqb m1 m2 && obytes_eqb h1 h2 && obytes_eqb t1 t2 && lres_eqb l1 l2.

(* the harness begins with a fresh Stash and LoadExpanded on the directory as it is *)
Definition sstart (c : scase) : list form * dir := (fst (sload (rd_table (s_rd c)) (s_d0 c)), s_d0 c).

Fixpoint run_sobs (rd : list byte -> rres) (sd : list form * dir) (ops : list sop) : list sobs :=
  match ops with
  | [] => []
  | o :: ops' => let '(sd1, _) := sstep rd sd o in
                 (fst sd1, d_hist (snd sd1), d_tmp (snd sd1), sload rd (snd sd1)) :: run_sobs rd sd1 ops'
  end.

Fixpoint scrash_ok (rd : list byte -> rres) (d0 : dir) (xs : list prim) (k : nat) (co : list scobs) : bool :=
  match co with
  | [] => Nat.eqb k (List.length xs)
  | (x, h, t, l) :: co' =>
      let d := crash_dir d0 xs k in
      (match nth_error xs k with Some m => prim_shape_eqb m x | None => false end) &&
      obytes_eqb (d_hist d) h && obytes_eqb (d_tmp d) t && lres_eqb (sload rd d) l && scrash_ok rd d0 xs (S k) co'
  end.

Fixpoint sspec_ok (fs : list form) (ops : list sop) (os : list sobs) : bool :=
  match ops, os with
  | o :: ops', (m, _, _, l) :: os' =>
      let fs' := sspec_step fs o in forms_eqb m fs' && lres_eqb l (fs', true) && sspec_ok fs' ops' os'
  | _, _ => true
  end.
Definition scrash_spec_ok (fs : list form) (ops : list sop) (co : list scobs) : bool :=
  let ss := sspec_states fs ops in
  forallb (fun c => let '(_, _, _, l) := c in snd l && existsb (forms_eqb (fst l)) ss) co.

(* the initial stash file is missing, or is what Clear writes or what Add writes for the forms it loads as *)
Definition s_in_domain (c : scase) : bool :=
  let rd := rd_table (s_rd c) in
  forallb (sop_encodable rd) (s_ops c) &&
  match d_hist (s_d0 c) with
  | Some bs => let l := sload rd (s_d0 c) in
               snd l && forallb (sencodable rd) (fst l) &&
               (bytes_eqb bs (encode (fst l)) || bytes_eqb bs (enc_mixed (map (fun f => (true, f)) (fst l))))
  | None => true
  end.
Definition oracle_covers (c : scase) : bool :=
  forallb (fun o => match o with SAdd f => prefixes_in (s_rd c) [] f | _ => true end) (s_ops c) &&
  forallb (prefixes_in (s_rd c) []) (fst (sload (rd_table (s_rd c)) (s_d0 c))).

Definition check_scase (c : scase) : N :=
  let rd := rd_table (s_rd c) in
  let sd := sstart c in
  let m := run_sobs rd sd (s_ops c) in
  let xs := snd (srun rd sd (s_ops c)) in
  let fs0 := fst sd in
  let agree := list_eqb sobs_eqb m (s_obs c) &&
               (match s_crash c with [] => true | co => scrash_ok rd (s_d0 c) xs 0 co end) in
  let sok := sspec_ok fs0 (s_ops c) (s_obs c) && scrash_spec_ok fs0 (s_ops c) (s_crash c) in
  if negb (oracle_covers c) then 1     (* the harness did not ask the reader about a text the guard needs *)
  else if agree then (if s_in_domain c && negb sok then 3 else 0)
  else if s_in_domain c && negb sok then 2 else 1.

Fixpoint check_sall_from (i : N) (cs : list scase) : list (N * N) :=
  match cs with
  | [] => []
  | c :: cs' => let r := check_scase c in
                (if N.eqb r 0 then [] else [(i, r)]) ++ check_sall_from (N.succ i) cs'
  end.
Definition check_sall := check_sall_from 0.
Definition sguard_count (cs : list scase) : N := N.of_nat (List.length (filter s_in_domain cs)).
