(* C20 — saved settings (pkg/repl/repl.go SetConfigDir / updateConfigFile, completer.go setHook).
   M: config.lisp holds one (setq var value) per variable in modifiedVars; a change of a watched
   variable marks it and rewrites the whole file from modifiedVars; at start-up the file is evaluated,
   which marks every variable in it again.  S: a session starts with the value last set in any
   earlier session.  Values: Some z (z = -1 stands for nil); None = never set (the default). *)
From Coq Require Import List NArith ZArith Bool Lia.
Export ListNotations.

Definition var := N.
Definition look (m : list (var * Z)) (k : var) : option Z :=
  match find (fun p => N.eqb (fst p) k) m with Some p => Some (snd p) | None => None end.
Definition upd (m : list (var * Z)) (k : var) (x : Z) : list (var * Z) := (k, x) :: m.
Definition mem (k : var) (l : list var) : bool := existsb (N.eqb k) l.

Record mstate := { file : list (var * Z); modified : list var; vals : list (var * Z) }.
Definition m_init : mstate := {| file := []; modified := []; vals := [] |}.
(* start of a session: the file is evaluated; every variable in it is marked *)
Definition m_start (m : mstate) : mstate := {| file := file m; modified := map fst (file m); vals := file m |}.
Definition write_file (md : list var) (v : list (var * Z)) : list (var * Z) :=
  flat_map (fun k => match look v k with Some z => [(k, z)] | None => [] end) md.
Definition m_set (m : mstate) (k : var) (x : Z) : mstate :=
  let v' := upd (vals m) k x in
  let md' := if mem k (modified m) then modified m else k :: modified m in
  {| file := write_file md' v'; modified := md'; vals := v' |}.
Definition m_session (m : mstate) (ops : list (var * Z)) : mstate :=
  fold_left (fun m o => m_set m (fst o) (snd o)) ops (m_start m).

(* S *)
Definition s_session (s : list (var * Z)) (ops : list (var * Z)) : list (var * Z) :=
  fold_left (fun s o => upd s (fst o) (snd o)) ops s.

Lemma look_upd m k x k' : look (upd m k x) k' = if N.eqb k k' then Some x else look m k'.
Proof. unfold look, upd. cbn. destruct (N.eqb k k'); reflexivity. Qed.

Lemma look_write md v k : look (write_file md v) k = if mem k md then look v k else None.
Proof.
  unfold write_file. induction md as [|a md IH]; [reflexivity|]. cbn [flat_map mem existsb].
  destruct (look v a) as [z|] eqn:Ea.
  - unfold look at 1. cbn [app find fst]. destruct (N.eqb a k) eqn:E.
    + apply N.eqb_eq in E. subst a. rewrite N.eqb_refl. cbn. rewrite Ea. reflexivity.
    + rewrite N.eqb_sym, E. cbn [orb]. exact IH.
  - cbn [app]. destruct (N.eqb k a) eqn:E.
    + apply N.eqb_eq in E. subst a. cbn. rewrite Ea. rewrite IH. destruct (mem k md); [exact Ea|reflexivity].
    + cbn. exact IH.
Qed.

Lemma mem_keys m k : mem k (map fst m) = match look m k with Some _ => true | None => false end.
Proof.
  unfold look. induction m as [|[a z] m IH]; [reflexivity|]. cbn. rewrite (N.eqb_sym k a).
  destruct (N.eqb a k); [reflexivity|exact IH].
Qed.

(* during a session: the values agree with S, every set variable is marked, the file is the marked values *)
Definition inv (m : mstate) (s : list (var * Z)) : Prop :=
  (forall k, look (vals m) k = look s k) /\
  (forall k, look s k <> None -> mem k (modified m) = true) /\
  (forall k, look (file m) k = look s k).

Lemma inv_set m s k x : inv m s -> inv (m_set m k x) (upd s k x).
Proof.
  intros (Hv & Hm & Hf). unfold m_set. cbn [vals modified file].
  assert (Hv' : forall k', look (upd (vals m) k x) k' = look (upd s k x) k') by (intros k'; rewrite !look_upd, Hv; reflexivity).
  assert (Hm' : forall k', look (upd s k x) k' <> None -> mem k' (if mem k (modified m) then modified m else k :: modified m) = true).
  { intros k' H. rewrite look_upd in H. destruct (N.eqb k k') eqn:E.
    - apply N.eqb_eq in E. subst k'. destruct (mem k (modified m)) eqn:Em; [exact Em|]. cbn. rewrite N.eqb_refl. reflexivity.
    - specialize (Hm k' H). destruct (mem k (modified m)); [exact Hm|]. cbn [mem existsb] in *. fold (mem k' (modified m)). rewrite Hm. apply orb_true_r. }
  split; [exact Hv'|]. split; [exact Hm'|].
  intros k'. cbn [file]. rewrite look_write, Hv'.
  destruct (mem k' _) eqn:Em; [reflexivity|]. destruct (look (upd s k x) k') eqn:El; [|reflexivity].
  rewrite Hm' in Em by (rewrite El; discriminate). discriminate Em.
Qed.

Lemma inv_start m s : (forall k, look (file m) k = look s k) -> inv (m_start m) s.
Proof.
  intros Hf. unfold m_start, inv. cbn [vals modified file]. split; [exact Hf|]. split; [|exact Hf].
  intros k H. rewrite mem_keys, Hf. destruct (look s k); [reflexivity|contradiction].
Qed.

Lemma fold_inv : forall ops m0 s, inv m0 s ->
  inv (fold_left (fun m o => m_set m (fst o) (snd o)) ops m0) (fold_left (fun s o => upd s (fst o) (snd o)) ops s).
Proof. induction ops as [|o ops IH]; intros m0 s H; [exact H|]. cbn [fold_left]. apply IH. apply inv_set. exact H. Qed.
Lemma inv_session m s ops : (forall k, look (file m) k = look s k) -> inv (m_session m ops) (s_session s ops).
Proof. intros Hf. unfold m_session, s_session. apply fold_inv. apply inv_start. exact Hf. Qed.

(* every session of every history starts with the values last set in earlier sessions *)
Theorem settings_persist : forall sessions k,
  look (vals (m_start (fold_left m_session sessions m_init))) k = look (fold_left s_session sessions []) k.
Proof.
  intros sessions k. cbn [m_start vals].
  assert (H : forall m s, (forall k, look (file m) k = look s k) ->
              forall k, look (file (fold_left m_session sessions m)) k = look (fold_left s_session sessions s) k).
  { induction sessions as [|ops ss IH]; intros m s Hf k0; [apply Hf|]. cbn [fold_left]. apply IH.
    intros k1. apply (inv_session m s ops Hf). }
  apply H. intros k0. reflexivity.
Qed.

(* ---- a process death while config.lisp is updated ----
   updateConfigFile builds the whole text and hands it to os.WriteFile: open with O_CREATE|O_TRUNC, one
   write, close.  Before repo fix C20-3 the file written was config.lisp itself (update_inplace); after it
   the text goes to config.lisp.tmp, which is then renamed over config.lisp (update_atomic).  The content
   of a file is what it evaluates to (the settings in it); a file just opened with O_TRUNC is empty. *)
Record cdir := { c_cfg : option (list (var * Z)); c_tmp : option (list (var * Z)) }.
Inductive cprim := COpen (tmp : bool) | CWrite (tmp : bool) (c : list (var * Z)) | CRename.
Definition cexec (d : cdir) (x : cprim) : cdir :=
  match x with
  | COpen false => {| c_cfg := Some []; c_tmp := c_tmp d |}
  | COpen true => {| c_cfg := c_cfg d; c_tmp := Some [] |}
  | CWrite false c => match c_cfg d with Some c0 => {| c_cfg := Some (c0 ++ c); c_tmp := c_tmp d |} | None => d end
  | CWrite true c => match c_tmp d with Some c0 => {| c_cfg := c_cfg d; c_tmp := Some (c0 ++ c) |} | None => d end
  | CRename => match c_tmp d with Some c => {| c_cfg := Some c; c_tmp := None |} | None => d end
  end.
Definition update_inplace (c : list (var * Z)) : list cprim := [COpen false; CWrite false c].
Definition update_atomic (c : list (var * Z)) : list cprim := [COpen true; CWrite true c; CRename].
Definition ccrash (d : cdir) (xs : list cprim) (k : nat) : cdir := fold_left cexec (firstn k xs) d.
(* what the next session evaluates: a missing config.lisp is created with the header only *)
Definition cload (d : cdir) : list (var * Z) := match c_cfg d with Some c => c | None => [] end.

(* the repaired update: whatever the step the process dies at (and whatever an earlier death left in
   config.lisp.tmp), the next session evaluates the old or the new file *)
Lemma update_atomic_crash d c k : cload (ccrash d (update_atomic c) k) = cload d \/ cload (ccrash d (update_atomic c) k) = c.
Proof.
  unfold ccrash, update_atomic. destruct k as [|[|[|k]]]; cbn [firstn fold_left cexec c_cfg c_tmp app].
  - left; reflexivity.
  - left; reflexivity.
  - left; reflexivity.
  - right. destruct k; reflexivity.
Qed.

(* every history of sessions, any number of settings made in the current one, a death at any step of the
   next update: the session after it starts with every setting as before or every setting as after it *)
Lemma file_sessions sessions : forall m s, (forall k, look (file m) k = look s k) ->
  forall k, look (file (fold_left m_session sessions m)) k = look (fold_left s_session sessions s) k.
Proof.
  induction sessions as [|ops ss IH]; intros m s Hf k0; [apply Hf|]. cbn [fold_left]. apply IH.
  intros k1. apply (inv_session m s ops Hf).
Qed.

Theorem settings_crash_consistent : forall sessions ops k x t j,
  let m := fold_left (fun m o => m_set m (fst o) (snd o)) ops (m_start (fold_left m_session sessions m_init)) in
  let s := s_session (fold_left s_session sessions []) ops in
  let d := ccrash {| c_cfg := Some (file m); c_tmp := t |} (update_atomic (file (m_set m k x))) j in
  (forall k', look (cload d) k' = look s k') \/ (forall k', look (cload d) k' = look (upd s k x) k').
Proof.
  intros sessions ops k x t j m s d.
  assert (Hi : inv m s).
  { unfold m, s, s_session. apply fold_inv, inv_start. apply file_sessions. intros k0. reflexivity. }
  destruct (update_atomic_crash {| c_cfg := Some (file m); c_tmp := t |} (file (m_set m k x)) j) as [H|H];
    fold d in H; rewrite H.
  - left. intros k'. cbn [cload c_cfg]. apply Hi.
  - right. intros k'. apply (inv_set m s k x Hi).
Qed.

(* the unrepaired update: a death between the truncating open and the write leaves an empty config.lisp:
   the next session starts with the defaults - neither the settings before nor those after *)
Lemma settings_crash_inplace_refuted :
  let old := [(0%N, 5%Z)] in let new := [(1%N, 7%Z); (0%N, 5%Z)] in
  let d := ccrash {| c_cfg := Some old; c_tmp := None |} (update_inplace new) 1 in
  look (cload d) 0%N = None /\ look old 0%N = Some 5%Z /\ look new 0%N = Some 5%Z.
Proof. vm_compute. repeat split. Qed.

(* per run: the settings of one variable observed in a fresh session after a death on entering each step of
   an update from `before` to `after`, with the kind of step seen by strace (0 open of config.lisp, 1 open of
   config.lisp.tmp, 2 write to config.lisp, 3 write to config.lisp.tmp, 4 rename): the steps are those of
   update_atomic and every observation is the model's, i.e. before or after *)
Definition cprim_kind (x : cprim) : N :=
  match x with COpen false => 0 | COpen true => 1 | CWrite false _ => 2 | CWrite true _ => 3 | CRename => 4 end%N.
Definition opt_eqb (a b : option Z) : bool :=
  match a, b with Some x, Some y => Z.eqb x y | None, None => true | _, _ => false end.
Definition crash_case := (list (var * Z) * list (var * Z) * list (N * list (var * option Z)))%type.
Definition obs_matches (c : list (var * Z)) (o : list (var * option Z)) : bool :=
  forallb (fun p => opt_eqb (look c (fst p)) (snd p)) o.
Fixpoint crash_steps_ok (d : cdir) (xs : list cprim) (k : nat) (obs : list (N * list (var * option Z))) : bool :=
  match obs with
  | [] => Nat.eqb k (List.length xs)
  | (kind, o) :: obs' =>
      (match nth_error xs k with Some x => N.eqb (cprim_kind x) kind | None => false end) &&
      obs_matches (cload (ccrash d xs k)) o && crash_steps_ok d xs (S k) obs'
  end.
Definition check_crash_case (c : crash_case) : N :=
  let '(before, after, obs) := c in
  let sok := forallb (fun p => obs_matches before (snd p) || obs_matches after (snd p)) obs in
  let agree := crash_steps_ok {| c_cfg := Some before; c_tmp := None |} (update_atomic after) 0 obs in
  if agree then (if sok then 0 else 3) else if sok then 1 else 2.
Fixpoint check_crash_from (i : N) (cs : list crash_case) : list (N * N) :=
  match cs with
  | [] => []
  | c :: cs' => let r := check_crash_case c in (if N.eqb r 0 then [] else [(i, r)]) ++ check_crash_from (N.succ i) cs'
  end.
Definition check_settings_crash := check_crash_from 0%N.

(* ---- per-run comparison: what each session loaded, and what it then set ---- *)
Definition val_eqb (a b : option Z) : bool :=
  match a, b with Some x, Some y => Z.eqb x y | None, None => true | _, _ => false end.
Fixpoint run_case (m : mstate) (s : list (var * Z)) (sess : list (list (var * option Z) * list (var * option Z))) : N :=
  match sess with
  | [] => 0%N
  | (loaded, ops) :: rest =>
      let m1 := m_start m in
      let ops' := flat_map (fun o => match snd o with Some z => [(fst o, z)] | None => [] end) ops in
      (* a variable never set is at its default, which the harness checks; here: the ones that were set *)
      let agrees (st : list (var * Z)) (lv : var * option Z) :=
        match look st (fst lv) with None => true | Some z => val_eqb (Some z) (snd lv) end in
      let okM := forallb (agrees (vals m1)) loaded in
      let okS := forallb (agrees s) loaded in
      if negb okS then 2%N else if negb okM then 1%N
      else run_case (fold_left (fun m o => m_set m (fst o) (snd o)) ops' m1) (s_session s ops') rest
  end.
Fixpoint check_from (i : N) (cs : list (list (list (var * option Z) * list (var * option Z)))) : list (N * N) :=
  match cs with
  | [] => []
  | c :: cs' => let r := run_case m_init [] c in (if N.eqb r 0 then [] else [(i, r)]) ++ check_from (N.succ i) cs'
  end.
Definition check_settings := check_from 0%N.
