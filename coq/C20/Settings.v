(* C20 — saved settings (pkg/repl/repl.go SetConfigDir / updateConfigFile, completer.go setHook).
   M: config.lisp holds one (setq var value) per variable in modifiedVars; a change of a watched
   variable marks it and rewrites the whole file from modifiedVars; at start-up the file is evaluated,
   which marks every variable in it again.  S: a session starts with the value last set in any
   earlier session.  Values: Some z (z = -1 stands for nil); None = never set (the default). *)
From Coq Require Import List NArith ZArith Bool Lia.
Export ListNotations.

Definition var := N.
Definition look (m : list (var * Z)) (k : var) : option Z :=
  match find (fun p => N.eqb (fst p) k) m with Some p => Some (snd p) | None => None end.
Definition upd (m : list (var * Z)) (k : var) (x : Z) : list (var * Z) := (k, x) :: m.
Definition mem (k : var) (l : list var) : bool := existsb (N.eqb k) l.

Record mstate := { file : list (var * Z); modified : list var; vals : list (var * Z) }.
Definition m_init : mstate := {| file := []; modified := []; vals := [] |}.
(* start of a session: the file is evaluated; every variable in it is marked *)
Definition m_start (m : mstate) : mstate := {| file := file m; modified := map fst (file m); vals := file m |}.
Definition write_file (md : list var) (v : list (var * Z)) : list (var * Z) :=
  flat_map (fun k => match look v k with Some z => [(k, z)] | None => [] end) md.
Definition m_set (m : mstate) (k : var) (x : Z) : mstate :=
  let v' := upd (vals m) k x in
  let md' := if mem k (modified m) then modified m else k :: modified m in
  {| file := write_file md' v'; modified := md'; vals := v' |}.
Definition m_session (m : mstate) (ops : list (var * Z)) : mstate :=
  fold_left (fun m o => m_set m (fst o) (snd o)) ops (m_start m).

(* S *)
Definition s_session (s : list (var * Z)) (ops : list (var * Z)) : list (var * Z) :=
  fold_left (fun s o => upd s (fst o) (snd o)) ops s.

Lemma look_upd m k x k' : look (upd m k x) k' = if N.eqb k k' then Some x else look m k'.
Proof. unfold look, upd. cbn. destruct (N.eqb k k'); reflexivity. Qed.

Lemma look_write md v k : look (write_file md v) k = if mem k md then look v k else None.
Proof.
  unfold write_file. induction md as [|a md IH]; [reflexivity|]. cbn [flat_map mem existsb].
  destruct (look v a) as [z|] eqn:Ea.
  - unfold look at 1. cbn [app find fst]. destruct (N.eqb a k) eqn:E.
    + apply N.eqb_eq in E. subst a. rewrite N.eqb_refl. cbn. rewrite Ea. reflexivity.
    + rewrite N.eqb_sym, E. cbn [orb]. exact IH.
  - cbn [app]. destruct (N.eqb k a) eqn:E.
    + apply N.eqb_eq in E. subst a. cbn. rewrite Ea. rewrite IH. destruct (mem k md); [exact Ea|reflexivity].
    + cbn. exact IH.
Qed.

Lemma mem_keys m k : mem k (map fst m) = match look m k with Some _ => true | None => false end.
Proof.
  unfold look. induction m as [|[a z] m IH]; [reflexivity|]. cbn. rewrite (N.eqb_sym k a).
  destruct (N.eqb a k); [reflexivity|exact IH].
Qed.

(* during a session: the values agree with S, every set variable is marked, the file is the marked values *)
Definition inv (m : mstate) (s : list (var * Z)) : Prop :=
  (forall k, look (vals m) k = look s k) /\
  (forall k, look s k <> None -> mem k (modified m) = true) /\
  (forall k, look (file m) k = look s k).

Lemma inv_set m s k x : inv m s -> inv (m_set m k x) (upd s k x).
Proof.
  intros (Hv & Hm & Hf). unfold m_set. cbn [vals modified file].
  assert (Hv' : forall k', look (upd (vals m) k x) k' = look (upd s k x) k') by (intros k'; rewrite !look_upd, Hv; reflexivity).
  assert (Hm' : forall k', look (upd s k x) k' <> None -> mem k' (if mem k (modified m) then modified m else k :: modified m) = true).
  { intros k' H. rewrite look_upd in H. destruct (N.eqb k k') eqn:E.
    - apply N.eqb_eq in E. subst k'. destruct (mem k (modified m)) eqn:Em; [exact Em|]. cbn. rewrite N.eqb_refl. reflexivity.
    - specialize (Hm k' H). destruct (mem k (modified m)); [exact Hm|]. cbn [mem existsb] in *. fold (mem k' (modified m)). rewrite Hm. apply orb_true_r. }
  split; [exact Hv'|]. split; [exact Hm'|].
  intros k'. cbn [file]. rewrite look_write, Hv'.
  destruct (mem k' _) eqn:Em; [reflexivity|]. destruct (look (upd s k x) k') eqn:El; [|reflexivity].
  rewrite Hm' in Em by (rewrite El; discriminate). discriminate Em.
Qed.

Lemma inv_start m s : (forall k, look (file m) k = look s k) -> inv (m_start m) s.
Proof.
  intros Hf. unfold m_start, inv. cbn [vals modified file]. split; [exact Hf|]. split; [|exact Hf].
  intros k H. rewrite mem_keys, Hf. destruct (look s k); [reflexivity|contradiction].
Qed.

Lemma fold_inv : forall ops m0 s, inv m0 s ->
  inv (fold_left (fun m o => m_set m (fst o) (snd o)) ops m0) (fold_left (fun s o => upd s (fst o) (snd o)) ops s).
Proof. induction ops as [|o ops IH]; intros m0 s H; [exact H|]. cbn [fold_left]. apply IH. apply inv_set. exact H. Qed.
Lemma inv_session m s ops : (forall k, look (file m) k = look s k) -> inv (m_session m ops) (s_session s ops).
Proof. intros Hf. unfold m_session, s_session. apply fold_inv. apply inv_start. exact Hf. Qed.

(* every session of every history starts with the values last set in earlier sessions *)
Theorem settings_persist : forall sessions k,
  look (vals (m_start (fold_left m_session sessions m_init))) k = look (fold_left s_session sessions []) k.
Proof.
  intros sessions k. cbn [m_start vals].
  assert (H : forall m s, (forall k, look (file m) k = look s k) ->
              forall k, look (file (fold_left m_session sessions m)) k = look (fold_left s_session sessions s) k).
  { induction sessions as [|ops ss IH]; intros m s Hf k0; [apply Hf|]. cbn [fold_left]. apply IH.
    intros k1. apply (inv_session m s ops Hf). }
  apply H. intros k0. reflexivity.
Qed.

(* ---- per-run comparison: what each session loaded, and what it then set ---- *)
Definition val_eqb (a b : option Z) : bool :=
  match a, b with Some x, Some y => Z.eqb x y | None, None => true | _, _ => false end.
Fixpoint run_case (m : mstate) (s : list (var * Z)) (sess : list (list (var * option Z) * list (var * option Z))) : N :=
  match sess with
  | [] => 0%N
  | (loaded, ops) :: rest =>
      let m1 := m_start m in
      let ops' := flat_map (fun o => match snd o with Some z => [(fst o, z)] | None => [] end) ops in
      (* a variable never set is at its default, which the harness checks; here: the ones that were set *)
      let agrees (st : list (var * Z)) (lv : var * option Z) :=
        match look st (fst lv) with None => true | Some z => val_eqb (Some z) (snd lv) end in
      let okM := forallb (agrees (vals m1)) loaded in
      let okS := forallb (agrees s) loaded in
      if negb okS then 2%N else if negb okM then 1%N
      else run_case (fold_left (fun m o => m_set m (fst o) (snd o)) ops' m1) (s_session s ops') rest
  end.
Fixpoint check_from (i : N) (cs : list (list (list (var * option Z) * list (var * option Z)))) : list (N * N) :=
  match cs with
  | [] => []
  | c :: cs' => let r := run_case m_init [] c in (if N.eqb r 0 then [] else [(i, r)]) ++ check_from (N.succ i) cs'
  end.
Definition check_settings := check_from 0%N.
