From C09 Require Import Format.

Inductive observed := BText (out : list byte) | BError | BFault.
Record case := { k_ctl : list byte; k_args : list fmtarg; k_obs : observed }.

Fixpoint bytes_eqb (a b : list byte) : bool :=
  match a, b with [], [] => true | x :: a', y :: b' => N.eqb x y && bytes_eqb a' b' | _, _ => false end.

(* 0 agree (or outside the modelled directives); 1 the model and format differ, no host fault;
   2 format answered with a host fault (the model never does: format_no_fault) *)
Definition check_case (tb : tabs) (c : case) : N :=
  match k_obs c with
  | BFault => 2%N
  | BText t => match format tb (k_ctl c) (k_args c) with
               | OText t' => if bytes_eqb t t' then 0%N else 1%N
               | OUnmodelled => 0%N
               | _ => 1%N
               end
  | BError => match format tb (k_ctl c) (k_args c) with
              | OError | OUnmodelled => 0%N
              | _ => 1%N
              end
  end.
Fixpoint check_all_from (tb : tabs) (i : N) (cs : list case) : list (N * N) :=
  match cs with
  | [] => []
  | c :: cs' => let r := check_case tb c in (if N.eqb r 0 then [] else [(i, r)]) ++ check_all_from tb (N.succ i) cs'
  end.
Definition check_all tb := check_all_from tb 0%N.
Definition modelled_count (tb : tabs) (cs : list case) : N :=
  N.of_nat (length (filter (fun c => match format tb (k_ctl c) (k_args c) with OUnmodelled | OFuel => false | _ => true end) cs)).
