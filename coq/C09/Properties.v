(* C09 — property theorems only.  The property as a whole ("every built-in, every argument tuple")
   is not a theorem: there is no model of ~770 Go functions; that part is a finite enumeration on
   the implementation (see props/C09.json).  What is proved, for ALL inputs, concerns the two
   components every Lisp-level text goes through: the reader and format's control-string scanner,
   each as a model in which every index and slice is bounds-checked. *)
From C02 Require Import Model Spec Proofs.
From C09 Require Import Format FormatProofs Reader Stream.

(* (1) the reader: for every table set accepted by table_ok (re-proved on the regenerated tables on
   every run of C02 and C09), every state a read can reach, every byte: the bounds-checked step is
   defined (no src[pos] or src[tokenStart:pos] out of range) and equals the unchecked one *)
Theorem C09_reader_step_in_bounds : forall T esc m src pos s, table_ok T = true -> sim m src pos s -> pos < length src ->
  m_step_c T esc m src pos = Some (m_step T esc m src pos).
Proof. exact step_checked. Qed.
Print Assumptions C09_reader_step_in_bounds.

(* (2) ... for every block of every length, in all-objects and one-form mode *)
Theorem C09_reader_block_in_bounds : forall T esc one, table_ok T = true -> forall fuel m src pos s,
  sim m src pos s -> pos <= length src -> m_block_c T esc one m src pos fuel = Some (m_block T esc one m src pos fuel).
Proof. exact block_checked. Qed.
Print Assumptions C09_reader_block_in_bounds.

(* (3) ... and across block boundaries and at the end of the input: starting from any state a previous
   block left behind, the next block is read within bounds, and the slices taken when the block or
   the input ends are within bounds again *)
Theorem C09_reader_stream_in_bounds : forall T esc one, table_ok T = true -> forall src m s, bstart m s ->
  exists m' p', m_block_c T esc one (reset m) src 0 (length src) = Some (m', p') /\
                m_block T esc one (reset m) src 0 (length src) = (m', p') /\
                (forall s', c_err (m_core m') = None -> p' = length src -> sim m' src (length src) s' ->
                            block_end_ok m' src = true /\ finish_ok m' src = true /\ bstart (m_block_end m' src) s').
Proof. exact stream_blocks_checked. Qed.
Print Assumptions C09_reader_stream_in_bounds.

(* (4) format: whatever the control string, the arguments and the two tables taken from control.go,
   scanning directives (prefix parameters, v, #, 'c, modifiers) and running ~% ~& ~~ ~| ~T and the move directive never
   indexes the control string, the argument list, the output or the constant `spaces` out of range
   (the move directive may have put the argument position anywhere, also below 0 or past the end) ... *)
Theorem C09_format_scanner_no_fault : forall tb ctl args, format tb ctl args <> OFault.
Proof. exact format_no_fault. Qed.
Print Assumptions C09_format_scanner_no_fault.

(* (5) ... and always finishes within the fuel given (the position strictly advances): no hang *)
Theorem C09_format_scanner_terminates : forall tb ctl args, format tb ctl args <> OFuel.
Proof. exact format_fuel_suffices. Qed.
Print Assumptions C09_format_scanner_terminates.

(* (6) ~T alone: for every modifier, parameter list (numbers, v, #, characters, missing) and output so
   far, tabulating never takes spaces[:n] with a negative n: the distance to the target column is never
   negative (the next multiple of colinc lies beyond the current column; colinc 0 is handled) *)
Theorem C09_format_tab_no_fault : forall at_ params out, dir_t at_ params out <> TFault.
Proof. exact dir_t_no_fault. Qed.
Print Assumptions C09_format_tab_no_fault.

(* (7) no unbounded allocation from ~T: since numeric parameters are limited to array-dimension-limit
   (repo_fixes/C09-34), what one ~T appends is at most 2 * 268435456 bytes, whatever the parameters ... *)
Theorem C09_format_tab_output_bounded : forall at_ params out out', dir_t at_ params out = TOut out' ->
  (Z.of_nat (length out') <= Z.of_nat (length out) + 2 * max_dir_param)%Z.
Proof. exact dir_t_output_bounded. Qed.
Print Assumptions C09_format_tab_output_bounded.

(* (8) ... and the product colnum * colinc that Go computes in a 64-bit int does not overflow for
   parameters accepted by getIntParam, so modelling it in Z is faithful *)
Theorem C09_format_tab_product_fits : forall params colnum colinc,
  int_param params 0 0%Z true = PVal colnum -> int_param params 1 1%Z true = PVal colinc ->
  (0 <= colnum * colinc < 2 ^ 63)%Z.
Proof. exact dir_t_product_fits. Qed.
Print Assumptions C09_format_tab_product_fits.

(* (9) the stream readers: for every table set accepted by table_ok, every text, every way an io.Reader may
   cut it into blocks (empty blocks, the end of the stream as a block of its own), all-objects and one-form
   mode: the stream reader with every index and slice checked, which starts every block with tokenStart 0
   as ReadStream / ReadStreamPush / ReadStreamEach do, never faults and equals the stream model of C02.
   That the reset is needed exactly there is shown by two refutations on the regenerated tables
   (C09/StreamTables.v, re-checked on every run: C09_stream_when_saved_refuted, C09_stream_keep_refuted) *)
Theorem C09_stream_reset_no_fault : forall T esc one blocks, table_ok T = true ->
  m_stream_c T esc one TsReset m0 blocks 0 = CRes (m_read_stream T esc one m0 blocks 0).
Proof. exact stream_c_reset_no_fault. Qed.
Print Assumptions C09_stream_reset_no_fault.

(* (10) where the policy of resetting only after a save coincides with the code: at every block end inside
   a lexeme of which at least one byte lies in the block *)
Theorem C09_stream_when_saved_agrees : forall m src,
  (token_like (c_mode (m_core m)) || string_like (c_mode (m_core m)))%bool = true -> m_ts m < length src ->
  block_end_p TsWhenSaved m src = block_end_p TsReset m src.
Proof. exact block_end_p_when_saved. Qed.
Print Assumptions C09_stream_when_saved_agrees.

(* FULL STATEMENT of the property (not a theorem here): for every Lisp-level input - text, function
   application, control string - the outcome is a value or a Lisp condition.  For the ~770 built-ins
   this is decided by enumeration on the implementation only (partial). *)
