(* C09 — property theorems only.  The property as a whole ("every built-in, every argument tuple")
   is not a theorem: there is no model of ~770 Go functions; that part is a finite enumeration on
   the implementation (see props/C09.json).  What is proved, for ALL inputs, concerns the two
   components every Lisp-level text goes through: the reader and format's control-string scanner,
   each as a model in which every index and slice is bounds-checked. *)
From C02 Require Import Model Spec Proofs.
From C09 Require Import Format FormatProofs Reader Stream Progress.

(* (1) the reader: for every table set accepted by table_ok (re-proved on the regenerated tables on
   every run of C02 and C09), every state a read can reach, every byte: the bounds-checked step is
   defined (no src[pos] or src[tokenStart:pos] out of range) and equals the unchecked one *)
Theorem C09_reader_step_in_bounds : forall T esc m src pos s, table_ok T = true -> sim m src pos s -> pos < length src ->
  m_step_c T esc m src pos = Some (m_step T esc m src pos).
Proof. exact step_checked. Qed.
Print Assumptions C09_reader_step_in_bounds.

(* (2) ... for every block of every length, in all-objects and one-form mode *)
Theorem C09_reader_block_in_bounds : forall T esc one, table_ok T = true -> forall fuel m src pos s,
  sim m src pos s -> pos <= length src -> m_block_c T esc one m src pos fuel = Some (m_block T esc one m src pos fuel).
Proof. exact block_checked. Qed.
Print Assumptions C09_reader_block_in_bounds.

(* (3) ... and across block boundaries and at the end of the input: starting from any state a previous
   block left behind, the next block is read within bounds, and the slices taken when the block or
   the input ends are within bounds again *)
Theorem C09_reader_stream_in_bounds : forall T esc one, table_ok T = true -> forall src m s, bstart m s ->
  exists m' p', m_block_c T esc one (reset m) src 0 (length src) = Some (m', p') /\
                m_block T esc one (reset m) src 0 (length src) = (m', p') /\
                (forall s', c_err (m_core m') = None -> p' = length src -> sim m' src (length src) s' ->
                            block_end_ok m' src = true /\ finish_ok m' src = true /\ bstart (m_block_end m' src) s').
Proof. exact stream_blocks_checked. Qed.
Print Assumptions C09_reader_stream_in_bounds.

(* (4) format: whatever the control string, the arguments and the two tables taken from control.go,
   scanning directives (prefix parameters, v, #, 'c, modifiers) and running ~% ~& ~~ ~| ~T and the move directive never
   indexes the control string, the argument list, the output or the constant `spaces` out of range
   (the move directive may have put the argument position anywhere, also below 0 or past the end) ... *)
Theorem C09_format_scanner_no_fault : forall tb ctl args, format tb ctl args <> OFault.
Proof. exact format_no_fault. Qed.
Print Assumptions C09_format_scanner_no_fault.

(* (5) ... and always finishes within the fuel given (the position strictly advances): no hang *)
Theorem C09_format_scanner_terminates : forall tb ctl args, format tb ctl args <> OFuel.
Proof. exact format_fuel_suffices. Qed.
Print Assumptions C09_format_scanner_terminates.

(* (6) ~T alone: for every modifier, parameter list (numbers, v, #, characters, missing) and output so
   far, tabulating never takes spaces[:n] with a negative n: the distance to the target column is never
   negative (the next multiple of colinc lies beyond the current column; colinc 0 is handled) *)
Theorem C09_format_tab_no_fault : forall at_ params out, dir_t at_ params out <> TFault.
Proof. exact dir_t_no_fault. Qed.
Print Assumptions C09_format_tab_no_fault.

(* (7) no unbounded allocation from ~T: since numeric parameters are limited to array-dimension-limit
   (repo_fixes/C09-34), what one ~T appends is at most 2 * 268435456 bytes, whatever the parameters ... *)
Theorem C09_format_tab_output_bounded : forall at_ params out out', dir_t at_ params out = TOut out' ->
  (Z.of_nat (length out') <= Z.of_nat (length out) + 2 * max_dir_param)%Z.
Proof. exact dir_t_output_bounded. Qed.
Print Assumptions C09_format_tab_output_bounded.

(* (8) ... and the product colnum * colinc that Go computes in a 64-bit int does not overflow for
   parameters accepted by getIntParam, so modelling it in Z is faithful *)
Theorem C09_format_tab_product_fits : forall params colnum colinc,
  int_param params 0 0%Z true = PVal colnum -> int_param params 1 1%Z true = PVal colinc ->
  (0 <= colnum * colinc < 2 ^ 63)%Z.
Proof. exact dir_t_product_fits. Qed.
Print Assumptions C09_format_tab_product_fits.

(* (9) the stream readers: for every table set accepted by table_ok, every text, every way an io.Reader may
   cut it into blocks (empty blocks, the end of the stream as a block of its own), all-objects and one-form
   mode: the stream reader with every index and slice checked, which starts every block with tokenStart 0
   as ReadStream / ReadStreamPush / ReadStreamEach do, never faults and equals the stream model of C02.
   That the reset is needed exactly there is shown by two refutations on the regenerated tables
   (C09/StreamTables.v, re-checked on every run: C09_stream_when_saved_refuted, C09_stream_keep_refuted) *)
Theorem C09_stream_reset_no_fault : forall T esc one blocks, table_ok T = true ->
  m_stream_c T esc one TsReset m0 blocks 0 = CRes (m_read_stream T esc one m0 blocks 0).
Proof. exact stream_c_reset_no_fault. Qed.
Print Assumptions C09_stream_reset_no_fault.

(* (10) where the policy of resetting only after a save coincides with the code: at every block end inside
   a lexeme of which at least one byte lies in the block *)
Theorem C09_stream_when_saved_agrees : forall m src,
  (token_like (c_mode (m_core m)) || string_like (c_mode (m_core m)))%bool = true -> m_ts m < length src ->
  block_end_p TsWhenSaved m src = block_end_p TsReset m src.
Proof. exact block_end_p_when_saved. Qed.
Print Assumptions C09_stream_when_saved_agrees.

(* (11) the decimal count after # (reader field sharpNum; radix of #nR, rank of #nA; repo_fixes/C09-44): for EVERY
   run of digits, of any length, the count the reader keeps is the number the digits denote when that is at
   most array-rank-limit (1024), and otherwise some number in 1025..10249: never negative, never a small number
   the digits do not denote.  Compared with the implementation on every run (the shards named sharp: #<run>R10 and
   #<run>A() for runs of 1..25 digits around 2^31, 2^32, 2^63, 2^64) *)
Theorem C09_sharp_count_exact_or_large : forall ds, ds <> [] -> forallb is_dig ds = true ->
  (value ds <= 1024 -> sharp_num true ds = value ds)%Z /\ (1024 < value ds -> 1024 < sharp_num true ds <= 10249)%Z.
Proof. exact sharp_num_exact_or_large. Qed.
Print Assumptions C09_sharp_count_exact_or_large.

(* (12) ... hence make([]int, rank) is never reached with a negative length, a rank the digits put above the
   limit is a parse error whatever the length of the run, and #nR accepts exactly the radixes 2..36 as written *)
Theorem C09_sharp_rank_no_fault : forall ds, ds <> [] -> forallb is_dig ds = true ->
  rank_outcome true ds <> SFault /\ ((1024 < value ds)%Z -> rank_outcome true ds = SErr) /\
  radix_outcome true ds = (if ((value ds <? 2) || (36 <? value ds))%Z then SErr else SVal (value ds)).
Proof. intros ds H1 H2. split; [exact (rank_no_fault ds H1 H2)|split; [exact (rank_too_large_is_error ds H1 H2)|exact (radix_exact ds H1 H2)]]. Qed.
Print Assumptions C09_sharp_rank_no_fault.

(* (13) the unchanged accumulation in a 64-bit int is refuted: nineteen nines wrap to a negative rank that passes
   the rank test and reaches make (the reported fault); the digits of 2^64 + 10 are read as the radix 10 *)
Theorem C09_sharp_original_refuted :
  rank_outcome false nines19 = SFault /\ radix_outcome false [1;8;4;4;6;7;4;4;0;7;3;7;0;9;5;5;1;6;2;6]%Z = SVal 10%Z.
Proof. split; [exact (proj1 sharp_original_rank_refuted)|exact (proj1 sharp_original_radix_refuted)]. Qed.
Print Assumptions C09_sharp_original_refuted.

(* (14) an iteration directive without a limit (dirIter, with and without the at-sign; repo_fixes/C09-43): WHATEVER
   a pass of the body does to the argument position - body is any function, so every combination of move
   directives, conditionals and consuming directives is covered - the iteration ends within
   (number of arguments - position + 1) passes: with the text, a Lisp error of the body, or the "consumes no
   arguments" error ... *)
Theorem C09_iteration_bounded : forall args body fuel pos first out,
  (Z.to_nat (zlen args - pos) < fuel)%nat -> iter true args body pos first out fuel <> IFuel.
Proof. exact iter_bounded. Qed.
Print Assumptions C09_iteration_bounded.

(* (15) ... because a pass that ends at or before the position it began at while arguments remain ends the
   iteration, on whichever pass that happens (first or not) *)
Theorem C09_iteration_no_progress_ends : forall args body pos first out f pos' o,
  (pos < zlen args)%Z -> body pos = BOk pos' o -> (pos' <= pos)%Z -> (pos' < zlen args)%Z ->
  iter true args body pos first out (S f) = IErr.
Proof. exact iter_no_progress_ends. Qed.
Print Assumptions C09_iteration_no_progress_ends.

(* (16) the unchanged test (first pass only) is refuted: the body "show what remains, take the next argument as
   a count, move back by it" over (0 0 3) does not end for ANY number of passes (the reported hang, in the
   fragment compared with the implementation on every run: the shards named iter) *)
Theorem C09_iteration_original_refuted : forall fuel, format_iter false w_ops w_args fuel = IFuel.
Proof. exact iter_original_refuted. Qed.
Print Assumptions C09_iteration_original_refuted.

(* FULL STATEMENT of the property (not a theorem here): for every Lisp-level input - text, function
   application, control string - the outcome is a value or a Lisp condition.  For the ~770 built-ins
   this is decided by enumeration on the implementation only (partial). *)
