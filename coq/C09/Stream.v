(* C09 — the stream readers (ReadStream, ReadStreamPush, ReadStreamEach in code.go) hand the reader one
   block after the other; the pending lexeme is saved in carry / buf at the end of a block and the next
   block is read with offsets into the NEW block.  What tokenStart the next block starts with is the
   one thing the three loops decide (`cr.tokenStart = 0`); here it is a parameter (ts_policy) of a
   stream reader in which every index and slice is CHECKED (CFault = the Go code would panic):
     TsReset      the code as it is: every block starts with tokenStart 0
     TsWhenSaved  reset only where pending text was saved (tokenStart < pos) - seeded change C09-8
     TsKeep       no reset at all
   Proved for all tables accepted by table_ok, all texts, all ways of cutting them into blocks (also
   empty blocks, also the end of the stream as a block of its own), all-objects and one-form mode:
   with TsReset the checked stream reader never faults and is the stream reader of C02.  The other
   two policies are refuted on the regenerated tables (StreamTables.v). *)
From C02 Require Import Model Spec Proofs.
From C09 Require Import Reader.

Inductive ts_policy := TsReset | TsWhenSaved | TsKeep.
Definition with_ts (m : mstate) (ts : nat) : mstate :=
  {| m_core := m_core m; m_ts := ts; m_carry := m_carry m; m_buf := m_buf m |}.
(* m: the state the block src ended in (pos = len(src)) *)
Definition next_ts (p : ts_policy) (m : mstate) (src : list byte) : nat :=
  match p with
  | TsReset => 0
  | TsKeep => m_ts m
  | TsWhenSaved =>
      let md := c_mode (m_core m) in
      if (token_like md || string_like md) && (m_ts m <? length src) then 0 else m_ts m
  end.
Definition block_end_p (p : ts_policy) (m : mstate) (src : list byte) : mstate :=
  with_ts (m_block_end m src) (next_ts p m src).

Inductive cres := CFault | CRes (r : result).
Fixpoint m_stream_c (T : tables) (esc : byte -> byte) (one : bool) (p : ts_policy) (m : mstate)
         (blocks : list (list byte)) (base : nat) : cres :=
  match blocks with
  | [] => if finish_ok m [] then CRes (result_of (m_finish m []) base) else CFault
  | src :: rest =>
      match m_block_c T esc one m src 0 (length src) with
      | None => CFault
      | Some (m', pos) =>
          match c_err (m_core m') with
          | Some _ => CRes (result_of (m_core m') (base + pos))
          | None =>
              if one && negb (match code (c_p (m_core m')) with [] => true | _ => false end)
              then CRes (result_of (m_core m') (base + pos))
              else match rest with
                   | [] => if finish_ok m' src then CRes (result_of (m_finish m' src) (base + length src)) else CFault
                   | _ => if block_end_ok m' src
                          then m_stream_c T esc one p (block_end_p p m' src) rest (base + length src)
                          else CFault
                   end
          end
      end
  end.

(* ---------- proofs ---------- *)
Lemma reset_id m : m_ts m = 0 -> reset m = m.
Proof. destruct m as [c ts ca bu]. cbn. intros ->. reflexivity. Qed.

Lemma block_end_ts0 m src : m_ts (m_block_end m src) = 0.
Proof. unfold m_block_end. destruct (token_like _); [reflexivity|]. destruct (string_like _); reflexivity. Qed.

Lemma block_end_p_reset m src : block_end_p TsReset m src = m_block_end m src.
Proof.
  unfold block_end_p, with_ts, next_ts. pose proof (block_end_ts0 m src) as H.
  destruct (m_block_end m src) as [c ts ca bu]. cbn in *. subst ts. reflexivity.
Qed.

(* where the seeded policy coincides with the code: whenever something of the lexeme body was read *)
Lemma block_end_p_when_saved m src :
  (token_like (c_mode (m_core m)) || string_like (c_mode (m_core m)))%bool = true -> m_ts m < length src ->
  block_end_p TsWhenSaved m src = block_end_p TsReset m src.
Proof.
  intros Hl Hts. unfold block_end_p, next_ts. rewrite Hl. apply Nat.ltb_lt in Hts. rewrite Hts. reflexivity.
Qed.

Theorem stream_c_reset T esc one : table_ok T = true -> forall blocks m s base,
  bstart m s -> m_ts m = 0 -> stopped one (s_core s) = false ->
  m_stream_c T esc one TsReset m blocks base = CRes (m_read_stream T esc one m blocks base).
Proof.
  intros HT. induction blocks as [|src rest IH]; intros m s base Hb Hts Hst.
  - cbn [m_stream_c m_read_stream].
    assert (Hf : finish_ok m [] = true).
    { unfold finish_ok. destruct (c_err (m_core m)) eqn:E; [reflexivity|].
      pose proof (block_end_checked (reset m) [] s Hb) as H. rewrite (reset_id m Hts) in H.
      destruct (H E) as [_ H2]. unfold finish_ok in H2. rewrite E in H2. exact H2. }
    rewrite Hf. reflexivity.
  - cbn [m_stream_c m_read_stream]. fold (reset m). rewrite (reset_id m Hts).
    pose proof (bstart_sim m s src Hb) as Hsim. rewrite (reset_id m Hts) in Hsim.
    rewrite (block_checked T esc one HT (length src) m src 0 s Hsim (Nat.le_0_l _)).
    destruct (m_block T esc one m src 0 (length src)) as [m' p'] eqn:Eb.
    destruct (block_sim T esc one HT (length src) m src 0 s Hsim (Nat.le_0_l _) (Nat.le_sub_l _ _) m' p' Eb)
      as (s' & _ & Hc' & Hrest).
    destruct (c_err (m_core m')) eqn:E; [reflexivity|].
    destruct (one && negb match code (c_p (m_core m')) with [] => true | _ => false end)%bool eqn:Eo; [reflexivity|].
    assert (Hst' : stopped one (s_core s') = false).
    { unfold stopped. rewrite Hc', E. unfold has_obj. exact Eo. }
    destruct (Hrest Hst') as [-> Hsim'].
    destruct (block_end_checked m' src s' Hsim' E) as [Hbe Hfo].
    destruct rest as [|src2 rest].
    + rewrite Hfo. reflexivity.
    + rewrite Hbe. rewrite block_end_p_reset.
      apply (IH (m_block_end m' src) s' (base + length src)); [apply block_end_bstart; exact Hsim'|apply block_end_ts0|exact Hst'].
Qed.

(* from the start of a stream *)
Theorem stream_c_reset_no_fault T esc one blocks : table_ok T = true ->
  m_stream_c T esc one TsReset m0 blocks 0 = CRes (m_read_stream T esc one m0 blocks 0).
Proof. intros HT. apply (stream_c_reset T esc one HT blocks m0 s0 0 bstart0 eq_refl (stopped0 one)). Qed.
