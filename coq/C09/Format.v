(* C09 — the part of format every control string goes through: control.process, readDir (prefix
   parameters, modifiers, the v and # parameters), readParam, and the directives whose whole
   effect is modelled: ~% ~& ~~ ~| (repeat a character), ~* (move in the argument list) and ~T (tabulate).  Every index into the control string, the argument list and the
   output is CHECKED here: where the Go code would index out of range the model answers OFault.
   pkg/cl/control.go: process, readDir, readParam, dirPercent, dirAmp, dirTilde, dirPage, dirMove, dirT,
   getIntParam / intParam. *)
From Coq Require Export List Bool Arith NArith ZArith Lia.
Export ListNotations.

Definition byte := N.
Inductive fmtarg := FInt (z : Z) | FNil | FChar | FOther.        (* what a v parameter can pick up *)
Inductive param := PNil | PInt (z : Z) | PChar (bs : list byte) | POther.
Inductive outcome := OText (out : list byte) | OError | OFault | OUnmodelled | OFuel.

Definition get (s : list byte) (i : Z) : option byte := if (i <? 0)%Z then None else nth_error s (Z.to_nat i).
Definition slice (s : list byte) (a b : Z) : option (list byte) :=
  if ((0 <=? a) && (a <=? b) && (b <=? Z.of_nat (length s)))%Z then Some (firstn (Z.to_nat (b - a)) (skipn (Z.to_nat a) s)) else None.

(* The two tables come from control.go and are regenerated on every run (GenC09.Tables):
   ends  = the bytes marked 'x' in dirScanMap (they end a parameter),
   letters = the bytes readDir dispatches to a directive on. *)
Record tabs := { t_ends : list N; t_letters : list N }.
Definition ends_param (tb : tabs) (b : byte) : bool := existsb (N.eqb b) (t_ends tb).
Definition known_letter (tb : tabs) (b : byte) : bool := existsb (N.eqb b) (t_letters tb).

(* readParam: from pos to the next byte that ends a parameter (or the end) *)
Fixpoint param_end (tb : tabs) (s : list byte) (end_ : Z) (pos : Z) (fuel : nat) : option Z :=
  match fuel with
  | O => Some pos
  | S f => if (pos <? end_)%Z then
             match get s pos with
             | None => None                                    (* index out of range *)
             | Some b => if ends_param tb b then Some pos else param_end tb s end_ (pos + 1) f
             end
           else Some pos
  end.

Definition is_digit (b : byte) : bool := (48 <=? b)%N && (b <=? 57)%N.
(* strconv.ParseInt(p, 10, 64): optional sign, digits, within int64 *)
Definition parse_int (bs : list byte) : option Z :=
  let '(neg, ds) := match bs with 45%N :: r => (true, r) | 43%N :: r => (false, r) | _ => (false, bs) end in
  match ds with
  | [] => None
  | _ => if forallb is_digit ds then
           let v := fold_left (fun acc b => (acc * 10 + Z.of_N (b - 48))%Z) ds 0%Z in
           let v := if neg then (- v)%Z else v in
           if ((- 9223372036854775808 <=? v) && (v <=? 9223372036854775807))%Z then Some v else None
         else None
  end.

Inductive dres :=
| DDir (letter : byte) (colon at_ : bool) (params : list param) (pos argpos : Z)
| DInvalid | DFault | DEnd (pos argpos : Z)
| DUnm.      (* a byte above 127 after a quote: utf8.DecodeRune decides how many bytes belong to it; not modelled *)

(* readDir: pos is just past the tilde *)
Fixpoint read_dir (tb : tabs) (s : list byte) (end_ : Z) (args : list fmtarg) (pos argpos : Z) (colon at_ : bool) (params : list param) (fuel : nat) : dres :=
  match fuel with
  | O => DEnd pos argpos
  | S f =>
      if negb (pos <? end_)%Z then DEnd pos argpos else
      match get s pos with
      | None => DFault
      | Some b =>
          let pos := (pos + 1)%Z in
          if N.eqb b 58%N then (if colon then DInvalid else read_dir tb s end_ args pos argpos true at_ params f)
          else if N.eqb b 64%N then (if at_ then DInvalid else read_dir tb s end_ args pos argpos colon true params f)
          else if N.eqb b 44%N then
            if colon || at_ then DInvalid else
            match get s (pos - 2) with                          (* prev := c.str[c.pos-2] *)
            | None => DFault
            | Some prev => read_dir tb s end_ args pos argpos colon at_ (if N.eqb prev 126%N || N.eqb prev 44%N then params ++ [PNil] else params) f
            end
          else if N.eqb b 35%N then read_dir tb s end_ args pos argpos colon at_ (params ++ [PInt (Z.of_nat (length args) - argpos)]) f
          else if N.eqb b 118%N || N.eqb b 86%N then      (* v, V (repo_fixes/C15-7) *)
            if (0 <=? argpos)%Z then
              if (Z.of_nat (length args) <=? argpos)%Z then DInvalid            (* needArg *)
              else match nth_error args (Z.to_nat argpos) with
                   | None => DFault
                   | Some a => read_dir tb s end_ args pos (argpos + 1) colon at_
                                        (params ++ [match a with FInt z => PInt z | FNil => PNil | FChar => PChar [] | FOther => POther end]) f
                   end
            else read_dir tb s end_ args pos argpos colon at_ (params ++ [PNil]) f
          else if N.eqb b 39%N then
            (* the character after the quote, whatever it is (repo_fixes/C15-8: utf8.DecodeRune(c.str[c.pos:c.end])
               after the test c.end <= c.pos); it used to be readParam up to the next marked byte + ReadCharacter *)
            if negb (pos <? end_)%Z then DInvalid
            else match slice s pos end_ with
                 | None => DFault
                 | Some [] => DFault
                 | Some (b1 :: _) => if (b1 <? 128)%N then read_dir tb s end_ args (pos + 1) argpos colon at_ (params ++ [PChar [b1]]) f
                                     else DUnm
                 end
          else if N.eqb b 45%N || is_digit b then
            match param_end tb s end_ (pos - 1) (length s) with
            | None => DFault
            | Some e => match slice s (pos - 1) e with
                        | None => DFault
                        | Some p => match parse_int p with
                                    | Some n => read_dir tb s end_ args e argpos colon at_ (params ++ [PInt n]) f
                                    | None => DInvalid
                                    end
                        end
            end
          else DDir b colon at_ params pos argpos
      end
  end.

(* maxDirParam = slip.ArrayMaxDimension = 0x10000000: since repo_fixes/C09-34 a numeric parameter whose
   magnitude exceeds it is an error (getIntParam), it used to be a repeat count / buffer size as it stood.
   A bignum picked up by v saturates to the largest / smallest int first, i.e. is also "too large". *)
Definition max_dir_param : Z := 268435456.
Definition count_of (params : list param) : option Z :=       (* n of ~n% and friends *)
  match params with
  | [] => Some 1%Z
  | PInt z :: _ => if ((z <? - max_dir_param) || (max_dir_param <? z))%Z then None else Some z
  | _ => None                                                  (* invalidDir / invalidDirParam *)
  end.
Definition rep (n : Z) (b : byte) : list byte := repeat b (Z.to_nat n).
Definition last_is_nl (out : list byte) : bool := match rev out with 10%N :: _ => true | _ => false end.

(* getIntParam(pos, params, def, notNeg): a missing or empty parameter is the default; a negative number
   where none is allowed, a number beyond maxDirParam in magnitude, or a character is an error. *)
Inductive pres := PVal (z : Z) | PErr.
Definition int_param (params : list param) (pos : nat) (def : Z) (not_neg : bool) : pres :=
  match nth_error params pos with
  | None | Some PNil => PVal def
  | Some (PInt z) => if (not_neg && (z <? 0)%Z) || (z <? - max_dir_param)%Z || (max_dir_param <? z)%Z then PErr else PVal z
  | Some _ => PErr
  end.

(* ~* (dirMove).  The count is read with int(RealValue()), exact only up to 2^53: beyond that the
   directive is left unmodelled. *)
Inductive mres := MPos (argpos : Z) | MErr | MUnm.
Definition move_of (colon at_ : bool) (params : list param) (argpos : Z) : mres :=
  match params with
  | PNil :: _ | PChar _ :: _ | POther :: _ => MErr                 (* invalidDirParam *)
  | _ =>
      let '(n, changed) := match params with PInt z :: _ => (z, true) | _ => (1%Z, false) end in
      if (9007199254740992 <? Z.abs n)%Z then MUnm
      else if colon && at_ then MErr
      else if colon then MPos (argpos - n)
      else if at_ then MPos (if changed then n else 0%Z)
      else MPos (argpos + n)
  end.

(* ~T (dirT).  col_of = the column of the end of the output: bytes after the last newline, return or
   page (bytes.LastIndexAny(c.out, "\n\r\f")).  pad appends n spaces through the constant `spaces`:
   whole copies while len(spaces) < n, then spaces[:n] - the slice is CHECKED: a negative n faults. *)
Definition is_break (b : byte) : bool := N.eqb b 10 || N.eqb b 13 || N.eqb b 12.
Fixpoint tail_run (r : list byte) : nat := match r with [] => O | b :: r' => if is_break b then O else S (tail_run r') end.
Definition col_of (out : list byte) : Z := Z.of_nat (tail_run (rev out)).
Definition pad (out : list byte) (n : Z) : option (list byte) :=
  if (n <? 0)%Z then None else Some (out ++ repeat 32%N (Z.to_nat n)).
Inductive tres := TOut (out : list byte) | TErr | TFault.
Definition t_finish (out : list byte) (n : Z) : tres :=
  if (max_dir_param <? n)%Z then TErr else match pad out n with None => TFault | Some o => TOut o end.
Definition next_stop (from colinc : Z) : Z := (Z.quot from colinc * colinc + colinc)%Z.
Definition dir_t (at_ : bool) (params : list param) (out : list byte) : tres :=
  match int_param params 0 0 true, int_param params 1 1 true with
  | PVal colnum, PVal colinc =>
      if at_ then
        match pad out colnum with
        | None => TFault
        | Some out1 =>
            let from := col_of out1 in
            let target := if (colinc =? 0)%Z || (from =? Z.quot from colinc * colinc)%Z then from else next_stop from colinc in
            t_finish out1 (target - from)
        end
      else
        let from := col_of out in
        let t0 := (colnum * colinc)%Z in
        let target := if (colinc =? 0)%Z then Z.max colnum from else if (t0 <? from)%Z then next_stop from colinc else t0 in
        t_finish out (target - from)
  | _, _ => TErr
  end.

(* control.process *)
Fixpoint process (tb : tabs) (s : list byte) (end_ : Z) (args : list fmtarg) (pos argpos : Z) (out : list byte) (fuel : nat) : outcome :=
  match fuel with
  | O => OFuel
  | S f =>
      if negb (pos <? end_)%Z then OText out else
      match get s pos with
      | None => OFault
      | Some b =>
          if negb (N.eqb b 126%N) then process tb s end_ args (pos + 1) argpos (out ++ [b]) f
          else match read_dir tb s end_ args (pos + 1) argpos false false [] (S (length s)) with
               | DFault => OFault
               | DUnm => OUnmodelled
               | DInvalid => OError
               | DEnd p a => process tb s end_ args p a out f
               | DDir l colon at_ params p a =>
                   if negb (known_letter tb l) then OError
                   else if N.eqb l 37%N then       (* ~% *)
                     match count_of params with Some n => process tb s end_ args p a (out ++ rep n 10%N) f | None => OError end
                   else if N.eqb l 38%N then       (* ~& *)
                     match count_of params with
                     | Some n => let n := if last_is_nl out then (n - 1)%Z else n in process tb s end_ args p a (out ++ rep n 10%N) f
                     | None => OError end
                   else if N.eqb l 126%N then      (* ~~ *)
                     match count_of params with Some n => process tb s end_ args p a (out ++ rep n 126%N) f | None => OError end
                   else if N.eqb l 124%N then      (* ~| *)
                     match count_of params with Some n => process tb s end_ args p a (out ++ rep n 12%N) f | None => OError end
                   else if N.eqb l 42%N then       (* ~* *)
                     match move_of colon at_ params a with
                     | MPos a' => (* the new position must be in 0..len(args) (repo_fixes/C15-15) *)
                                  if (a' <? 0)%Z || (Z.of_nat (length args) <? a')%Z then OError
                                  else process tb s end_ args p a' out f
                     | MErr => OError
                     | MUnm => OUnmodelled end
                   else if N.eqb l 84%N || N.eqb l 116%N then   (* ~T ~t *)
                     match dir_t at_ params out with
                     | TOut out' => process tb s end_ args p a out' f
                     | TErr => OError
                     | TFault => OFault end
                   else OUnmodelled
               end
      end
  end.

Definition format (tb : tabs) (ctl : list byte) (args : list fmtarg) : outcome :=
  process tb ctl (Z.of_nat (length ctl)) args 0 0 [] (S (length ctl)).
