(* C09 — the part of format every control string goes through: control.process, readDir (prefix
   parameters, modifiers, the v and # parameters), readParam, and the four directives whose whole
   effect is modelled (~% ~& ~~ ~|).  Every index into the control string, the argument list and the
   output is CHECKED here: where the Go code would index out of range the model answers OFault.
   pkg/cl/control.go:107-273 (process, readDir, readParam), 370-405, 1430-1445, 1669-1684. *)
From Coq Require Export List Bool Arith NArith ZArith Lia.
Export ListNotations.

Definition byte := N.
Inductive fmtarg := FInt (z : Z) | FNil | FChar | FOther.        (* what a v parameter can pick up *)
Inductive param := PNil | PInt (z : Z) | PChar (bs : list byte) | POther.
Inductive outcome := OText (out : list byte) | OError | OFault | OUnmodelled | OFuel.

Definition get (s : list byte) (i : Z) : option byte := if (i <? 0)%Z then None else nth_error s (Z.to_nat i).
Definition slice (s : list byte) (a b : Z) : option (list byte) :=
  if ((0 <=? a) && (a <=? b) && (b <=? Z.of_nat (length s)))%Z then Some (firstn (Z.to_nat (b - a)) (skipn (Z.to_nat a) s)) else None.

(* The two tables come from control.go and are regenerated on every run (GenC09.Tables):
   ends  = the bytes marked 'x' in dirScanMap (they end a parameter),
   letters = the bytes readDir dispatches to a directive on. *)
Record tabs := { t_ends : list N; t_letters : list N }.
Definition ends_param (tb : tabs) (b : byte) : bool := existsb (N.eqb b) (t_ends tb).
Definition known_letter (tb : tabs) (b : byte) : bool := existsb (N.eqb b) (t_letters tb).

(* readParam: from pos to the next byte that ends a parameter (or the end) *)
Fixpoint param_end (tb : tabs) (s : list byte) (end_ : Z) (pos : Z) (fuel : nat) : option Z :=
  match fuel with
  | O => Some pos
  | S f => if (pos <? end_)%Z then
             match get s pos with
             | None => None                                    (* index out of range *)
             | Some b => if ends_param tb b then Some pos else param_end tb s end_ (pos + 1) f
             end
           else Some pos
  end.

Definition is_digit (b : byte) : bool := (48 <=? b)%N && (b <=? 57)%N.
(* strconv.ParseInt(p, 10, 64): optional sign, digits, within int64 *)
Definition parse_int (bs : list byte) : option Z :=
  let '(neg, ds) := match bs with 45%N :: r => (true, r) | 43%N :: r => (false, r) | _ => (false, bs) end in
  match ds with
  | [] => None
  | _ => if forallb is_digit ds then
           let v := fold_left (fun acc b => (acc * 10 + Z.of_N (b - 48))%Z) ds 0%Z in
           let v := if neg then (- v)%Z else v in
           if ((- 9223372036854775808 <=? v) && (v <=? 9223372036854775807))%Z then Some v else None
         else None
  end.

Inductive dres :=
| DDir (letter : byte) (colon at_ : bool) (params : list param) (pos argpos : Z)
| DInvalid | DFault | DEnd (pos argpos : Z).

(* readDir: pos is just past the tilde *)
Fixpoint read_dir (tb : tabs) (s : list byte) (end_ : Z) (args : list fmtarg) (pos argpos : Z) (colon at_ : bool) (params : list param) (fuel : nat) : dres :=
  match fuel with
  | O => DEnd pos argpos
  | S f =>
      if negb (pos <? end_)%Z then DEnd pos argpos else
      match get s pos with
      | None => DFault
      | Some b =>
          let pos := (pos + 1)%Z in
          if N.eqb b 58%N then (if colon then DInvalid else read_dir tb s end_ args pos argpos true at_ params f)
          else if N.eqb b 64%N then (if at_ then DInvalid else read_dir tb s end_ args pos argpos colon true params f)
          else if N.eqb b 44%N then
            if colon || at_ then DInvalid else
            match get s (pos - 2) with                          (* prev := c.str[c.pos-2] *)
            | None => DFault
            | Some prev => read_dir tb s end_ args pos argpos colon at_ (if N.eqb prev 126%N || N.eqb prev 44%N then params ++ [PNil] else params) f
            end
          else if N.eqb b 35%N then read_dir tb s end_ args pos argpos colon at_ (params ++ [PInt (Z.of_nat (length args) - argpos)]) f
          else if N.eqb b 118%N then
            if (0 <=? argpos)%Z then
              if (Z.of_nat (length args) <=? argpos)%Z then DInvalid            (* needArg *)
              else match nth_error args (Z.to_nat argpos) with
                   | None => DFault
                   | Some a => read_dir tb s end_ args pos (argpos + 1) colon at_
                                        (params ++ [match a with FInt z => PInt z | FNil => PNil | FChar => PChar [] | FOther => POther end]) f
                   end
            else read_dir tb s end_ args pos argpos colon at_ (params ++ [PNil]) f
          else if N.eqb b 39%N then
            match param_end tb s end_ pos (length s) with
            | None => DFault
            | Some e => match slice s pos e with
                        | None => DFault
                        | Some [] => DInvalid                    (* ReadCharacter of nothing: parse-error *)
                        | Some p => read_dir tb s end_ args e argpos colon at_ (params ++ [PChar p]) f
                        end
            end
          else if N.eqb b 45%N || is_digit b then
            match param_end tb s end_ (pos - 1) (length s) with
            | None => DFault
            | Some e => match slice s (pos - 1) e with
                        | None => DFault
                        | Some p => match parse_int p with
                                    | Some n => read_dir tb s end_ args e argpos colon at_ (params ++ [PInt n]) f
                                    | None => DInvalid
                                    end
                        end
            end
          else DDir b colon at_ params pos argpos
      end
  end.

(* maxDirParam = slip.ArrayMaxDimension = 0x10000000: since repo_fixes/C09-34 a numeric parameter whose
   magnitude exceeds it is an error (getIntParam), it used to be a repeat count / buffer size as it stood.
   A bignum picked up by v saturates to the largest / smallest int first, i.e. is also "too large". *)
Definition max_dir_param : Z := 268435456.
Definition count_of (params : list param) : option Z :=       (* n of ~n% and friends *)
  match params with
  | [] => Some 1%Z
  | PInt z :: _ => if ((z <? - max_dir_param) || (max_dir_param <? z))%Z then None else Some z
  | _ => None                                                  (* invalidDir / invalidDirParam *)
  end.
Definition rep (n : Z) (b : byte) : list byte := repeat b (Z.to_nat n).
Definition last_is_nl (out : list byte) : bool := match rev out with 10%N :: _ => true | _ => false end.

(* control.process *)
Fixpoint process (tb : tabs) (s : list byte) (end_ : Z) (args : list fmtarg) (pos argpos : Z) (out : list byte) (fuel : nat) : outcome :=
  match fuel with
  | O => OFuel
  | S f =>
      if negb (pos <? end_)%Z then OText out else
      match get s pos with
      | None => OFault
      | Some b =>
          if negb (N.eqb b 126%N) then process tb s end_ args (pos + 1) argpos (out ++ [b]) f
          else match read_dir tb s end_ args (pos + 1) argpos false false [] (S (length s)) with
               | DFault => OFault
               | DInvalid => OError
               | DEnd p a => process tb s end_ args p a out f
               | DDir l colon at_ params p a =>
                   if negb (known_letter tb l) then OError
                   else if N.eqb l 37%N then       (* ~% *)
                     match count_of params with Some n => process tb s end_ args p a (out ++ rep n 10%N) f | None => OError end
                   else if N.eqb l 38%N then       (* ~& *)
                     match count_of params with
                     | Some n => let n := if last_is_nl out then (n - 1)%Z else n in process tb s end_ args p a (out ++ rep n 10%N) f
                     | None => OError end
                   else if N.eqb l 126%N then      (* ~~ *)
                     match count_of params with Some n => process tb s end_ args p a (out ++ rep n 126%N) f | None => OError end
                   else if N.eqb l 124%N then      (* ~| *)
                     match count_of params with Some n => process tb s end_ args p a (out ++ rep n 12%N) f | None => OError end
                   else OUnmodelled
               end
      end
  end.

Definition format (tb : tabs) (ctl : list byte) (args : list fmtarg) : outcome :=
  process tb ctl (Z.of_nat (length ctl)) args 0 0 [] (S (length ctl)).
