(* C09 — the checked model of format's scanner never answers OFault: no control string, argument
   list or table content can make it index out of range. *)
From C09 Require Import Format.
Local Open Scope Z_scope.

Lemma get_some s i : 0 <= i < Z.of_nat (length s) -> exists b, get s i = Some b.
Proof.
  intros [H0 H1]. unfold get. destruct (i <? 0) eqn:E; [lia|].
  destruct (nth_error s (Z.to_nat i)) eqn:En; [eauto|]. apply nth_error_None in En. lia.
Qed.
Lemma slice_some s a b : 0 <= a -> a <= b -> b <= Z.of_nat (length s) -> exists l, slice s a b = Some l.
Proof.
  intros H0 H1 H2. unfold slice.
  replace ((0 <=? a) && (a <=? b) && (b <=? Z.of_nat (length s)))%bool with true; [eauto|].
  symmetry. rewrite !andb_true_iff. repeat split; apply Z.leb_le; assumption.
Qed.

Lemma param_end_bounds tb s end_ : end_ <= Z.of_nat (length s) -> forall fuel pos, 0 <= pos -> pos <= end_ ->
  exists e, param_end tb s end_ pos fuel = Some e /\ pos <= e <= end_.
Proof.
  intros He. induction fuel as [|f IH]; intros pos H0 H1; cbn [param_end].
  - exists pos. split; [reflexivity|lia].
  - destruct (pos <? end_) eqn:E.
    + apply Z.ltb_lt in E. destruct (get_some s pos) as [b Hb]; [lia|]. rewrite Hb.
      destruct (ends_param tb b); [exists pos; split; [reflexivity|lia]|].
      destruct (IH (pos + 1)) as (e & -> & Hb2); [lia|lia|]. exists e. split; [reflexivity|lia].
    + exists pos. split; [reflexivity|lia].
Qed.

Definition dres_ok (r : dres) : Prop :=
  match r with DFault => False | DDir _ _ _ _ p _ => 1 <= p | DEnd p _ => 1 <= p | DInvalid | DUnm => True end.

Lemma read_dir_ok tb s end_ args : end_ <= Z.of_nat (length s) ->
  forall fuel pos argpos colon at_ params, 1 <= pos -> dres_ok (read_dir tb s end_ args pos argpos colon at_ params fuel).
Proof.
  intros He. induction fuel as [|f IH]; intros pos argpos colon at_ params Hp; cbn [read_dir]; [exact Hp|].
  destruct (pos <? end_) eqn:E; cbn [negb]; [|exact Hp].
  apply Z.ltb_lt in E. destruct (get_some s pos) as [b Hb]; [lia|]. rewrite Hb.
  destruct (N.eqb b 58); [destruct colon; [exact I|apply IH; lia]|].
  destruct (N.eqb b 64); [destruct at_; [exact I|apply IH; lia]|].
  destruct (N.eqb b 44).
  { destruct (colon || at_); [exact I|]. destruct (get_some s (pos + 1 - 2)) as [pv Hpv]; [lia|]. rewrite Hpv. apply IH. lia. }
  destruct (N.eqb b 35); [apply IH; lia|].
  destruct (N.eqb b 118 || N.eqb b 86)%bool.
  { destruct (0 <=? argpos) eqn:Ea; [|apply IH; lia]. apply Z.leb_le in Ea.
    destruct (Z.of_nat (length args) <=? argpos) eqn:El; [exact I|]. apply Z.leb_gt in El.
    destruct (nth_error args (Z.to_nat argpos)) eqn:En; [apply IH; lia|]. apply nth_error_None in En. lia. }
  destruct (N.eqb b 39).
  { destruct (pos + 1 <? end_) eqn:E1; cbn [negb]; [|exact I]. apply Z.ltb_lt in E1.
    destruct (slice s (pos + 1) end_) as [l|] eqn:Es.
    2:{ destruct (slice_some s (pos + 1) end_) as [l Hl]; [lia|lia|lia|]. rewrite Hl in Es. discriminate. }
    destruct l as [|b1 l].
    { unfold slice in Es. destruct ((0 <=? pos + 1) && (pos + 1 <=? end_) && (end_ <=? Z.of_nat (length s)))%bool; [|discriminate].
      injection Es as Es. apply (f_equal (@length byte)) in Es. rewrite firstn_length, skipn_length in Es. cbn in Es. lia. }
    destruct (b1 <? 128)%N; [apply IH; lia|exact I]. }
  destruct (N.eqb b 45 || is_digit b).
  { destruct (param_end_bounds tb s end_ He (length s) (pos + 1 - 1)) as (e & -> & Hb2); [lia|lia|].
    destruct (slice_some s (pos + 1 - 1) e) as [l ->]; [lia|lia|lia|]. destruct (parse_int l); [apply IH; lia|exact I]. }
  cbn. lia.
Qed.

(* ---- ~T: the slices of the constant `spaces` are always within bounds ---- *)
Lemma int_param_nonneg params pos def z : 0 <= def -> int_param params pos def true = PVal z -> 0 <= z.
Proof.
  intros Hd. unfold int_param. destruct (nth_error params pos) as [[|z0|bs|]|]; try discriminate.
  - intros H. injection H as <-. exact Hd.
  - cbn [andb]. destruct (z0 <? 0) eqn:E; cbn [orb]; [discriminate|].
    destruct ((z0 <? - max_dir_param) || (max_dir_param <? z0))%bool; [discriminate|].
    intros H. injection H as <-. apply Z.ltb_ge in E. exact E.
  - intros H. injection H as <-. exact Hd.
Qed.
Lemma int_param_bounded params pos def nn z : - max_dir_param <= def <= max_dir_param ->
  int_param params pos def nn = PVal z -> - max_dir_param <= z <= max_dir_param.
Proof.
  intros Hd. unfold int_param. destruct (nth_error params pos) as [[|z0|bs|]|]; try discriminate.
  - intros H. injection H as <-. exact Hd.
  - destruct (nn && (z0 <? 0))%bool; cbn [orb]; [discriminate|].
    destruct (z0 <? - max_dir_param) eqn:E1; cbn [orb]; [discriminate|].
    destruct (max_dir_param <? z0) eqn:E2; [discriminate|].
    intros H. injection H as <-. apply Z.ltb_ge in E1, E2. lia.
  - intros H. injection H as <-. exact Hd.
Qed.
Lemma col_of_nonneg out : 0 <= col_of out.
Proof. unfold col_of. lia. Qed.
(* the next multiple of colinc after `from` lies beyond it (Go's / on non-negative operands) *)
Lemma next_stop_beyond from colinc : 0 <= from -> 0 < colinc -> from < next_stop from colinc.
Proof.
  intros Hf Hc. unfold next_stop. rewrite Z.quot_div_nonneg by lia.
  pose proof (Z.div_mod from colinc ltac:(lia)) as Hdm. pose proof (Z.mod_pos_bound from colinc Hc) as Hm.
  rewrite (Z.mul_comm (from / colinc) colinc). lia.
Qed.
Lemma pad_nonneg out n : 0 <= n -> exists o, pad out n = Some o.
Proof. intros H. unfold pad. destruct (n <? 0) eqn:E; [apply Z.ltb_lt in E; lia|eauto]. Qed.
Lemma t_finish_no_fault out n : 0 <= n -> t_finish out n <> TFault.
Proof.
  intros H. unfold t_finish. destruct (max_dir_param <? n); [discriminate|].
  destruct (pad_nonneg out n H) as [o ->]. discriminate.
Qed.
Theorem dir_t_no_fault at_ params out : dir_t at_ params out <> TFault.
Proof.
  unfold dir_t.
  destruct (int_param params 0 0 true) as [colnum|] eqn:E0; [|discriminate].
  destruct (int_param params 1 1 true) as [colinc|] eqn:E1; [|discriminate].
  apply int_param_nonneg in E0; [|lia]. apply int_param_nonneg in E1; [|lia].
  destruct at_.
  - destruct (pad_nonneg out colnum E0) as [out1 ->].
    apply t_finish_no_fault. pose proof (col_of_nonneg out1) as Hf.
    destruct (colinc =? 0) eqn:Ec; cbn [orb]; [lia|]. apply Z.eqb_neq in Ec.
    destruct (col_of out1 =? Z.quot (col_of out1) colinc * colinc); [lia|].
    pose proof (next_stop_beyond (col_of out1) colinc Hf ltac:(lia)). lia.
  - apply t_finish_no_fault. pose proof (col_of_nonneg out) as Hf.
    destruct (colinc =? 0) eqn:Ec; [lia|]. apply Z.eqb_neq in Ec.
    destruct (colnum * colinc <? col_of out) eqn:Et.
    + pose proof (next_stop_beyond (col_of out) colinc Hf ltac:(lia)). lia.
    + apply Z.ltb_ge in Et. lia.
Qed.
(* the product colnum*colinc computed by Go in an int cannot overflow: both factors are bounded *)
Theorem dir_t_product_fits params colnum colinc :
  int_param params 0 0 true = PVal colnum -> int_param params 1 1 true = PVal colinc ->
  0 <= colnum * colinc < 2 ^ 63.
Proof.
  intros E0 E1.
  pose proof (int_param_nonneg params 0%nat 0 colnum ltac:(lia) E0). pose proof (int_param_nonneg params 1%nat 1 colinc ltac:(lia) E1).
  apply int_param_bounded in E0; [|unfold max_dir_param; lia]. apply int_param_bounded in E1; [|unfold max_dir_param; lia].
  unfold max_dir_param in *. split; [nia|].
  apply Z.le_lt_trans with (268435456 * 268435456); [nia|reflexivity].
Qed.
(* what ~T appends is bounded: at most maxDirParam spaces after the optional colnum spaces *)
Theorem dir_t_output_bounded at_ params out out' : dir_t at_ params out = TOut out' ->
  Z.of_nat (length out') <= Z.of_nat (length out) + 2 * max_dir_param.
Proof.
  unfold dir_t.
  destruct (int_param params 0 0 true) as [colnum|] eqn:E0; [|discriminate].
  destruct (int_param params 1 1 true) as [colinc|] eqn:E1; [|discriminate].
  pose proof (int_param_nonneg params 0%nat 0 colnum ltac:(lia) E0) as H0.
  apply int_param_bounded in E0; [|unfold max_dir_param; lia].
  assert (Hfin : forall o n o', t_finish o n = TOut o' -> Z.of_nat (length o') <= Z.of_nat (length o) + max_dir_param).
  { intros o n o'. unfold t_finish. destruct (max_dir_param <? n) eqn:En; [discriminate|]. apply Z.ltb_ge in En.
    unfold pad. destruct (n <? 0) eqn:E; [discriminate|]. apply Z.ltb_ge in E. intros H. injection H as <-.
    rewrite app_length, repeat_length. lia. }
  destruct at_.
  - unfold pad at 1. destruct (colnum <? 0); [discriminate|].
    intros H. apply Hfin in H. rewrite app_length, repeat_length in H. lia.
  - intros H. apply Hfin in H. unfold max_dir_param in *. lia.
Qed.

Lemma process_no_fault tb s end_ args : end_ <= Z.of_nat (length s) ->
  forall fuel pos argpos out, 0 <= pos -> process tb s end_ args pos argpos out fuel <> OFault.
Proof.
  intros He. induction fuel as [|f IH]; intros pos argpos out Hp; cbn [process]; [discriminate|].
  destruct (pos <? end_) eqn:E; cbn [negb]; [|discriminate].
  apply Z.ltb_lt in E. destruct (get_some s pos) as [b Hb]; [lia|]. rewrite Hb.
  destruct (N.eqb b 126); cbn [negb]; [|apply IH; lia].
  pose proof (read_dir_ok tb s end_ args He (S (length s)) (pos + 1) argpos false false [] ltac:(lia)) as Hok.
  destruct (read_dir tb s end_ args (pos + 1) argpos false false [] (S (length s))) as [l c a ps p ap| | |p ap|]; cbn [dres_ok] in Hok.
  5:{ discriminate. }
  - destruct (known_letter tb l); cbn [negb]; [|discriminate].
    pose proof (dir_t_no_fault a ps out) as Ht.
    repeat match goal with
           | |- (if ?c then _ else _) <> _ => destruct c
           | |- match count_of ?x with _ => _ end <> _ => destruct (count_of x)
           | |- match move_of ?c ?a ?x ?y with _ => _ end <> _ => destruct (move_of c a x y)
           | |- match dir_t ?a ?x ?y with _ => _ end <> _ => destruct (dir_t a x y)
           end; try discriminate; try (exfalso; apply Ht; reflexivity); apply IH; lia.
  - discriminate.
  - destruct Hok.
  - apply IH. lia.
Qed.

Theorem format_no_fault tb ctl args : format tb ctl args <> OFault.
Proof. unfold format. apply process_no_fault; lia. Qed.

(* the fuel given by `format` always suffices: the position grows with every step *)
Lemma read_dir_advances tb s end_ args : forall fuel pos argpos colon at_ params,
  match read_dir tb s end_ args pos argpos colon at_ params fuel with
  | DDir _ _ _ _ p _ => pos < p | DEnd p _ => pos <= p | _ => True end.
Proof.
  induction fuel as [|f IH]; intros pos argpos colon at_ params; cbn [read_dir]; [lia|].
  destruct (pos <? end_); cbn [negb]; [|lia].
  destruct (get s pos); [|exact I].
  assert (Hstep : forall ap c a ps p0, pos + 1 <= p0 ->
            match read_dir tb s end_ args p0 ap c a ps f with DDir _ _ _ _ p _ => pos < p | DEnd p _ => pos <= p | _ => True end).
  { intros ap c a ps p0 Hp0. specialize (IH p0 ap c a ps). destruct (read_dir tb s end_ args p0 ap c a ps f); try exact I; lia. }
  destruct (N.eqb b 58); [destruct colon; [exact I|apply Hstep; lia]|].
  destruct (N.eqb b 64); [destruct at_; [exact I|apply Hstep; lia]|].
  destruct (N.eqb b 44); [destruct (colon || at_); [exact I|]; destruct (get s (pos + 1 - 2)); [apply Hstep; lia|exact I]|].
  destruct (N.eqb b 35); [apply Hstep; lia|].
  destruct (N.eqb b 118 || N.eqb b 86)%bool.
  { destruct (0 <=? argpos); [|apply Hstep; lia]. destruct (Z.of_nat (length args) <=? argpos); [exact I|].
    destruct (nth_error args (Z.to_nat argpos)); [apply Hstep; lia|exact I]. }
  assert (Hpe : forall fuel0 p0 e, param_end tb s end_ p0 fuel0 = Some e -> p0 <= e).
  { induction fuel0 as [|f0 IH0]; intros p0 e; cbn [param_end]; [intros H; injection H as <-; lia|].
    destruct (p0 <? end_); [|intros H; injection H as <-; lia]. destruct (get s p0); [|discriminate].
    destruct (ends_param tb b0); [intros H; injection H as <-; lia|]. intros H. apply IH0 in H. lia. }
  destruct (N.eqb b 39).
  { destruct (pos + 1 <? end_); cbn [negb]; [|exact I].
    destruct (slice s (pos + 1) end_) as [[|x l]|]; try exact I. destruct (x <? 128)%N; [apply Hstep; lia|exact I]. }
  destruct (N.eqb b 45 || is_digit b); [|lia].
  destruct (param_end tb s end_ (pos + 1 - 1) (length s)) as [e|] eqn:Ee; [|exact I].
  destruct (slice s (pos + 1 - 1) e) as [l|] eqn:Es; [|exact I].
  destruct (parse_int l) eqn:Epi; [|exact I].
  (* a parsed number is not empty, so e is past the sign/digit *)
  assert (pos + 1 <= e).
  { apply Hpe in Ee. assert (e <> pos + 1 - 1); [|lia]. intros ->. unfold slice in Es.
    destruct ((0 <=? pos + 1 - 1) && (pos + 1 - 1 <=? pos + 1 - 1) && (pos + 1 - 1 <=? Z.of_nat (length s)))%bool; [|discriminate].
    rewrite Z.sub_diag in Es. cbn in Es. injection Es as <-. discriminate Epi. }
  apply Hstep. lia.
Qed.

Lemma process_fuel tb s end_ args : forall fuel pos argpos out, Z.max 0 (end_ - pos) < Z.of_nat fuel ->
  process tb s end_ args pos argpos out fuel <> OFuel.
Proof.
  induction fuel as [|f IH]; intros pos argpos out Hf; cbn [process].
  - cbn in Hf. lia.
  - destruct (pos <? end_) eqn:E; cbn [negb]; [|discriminate]. apply Z.ltb_lt in E.
    destruct (get s pos); [|discriminate].
    destruct (N.eqb b 126); cbn [negb]; [|apply IH; lia].
    pose proof (read_dir_advances tb s end_ args (S (length s)) (pos + 1) argpos false false []) as Ha.
    destruct (read_dir tb s end_ args (pos + 1) argpos false false [] (S (length s))) as [l c a ps p ap| | |p ap|]; try discriminate.
    + destruct (known_letter tb l); cbn [negb]; [|discriminate].
      repeat match goal with
             | |- (if ?c then _ else _) <> _ => destruct c
             | |- match count_of ?x with _ => _ end <> _ => destruct (count_of x)
             | |- match move_of ?c ?a ?x ?y with _ => _ end <> _ => destruct (move_of c a x y)
             | |- match dir_t ?a ?x ?y with _ => _ end <> _ => destruct (dir_t a x y)
             end; try discriminate; apply IH; lia.
    + apply IH. lia.
Qed.
Theorem format_fuel_suffices tb ctl args : format tb ctl args <> OFuel.
Proof. unfold format. apply process_fuel. lia. Qed.
