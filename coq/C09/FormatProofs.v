(* C09 — the checked model of format's scanner never answers OFault: no control string, argument
   list or table content can make it index out of range. *)
From C09 Require Import Format.
Local Open Scope Z_scope.

Lemma get_some s i : 0 <= i < Z.of_nat (length s) -> exists b, get s i = Some b.
Proof.
  intros [H0 H1]. unfold get. destruct (i <? 0) eqn:E; [lia|].
  destruct (nth_error s (Z.to_nat i)) eqn:En; [eauto|]. apply nth_error_None in En. lia.
Qed.
Lemma slice_some s a b : 0 <= a -> a <= b -> b <= Z.of_nat (length s) -> exists l, slice s a b = Some l.
Proof.
  intros H0 H1 H2. unfold slice.
  replace ((0 <=? a) && (a <=? b) && (b <=? Z.of_nat (length s)))%bool with true; [eauto|].
  symmetry. rewrite !andb_true_iff. repeat split; apply Z.leb_le; assumption.
Qed.

Lemma param_end_bounds tb s end_ : end_ <= Z.of_nat (length s) -> forall fuel pos, 0 <= pos -> pos <= end_ ->
  exists e, param_end tb s end_ pos fuel = Some e /\ pos <= e <= end_.
Proof.
  intros He. induction fuel as [|f IH]; intros pos H0 H1; cbn [param_end].
  - exists pos. split; [reflexivity|lia].
  - destruct (pos <? end_) eqn:E.
    + apply Z.ltb_lt in E. destruct (get_some s pos) as [b Hb]; [lia|]. rewrite Hb.
      destruct (ends_param tb b); [exists pos; split; [reflexivity|lia]|].
      destruct (IH (pos + 1)) as (e & -> & Hb2); [lia|lia|]. exists e. split; [reflexivity|lia].
    + exists pos. split; [reflexivity|lia].
Qed.

Definition dres_ok (r : dres) : Prop :=
  match r with DFault => False | DDir _ _ _ _ p _ => 1 <= p | DEnd p _ => 1 <= p | DInvalid => True end.

Lemma read_dir_ok tb s end_ args : end_ <= Z.of_nat (length s) ->
  forall fuel pos argpos colon at_ params, 1 <= pos -> dres_ok (read_dir tb s end_ args pos argpos colon at_ params fuel).
Proof.
  intros He. induction fuel as [|f IH]; intros pos argpos colon at_ params Hp; cbn [read_dir]; [exact Hp|].
  destruct (pos <? end_) eqn:E; cbn [negb]; [|exact Hp].
  apply Z.ltb_lt in E. destruct (get_some s pos) as [b Hb]; [lia|]. rewrite Hb.
  destruct (N.eqb b 58); [destruct colon; [exact I|apply IH; lia]|].
  destruct (N.eqb b 64); [destruct at_; [exact I|apply IH; lia]|].
  destruct (N.eqb b 44).
  { destruct (colon || at_); [exact I|]. destruct (get_some s (pos + 1 - 2)) as [pv Hpv]; [lia|]. rewrite Hpv. apply IH. lia. }
  destruct (N.eqb b 35); [apply IH; lia|].
  destruct (N.eqb b 118).
  { destruct (0 <=? argpos) eqn:Ea; [|apply IH; lia]. apply Z.leb_le in Ea.
    destruct (Z.of_nat (length args) <=? argpos) eqn:El; [exact I|]. apply Z.leb_gt in El.
    destruct (nth_error args (Z.to_nat argpos)) eqn:En; [apply IH; lia|]. apply nth_error_None in En. lia. }
  destruct (N.eqb b 39).
  { destruct (param_end_bounds tb s end_ He (length s) (pos + 1)) as (e & -> & Hb2); [lia|lia|].
    destruct (slice_some s (pos + 1) e) as [l ->]; [lia|lia|lia|]. destruct l; [exact I|apply IH; lia]. }
  destruct (N.eqb b 45 || is_digit b).
  { destruct (param_end_bounds tb s end_ He (length s) (pos + 1 - 1)) as (e & -> & Hb2); [lia|lia|].
    destruct (slice_some s (pos + 1 - 1) e) as [l ->]; [lia|lia|lia|]. destruct (parse_int l); [apply IH; lia|exact I]. }
  cbn. lia.
Qed.

Lemma process_no_fault tb s end_ args : end_ <= Z.of_nat (length s) ->
  forall fuel pos argpos out, 0 <= pos -> process tb s end_ args pos argpos out fuel <> OFault.
Proof.
  intros He. induction fuel as [|f IH]; intros pos argpos out Hp; cbn [process]; [discriminate|].
  destruct (pos <? end_) eqn:E; cbn [negb]; [|discriminate].
  apply Z.ltb_lt in E. destruct (get_some s pos) as [b Hb]; [lia|]. rewrite Hb.
  destruct (N.eqb b 126); cbn [negb]; [|apply IH; lia].
  pose proof (read_dir_ok tb s end_ args He (S (length s)) (pos + 1) argpos false false [] ltac:(lia)) as Hok.
  destruct (read_dir tb s end_ args (pos + 1) argpos false false [] (S (length s))) as [l c a ps p ap| | |p ap]; cbn [dres_ok] in Hok.
  - destruct (known_letter tb l); cbn [negb]; [|discriminate].
    repeat match goal with
           | |- (if ?c then _ else _) <> _ => destruct c
           | |- match count_of ?x with _ => _ end <> _ => destruct (count_of x)
           end; try discriminate; apply IH; lia.
  - discriminate.
  - destruct Hok.
  - apply IH. lia.
Qed.

Theorem format_no_fault tb ctl args : format tb ctl args <> OFault.
Proof. unfold format. apply process_no_fault; lia. Qed.

(* the fuel given by `format` always suffices: the position grows with every step *)
Lemma read_dir_advances tb s end_ args : forall fuel pos argpos colon at_ params,
  match read_dir tb s end_ args pos argpos colon at_ params fuel with
  | DDir _ _ _ _ p _ => pos < p | DEnd p _ => pos <= p | _ => True end.
Proof.
  induction fuel as [|f IH]; intros pos argpos colon at_ params; cbn [read_dir]; [lia|].
  destruct (pos <? end_); cbn [negb]; [|lia].
  destruct (get s pos); [|exact I].
  assert (Hstep : forall ap c a ps p0, pos + 1 <= p0 ->
            match read_dir tb s end_ args p0 ap c a ps f with DDir _ _ _ _ p _ => pos < p | DEnd p _ => pos <= p | _ => True end).
  { intros ap c a ps p0 Hp0. specialize (IH p0 ap c a ps). destruct (read_dir tb s end_ args p0 ap c a ps f); try exact I; lia. }
  destruct (N.eqb b 58); [destruct colon; [exact I|apply Hstep; lia]|].
  destruct (N.eqb b 64); [destruct at_; [exact I|apply Hstep; lia]|].
  destruct (N.eqb b 44); [destruct (colon || at_); [exact I|]; destruct (get s (pos + 1 - 2)); [apply Hstep; lia|exact I]|].
  destruct (N.eqb b 35); [apply Hstep; lia|].
  destruct (N.eqb b 118).
  { destruct (0 <=? argpos); [|apply Hstep; lia]. destruct (Z.of_nat (length args) <=? argpos); [exact I|].
    destruct (nth_error args (Z.to_nat argpos)); [apply Hstep; lia|exact I]. }
  assert (Hpe : forall fuel0 p0 e, param_end tb s end_ p0 fuel0 = Some e -> p0 <= e).
  { induction fuel0 as [|f0 IH0]; intros p0 e; cbn [param_end]; [intros H; injection H as <-; lia|].
    destruct (p0 <? end_); [|intros H; injection H as <-; lia]. destruct (get s p0); [|discriminate].
    destruct (ends_param tb b0); [intros H; injection H as <-; lia|]. intros H. apply IH0 in H. lia. }
  destruct (N.eqb b 39).
  { destruct (param_end tb s end_ (pos + 1) (length s)) as [e|] eqn:Ee; [|exact I]. apply Hpe in Ee.
    destruct (slice s (pos + 1) e) as [[|x l]|]; try exact I. apply Hstep. lia. }
  destruct (N.eqb b 45 || is_digit b); [|lia].
  destruct (param_end tb s end_ (pos + 1 - 1) (length s)) as [e|] eqn:Ee; [|exact I].
  destruct (slice s (pos + 1 - 1) e) as [l|] eqn:Es; [|exact I].
  destruct (parse_int l) eqn:Epi; [|exact I].
  (* a parsed number is not empty, so e is past the sign/digit *)
  assert (pos + 1 <= e).
  { apply Hpe in Ee. assert (e <> pos + 1 - 1); [|lia]. intros ->. unfold slice in Es.
    destruct ((0 <=? pos + 1 - 1) && (pos + 1 - 1 <=? pos + 1 - 1) && (pos + 1 - 1 <=? Z.of_nat (length s)))%bool; [|discriminate].
    rewrite Z.sub_diag in Es. cbn in Es. injection Es as <-. discriminate Epi. }
  apply Hstep. lia.
Qed.

Lemma process_fuel tb s end_ args : forall fuel pos argpos out, Z.max 0 (end_ - pos) < Z.of_nat fuel ->
  process tb s end_ args pos argpos out fuel <> OFuel.
Proof.
  induction fuel as [|f IH]; intros pos argpos out Hf; cbn [process].
  - cbn in Hf. lia.
  - destruct (pos <? end_) eqn:E; cbn [negb]; [|discriminate]. apply Z.ltb_lt in E.
    destruct (get s pos); [|discriminate].
    destruct (N.eqb b 126); cbn [negb]; [|apply IH; lia].
    pose proof (read_dir_advances tb s end_ args (S (length s)) (pos + 1) argpos false false []) as Ha.
    destruct (read_dir tb s end_ args (pos + 1) argpos false false [] (S (length s))) as [l c a ps p ap| | |p ap]; try discriminate.
    + destruct (known_letter tb l); cbn [negb]; [|discriminate].
      repeat match goal with
             | |- (if ?c then _ else _) <> _ => destruct c
             | |- match count_of ?x with _ => _ end <> _ => destruct (count_of x)
             end; try discriminate; apply IH; lia.
    + apply IH. lia.
Qed.
Theorem format_fuel_suffices tb ctl args : format tb ctl args <> OFuel.
Proof. unfold format. apply process_fuel. lia. Qed.
