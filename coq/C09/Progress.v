(* C09, round 5 — two counters that decide whether the host is reached in bounded time and without a
   run-time error, as models of their own:

   A. the decimal count after # (code.go: reader field sharpNum, actions sharpIntByte / sharpNumByte,
      used as the radix of #nR and as the rank of #nA).  The unchanged code accumulates in a Go int
      (64 bit, wraps around); since C09-44 the accumulation stops once the count is beyond
      array-rank-limit.  THEOREM: for every run of digits the repaired count equals the number the
      digits denote whenever that number is at most 1024, and otherwise lies in 1025..10249 - so it is
      never negative (make([]int, n) cannot fail), never a small number the digits do not denote, and
      the rank / radix checks see "too large" exactly when the digits say so.

   B. the passes of an iteration directive without a limit (pkg/cl/control.go dirIter, the cases
      with and without the at-sign modifier).  A pass runs the body, which may move the argument
      position anywhere in 0..len (the move directive).  Since C09-43 EVERY pass that ends at or before
      the position it began at, with arguments left, ends the iteration with a Lisp error; the
      unchanged code tested that on the first pass only (n == math.MaxInt after n was counted down).
      THEOREM: whatever the body does, the iteration ends within len - pos + 1 passes. *)
From Coq Require Import List Bool ZArith Lia.
Import ListNotations.
Local Open Scope Z_scope.

(* ---------- A. the count after # ---------- *)
Definition array_max_rank : Z := 1024.
Definition wrap64 (z : Z) : Z := (z + 2 ^ 63) mod 2 ^ 64 - 2 ^ 63.
(* r.sharpNum = r.sharpNum*10 + int(b-'0'); repaired: only while r.sharpNum <= ArrayMaxRank *)
Definition sharp_step (repaired : bool) (acc d : Z) : Z :=
  if repaired then (if acc <=? array_max_rank then acc * 10 + d else acc) else wrap64 (acc * 10 + d).
(* the first digit sets the field (sharpIntByte), the others accumulate (sharpNumByte) *)
Definition sharp_num (repaired : bool) (ds : list Z) : Z :=
  match ds with [] => 0 | d :: r => fold_left (sharp_step repaired) r d end.
Definition is_dig (d : Z) : bool := (0 <=? d) && (d <=? 9).
Definition value_from (v : Z) (ds : list Z) : Z := fold_left (fun a d => a * 10 + d) ds v.
Definition value (ds : list Z) : Z := value_from 0 ds.

Inductive sres := SVal (n : Z) | SErr | SFault | SUnm.
(* #<ds>R10: the token 10 read in base n is n; pushInteger raises for a base outside 2..36 *)
Definition radix_outcome (repaired : bool) (ds : list Z) : sres :=
  let n := sharp_num repaired ds in if (n <? 2) || (36 <? n) then SErr else SVal n.
(* #<ds>A...: rank 0 and 1 are special, a rank above ArrayMaxRank is a parse error, otherwise
   make([]int, n) twice - a run-time error for a negative n; what follows depends on the contents *)
Definition rank_outcome (repaired : bool) (ds : list Z) : sres :=
  let n := sharp_num repaired ds in
  if (n =? 0) || (n =? 1) then SUnm else if array_max_rank <? n then SErr else if n <? 0 then SFault else SUnm.

Definition sharp_inv (acc v : Z) : Prop := (v <= 1024 /\ acc = v /\ 0 <= v) \/ (1024 < v /\ 1024 < acc <= 10249).

Lemma sharp_fold_inv : forall r acc v, forallb is_dig r = true -> sharp_inv acc v ->
  sharp_inv (fold_left (sharp_step true) r acc) (value_from v r).
Proof.
  induction r as [|d r IH]; intros acc v Hd Hi; [exact Hi|].
  cbn [forallb] in Hd. apply andb_true_iff in Hd. destruct Hd as [Hd Hr].
  unfold is_dig in Hd. apply andb_true_iff in Hd. destruct Hd as [H0 H9].
  apply Z.leb_le in H0. apply Z.leb_le in H9.
  cbn [fold_left value_from]. change (fold_left (fun a d0 => a * 10 + d0) r (v * 10 + d)) with (value_from (v * 10 + d) r).
  apply IH; [exact Hr|].
  unfold sharp_step, array_max_rank. destruct Hi as [[Hv [He Hn]]|[Hv Ha]].
  - subst acc. destruct (v <=? 1024) eqn:E; [|apply Z.leb_gt in E; lia].
    destruct (Z_le_gt_dec (v * 10 + d) 1024); [left|right]; lia.
  - destruct (acc <=? 1024) eqn:E; [apply Z.leb_le in E; lia|]. right. lia.
Qed.

Lemma sharp_num_inv : forall ds, ds <> [] -> forallb is_dig ds = true -> sharp_inv (sharp_num true ds) (value ds).
Proof.
  intros [|d r] Hne Hd; [congruence|].
  cbn [forallb] in Hd. apply andb_true_iff in Hd. destruct Hd as [Hd Hr].
  unfold is_dig in Hd. apply andb_true_iff in Hd. destruct Hd as [H0 H9].
  apply Z.leb_le in H0. apply Z.leb_le in H9.
  unfold sharp_num, value. cbn [value_from fold_left]. change (0 * 10 + d) with d.
  change (fold_left (fun a d0 => a * 10 + d0) r d) with (value_from d r).
  apply sharp_fold_inv; [exact Hr|]. left. lia.
Qed.

Theorem sharp_num_exact_or_large : forall ds, ds <> [] -> forallb is_dig ds = true ->
  (value ds <= 1024 -> sharp_num true ds = value ds) /\ (1024 < value ds -> 1024 < sharp_num true ds <= 10249).
Proof. intros ds Hne Hd. destruct (sharp_num_inv ds Hne Hd) as [[? [? ?]]|[? ?]]; split; intros; lia. Qed.

Theorem sharp_num_bounded : forall ds, ds <> [] -> forallb is_dig ds = true -> 0 <= sharp_num true ds <= 10249.
Proof. intros ds Hne Hd. destruct (sharp_num_inv ds Hne Hd) as [[? [? ?]]|[? ?]]; lia. Qed.

Theorem rank_no_fault : forall ds, ds <> [] -> forallb is_dig ds = true -> rank_outcome true ds <> SFault.
Proof.
  intros ds Hne Hd. pose proof (sharp_num_bounded ds Hne Hd) as Hb. unfold rank_outcome.
  destruct ((sharp_num true ds =? 0) || (sharp_num true ds =? 1)); [discriminate|].
  destruct (array_max_rank <? sharp_num true ds); [discriminate|].
  destruct (sharp_num true ds <? 0) eqn:E; [apply Z.ltb_lt in E; lia|discriminate].
Qed.

Theorem rank_too_large_is_error : forall ds, ds <> [] -> forallb is_dig ds = true -> 1024 < value ds -> rank_outcome true ds = SErr.
Proof.
  intros ds Hne Hd Hv. destruct (sharp_num_exact_or_large ds Hne Hd) as [_ H]. specialize (H Hv). unfold rank_outcome, array_max_rank.
  destruct (sharp_num true ds =? 0) eqn:E0; [apply Z.eqb_eq in E0; lia|].
  destruct (sharp_num true ds =? 1) eqn:E1; [apply Z.eqb_eq in E1; lia|]. cbn [orb].
  destruct (1024 <? sharp_num true ds) eqn:E; [reflexivity|apply Z.ltb_ge in E; lia].
Qed.

Theorem radix_exact : forall ds, ds <> [] -> forallb is_dig ds = true ->
  radix_outcome true ds = if (value ds <? 2) || (36 <? value ds) then SErr else SVal (value ds).
Proof.
  intros ds Hne Hd. destruct (sharp_num_exact_or_large ds Hne Hd) as [H1 H2]. unfold radix_outcome.
  destruct (Z_le_gt_dec (value ds) 1024) as [L|G].
  - rewrite (H1 L). reflexivity.
  - assert (G' : 1024 < value ds) by lia. specialize (H2 G').
    replace (36 <? sharp_num true ds) with true by (symmetry; apply Z.ltb_lt; lia).
    replace (36 <? value ds) with true by (symmetry; apply Z.ltb_lt; lia).
    rewrite !orb_true_r. reflexivity.
Qed.

(* the unchanged accumulation: nineteen nines wrap to a negative count, which passes the rank test and
   reaches make([]int, n); 2^64 + 10 comes back as the radix 10 *)
Definition nines19 : list Z := repeat 9 19.
Theorem sharp_original_rank_refuted : rank_outcome false nines19 = SFault /\ forallb is_dig nines19 = true.
Proof. vm_compute. split; reflexivity. Qed.
Theorem sharp_original_radix_refuted :
  radix_outcome false [1;8;4;4;6;7;4;4;0;7;3;7;0;9;5;5;1;6;2;6] = SVal 10 /\ value [1;8;4;4;6;7;4;4;0;7;3;7;0;9;5;5;1;6;2;6] = 2 ^ 64 + 10.
Proof. vm_compute. split; reflexivity. Qed.
(* non-vacuity: small counts are what the digits say *)
Theorem sharp_examples : sharp_num true [0;0;3;6] = 36 /\ radix_outcome true [3;6] = SVal 36 /\ radix_outcome true [3;7] = SErr /\
  rank_outcome true [1;0;2;5] = SErr /\ rank_outcome true [1;0;2;4] = SUnm /\ rank_outcome true nines19 = SErr.
Proof. vm_compute. repeat split; reflexivity. Qed.

(* ---------- B. the passes of an iteration ---------- *)
(* bodies made of two directives: Show = "|~#~" (a bar, then one tilde per remaining argument) and the
   move directive with a literal count or v (the count is the next argument) *)
Inductive op := Show | Move (colon at_ : bool) (n : option Z).
Inductive bres := BOk (pos : Z) (out : list Z) | BErr.
Definition zlen (args : list Z) : Z := Z.of_nat (length args).
Fixpoint run_body (args : list Z) (ops : list op) (pos : Z) (out : list Z) : bres :=
  match ops with
  | [] => BOk pos out
  | Show :: r => run_body args r pos (out ++ [zlen args - pos])
  | Move colon at_ n :: r =>
      match (match n with
             | Some z => Some (z, pos)
             | None => if (zlen args <=? pos) || (pos <? 0) then None else Some (nth (Z.to_nat pos) args 0, pos + 1)   (* v: needArg *)
             end) with
      | None => BErr
      | Some (z, pos1) =>
          if colon && at_ then BErr
          else let pos2 := if colon then pos1 - z else if at_ then z else pos1 + z in
               if (pos2 <? 0) || (zlen args <? pos2) then BErr else run_body args r pos2 out
      end
  end.

Inductive ires := IText (out : list Z) | IErr | IFuel.
(* one unit of fuel = one pass.  every_pass = the repaired test; first = "n == math.MaxInt" *)
Fixpoint iter (every_pass : bool) (args : list Z) (body : Z -> bres) (pos : Z) (first : bool) (out : list Z) (fuel : nat) : ires :=
  match fuel with
  | O => IFuel
  | S f =>
      if zlen args <=? pos then IText out
      else match body pos with
           | BErr => IErr
           | BOk pos' o =>
               if (pos' <=? pos) && (pos' <? zlen args) && (every_pass || first) then IErr
               else iter every_pass args body pos' false (out ++ o) f
           end
  end.
Definition format_iter (every_pass : bool) (ops : list op) (args : list Z) (fuel : nat) : ires :=
  iter every_pass args (fun pos => run_body args ops pos []) 0 true [] fuel.

(* whatever a pass does - body is ANY function - the repaired iteration ends within len - pos + 1 passes *)
Theorem iter_bounded : forall args body fuel pos first out,
  (Z.to_nat (zlen args - pos) < fuel)%nat -> iter true args body pos first out fuel <> IFuel.
Proof.
  intros args body. induction fuel as [|f IH]; intros pos first out Hf; [lia|].
  cbn [iter]. destruct (zlen args <=? pos) eqn:E; [discriminate|]. apply Z.leb_gt in E.
  destruct (body pos) as [pos' o|]; [|discriminate].
  cbn [orb]. rewrite andb_true_r.
  destruct ((pos' <=? pos) && (pos' <? zlen args)) eqn:C; [discriminate|].
  apply IH. apply andb_false_iff in C. destruct C as [C|C]; [apply Z.leb_gt in C|apply Z.ltb_ge in C]; lia.
Qed.

Theorem format_iter_terminates : forall ops args, format_iter true ops args (S (length args)) <> IFuel.
Proof. intros. unfold format_iter. apply iter_bounded. unfold zlen. lia. Qed.

(* a pass that consumes nothing while arguments remain ends the iteration, on whichever pass it happens *)
Theorem iter_no_progress_ends : forall args body pos first out f pos' o,
  pos < zlen args -> body pos = BOk pos' o -> pos' <= pos -> pos' < zlen args ->
  iter true args body pos first out (S f) = IErr.
Proof.
  intros args body pos first out f pos' o Hp Hb H1 H2. cbn [iter].
  destruct (zlen args <=? pos) eqn:E; [apply Z.leb_le in E; lia|]. rewrite Hb.
  replace (pos' <=? pos) with true by (symmetry; apply Z.leb_le; lia).
  replace (pos' <? zlen args) with true by (symmetry; apply Z.ltb_lt; lia). reflexivity.
Qed.

(* the unchanged test (first pass only): the witness of the report - the body shows the remaining count,
   takes the next argument as a count and moves back by it - over (0 0 3) never ends: the positions cycle
   0 1 2 0 ..., for every amount of fuel *)
Definition w_ops : list op := [Show; Move true false None].
Definition w_args : list Z := [0; 0; 3].
Lemma w_cycle : forall fuel pos out, 0 <= pos < 3 -> iter false w_args (fun p => run_body w_args w_ops p []) pos false out fuel = IFuel.
Proof.
  induction fuel as [|f IH]; intros pos out Hp; [reflexivity|].
  assert (C : pos = 0 \/ pos = 1 \/ pos = 2) by lia.
  destruct C as [C|[C|C]]; subst pos; cbn [iter]; vm_compute (zlen w_args <=? _);
    vm_compute (run_body _ _ _ _); cbn [orb andb]; rewrite andb_false_r; apply IH; lia.
Qed.
Theorem iter_original_refuted : forall fuel, format_iter false w_ops w_args fuel = IFuel.
Proof.
  intros [|f]; [reflexivity|]. unfold format_iter. cbn [iter]. vm_compute (zlen w_args <=? 0).
  vm_compute (run_body _ _ _ _). vm_compute ((1 <=? 0) && (1 <? zlen w_args) && (false || true)).
  apply w_cycle. lia.
Qed.
Theorem iter_examples : format_iter true w_ops w_args 4 = IErr /\ format_iter true [Show; Move false false (Some 1)] [5; 6] 3 = IText [2; 1] /\
  format_iter true [Show; Move false false None] [1; 7; 0] 4 = IText [3; 1] /\ format_iter true [Show] [1] 2 = IErr.
Proof. vm_compute. repeat split; reflexivity. Qed.

(* ---------- the per-run comparison with the implementation ---------- *)
(* reader: (read-from-string "#<digits>R10") and "#<digits>A()" *)
Inductive sobs := ObsVal (n : Z) | ObsOther | ObsParseError | ObsCondition | ObsFault.
Record scase := { s_radix : bool; s_digits : list Z; s_obs : sobs }.
(* 0 agree; 1 differ without a host fault; 2 the implementation answered with a host fault / a hang *)
Definition check_scase (c : scase) : N :=
  match s_obs c with
  | ObsFault => 2%N
  | o => if negb (forallb is_dig (s_digits c)) || match s_digits c with [] => true | _ => false end then 1%N
         else if s_radix c then
           match radix_outcome true (s_digits c), o with
           | SVal n, ObsVal m => if n =? m then 0%N else 1%N
           | SErr, ObsParseError => 0%N
           | _, _ => 1%N
           end
         else match rank_outcome true (s_digits c), o with
              | SErr, ObsParseError => 0%N
              | SErr, _ => 1%N
              | SUnm, _ => 0%N          (* rank accepted: what follows depends on the contents *)
              | _, _ => 1%N
              end
  end.
Fixpoint check_from {A} (chk : A -> N) (i : N) (cs : list A) : list (N * N) :=
  match cs with
  | [] => []
  | c :: cs' => let r := chk c in (if N.eqb r 0 then [] else [(i, r)]) ++ check_from chk (N.succ i) cs'
  end.
Definition check_sharp_all := check_from check_scase 0%N.

(* format: an iteration without a limit around a body of Show and move directives *)
Inductive iobs := JText (out : list Z) | JErr | JFault.
Record icase := { i_ops : list op; i_args : list Z; i_obs : iobs }.
Fixpoint zs_eqb (a b : list Z) : bool :=
  match a, b with [], [] => true | x :: a', y :: b' => (x =? y) && zs_eqb a' b' | _, _ => false end.
Definition check_icase (c : icase) : N :=
  match i_obs c, format_iter true (i_ops c) (i_args c) (S (length (i_args c))) with
  | JFault, _ => 2%N
  | JText o, IText o' => if zs_eqb o o' then 0%N else 1%N
  | JErr, IErr => 0%N
  | _, _ => 1%N
  end.
Definition check_iter_all := check_from check_icase 0%N.
