(* C09 — the stream theorems over the reader's mode tables regenerated from code.go on THIS run
   (GenC09.ReaderTables, written by harness/c09/readertables.go). *)
From C02 Require Import Model Spec Proofs.
From C09 Require Import Reader Stream.
From GenC09 Require Import ReaderTables.

Theorem reader_tables_ok : table_ok tables = true.
Proof. vm_compute. reflexivity. Qed.
Print Assumptions reader_tables_ok.

(* with the reader's current tables: however a text is cut into stream reads (also empty reads, also the
   end of the stream as a read of its own), in all-objects or one-form mode, the stream reader with every
   index and slice checked never faults, and reads what the stream model of C02 reads *)
Theorem C09_stream_no_fault_now : forall one blocks,
  m_stream_c tables esc one TsReset m0 blocks 0 = CRes (m_read_stream tables esc one m0 blocks 0).
Proof. intros. apply stream_c_reset_no_fault. exact reader_tables_ok. Qed.
Print Assumptions C09_stream_no_fault_now.

(* REFUTED: resetting tokenStart only where pending text was saved (seeded change C09-8).  The text ""
   cut between the two quotes: the string opens as the last byte of the first block (tokenStart = pos = 1,
   nothing to save), the second block closes it at position 0 with tokenStart still 1: src[1:0]. *)
Theorem C09_stream_when_saved_refuted :
  m_stream_c tables esc false TsWhenSaved m0 [[34%N]; [34%N]] 0 = CFault /\
  m_stream_c tables esc false TsWhenSaved m0 [[35%N; 120%N]; [102%N; 32%N]] 0 = CFault /\     (* #x | f_ *)
  m_stream_c tables esc false TsWhenSaved m0 [[35%N; 92%N]; []] 0 = CFault.                     (* #\ then the end *)
Proof. vm_compute. repeat split; reflexivity. Qed.
Print Assumptions C09_stream_when_saved_refuted.

(* REFUTED: no reset at all.  " a" then " ": the token a is saved in carry, the blank at position 0 of the
   next block ends it and makeToken takes src[1:0]. *)
Theorem C09_stream_keep_refuted :
  m_stream_c tables esc false TsKeep m0 [[32%N; 97%N]; [32%N]] 0 = CFault.
Proof. vm_compute. reflexivity. Qed.
Print Assumptions C09_stream_keep_refuted.

(* not vacuous: the same cuts with the reset read the objects; and the seeded policy agrees with the
   code when the cut is one byte later *)
Theorem C09_stream_examples :
  m_stream_c tables esc false TsReset m0 [[34%N]; [34%N]] 0 = CRes (m_read_stream tables esc false m0 [[34%N; 34%N]] 0) /\
  (exists objs p, m_stream_c tables esc false TsReset m0 [[35%N; 120%N]; [102%N; 32%N]] 0 = CRes (ROk objs p) /\ length objs = 1%nat) /\
  m_stream_c tables esc false TsWhenSaved m0 [[34%N; 97%N]; [34%N]] 0 = m_stream_c tables esc false TsReset m0 [[34%N; 97%N]; [34%N]] 0.
Proof. vm_compute. split; [reflexivity|]. split; [eexists; eexists; split; reflexivity|reflexivity]. Qed.
Print Assumptions C09_stream_examples.
