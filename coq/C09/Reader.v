(* C09 — the reader never indexes out of range.  The machine M of C02 (coq/C02/Model.v: offsets into
   the current block, carry, buf) takes slices src[tokenStart:pos]; here every such slice and every
   src[pos] is CHECKED (None = the Go code would panic with an index / slice bounds error), and the
   checked machine is shown to equal the unchecked one on every state a read can reach, for every
   text and every way of cutting it into blocks. *)
From C02 Require Import Model Spec Proofs.

Definition slice_ok (src : list byte) (a b : nat) : bool := (a <=? b) && (b <=? length src).
(* the slices m_apply takes for an operation (makeToken, the string/|symbol| content, escape freeze) *)
Definition op_slices (m : mstate) (pos : nat) (op : lexop) : list (nat * nat) :=
  match op with
  | LFreeze => match m_buf m with [] => [(m_ts m, pos)] | _ => [] end
  | LDone k _ => match k with
                 | XString | XPipe => match m_buf m with [] => [(m_ts m, pos)] | _ => [] end
                 | _ => [(m_ts m, pos)]
                 end
  | _ => []
  end.
Definition apply_ok (m : mstate) (src : list byte) (pos : nat) (op : lexop) : bool :=
  forallb (fun ab => slice_ok src (fst ab) (snd ab)) (op_slices m pos op).

Definition m_step_c (T : tables) (esc : byte -> byte) (m : mstate) (src : list byte) (pos : nat) : option mstate :=
  if negb (pos <? length src) then None                       (* b := src[pos] *)
  else
    let b := nth pos src 0%N in
    match c_err (m_core m) with
    | Some _ => Some m
    | None =>
        let '(c1, op1) := step_core esc (act T (c_mode (m_core m)) b) b (m_core m) in
        if negb (apply_ok m src pos op1) then None else
        let '(m1, retry) := m_apply m src pos c1 op1 in
        if retry then
          match c_err (m_core m1) with
          | Some _ => Some m1
          | None => let '(c2, op2) := step_core esc (act T (c_mode (m_core m1)) b) b (m_core m1) in
                    if negb (apply_ok m1 src pos op2) then None else Some (fst (m_apply m1 src pos c2 op2))
          end
        else Some m1
    end.

Fixpoint m_block_c (T : tables) (esc : byte -> byte) (one : bool) (m : mstate) (src : list byte) (pos : nat) (fuel : nat) : option (mstate * nat) :=
  match fuel with
  | O => Some (m, pos)
  | S f =>
      if length src <=? pos then Some (m, pos)
      else match m_step_c T esc m src pos with
           | None => None
           | Some m' =>
               match c_err (m_core m') with
               | Some _ => Some (m', pos)
               | None =>
                   if one && negb (match code (c_p (m_core m')) with [] => true | _ => false end)
                   then Some (m', let b := nth pos src 0%N in if N.eqb b 41 || N.eqb b 34 || N.eqb b 124 then S pos else pos)
                   else m_block_c T esc one m' src (S pos) f
               end
           end
  end.

(* end of a block / end of the input: src[tokenStart:len(src)] is taken in the lexeme modes *)
Definition block_end_ok (m : mstate) (src : list byte) : bool :=
  let md := c_mode (m_core m) in
  if token_like md then slice_ok src (m_ts m) (length src)
  else if string_like md then match m_buf m with [] => slice_ok src (m_ts m) (length src) | _ => true end
  else true.
Definition finish_ok (m : mstate) (src : list byte) : bool :=
  match c_err (m_core m) with
  | Some _ => true
  | None => if token_like (c_mode (m_core m)) then slice_ok src (m_ts m) (length src) else true
  end.

(* ---------- proofs ---------- *)
Lemma lexeme_ops_class esc a b c c1 op : allowed (class_of (c_mode c)) a = true -> step_core esc a b c = (c1, op) ->
  match op with LFreeze | LDone _ _ => class_of (c_mode c) = ClsTok \/ class_of (c_mode c) = ClsStr | _ => True end.
Proof.
  intros Hal Hstep. destruct a; cbn [step_core] in Hstep.
  all: destruct (c_mode c) eqn:Em; cbn in Hal; try discriminate Hal; cbn iota in Hstep.
  all: try (injection Hstep as <- <-; cbn; tauto).
  all: repeat match type of Hstep with context [match ?x with _ => _ end] => destruct x eqn:? end; injection Hstep as <- <-; cbn; tauto.
Qed.

Lemma apply_ok_wf esc a b m src pos c1 op :
  allowed (class_of (c_mode (m_core m))) a = true -> wf m pos -> pos < length src ->
  step_core esc a b (m_core m) = (c1, op) -> apply_ok m src pos op = true.
Proof.
  intros Hal (Hwf & _ & _) Hpos Hstep. pose proof (lexeme_ops_class esc a b (m_core m) c1 op Hal Hstep) as Hc.
  assert (Hts : class_of (c_mode (m_core m)) = ClsTok \/ class_of (c_mode (m_core m)) = ClsStr -> slice_ok src (m_ts m) pos = true).
  { intros Hcl. unfold slice_ok. apply andb_true_iff. split; apply Nat.leb_le; [|lia].
    destruct Hcl as [Hcl|Hcl]; rewrite Hcl in Hwf; exact Hwf. }
  unfold apply_ok, op_slices. destruct op; try reflexivity.
  - destruct k; try (destruct (m_buf m); [|reflexivity]); cbn; rewrite (Hts Hc); reflexivity.
  - destruct (m_buf m); [|reflexivity]. cbn. rewrite (Hts Hc). reflexivity.
Qed.

Theorem step_checked T esc m src pos s : table_ok T = true -> sim m src pos s -> pos < length src ->
  m_step_c T esc m src pos = Some (m_step T esc m src pos).
Proof.
  intros HT Hsim Hpos. unfold m_step_c, m_step.
  replace (pos <? length src) with true by (symmetry; apply Nat.ltb_lt; exact Hpos). cbn [negb].
  destruct (c_err (m_core m)) eqn:E; [reflexivity|].
  destruct (sim_norm _ _ _ _ Hsim E) as [-> Hwf].
  destruct (step_core esc (act T (c_mode (m_core m)) (nth pos src 0%N)) (nth pos src 0%N) (m_core m)) as [c1 op1] eqn:E1.
  rewrite (apply_ok_wf esc _ _ m src pos c1 op1 (table_ok_allowed T _ _ HT) Hwf Hpos E1). cbn [negb].
  destruct (m_apply m src pos c1 op1) as [m1 r] eqn:E2. destruct r; [|reflexivity].
  destruct (c_err (m_core m1)) eqn:E3; [reflexivity|].
  destruct (apply_sim T esc m src pos (table_ok_allowed T _ _ HT) Hwf Hpos c1 op1 E1 m1 true E2) as (s1 & _ & _ & C).
  destruct (C E3) as [_ Hwf1].
  destruct (step_core esc (act T (c_mode (m_core m1)) (nth pos src 0%N)) (nth pos src 0%N) (m_core m1)) as [c2 op2] eqn:E4.
  rewrite (apply_ok_wf esc _ _ m1 src pos c2 op2 (table_ok_allowed T _ _ HT) Hwf1 Hpos E4). reflexivity.
Qed.

Theorem block_checked T esc one : table_ok T = true -> forall fuel m src pos s,
  sim m src pos s -> pos <= length src ->
  m_block_c T esc one m src pos fuel = Some (m_block T esc one m src pos fuel).
Proof.
  intros HT. induction fuel as [|f IH]; intros m src pos s Hsim Hle; cbn [m_block_c m_block]; [reflexivity|].
  destruct (length src <=? pos) eqn:El; [reflexivity|]. apply Nat.leb_gt in El.
  rewrite (step_checked T esc m src pos s HT Hsim El).
  destruct (c_err (m_core (m_step T esc m src pos))); [reflexivity|].
  destruct (one && _); [reflexivity|].
  apply (IH _ _ _ _ (step_sim T esc m src pos s HT Hsim El)). lia.
Qed.

Lemma class_token_like md : token_like md = true -> class_of md = ClsTok.
Proof. destruct md; cbn; intros H; try discriminate H; reflexivity. Qed.
Lemma class_string_like md : string_like md = true -> class_of md = ClsStr.
Proof. destruct md; cbn; intros H; try discriminate H; reflexivity. Qed.

Theorem block_end_checked m src s : sim m src (length src) s -> c_err (m_core m) = None -> block_end_ok m src = true /\ finish_ok m src = true.
Proof.
  intros [_ Hs] E. destruct (Hs E) as [_ (Hwf & _ & _)]. unfold block_end_ok, finish_ok, slice_ok. rewrite E.
  destruct (token_like (c_mode (m_core m))) eqn:Et.
  - rewrite (class_token_like _ Et) in Hwf. rewrite Nat.leb_refl, andb_true_r. split; apply Nat.leb_le; exact Hwf.
  - split; [|reflexivity]. destruct (string_like (c_mode (m_core m))) eqn:Es; [|reflexivity].
    rewrite (class_string_like _ Es) in Hwf. destruct (m_buf m); [|reflexivity]. rewrite Nat.leb_refl, andb_true_r. apply Nat.leb_le. exact Hwf.
Qed.

(* every block of every stream: the state a block starts in is a simulation state, so the block is
   read without a bounds fault, and the state it ends in again admits the block-end / end-of-input
   slices and starts the next block *)
Theorem stream_blocks_checked T esc one : table_ok T = true -> forall src m s,
  bstart m s ->
  exists m' p', m_block_c T esc one (reset m) src 0 (length src) = Some (m', p') /\
                m_block T esc one (reset m) src 0 (length src) = (m', p') /\
                (forall s', c_err (m_core m') = None -> p' = length src -> sim m' src (length src) s' ->
                            block_end_ok m' src = true /\ finish_ok m' src = true /\ bstart (m_block_end m' src) s').
Proof.
  intros HT src m s Hb. destruct (m_block T esc one (reset m) src 0 (length src)) as [m' p'] eqn:Eb.
  exists m', p'. split; [|split; [reflexivity|]].
  - rewrite (block_checked T esc one HT (length src) (reset m) src 0 s (bstart_sim m s src Hb) (Nat.le_0_l _)). rewrite Eb. reflexivity.
  - intros s' E _ Hsim'. destruct (block_end_checked m' src s' Hsim' E) as [H1 H2].
    split; [exact H1|split; [exact H2|apply (block_end_bstart m' src s' Hsim')]].
Qed.
