(* C15 — M, part 1: the pure pieces of pkg/cl/control.go written the way the Go code computes them
   (byte indices into slices, the words slice of dirR with its pops, the scanners with their tilde /
   colon / at flags), defects included. Definitions only. The argument-threading interpreter is in
   Interp.v; M is that interpreter using the functions of this file.

   Conventions: a Go []byte / string is a `text`; indices are nat where the Go value cannot be negative
   and Z where it can (argPos, the digit index of dirR); a Go runtime panic (index or slice bounds out
   of range, integer division by zero) is the explicit outcome None / an error constructor, like every
   slip.ErrorPanic: format reports either as an error and the property only distinguishes text from error. *)
From C15 Require Export Types.

(* ---- dirInt (control.go:810) ---------------------------------------------------------------- *)
(* the comma loop:  for ; i < len(out); i += commaint { expanded += out[prev:i] + commachar; prev = i } *)
Fixpoint go_group_loop (fuel : nat) (out comma : text) (k i prev : nat) (acc : text) : text * nat :=
  match fuel with
  | O => (acc, prev)
  | S f => if Nat.ltb i (List.length out)
           then go_group_loop f out comma k (i + k) i (acc ++ sub out prev i ++ comma)
           else (acc, prev)
  end.
Definition sign_len (out : text) : nat :=
  match out with a :: _ => if ascii_eqb a "-" || ascii_eqb a "+" then 1 else 0 | [] => 0 end.
Definition go_group (out comma : text) (k : nat) : text :=
  let len := List.length out in
  let dlen := len - 1 - sign_len out in
  let i := len - dlen / k * k in
  let '(acc, prev) := go_group_loop len out comma k i 0 [] in
  acc ++ skipn prev out.
(* after the argument and the parameters are known; commaint >= 1 has been checked by the caller *)
Definition go_int_text (base : N) (mincol : nat) (pad comma : text) (commaint : nat) (colon at_ : bool)
                       (arg : value) : text :=
  let '(out, neg, colon) :=
    match arg with
    | VInt z => (int_text base z, (z <? 0)%Z, colon)
    | v => (princ v, true, false)          (* default: not an integer, printed as by ~A (no sign, no commas) *)
    end in
  let out := if at_ && negb neg then "+" :: out else out in
  let out := if colon then go_group out comma commaint else out in
  (if Nat.ltb (List.length out) mincol then repeat_text pad (mincol - List.length out) else []) ++ out.

(* ---- the integer argument of dirR as Go holds it (control.go:1260) ------------------------------------ *)
(* An integer argument is a slip.Fixnum (an int64) when it lies in -2^63 .. 2^63-1 and a *slip.Bignum otherwise.
   dirR renders the decimal digits from the representation, sign included,
     switch ta := arg.(type) { case slip.Fixnum: digits = strconv.AppendInt(nil, int64(ta), 10)
                               case *slip.Bignum: digits = big.Int(ta).Append(nil, 10) }
   and both renderers (Roman: the test digits[0] == '-'; English: the '-' stripped from the text) take the sign off
   the TEXT. int64 arithmetic is arithmetic modulo 2^64 on -2^63 .. 2^63-1 (wrap64): the magnitude of the most
   negative fixnum is not an int64, which is why the sign cannot be taken off the VALUE of a fixnum. *)
Definition wrap64 (z : Z) : Z := ((z + two63) mod (2 * two63) - two63)%Z.
Inductive go_integer :=
| GoFixnum (n : Z)      (* slip.Fixnum: n is an int64 *)
| GoBignum (b : Z).     (* *slip.Bignum *)
Definition go_repr (z : Z) : go_integer := if is_fixnum z then GoFixnum (wrap64 z) else GoBignum z.
(* strconv.AppendInt(nil, n, 10) / big.Int.Append(nil, 10): '-' and the digits of the magnitude (trusted base) *)
Definition go_radix_digits (z : Z) : text :=
  match go_repr z with
  | GoFixnum n => dec_text n
  | GoBignum b => dec_text b
  end.

(* ---- dirR (control.go:1154): Roman numerals ---------------------------------------------------- *)
(* rdigits: the decimal digits from the last to the first, as  for i := len-1; 0 <= i; i--  visits them *)
Fixpoint go_roman_loop (table : list (list text)) (rdigits : text) (r : nat) : list text :=
  match rdigits with
  | [] => []
  | d :: ds => tnth (nth r table []) (N.to_nat (code d - 48)) :: go_roman_loop table ds (S r)
  end.
Definition go_roman (T : tables) (colon : bool) (digits : text) : option text :=
  match digits with
  | [] => None
  | d0 :: _ =>
    if ascii_eqb d0 "-" || (Nat.eqb (List.length digits) 1 && ascii_eqb d0 "0") then None   (* number too small *)
    else if Nat.ltb 4 (List.length digits) || (Nat.ltb 3 (List.length digits) && (code "3" <? code d0)%N)
    then None                                                            (* number too large *)
    else Some (List.concat (rev (go_roman_loop (if colon then t_oldroman T else t_roman T) (rev digits) 0)))
  end.

(* ---- dirR: cardinal and ordinal English ---------------------------------------------------------- *)
Definition hundred_w : text := tx "hundred".
Definition dg (digits : text) (i : Z) : nat := N.to_nat (code (ch_at digits (Z.to_nat i)) - 48).
(* the body of  for _, trip := range cardinalTriples ; None: words[:len(words)-1] on an empty slice *)
Fixpoint go_card_loop (T : tables) (trips : list text) (digits : text) (i : Z) (words : list text)
                      (one teen : list text) : option (list text) :=
  match trips with
  | [] => Some words                       (* the table is exhausted: remaining digits are dropped *)
  | trip :: rest =>
    let words := if Nat.ltb 0 (List.length trip) then words ++ [trip] else words in
    let d := dg digits i in
    let i := (i - 1)%Z in
    if (i <? 0)%Z then Some (words ++ [tnth one d])
    else
      let d10 := dg digits i in
      let i := (i - 1)%Z in
      let '(zero, words) :=
        match d10 with
        | 0 => if negb (Nat.eqb d 0) then (false, words ++ [tnth one d]) else (true, words)
        | 1 => (false, words ++ [tnth teen d])
        | _ => (false, (if Nat.eqb d 0 then words else words ++ [tnth one d]) ++ [tnth (t_ten T) (d10 - 2)])
        end in
      let one := t_one T in
      let '(zero, words, i) :=
        if (0 <=? i)%Z
        then (if negb (Nat.eqb (dg digits i) 0)
              then (false, words ++ [hundred_w] ++ [tnth one (dg digits i)], (i - 1)%Z)
              else (zero, words, (i - 1)%Z))
        else (zero, words, i) in
      match (if (zero : bool) && Nat.ltb 0 (List.length trip)
             then (match words with [] => None | _ => Some (removelast words) end) else Some words) with
      | None => None
      | Some words => if (i <? 0)%Z then Some words else go_card_loop T rest digits i words one (t_teen T)
      end
  end.
(* w[:len(w)-1] + "ieth" when w ends in y, w + "th" otherwise *)
Definition go_ordinal_suffix (w : text) : text :=
  if ascii_eqb (last w zero) "y" then removelast w ++ tx "ieth" else w ++ tx "th".
(* if last := len(digits) - 1; colon && digits[last] == '0' && digits[last-1] != '1' { words[0] = ... } ;
   None: index out of range (digits[-1], words[0] of an empty slice) *)
Definition go_ordinal_first (colon : bool) (digits : text) (words : list text) : option (list text) :=
  let lst := List.length digits - 1 in
  if colon && ascii_eqb (ch_at digits lst) "0" then
    (if Nat.eqb lst 0 then None
     else if negb (ascii_eqb (ch_at digits (lst - 1)) "1")
          then match words with [] => None | w :: ws => Some (go_ordinal_suffix w :: ws) end
          else Some words)
  else Some words.
Definition go_english (T : tables) (colon : bool) (digits : text) : option text :=
  let '(neg, digits) := match digits with "-" :: r => (true, r) | _ => (false, digits) end in
  match digits with
  | ["0"] => Some (if colon then tx "zeroth" else tx "zero")
  | _ =>
    if Nat.ltb (3 * List.length (t_triples T)) (List.length digits) then None     (* number too large: no scale word *)
    else
    match go_card_loop T (t_triples T) digits (Z.of_nat (List.length digits) - 1)%Z []
                       (if colon then t_ordone T else t_one T) (if colon then t_ordteen T else t_teen T) with
    | None => None
    | Some words =>
      match go_ordinal_first colon digits words with
      | None => None
      | Some words => Some (join [sp] (rev (if neg then words ++ [tx "negative"] else words)))
      end
    end
  end.

(* ---- dirT, dirAmp ----------------------------------------------------------------------------- *)
(* len(out) - (bytes.LastIndexAny(out, "\n\r\f") + 1) *)
Fixpoint go_from_acc (t : text) (n : nat) : nat :=
  match t with
  | [] => n
  | a :: t' => if ascii_eqb a nl || ascii_eqb a (chr 13) || ascii_eqb a (chr 12) then go_from_acc t' 0 else go_from_acc t' (S n)
  end.
Definition go_from (out : text) : nat := go_from_acc out 0.
(* number of spaces dirT appends *)
Definition go_tab (at_ : bool) (colnum colinc : nat) (out : text) : nat :=
  if at_ then
    let from := go_from out + colnum in               (* after the colnum spaces have been appended *)
    let target := if Nat.eqb colinc 0 || Nat.eqb from (from / colinc * colinc) then from else from / colinc * colinc + colinc in
    colnum + (target - from)
  else
    let from := go_from out in
    let target := colnum * colinc in
    let target := if Nat.eqb colinc 0 then Nat.max colnum from
                  else if Nat.ltb target from then from / colinc * colinc + colinc else target in
    target - from.
(* number of newlines dirAmp appends *)
Definition go_fresh (n : Z) (out : text) : nat :=
  let n := if Nat.ltb 0 (List.length out) && ascii_eqb (last out zero) nl then (n - 1)%Z else n in
  Z.to_nat n.

(* ---- dirCase ----------------------------------------------------------------------------------- *)
(* appendCapitalized(dst, buf, firstOnly): buf is lower case already; the first character of each word (a run of letters
   and digits), or of the first word only, is made upper case *)
Fixpoint go_capitalized (buf : text) (firstOnly inWord done : bool) : text :=
  match buf with
  | [] => []
  | a :: t =>
      if negb (is_alnum a) then a :: go_capitalized t firstOnly false (done || (inWord && firstOnly))
      else if inWord || done then a :: go_capitalized t firstOnly inWord done
      else to_upper a :: go_capitalized t firstOnly true done
  end.
Definition go_case (colon at_ : bool) (t : text) : text :=
  match colon, at_ with
  | true, true => map to_upper t
  | true, false => go_capitalized (map to_lower t) false false false
  | false, true => go_capitalized (map to_lower t) true false false
  | false, false => map to_lower t
  end.

(* ---- prefix parameters: readParam ------------------------------------------------------------------- *)
(* from pos up to the first byte the scan map marks; returns the new position *)
Fixpoint go_read_param (T : tables) (fuel : nat) (s : text) (pos cend : nat) : nat :=
  match fuel with
  | O => pos
  | S f => if Nat.ltb pos cend then (if is_stop T (ch_at s pos) then pos else go_read_param T f s (S pos) cend) else pos
  end.

(* ---- scanDirBlock (control.go:405) --------------------------------------------------------------- *)
Inductive scan_res := ScanAt (p : nat) | ScanErr | ScanFuel.
(* case '-', '0' .. '9', ',', '#', 'v', 'V': a prefix parameter, the scanners remain in their tilde state *)
Definition is_param_byte (b : ascii) : bool :=
  is_digit b || ascii_eqb b "-" || ascii_eqb b "," || ascii_eqb b "#" || ascii_eqb b "v" || ascii_eqb b "V".
Fixpoint go_scan_block (fuel : nat) (buf : text) (pos : nat) (opn cls : ascii) (colonOk : bool)
                       (colon at_ tilde : bool) : scan_res :=
  match fuel with
  | O => ScanFuel
  | S f =>
    if Nat.ltb pos (List.length buf) then
      let b := ch_at buf pos in
      let pos := S pos in
      if tilde then
        if ascii_eqb b ":" then go_scan_block f buf pos opn cls colonOk true at_ true
        else if ascii_eqb b "@" then go_scan_block f buf pos opn cls colonOk colon true true
        else if is_param_byte b then go_scan_block f buf pos opn cls colonOk colon at_ true
        else if ascii_eqb b "'" then go_scan_block f buf (S pos) opn cls colonOk colon at_ true   (* the character after the quote is skipped *)
        else if ascii_eqb b opn then
          match go_scan_block f buf pos opn cls colonOk false false false with
          | ScanAt p => (* pos = p + 2; if buf[pos-1] == ':' { pos++ }; tilde = false *)
                        go_scan_block f buf (if ascii_eqb (ch_at buf (p + 1)) ":" then p + 3 else p + 2) opn cls colonOk colon at_ false
          | e => e
          end
        else if ascii_eqb b cls then
          if at_ || (colon && negb colonOk) then ScanErr
          else if colon then ScanAt (pos - 3) else ScanAt (pos - 2)
        else go_scan_block f buf pos opn cls colonOk colon at_ false
      else if ascii_eqb b "~" then go_scan_block f buf pos opn cls colonOk false false true
      else go_scan_block f buf pos opn cls colonOk colon at_ false
    else ScanErr                          (* directive not terminated *)
  end.

(* ---- scanCond (control.go:1484) ------------------------------------------------------------------ *)
(* buf[lo:hi]; None: slice bounds out of range *)
Definition slice (buf : text) (lo hi : nat) : option text :=
  if Nat.ltb hi lo || Nat.ltb (List.length buf) hi then None else Some (sub buf lo hi).
Inductive cond_res := CondAt (strs : list text) (def : text) (p : nat) | CondErr | CondFuel.
Fixpoint go_scan_cond (fuel : nat) (buf : text) (pos start : nat) (strs : list text)
                      (colon at_ tilde defNext : bool) : cond_res :=
  match fuel with
  | O => CondFuel
  | S f =>
    if Nat.ltb pos (List.length buf) then
      let b := ch_at buf pos in
      let pos := S pos in
      if tilde then
        if ascii_eqb b ":" then go_scan_cond f buf pos start strs true at_ true defNext
        else if ascii_eqb b "@" then go_scan_cond f buf pos start strs colon true true defNext
        else if is_param_byte b then go_scan_cond f buf pos start strs colon at_ true defNext
        else if ascii_eqb b "'" then go_scan_cond f buf (S pos) start strs colon at_ true defNext
        else if ascii_eqb b ";" then
          match slice buf start (pos - 2) with
          | None => CondErr
          | Some s => go_scan_cond f buf pos pos (strs ++ [s]) colon at_ false (if colon then true else defNext)
          end
        else if ascii_eqb b "[" then
          match go_scan_cond f buf pos pos [] false false false false with
          | CondAt _ _ p => go_scan_cond f buf (p + 2) start strs colon at_ false defNext
          | e => e
          end
        else if ascii_eqb b "]" then
          if at_ || colon then CondErr
          else match slice buf start (pos - 2) with
               | None => CondErr
               | Some s => if defNext then CondAt strs s (pos - 2) else CondAt (strs ++ [s]) [] (pos - 2)
               end
        else go_scan_cond f buf pos start strs colon at_ false defNext
      else if ascii_eqb b "~" then go_scan_cond f buf pos start strs false false true defNext
      else go_scan_cond f buf pos start strs colon at_ false defNext
    else CondErr
  end.

(* ---- the tables as they stand in control.go (the harness regenerates them from the source on every run
   and the correspondence uses the regenerated ones; this copy serves the examples and refutations) ---- *)
Definition src_scan : list bool := map (fun a => ascii_eqb a "x") (tx (
  "..........x....................." ++
  "....xxx.xxx.x..x..........x.xxxx" ++
  "xxxxxxxx.x.....xx.xxx..xx..x.xx." ++
  ".xxxxxxx.x.....xx.xxx..xx..xxxx." ++
  "................................" ++
  "................................" ++
  "................................" ++
  "................................")%string).
Definition src_tables : tables := {|
  t_roman := [ map tx [""; "I"; "II"; "III"; "IV"; "V"; "VI"; "VII"; "VIII"; "IX"]%string;
               map tx [""; "X"; "XX"; "XXX"; "XL"; "L"; "LX"; "LXX"; "LXXX"; "XC"]%string;
               map tx [""; "C"; "CC"; "CCC"; "CD"; "D"; "DC"; "DCC"; "DCCC"; "CM"]%string;
               map tx [""; "M"; "MM"; "MMM"; ""; ""; ""; ""; ""; ""]%string ];
  t_oldroman := [ map tx [""; "I"; "II"; "III"; "IIII"; "V"; "VI"; "VII"; "VIII"; "VIIII"]%string;
                  map tx [""; "X"; "XX"; "XXX"; "XXXX"; "L"; "LX"; "LXX"; "LXXX"; "LXXXX"]%string;
                  map tx [""; "C"; "CC"; "CCC"; "CCCC"; "D"; "DC"; "DCC"; "DCCC"; "DCCCC"]%string;
                  map tx [""; "M"; "MM"; "MMM"; ""; ""; ""; ""; ""; ""]%string ];
  t_triples := map tx [""; "thousand"; "million"; "billion"; "trillion"; "quadrillion"; "quintillion";
                       "sextillion"; "septillion"; "octillion"; "nonillion"; "decillion"; "undecillion";
                       "duodecillion"; "tredecillion"; "quattuordecillion"; "quindecillion"; "sexdecillion";
                       "septendecillion"; "octodecillion"; "novemdecillion"; "vigintillion"]%string;
  t_one := map tx [""; "one"; "two"; "three"; "four"; "five"; "six"; "seven"; "eight"; "nine"]%string;
  t_teen := map tx ["ten"; "eleven"; "twelve"; "thirteen"; "fourteen"; "fifteen"; "sixteen"; "seventeen";
                    "eighteen"; "nineteen"]%string;
  t_ten := map tx ["twenty"; "thirty"; "forty"; "fifty"; "sixty"; "seventy"; "eighty"; "ninety"; ""; ""]%string;
  t_ordone := map tx [""; "first"; "second"; "third"; "fourth"; "fifth"; "sixth"; "seventh"; "eighth"; "ninth"]%string;
  t_ordteen := map tx ["tenth"; "eleventh"; "twelfth"; "thirteenth"; "fourteenth"; "fifteenth"; "sixteenth";
                       "seventeenth"; "eighteenth"; "nineteenth"]%string;
  t_scan := src_scan
|}.
