(* C15 — laws of the interpreter: how the directives move through the arguments. Every statement is
   about `process b T` / the handlers for BOTH readings (b = true: the model of the Go code, b = false:
   the specification) unless it says otherwise, for all control records, arguments and, where a handler
   calls back into `process` (the body of ~{, the control string of ~?), for EVERY function `rec` in that
   place — so they hold whatever the body does. Then the refutations (the known findings) and examples. *)
From C15 Require Import Interp.
Open Scope list_scope.

(* what a directive leaves alone: the argument list, the control string and its window, the text written
   before; what it has written is only ever extended *)
Definition extends (c c' : ctl) : Prop :=
  c_args c' = c_args c /\ c_str c' = c_str c /\ c_end c' = c_end c /\ c_pre c' = c_pre c /\
  exists t, c_out c' = c_out c ++ t.
Lemma extends_refl : forall c, extends c c.
Proof. intros c. repeat split. exists []. rewrite app_nil_r. reflexivity. Qed.
Lemma extends_trans : forall a b c, extends a b -> extends b c -> extends a c.
Proof.
  intros a b c [A1 [A2 [A3 [A4 [t A5]]]]] [B1 [B2 [B3 [B4 [u B5]]]]].
  repeat split; try congruence. exists (t ++ u). rewrite B5, A5, app_assoc. reflexivity.
Qed.
Lemma extends_emit : forall c t, extends c (emit c t).
Proof. intros. repeat split. exists t. reflexivity. Qed.
Lemma extends_emit_n : forall n c t, extends c (emit_n c t n).
Proof.
  induction n as [|n IH]; intros c t; [apply extends_refl|]. cbn [emit_n].
  eapply extends_trans; [apply extends_emit | apply IH].
Qed.
Lemma emit_n_apos : forall n c t, c_apos (emit_n c t n) = c_apos c.
Proof. induction n as [|n IH]; intros; [reflexivity|]. cbn [emit_n]. rewrite IH. reflexivity. Qed.
Lemma emit_n_pos : forall n c t, c_pos (emit_n c t n) = c_pos c.
Proof. induction n as [|n IH]; intros; [reflexivity|]. cbn [emit_n]. rewrite IH. reflexivity. Qed.

Ltac break_in H :=
  repeat match type of H with
         | context [match ?x with _ => _ end] => destruct x eqn:?; try discriminate H
         end.
Ltac ok_inv H := inversion H; subst; clear H.

(* ---- ~* : the cursor ------------------------------------------------------------------------------------ *)
(* ~n* skips n arguments, ~n:* backs up n, ~n@* goes to argument n; inside 0..len this is all that happens *)
Theorem move_law : forall colon at_ ps c c' a,
  dir_move colon at_ ps c = Ok (c', a) ->
  exists n changed, first_int ps 1 = (GOk n, changed) /\ (colon && at_ = false) /\ a = false /\ extends c c' /\
    c_apos c' = (if colon then c_apos c - n else if at_ then (if changed then n else 0) else c_apos c + n)%Z.
Proof.
  intros colon at_ ps c c' a H. unfold dir_move in H.
  destruct (first_int ps 1) as [g changed] eqn:E. destruct g as [n| |]; try discriminate.
  exists n, changed. split; [reflexivity|].
  destruct (colon && at_) eqn:Eca; [discriminate|]. split; [reflexivity|].
  break_in H; ok_inv H; (split; [reflexivity|]); (split; [repeat split; exists []; cbn; rewrite app_nil_r; reflexivity | reflexivity]).
Qed.
(* the cursor never leaves the argument list: 0 <= position <= number of arguments (the Go code checks it since
   repo_fixes/C15-15) *)
Theorem move_stays_inside : forall colon at_ ps c c' a,
  dir_move colon at_ ps c = Ok (c', a) -> (0 <= c_apos c' <= nargs c)%Z.
Proof.
  intros colon at_ ps c c' a H. unfold dir_move in H.
  break_in H; ok_inv H; cbn [c_apos set_apos];
  match goal with E : (_ && _)%bool = true |- _ => apply andb_true_iff in E; destruct E as [E1 E2]; apply Z.leb_le in E1; apply Z.leb_le in E2; lia end.
Qed.

(* ---- directives that take exactly one argument --------------------------------------------------------- *)
Lemma take_arg_spec : forall c v c', take_arg c = Ok (v, c') ->
  ((0 <= c_apos c)%Z -> arg_at c = Some v /\ c' = set_apos c (c_apos c + 1)) /\
  ((c_apos c < 0)%Z -> v = VNil /\ c' = c).
Proof.
  intros c v c' H. unfold take_arg in H. destruct (0 <=? c_apos c)%Z eqn:E.
  - apply Z.leb_le in E. destruct (arg_at c) eqn:Ea; [|discriminate]. ok_inv H. split; [auto | lia].
  - apply Z.leb_gt in E. ok_inv H. split; [lia | auto].
Qed.
(* ~A ~S *)
Theorem aesthetic_consumes_one : forall esc colon at_ ps c c' a, (0 <= c_apos c)%Z ->
  dir_as esc colon at_ ps c = Ok (c', a) ->
  a = false /\ c_apos c' = (c_apos c + 1)%Z /\ arg_at c <> None /\ extends c c'.
Proof.
  intros esc colon at_ ps c c' a Hpos H. unfold dir_as in H.
  destruct (take_arg c) as [[v c1]| | |] eqn:Et; try discriminate.
  destruct (proj1 (take_arg_spec _ _ _ Et) Hpos) as [Ha ->].
  break_in H; ok_inv H.
  all: split; [reflexivity|]; split; [reflexivity|]; split; [congruence|]; repeat split; eexists; cbn; reflexivity.
Qed.
(* ~D ~B ~O ~X *)
Theorem integer_consumes_one : forall b base off colon at_ ps c c' a, (0 <= c_apos c)%Z ->
  dir_int b base off colon at_ ps c = Ok (c', a) ->
  a = false /\ c_apos c' = (c_apos c + 1)%Z /\ arg_at c <> None /\ extends c c'.
Proof.
  intros b base off colon at_ ps c c' a Hpos H. unfold dir_int in H.
  destruct (take_arg c) as [[v c1]| | |] eqn:Et; try discriminate.
  destruct (proj1 (take_arg_spec _ _ _ Et) Hpos) as [Ha ->].
  break_in H; ok_inv H.
  all: split; [reflexivity|]; split; [reflexivity|]; split; [congruence|]; repeat split; eexists; cbn; reflexivity.
Qed.
(* ~C *)
Theorem character_consumes_one : forall colon at_ c c' a,
  dir_char colon at_ c = Ok (c', a) ->
  a = false /\ c_apos c' = (c_apos c + 1)%Z /\ (exists ch, arg_at c = Some (VChr ch)) /\ extends c c'.
Proof.
  intros colon at_ c c' a H. unfold dir_char in H.
  destruct (take_arg c) as [[v c1]| | |] eqn:Et; try discriminate.
  destruct v; try discriminate. ok_inv H.
  destruct (Z_lt_le_dec (c_apos c) 0) as [Hn | Hp].
  - destruct (proj2 (take_arg_spec _ _ _ Et) Hn) as [Hv _]. discriminate.
  - destruct (proj1 (take_arg_spec _ _ _ Et) Hp) as [Ha ->].
    split; [reflexivity|]. split; [reflexivity|]. split; [eauto|]. repeat split. eexists. cbn. reflexivity.
Qed.
(* ~P takes one argument; ~:P looks at the previous one again, so the cursor ends where it was *)
Theorem plural_law : forall colon at_ c c' a,
  dir_plural colon at_ c = Ok (c', a) ->
  a = false /\ c_apos c' = (if colon then c_apos c else c_apos c + 1)%Z /\ extends c c' /\
  exists t, c_out c' = c_out c ++ t /\ (t = [] \/ t = ["y"] \/ t = tx "ies" \/ t = ["s"]).
Proof.
  intros colon at_ c c' a H. unfold dir_plural in H.
  break_in H; ok_inv H; cbn [c_apos set_apos emit c_out];
  (split; [reflexivity|]); (split; [lia|]);
  (split; [repeat split; eexists; cbn; reflexivity|]); eexists; (split; [reflexivity|]); rewrite ?app_nil_r; auto.
Qed.
(* ~% ~~ ~& ~T write characters and take no argument *)
Theorem newline_tilde_take_nothing : forall t ps c c' a, dir_repeat t ps c = Ok (c', a) ->
  a = false /\ c_apos c' = c_apos c /\ extends c c'.
Proof.
  intros t ps c c' a H. unfold dir_repeat in H. break_in H; ok_inv H.
  split; [reflexivity|]. split; [apply emit_n_apos | apply extends_emit_n].
Qed.
Lemma extends_taint : forall c t, extends c (add_taint c t).
Proof. intros. repeat split. exists []. cbn. rewrite app_nil_r. reflexivity. Qed.
Theorem freshline_tab_take_nothing : forall b colon at_ ps c c' a,
  (dir_amp b ps c = Ok (c', a) \/ dir_tab b colon at_ ps c = Ok (c', a)) ->
  a = false /\ c_apos c' = c_apos c /\ extends c c'.
Proof.
  intros b colon at_ ps c c' a [H | H]; [unfold dir_amp in H | unfold dir_tab in H]; break_in H; ok_inv H.
  all: split; [reflexivity|]; split; [rewrite emit_n_apos; reflexivity|];
       eapply extends_trans; [apply extends_taint | apply extends_emit_n].
Qed.

(* ---- ~{ : iteration --------------------------------------------------------------------------------------- *)
(* one round of the loop only appends to the enclosing control *)
Lemma iter_once_frame : forall rec start c c2 c1 c2' ab,
  iter_once rec start c c2 = Ok (c1, c2', ab) -> extends c c1 /\ c_apos c1 = c_apos c /\ c_pos c1 = c_pos c.
Proof.
  intros rec start c c2 c1 c2' ab H. unfold iter_once in H. break_in H. ok_inv H.
  split; [|split; reflexivity]. eapply extends_trans; [apply extends_emit | apply extends_taint].
Qed.
Lemma iter_loop_frame : forall fuel rec start n once c c2 c1 c2',
  iter_loop fuel rec start n once c c2 = Ok (c1, c2') -> extends c c1 /\ c_apos c1 = c_apos c /\ c_pos c1 = c_pos c.
Proof.
  induction fuel as [|f IH]; intros rec start n once c c2 c1 c2' H; [discriminate|].
  cbn [iter_loop] in H.
  destruct (0 <? n)%Z; [|ok_inv H; split; [apply extends_refl | auto]].
  destruct (((nargs c2 <=? c_apos c2)%Z && negb once) || c_stop c2); [ok_inv H; split; [apply extends_refl | auto]|].
  destruct (iter_once rec start c c2) as [[[ca c2a] ab]| | |] eqn:E1; try discriminate.
  destruct (iter_once_frame _ _ _ _ _ _ _ E1) as [F1 [F2 F3]].
  destruct ab.
  - ok_inv H. auto.
  - destruct (IH _ _ _ _ _ _ _ _ H) as [G1 [G2 G3]]. split; [eapply extends_trans; eauto | split; congruence].
Qed.
Lemma iter_lists_frame : forall rec start ls n c c2 c1 c2',
  iter_lists rec start n ls c c2 = Ok (c1, c2') -> extends c c1 /\ c_apos c1 = c_apos c /\ c_pos c1 = c_pos c.
Proof.
  induction ls as [|al ls IH]; intros n c c2 c1 c2' H; cbn [iter_lists] in H.
  - ok_inv H. split; [apply extends_refl | auto].
  - destruct ((n <=? 0)%Z || c_stop c2); [ok_inv H; split; [apply extends_refl | auto]|].
    destruct (as_list al); [|discriminate].
    destruct (iter_once rec start c (with_args c2 l 0)) as [[[ca c2a] ab]| | |] eqn:E1; try discriminate.
    destruct (iter_once_frame _ _ _ _ _ _ _ E1) as [F1 [F2 F3]].
    destruct (IH _ _ _ _ _ H) as [G1 [G2 G3]]. split; [eapply extends_trans; eauto | split; congruence].
Qed.
Lemma extends_set_pos : forall c p, extends c (set_pos c p).
Proof. intros. repeat split. exists []. cbn. rewrite app_nil_r. reflexivity. Qed.
Lemma extends_set_apos : forall c p, extends c (set_apos c p).
Proof. intros. repeat split. exists []. cbn. rewrite app_nil_r. reflexivity. Qed.

(* ~{body~} and ~:{body~} take exactly one argument, the list, whatever the body is and does and however many
   elements it uses up; nothing but the text written changes in the enclosing control *)
Theorem iteration_consumes_its_list : forall b fuel rec colon ps c c' a v,
  arg_at c = Some v ->
  dir_iter b fuel rec colon false ps c = Ok (c', a) ->
  a = false /\ c_apos c' = (c_apos c + 1)%Z /\ as_list v <> None /\ extends c c'.
Proof.
  intros b fuel rec colon ps c c' a v Hv H. unfold dir_iter in H.
  destruct (block_extent b c "{" "}" true) as [r t] eqn:Eb.
  destruct r as [[[e once] next]| | |]; try discriminate.
  set (c0 := add_taint (set_pos c next) t) in *.
  assert (Ha0 : arg_at c0 = Some v) by exact Hv.
  assert (Hc0 : extends c c0) by (eapply extends_trans; [apply extends_set_pos | apply extends_taint]).
  destruct (get_int 0 ps max_int true) as [n| |]; try discriminate.
  destruct colon; cbn [andb] in H.
  - destruct (c_apos c0 <? 0)%Z; [discriminate|]. rewrite Ha0 in H.
    destruct (as_list v) as [l|] eqn:El; [|discriminate].
    match type of H with context [iter_lists ?r ?s ?n ?ls ?x ?y] => destruct (iter_lists r s n ls x y) as [[ca c2a]| | |] eqn:E1; try discriminate end.
    ok_inv H. destruct (iter_lists_frame _ _ _ _ _ _ _ _ E1) as [F1 [F2 F3]].
    split; [reflexivity|]. split; [cbn [merge_taint add_taint c_apos] in *; rewrite F2; reflexivity|].
    split; [discriminate|].
    eapply extends_trans; [exact Hc0|]. eapply extends_trans; [apply (extends_set_apos c0)|].
    eapply extends_trans; [exact F1 | apply extends_taint].
  - destruct (c_apos c0 <? 0)%Z; [discriminate|]. rewrite Ha0 in H.
    destruct (as_list v) as [l|] eqn:El; [|discriminate].
    match type of H with context [iter_loop ?f ?r ?s ?n ?o ?x ?y] => destruct (iter_loop f r s n o x y) as [[ca c2a]| | |] eqn:E1; try discriminate end.
    ok_inv H. destruct (iter_loop_frame _ _ _ _ _ _ _ _ _ E1) as [F1 [F2 F3]].
    split; [reflexivity|]. split; [cbn [merge_taint add_taint c_apos] in *; rewrite F2; reflexivity|].
    split; [discriminate|].
    eapply extends_trans; [exact Hc0|]. eapply extends_trans; [apply (extends_set_apos c0)|].
    eapply extends_trans; [exact F1 | apply extends_taint].
Qed.
(* the list must be there, for both readings (the model since repo_fixes/C15-14) *)
Theorem iteration_needs_its_list : forall b fuel rec colon ps c c' a,
  dir_iter b fuel rec colon false ps c = Ok (c', a) -> arg_at c <> None.
Proof.
  intros b fuel rec colon ps c c' a H Hn. unfold dir_iter in H.
  destruct (block_extent b c "{" "}" true) as [r t] eqn:Eb.
  destruct r as [[[e once] next]| | |]; try discriminate.
  assert (Ha0 : arg_at (add_taint (set_pos c next) t) = None) by exact Hn.
  destruct (get_int 0 ps max_int true) as [n| |]; try discriminate.
  destruct colon; cbn [andb] in H; destruct (c_apos (add_taint (set_pos c next) t) <? 0)%Z; try discriminate;
    rewrite Ha0 in H; discriminate.
Qed.

(* ---- ~? : recursive processing ------------------------------------------------------------------------------ *)
(* ~? takes two arguments, the control string and the list of its arguments, whatever that control string does *)
Theorem indirection_consumes_two : forall rec c c' a v, arg_at c = Some v ->
  dir_proc rec false c = Ok (c', a) ->
  a = false /\ c_apos c' = (c_apos c + 2)%Z /\ (exists s, v = VStr s) /\ c_args c' = c_args c.
Proof.
  intros rec c c' a v Hv H. unfold dir_proc in H.
  destruct (c_apos c <? 0)%Z; [discriminate|]. rewrite Hv in H.
  destruct v; try discriminate.
  set (c1 := set_apos c (c_apos c + 1)) in *.
  match type of H with context [match ?x with Ok _ => _ | Err _ => _ | OutOfFuel => _ | Unsup => _ end] =>
    destruct x as [[args c2]| | |] eqn:E2; try discriminate end.
  assert (Hc2 : c_apos c2 = c_apos c1 /\ c_args c2 = c_args c1).
  { repeat match type of E2 with context [match ?x with _ => _ end] => destruct x; try discriminate E2 end; ok_inv E2; auto. }
  destruct Hc2 as [Hp Ha].
  destruct (rec (fresh c2 s args 0)) as [[c3 x]| | |]; try discriminate. ok_inv H.
  cbn [c_apos c_args]. rewrite Hp, Ha. subst c1. cbn [c_apos set_apos c_args].
  split; [reflexivity|]. split; [lia|]. split; eauto.
Qed.

(* ---- literal text --------------------------------------------------------------------------------------------- *)
Lemma skipn_cons : forall (str : text) pos, pos < List.length str -> skipn pos str = ch_at str pos :: skipn (Datatypes.S pos) str.
Proof.
  induction str as [|x str IH]; intros pos H; [cbn in H; lia|].
  destruct pos; [reflexivity|]. cbn [skipn]. unfold ch_at. cbn [nth]. apply IH. cbn in H. lia.
Qed.
(* characters other than the tilde are copied and nothing else happens *)
Theorem literal_run : forall n b T fuel c,
  (forall i, i < n -> ascii_eqb (ch_at (c_str c) (c_pos c + i)) "~" = false) ->
  c_pos c + n <= c_end c -> c_end c <= List.length (c_str c) ->
  process b T (n + fuel) c = process b T fuel (set_pos (emit c (sub (c_str c) (c_pos c) (c_pos c + n))) (c_pos c + n)).
Proof.
  induction n as [|n IH]; intros b T fuel c Hlit Hend Hlen.
  - cbn [plus]. unfold sub. rewrite Nat.add_0_r, Nat.sub_diag. cbn [firstn].
    destruct c; unfold emit, set_pos; cbn. rewrite app_nil_r. reflexivity.
  - cbn [plus process].
    assert (Hlt : Nat.ltb (c_pos c) (c_end c) = true) by (apply Nat.ltb_lt; lia). rewrite Hlt.
    pose proof (Hlit 0 ltac:(lia)) as H0. rewrite Nat.add_0_r in H0. rewrite H0.
    rewrite IH.
    + f_equal. destruct c as [str pos cend out args apos stop pre taint].
      unfold set_pos, emit. cbn [c_str c_pos c_end c_out c_args c_apos c_stop c_pre c_taint] in *. f_equal.
      * lia.
      * rewrite <- app_assoc. f_equal. unfold sub.
        replace (pos + Datatypes.S n - pos) with (Datatypes.S n) by lia.
        replace (Datatypes.S pos + n - Datatypes.S pos) with n by lia.
        rewrite (skipn_cons str pos) by lia. reflexivity.
    + intros i Hi. cbn [set_pos emit c_str c_pos]. replace (Datatypes.S (c_pos c) + i) with (c_pos c + Datatypes.S i) by lia. apply Hlit. lia.
    + cbn [set_pos emit c_pos c_end]. lia.
    + cbn [set_pos emit c_str c_end]. exact Hlen.
Qed.

(* ---- the known deviations of the unchanged code: M differs from S, and the run is outside the guard ------------ *)
From C15 Require Import Corr.
Local Open Scope string_scope.
Definition both (w : string * list value) : outcome * outcome :=
  (fst (M_run src_tables 300 (tx (fst w)) (snd w)), fst (S_run 300 (tx (fst w)) (snd w))).
Definition deviates (w : string * list value) : bool :=
  negb (untainted (M_run src_tables 300 (tx (fst w)) (snd w))) && negb (outcome_eqb (fst (both w)) (snd (both w))).
Definition ints (l : list Z) : value := VList (map VInt l).
Definition deviation_witnesses : list (string * list value) := [
  ("~{~A~^,~}", [ints [1; 2; 3]]);                                   (* caret *)
  ("~A~^ more", [VInt 1]);
  ("~&x", []);                                                        (* fresh line at the start of the output *)
  ("abc~2,4T|", []);                                                  (* ~colnum,colincT *)
  ("~T|", [])
]%Z.
Lemma deviations_hold : forallb deviates deviation_witnesses = true.
Proof. vm_compute. reflexivity. Qed.
(* what the model and the specification say for some of them *)
Definition deviation_table : list ((string * list value) * (outcome * outcome)) := [
  (("~{~A~^,~}", [ints [1; 2; 3]]), (OText (tx "1,"), OText (tx "1,2,3")));
  (("abc~2,4T|", []), (OText (tx "abc     |"), OText (tx "abc   |")))
]%Z.
Lemma deviation_values : map (fun e => both (fst e)) deviation_table = map snd deviation_table.
Proof. vm_compute. reflexivity. Qed.

(* ---- the guard is satisfiable: runs that consult no deviating site and use every kind of directive ---------- *)
Definition in_guard_same (w : string * list value) : bool :=
  untainted (M_run src_tables 300 (tx (fst w)) (snd w)) && outcome_eqb (fst (both w)) (snd (both w)) &&
  match fst (both w) with OText _ => true | _ => false end.
Definition guard_examples : list (string * list value) := [
  ("~A and ~S, ~5@A|~7,2,1,'_S|", [VStr (tx "ab"); VStr (tx "ab"); VInt 7; VSym (tx "sym")]);
  ("~D ~:D ~@D ~12,'0:@D ~,,'.,4:D ~B ~O ~X", [VInt 0; VInt 1234567; VInt 5; VInt (-1234567); VInt 123456789; VInt 5; VInt 64; VInt 255]);
  ("~vD ~#D ~v,vD", [VInt 6; VInt 42; VInt 3; VInt 4; VChr "*"%char; VInt 9]);
  ("~R ~:R ~@R ~:@R", [VInt 1234; VInt 21; VInt 1994; VInt 4]);
  ("~R and ~:R", [VInt (-123456789012345); VInt 5000000000000000000000000000007]);
  ("~C~:C~@C", [VChr "a"%char; VChr " "%char; VChr "a"%char]);
  ("a~%b~2%~~~3~c~&d~&", []);
  ("ab~1,1Tc~6,1T|~2,1@T|", []);
  ("~A~*~A~:*~A~0@*~A", [VInt 1; VInt 2; VInt 3]);
  ("~D item~:P, ~D box~:@P, ~D fl~:@P", [VInt 1; VInt 2; VInt 1]);
  ("~[zero~;one~;two~:;many~] ~:[no~;yes~] ~@[<~A>~]~@[<~A>~]", [VInt 7; VNil; VInt 3; VNil]);
  ("~#[none~;one: ~A~;two: ~A and ~A~:;more~]", [VInt 1; VInt 2]);
  ("~{~A=~A ~}|~:{~A-~A ~}|~@{~A;~}", [ints [1; 2; 3; 4]; VList [ints [1; 2]; ints [3; 4]]; VInt 7; VInt 8]);
  ("~:@{<~A>~}", [ints [1]; ints [2]]);
  ("~2{~A~}~{~A~:}|~{x~:}", [ints [1; 2; 3]; ints [4]; VNil]);
  ("~{~[a~;b~]~(~A~)~}", [VList [VInt 0; VStr (tx "XY"); VInt 1; VStr (tx "Zw")]]);
  ("~?~A ~@?~A", [VStr (tx "<~A~A>"); ints [1; 2]; VInt 3; VStr (tx "[~A]"); VInt 4; VInt 5]);
  ("~(ABC dEF~) ~:(abc dEF~) ~@(abc dEF~) ~:@(abc def~)", []);
  (* formerly outside the guard (repaired findings) *)
  ("~R ~:R ~:R ~:R ~2R ~16,4,'0R ~3,,,'.,2:@R", [VInt 20001; VInt 20; VInt 100; VInt 2000000; VInt 5; VInt 255; VInt 100]);
  ("~R|~VD|~10,'*D|~,,',:D|~D", [VInt 1000000000000000001; VInt 3; VInt 1; VInt 42; VInt 1234567; VStr (tx "abc")]);
  ("~[a~;b~:;c~] ~:[f~;t~] ~:A ~@[x~A~]y ~?|", [VInt 100000000000000000000; VList []; VList []; VList []; VStr (tx "x"); VNil]);
  ("~{~A~}} ~{~2{~A~}|~} ~{~{~A~:}|~}", [ints [1]; VList [ints [1; 2; 3]; ints [4; 5; 6]]; VList [ints [1]; ints [2]]])
]%Z.
Lemma guard_examples_hold : forallb in_guard_same guard_examples = true.
Proof. vm_compute. reflexivity. Qed.

(* ---- at the sites of the integer and Roman writers the two readings coincide (so these sites never leave the
   guard): consequences of IntProofs.go_int_text_is_render_int and WordProofs.go_roman_is_roman ---------------- *)
From C15 Require Import IntProofs WordProofs.
Lemma get_chr_single : forall i ps d a, get_chr i ps [d] = Some a -> exists x, a = [x].
Proof.
  intros i ps d a H. unfold get_chr in H.
  destruct (nth_error ps i) as [p|]; [destruct p as [| |x|v]; try discriminate; try (destruct v; try discriminate)|];
    ok_inv H; eauto.
Qed.
(* ~D ~B ~O ~X (and S's ~nR) of an integer: same result, same taint, for every parameter list and control record *)
Theorem integer_site_coincides : forall base off colon at_ ps c z, (2 <= base <= 36)%N ->
  arg_at c = Some (VInt z) -> dir_int true base off colon at_ ps c = dir_int false base off colon at_ ps c.
Proof.
  intros base off colon at_ ps c z Hb Ha. unfold dir_int, take_arg. rewrite Ha.
  assert (Hp : (0 <=? c_apos c)%Z = true).
  { unfold arg_at in Ha. destruct (c_apos c <? 0)%Z eqn:E; [discriminate|]. apply Z.ltb_ge in E. apply Z.leb_le. exact E. }
  rewrite Hp.
  destruct (get_int off ps 0 true) as [mincol| |]; try reflexivity.
  destruct (get_chr (off + 1) ps [sp]) as [padchar|] eqn:Ep; try reflexivity.
  destruct (get_chr (off + 2) ps [","%char]) as [commachar|] eqn:Ec; try reflexivity.
  destruct (get_int (off + 3) ps 3 true) as [commaint| |]; try reflexivity.
  destruct (commaint <? 1)%Z eqn:Ek; [reflexivity|]. apply Z.ltb_ge in Ek.
  destruct (get_chr_single _ _ _ _ Ep) as [p ->]. destruct (get_chr_single _ _ _ _ Ec) as [cm ->].
  cbn [hd]. rewrite go_int_text_is_render_int by (try assumption; lia).
  rewrite text_eqb_refl. reflexivity.
Qed.
(* ... and of anything else: an argument that is not an integer is written as by ~A, padded on the left
   (repo_fixes/C15-13; it used to be written with escapes) *)
Lemma go_int_text_other : forall base mincol pad comma k colon at_ v, (forall z, v <> VInt z) ->
  go_int_text base mincol [pad] [comma] k colon at_ v = pad_left mincol pad (princ v).
Proof.
  intros base mincol pad comma k colon at_ v Hv. unfold go_int_text, pad_left.
  destruct v as [z| | | | | |]; try (exfalso; exact (Hv z eq_refl));
    cbn [negb andb]; rewrite andb_false_r;
    (destruct (Nat.ltb (List.length _) mincol) eqn:E;
     [rewrite repeat_text_single; reflexivity
     | apply Nat.ltb_ge in E; replace (mincol - List.length _) with 0 by lia; reflexivity]).
Qed.
Theorem integer_site_coincides_any : forall base off colon at_ ps c, (2 <= base <= 36)%N ->
  dir_int true base off colon at_ ps c = dir_int false base off colon at_ ps c.
Proof.
  intros base off colon at_ ps c Hb. unfold dir_int.
  destruct (take_arg c) as [[v c1]| | |]; try reflexivity.
  destruct (get_int off ps 0 true) as [mincol| |]; try reflexivity.
  destruct (get_chr (off + 1) ps [sp]) as [padchar|] eqn:Ep; try reflexivity.
  destruct (get_chr (off + 2) ps [","%char]) as [commachar|] eqn:Ec; try reflexivity.
  destruct (get_int (off + 3) ps 3 true) as [commaint| |]; try reflexivity.
  destruct (commaint <? 1)%Z eqn:Ek; [reflexivity|]. apply Z.ltb_ge in Ek.
  destruct (get_chr_single _ _ _ _ Ep) as [p ->]. destruct (get_chr_single _ _ _ _ Ec) as [cm ->].
  cbn [hd].
  assert (E : go_int_text base (Z.to_nat mincol) [p] [cm] (Z.to_nat commaint) colon at_ v =
              match v with
              | VInt z => render_int base (Z.to_nat mincol) p cm (Z.to_nat commaint) colon at_ z
              | _ => pad_left (Z.to_nat mincol) p (princ v)
              end).
  { destruct v as [z| | | | | |]; try (apply go_int_text_other; intros z0 E0; discriminate).
    apply go_int_text_is_render_int; [assumption | lia]. }
  rewrite E, text_eqb_refl. reflexivity.
Qed.
(* the digits dirR renders from a fixnum or a bignum are the decimal text of the integer: FixnumProofs *)
From C15 Require Import FixnumProofs.
(* ~@R and ~:@R of 1..3999 (tables as in the source): same result, no taint added *)
Theorem roman_site_coincides : forall colon c z, (1 <= z <= 3999)%Z -> arg_at c = Some (VInt z) ->
  dir_radix true src_tables colon true [] c = dir_radix false src_tables colon true [] c.
Proof.
  intros colon c z Hz Ha. unfold dir_radix. rewrite Ha.
  destruct (nargs c <=? c_apos c)%Z; [reflexivity|].
  rewrite go_radix_digits_is_dec_text.
  rewrite (go_roman_is_roman colon z Hz).
  destruct (std_roman colon z) as [t|]; unfold pick; cbn [opt_text_eqb]; rewrite ?text_eqb_refl; reflexivity.
Qed.

(* ---- dirR's English loop against the definition: proved for all integers in EnglishProofs.v (english_loop). Examples
   only: the loop and the definition agree on every n below 3000 and on numbers spread over all magnitudes. ---- *)
From C15 Require Import EnglishProofs.
Definition english_agrees_z (ordinal : bool) (z : Z) : bool :=
  opt_text_eqb (go_english src_tables ordinal (dec_text z)) (std_english ordinal z).
Definition spread : list Z :=
  flat_map (fun k => map (fun m => (m * 10 ^ Z.of_nat k + 7 * 10 ^ Z.of_nat (k / 2) + 13)%Z) [1; 19; 20; 21; 99; 100; 101; 110; 120; 999; -5; -40; -215]%Z)
           (seq 0 66) ++ map Z.of_nat (seq 0 3000) ++ map (fun k => (10 ^ Z.of_nat k)%Z) (seq 0 70).
Example english_spread : forallb (english_agrees_z false) spread = true /\ forallb (english_agrees_z true) spread = true.
Proof. split; vm_compute; reflexivity. Qed.

(* ---- the two sites of ~R without parameters, for all integers: the readings coincide (no taint is added) on every
   integer but 0 for the Roman forms and on every integer for the English forms --------------------------------------- *)
From C15 Require Import RomanProofs.
Theorem roman_site_coincides_all : forall colon c z, arg_at c = Some (VInt z) ->
  dir_radix true src_tables colon true [] c = dir_radix false src_tables colon true [] c.
Proof.
  intros colon c z Ha. unfold dir_radix. rewrite Ha.
  destruct (nargs c <=? c_apos c)%Z; [reflexivity|].
  rewrite go_radix_digits_is_dec_text.
  rewrite (go_roman_all_integers colon z).
  destruct (std_roman colon z) as [t|]; unfold pick; cbn [opt_text_eqb]; rewrite ?text_eqb_refl; reflexivity.
Qed.
Theorem english_site_coincides : forall colon c z, arg_at c = Some (VInt z) ->
  dir_radix true src_tables colon false [] c = dir_radix false src_tables colon false [] c.
Proof.
  intros colon c z Ha. unfold dir_radix. rewrite Ha.
  destruct (nargs c <=? c_apos c)%Z; [reflexivity|].
  rewrite go_radix_digits_is_dec_text.
  rewrite (english_loop colon z).
  destruct (std_english colon z) as [t|]; unfold pick; cbn [opt_text_eqb]; rewrite ?text_eqb_refl; reflexivity.
Qed.
(* ~radix,mincol,padchar,commachar,comma-intervalR (repo_fixes/C15-6: dirR hands over to dirInt): the same for every
   parameter list that is not empty, every table and every integer argument *)
Theorem radix_site_coincides : forall T colon at_ p ps c z, arg_at c = Some (VInt z) ->
  dir_radix true T colon at_ (p :: ps) c = dir_radix false T colon at_ (p :: ps) c.
Proof.
  intros T colon at_ p ps c z Ha. unfold dir_radix.
  destruct (get_int 0 (p :: ps) 10 true) as [r| |]; try reflexivity.
  destruct ((2 <=? r) && (r <=? 36))%Z eqn:E; [|reflexivity].
  apply andb_true_iff in E. destruct E as [E1 E2]. apply Z.leb_le in E1. apply Z.leb_le in E2.
  apply (integer_site_coincides (Z.to_N r) 1 colon at_ (p :: ps) c z); [lia | exact Ha].
Qed.
