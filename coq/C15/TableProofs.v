(* C15 — theorems over the word tables regenerated from pkg/cl/control.go on THIS run (GenC15.Tables). *)
From C15 Require Import Interp.
From GenC15 Require Import Tables.

Theorem tables_shape : List.length (t_scan gen_tables) = 256.
Proof. vm_compute. reflexivity. Qed.
Print Assumptions tables_shape.
