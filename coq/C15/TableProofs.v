(* C15 — theorems over the tables regenerated from pkg/cl/control.go on THIS run (GenC15.Tables);
   compiled by ./check after the harness has written coq/gen/C15/Tables.v. *)
From C15 Require Import Model Spec TableCheck WordProofs.
From GenC15 Require Import Tables.

(* every Roman, cardinal, scale, teen, ten and ordinal word of the source is the expected one *)
Theorem tables_agree_now : tables_agree gen_tables = true.
Proof. vm_compute. reflexivity. Qed.
Print Assumptions tables_agree_now.

(* the scan map ends a numeric prefix parameter where the definition ends it *)
Theorem scan_map_now : scan_ok gen_tables = true.
Proof. vm_compute. reflexivity. Qed.
Print Assumptions scan_map_now.

(* with the current tables the loop of dirR writes, for every n in 1..3999, the numeral whose value is n
   (old style and new style): finite domain, computed by the kernel *)
Lemma go_roman_now_all : forallb (go_roman_ok_T gen_tables false) (seq 1 3999) = true /\
                         forallb (go_roman_ok_T gen_tables true) (seq 1 3999) = true.
Proof. split; vm_compute; reflexivity. Qed.
Theorem roman_now : forall old z, (1 <= z <= 3999)%Z ->
  exists t, go_roman gen_tables old (dec_text z) = Some t /\ roman_value t = z.
Proof.
  intros old z Hz.
  assert (Hin : In (Z.to_nat z) (seq 1 3999)) by (apply in_seq; lia).
  assert (H : go_roman_ok_T gen_tables old (Z.to_nat z) = true).
  { destruct go_roman_now_all as [H0 H1].
    destruct old; [exact (proj1 (forallb_forall _ _) H1 _ Hin) | exact (proj1 (forallb_forall _ _) H0 _ Hin)]. }
  unfold go_roman_ok_T in H. rewrite Z2Nat.id in H by lia.
  destruct (roman_inverse old z Hz) as [t [Hs Hv]]. rewrite Hs in H.
  destruct (go_roman gen_tables old (dec_text z)) as [a|]; [|discriminate].
  exists a. split; [reflexivity|]. apply text_eqb_eq in H. rewrite H. exact Hv.
Qed.
Print Assumptions roman_now.

(* with the current tables the English branch of dirR writes the defined text for EVERY integer, cardinal and ordinal
   (EnglishProofs.english_loop_T: induction over the groups of three digits; the 22 x 1000 rounds of the loop over the
   regenerated tables are compared with the definition by the kernel, here, on every run) *)
From C15 Require Import EnglishProofs.
Lemma english_checks_now : List.length (t_triples gen_tables) = 22 /\ chkA gen_tables = true /\ chkC gen_tables = true /\ chkD gen_tables = true.
Proof. split; [vm_compute; reflexivity|]. split; [|split]; vm_compute; reflexivity. Qed.
Theorem english_now : forall ordinal z, go_english gen_tables ordinal (dec_text z) = std_english ordinal z.
Proof. destruct english_checks_now as [H1 [H2 [H3 H4]]]. exact (english_loop_T gen_tables H1 H2 H3 H4). Qed.
Print Assumptions english_now.
