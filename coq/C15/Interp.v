(* C15 — the interpreter over control strings: `control.process` / `readDir` and the dir* handlers of
   pkg/cl/control.go, position by position (c.str, c.pos, c.end, c.out, c.args, c.argPos, c.stop).

   One interpreter, two readings.  `run true`  is M: at every *site* (a place where the Go code computes
   something of its own: the scanners, readParam after ', the column rules of ~T and ~&, the words of ~R,
   ~^, cursor moves out of range, missing block arguments, ...) it takes the Go outcome (Model.v).
   `run false` is S: the same walk over the control string and the arguments, taking at every site the
   outcome the directive definitions demand (Spec.v).  Everything that is not a site is the argument /
   position discipline both share (and which the laws in Proofs.v are about).
   Each site computes BOTH outcomes and sets the taint flag when they differ: `untainted` is the guard,
   and Proofs.v shows  untainted (run true x) -> run true x = run false x  for all inputs.

   Outcomes: Ok text | Err (any slip error or Go runtime panic: format signals an error) | OutOfFuel |
   Unsup (a directive or character outside the modelled set: ~$ ~/ ~< ~= ~E ~F ~G ~I ~W ~| ~newline,
   parameters beyond 2^53). *)
From C15 Require Export Model Spec.

Record ctl := mkctl {
  c_str : text; c_pos : nat; c_end : nat;
  c_out : text; c_args : list value; c_apos : Z; c_stop : bool;
  (* c_pre: the output of the enclosing controls (c.parent ... since repo_fixes/C15-19); c_taint: bookkeeping that is not in the Go struct *)
  c_pre : text;      (* what was written before this control's own buffer: columns and fresh lines are judged on pre ++ out *)
  c_taint : bool     (* some consulted site gave different outcomes for M and S *)
}.
Definition set_pos (c : ctl) (p : nat) : ctl :=
  mkctl (c_str c) p (c_end c) (c_out c) (c_args c) (c_apos c) (c_stop c) (c_pre c) (c_taint c).
Definition set_apos (c : ctl) (a : Z) : ctl :=
  mkctl (c_str c) (c_pos c) (c_end c) (c_out c) (c_args c) a (c_stop c) (c_pre c) (c_taint c).
Definition emit (c : ctl) (t : text) : ctl :=
  mkctl (c_str c) (c_pos c) (c_end c) (c_out c ++ t) (c_args c) (c_apos c) (c_stop c) (c_pre c) (c_taint c).
Definition set_stop (c : ctl) : ctl :=
  mkctl (c_str c) (c_pos c) (c_end c) (c_out c) (c_args c) (c_apos c) true (c_pre c) (c_taint c).
Definition add_taint (c : ctl) (t : bool) : ctl :=
  mkctl (c_str c) (c_pos c) (c_end c) (c_out c) (c_args c) (c_apos c) (c_stop c) (c_pre c) (c_taint c || t).
(* c2 := *c ; c2.out = nil ; c2.end = e        (dirCase, dirIter) *)
Definition window (c : ctl) (e : nat) : ctl :=
  mkctl (c_str c) (c_pos c) e [] (c_args c) (c_apos c) (c_stop c) (c_pre c ++ c_out c) (c_taint c).
(* control{scope, str, end: len(str), args, argPos}        (subProcess, dirProc) *)
Definition fresh (c : ctl) (s : text) (args : list value) (apos : Z) : ctl :=
  mkctl s 0 (List.length s) [] args apos false (c_pre c ++ c_out c) (c_taint c).
Definition nargs (c : ctl) : Z := Z.of_nat (List.length (c_args c)).
Definition arg_at (c : ctl) : option value :=
  if (c_apos c <? 0)%Z then None else nth_error (c_args c) (Z.to_nat (c_apos c)).

Inductive res (A : Type) := Ok (a : A) | Err (taint : bool) | OutOfFuel | Unsup.
Arguments Ok {A} a. Arguments Err {A} taint. Arguments OutOfFuel {A}. Arguments Unsup {A}.
Definition pres := res (ctl * bool).     (* the control afterwards; true: S's ~^ is unwinding to the enclosing ~{ *)
Definition err {A} (c : ctl) : res A := Err (c_taint c).
Definition terr {A} (c : ctl) : res A := Err true.      (* an error at a site where the other reading goes on *)

(* ---- parameters ------------------------------------------------------------------------------ *)
Definition two53 : Z := 9007199254740992.
Inductive gp := GOk (z : Z) | GErr | GUnsup.
Definition big_guard (z : Z) : gp := if (Z.abs z <? two53)%Z then GOk z else GUnsup.   (* int(tp.RealValue()) *)
(* getIntParam(pos, params, defVal, notNeg) *)
Definition get_int (i : nat) (ps : list param) (def : Z) (notneg : bool) : gp :=
  match nth_error ps i with
  | None | Some PNone | Some (PVal VNil) => GOk def
  | Some (PInt z) => if notneg && (z <? 0)%Z then GErr else GOk z
  | Some (PVal (VInt z)) => if notneg && (z <? 0)%Z then GErr else big_guard z
  | _ => GErr
  end.
(* getCharParam(pos, params, defVal) *)
Definition get_chr (i : nat) (ps : list param) (def : text) : option text :=
  match nth_error ps i with
  | None | Some PNone | Some (PVal VNil) => Some def
  | Some (PChr a) | Some (PVal (VChr a)) => Some [a]
  | _ => None
  end.
(* switch tp := params[0].(type) { case int; case slip.Integer; default: invalid }  with no parameter -> def *)
Definition first_int (ps : list param) (def : Z) : gp * bool :=
  match ps with
  | [] => (GOk def, false)
  | PInt z :: _ => (GOk z, true)
  | PVal (VInt z) :: _ => (big_guard z, true)
  | _ => (GErr, true)
  end.

(* ---- readDir (control.go:119) ------------------------------------------------------------------ *)
Inductive rd := RdDir (ch : ascii) (colon at_ : bool) (ps : list param) (c : ctl) | RdEos (c : ctl)
              | RdErr (t : bool) | RdFuel | RdUnsup.
Definition is_dir_char (b : ascii) : bool :=
  existsb (ascii_eqb b) (nl :: tx "$%&(*/<=?AaBbCcDdEeFfGgIiOoPpRrSsTtWwXx[{|^~").

(* the end of a number that starts at pos - 1: the digits from pos on *)
Fixpoint num_end (fuel : nat) (s : text) (pos cend : nat) : nat :=
  match fuel with
  | O => pos
  | S f => if Nat.ltb pos cend && is_digit (ch_at s pos) then num_end f s (S pos) cend else pos
  end.

Definition is_empty (v : value) : bool := match v with VNil | VList [] => true | _ => false end.

Section Interp.
Variable b : bool.        (* true: M (the Go outcome at every site); false: S *)
Variable T : tables.

Definition pick {A} (i s : A) : A := if b then i else s.

Fixpoint read_dir (fuel : nat) (c : ctl) (colon at_ : bool) (ps : list param) : rd :=
  match fuel with
  | O => RdFuel
  | S f =>
    if Nat.ltb (c_pos c) (c_end c) then
      let ch := ch_at (c_str c) (c_pos c) in
      let c1 := set_pos c (S (c_pos c)) in
      if ascii_eqb ch ":" then (if colon then RdErr (c_taint c) else read_dir f c1 true at_ ps)
      else if ascii_eqb ch "@" then (if at_ then RdErr (c_taint c) else read_dir f c1 colon true ps)
      else if ascii_eqb ch "," then
        if colon || at_ then RdErr (c_taint c)
        else let prev := ch_at (c_str c) (c_pos c - 1) in            (* c.str[c.pos-2] after c.pos++ *)
             read_dir f c1 colon at_ (if ascii_eqb prev "~" || ascii_eqb prev "," then ps ++ [PNone] else ps)
      else if ascii_eqb ch "#" then read_dir f c1 colon at_ (ps ++ [PInt (nargs c - c_apos c)])
      else if ascii_eqb ch "v" || ascii_eqb ch "V" then
        if (0 <=? c_apos c)%Z
        then match arg_at c with
             | Some v => read_dir f (set_apos c1 (c_apos c + 1)) colon at_ (ps ++ [PVal v])
             | None => RdErr (c_taint c1)                              (* missing argument *)
             end
        else read_dir f c1 colon at_ (ps ++ [PNone])
      else if ascii_eqb ch "'" then
        (* the single character after the quote, whatever it is (utf8.DecodeRune; the universe is ASCII);
           nothing after the quote: invalid directive *)
        if Nat.ltb (c_pos c1) (c_end c)
        then read_dir f (set_pos c1 (S (c_pos c1))) colon at_ (ps ++ [PChr (ch_at (c_str c) (c_pos c1))])
        else RdErr (c_taint c)
      else if ascii_eqb ch "-" || is_digit ch then
        (* site: c.pos-- ; readParam reads up to the next byte of the scan map; the definition: an optional
           sign and the digits that follow *)
        let pi := go_read_param T (c_end c) (c_str c) (c_pos c) (c_end c) in
        let ps_ := num_end (c_end c) (c_str c) (S (c_pos c)) (c_end c) in
        let t := negb (Nat.eqb pi ps_) in
        let p := pick pi ps_ in
        match parse_int (sub (c_str c) (c_pos c) p) with
        | Some z => read_dir f (add_taint (set_pos c p) t) colon at_ (ps ++ [PInt z])
        | None => RdErr (c_taint c || t)
        end
      else if is_dir_char ch then RdDir ch colon at_ ps c1
      else RdErr (c_taint c)                                          (* invalid directive *)
    else RdEos c
  end.

(* ---- arguments ---------------------------------------------------------------------------------- *)
(* if 0 <= c.argPos { arg = c.args[c.argPos]; c.argPos++ }   — a negative position leaves arg nil (only
   reachable after ~:* moved before the first argument, which is a site and has set the taint) *)
Definition take_arg (c : ctl) : res (value * ctl) :=
  if (0 <=? c_apos c)%Z
  then match arg_at c with
       | Some v => Ok (v, set_apos c (c_apos c + 1))
       | None => err c
       end
  else Ok (VNil, c).

Fixpoint emit_n (c : ctl) (t : text) (n : nat) : ctl := match n with O => c | S k => emit_n (emit c t) t k end.

(* ~% ~~ : n copies *)
Definition dir_repeat (t : text) (ps : list param) (c : ctl) : pres :=
  match fst (first_int ps 1) with
  | GOk n => Ok (emit_n c t (Z.to_nat n), false)
  | GErr => err c
  | GUnsup => Unsup
  end.
(* ~& *)
Definition dir_amp (ps : list param) (c : ctl) : pres :=
  match fst (first_int ps 1) with
  | GOk n =>
      let i := go_fresh n (c_pre c ++ c_out c) in      (* c.lastByte(): the enclosing controls included *)
      let s := std_fresh n (c_pre c ++ c_out c) in
      Ok (emit_n (add_taint c (negb (Nat.eqb i s))) [nl] (pick i s), false)
  | GErr => err c
  | GUnsup => Unsup
  end.
(* ~* *)
Definition dir_move (colon at_ : bool) (ps : list param) (c : ctl) : pres :=
  match first_int ps 1 with
  | (GOk n, changed) =>
      if colon && at_ then err c
      else let np := if colon then (c_apos c - n)%Z
                     else if at_ then (if changed then n else 0%Z)
                     else (c_apos c + n)%Z in
           (* leaving 0..len is an error: "move directive leaves the argument list" *)
           let inside := (0 <=? np)%Z && (np <=? nargs c)%Z in
           if inside then Ok (set_apos c np, false) else err c
  | (GErr, _) => err c
  | (GUnsup, _) => Unsup
  end.
(* ~P *)
Definition dir_plural (colon at_ : bool) (c : ctl) : pres :=
  let c := if colon then set_apos c (c_apos c - 1) else c in
  if (c_apos c <? 0)%Z || (nargs c <=? c_apos c)%Z then err c
  else match arg_at c with
       | None => err c
       | Some v =>
           let c := set_apos c (c_apos c + 1) in
           let one := match v with VInt 1 => true | _ => false end in
           Ok (emit c (if one then (if at_ then ["y"] else []) else if at_ then tx "ies" else ["s"]), false)
       end.
(* ~C *)
Definition dir_char (colon at_ : bool) (c : ctl) : pres :=
  match take_arg c with
  | Ok (VChr a, c) => Ok (emit c (if colon then char_name a else if at_ then char_readable a else [a]), false)
  | Ok (_, c) => err c
  | Err t => Err t | OutOfFuel => OutOfFuel | Unsup => Unsup
  end.
(* ~A ~S  (dirA, dirS, dirAS) *)
Fixpoint pad_loop (fuel : nat) (len mincol colinc : nat) (padchar pad : text) : option text :=
  match fuel with
  | O => None
  | S f => if Nat.ltb (len + List.length pad) mincol
           then pad_loop f len mincol colinc padchar (pad ++ repeat_text padchar colinc) else Some pad
  end.
Definition dir_as (esc colon at_ : bool) (ps : list param) (c : ctl) : pres :=
  match take_arg c with
  | Ok (v, c) =>
      (* with : nil is written (); an empty list object is nil *)
      let out := if is_empty v && colon then tx "()" else print esc v in
      match get_int 0 ps 0 true, get_int 1 ps 1 true, get_int 2 ps 0 true, get_chr 3 ps [sp] with
      | GOk mincol, GOk colinc, GOk minpad, Some padchar =>
          if (colinc <? 1)%Z then err c else          (* colinc directive parameter must be positive *)
          match pad_loop (S (Z.to_nat mincol)) (List.length out) (Z.to_nat mincol) (Z.to_nat colinc) padchar
                         (repeat_text padchar (Z.to_nat minpad)) with
          | Some pad => Ok (emit c (if at_ then pad ++ out else out ++ pad), false)
          | None => OutOfFuel
          end
      | GUnsup, _, _, _ | _, GUnsup, _, _ | _, _, GUnsup, _ => Unsup
      | _, _, _, _ => err c
      end
  | Err t => Err t | OutOfFuel => OutOfFuel | Unsup => Unsup
  end.
(* ~D ~B ~O ~X, and S's ~radix,...R   (dirInt) ; off: index of mincol among the parameters *)
Definition dir_int (base : N) (off : nat) (colon at_ : bool) (ps : list param) (c : ctl) : pres :=
  match take_arg c with
  | Ok (v, c) =>
      match get_int off ps 0 true, get_chr (off + 1) ps [sp], get_chr (off + 2) ps [","], get_int (off + 3) ps 3 true with
      | GOk mincol, Some padchar, Some commachar, GOk commaint =>
          if (commaint <? 1)%Z then err c
          else
            (* site: the integer text (Model.go_int_text / Spec.render_int); an argument that is not an integer is
               printed as by ~A, the Go code prints it with escapes *)
            let i := go_int_text base (Z.to_nat mincol) padchar commachar (Z.to_nat commaint) colon at_ v in
            let s := match v with
                     | VInt z => render_int base (Z.to_nat mincol) (hd sp padchar) (hd sp commachar) (Z.to_nat commaint) colon at_ z
                     | _ => pad_left (Z.to_nat mincol) (hd sp padchar) (princ v)
                     end in
            Ok (emit (add_taint c (negb (text_eqb i s))) (pick i s), false)
      | GUnsup, _, _, _ | _, _, _, GUnsup => Unsup
      | _, _, _, _ => err c
      end
  | Err t => Err t | OutOfFuel => OutOfFuel | Unsup => Unsup
  end.
(* ~R (dirR) *)
Definition opt_text_eqb (x y : option text) : bool :=
  match x, y with Some a, Some b => text_eqb a b | None, None => true | _, _ => false end.
Definition dir_radix (colon at_ : bool) (ps : list param) (c : ctl) : pres :=
  let go_words (c : ctl) : pres :=
    if (nargs c <=? c_apos c)%Z then err c
    else match arg_at c with
         | Some (VInt z) =>
             let c := set_apos c (c_apos c + 1) in
             let i := if at_ then go_roman T colon (go_radix_digits z) else go_english T colon (go_radix_digits z) in
             let s := if at_ then std_roman colon z else std_english colon z in
             (* site: the words *)
             match pick i s with
             | Some t => Ok (emit (add_taint c (negb (opt_text_eqb i s))) t, false)
             | None => Err (c_taint c || negb (opt_text_eqb i s))
             end
         | _ => err c          (* no argument (negative position: index panic) or not an integer *)
         end in
  match ps with
  | [] => go_words c
  | _ =>
      (* with prefix parameters: ~radix,mincol,padchar,commachar,comma-intervalR is dirInt in that radix over params[1:] *)
      match get_int 0 ps 10 true with
      | GOk r => if ((2 <=? r) && (r <=? 36))%Z then dir_int (Z.to_N r) 1 colon at_ ps c else err c
      | GErr => err c
      | GUnsup => Unsup
      end
  end.
(* ~T (dirT); site: the number of spaces *)
Definition dir_tab (colon at_ : bool) (ps : list param) (c : ctl) : pres :=
  match get_int 0 ps 0 true, get_int 1 ps 1 true with
  | GOk colnum, GOk colinc =>
      let given (i : nat) := match nth_error ps i with Some (PInt _) | Some (PVal (VInt _)) => true | _ => false end in
      let i := go_tab at_ (Z.to_nat colnum) (Z.to_nat colinc) (c_pre c ++ c_out c) in     (* c.column() *)
      (* the definition: both parameters default to 1; the column is the one of the whole output *)
      let cn := if given 0%nat then Z.to_nat colnum else 1%nat in
      let cur := column (c_pre c ++ c_out c) in
      let s := if at_ then std_tab_rel cn (Z.to_nat colinc) cur else std_tab_abs cn (Z.to_nat colinc) cur in
      Ok (emit_n (add_taint c (negb (Nat.eqb i s))) [sp] (pick i s), false)
  | GUnsup, _ | _, GUnsup => Unsup
  | _, _ => err c
  end.

(* ---- blocks ------------------------------------------------------------------------------------- *)
Definition opt_pair_eqb (x y : option (nat * nat)) : bool :=
  match x, y with
  | Some (a, b), Some (c, d) => Nat.eqb a c && Nat.eqb b d
  | None, None => true
  | _, _ => false
  end.
(* site: the extent of a ~( or ~{ block starting at c.pos: (index where the body ends, colon of the closing
   directive, index after it); the Go side is scanDirBlock *)
Definition ext_eqb (x y : option (nat * bool * nat)) : bool :=
  match x, y with
  | Some (e, k, j), Some (e', k', j') => Nat.eqb e e' && Bool.eqb k k' && Nat.eqb j j'
  | None, None => true
  | _, _ => false
  end.
Definition block_extent (c : ctl) (opn cls : ascii) (iter : bool) : res (nat * bool * nat) * bool :=
  let n := S (List.length (c_str c)) in
  let s := match block_end n (c_str c) (c_pos c) opn cls 0 with
           | Some (i, colon, j) => if colon && negb iter then None else Some (i, colon, j)
           | None => None
           end in
  match go_scan_block n (c_str c) (c_pos c) opn cls iter false false false with
  | ScanFuel => (OutOfFuel, false)
  | gs =>
      let i := match gs with
               | ScanAt p =>
                   (* dirIter: c.pos = pos + 2 ; if c.str[pos+1] == ':' { c.pos++ ; atLeastOnce = true } *)
                   if iter && ascii_eqb (ch_at (c_str c) (p + 1)) ":"
                   then Some (p, true, p + 3) else Some (p, false, p + 2)
               | _ => None
               end in
      let t := negb (ext_eqb i s) in
      (match pick i s with Some x => Ok x | None => Err (c_taint c || t) end, t)
  end.

(* ~( (dirCase) *)
Definition dir_case (rec : ctl -> pres) (colon at_ : bool) (c : ctl) : pres :=
  match block_extent c "(" ")" false with
  | (Ok (e, _, next), t) =>
      match rec (add_taint (window c e) t) with
      | Ok (c2, aborted) =>
          (* site: the case conversion *)
          let i := go_case colon at_ (c_out c2) in
          let s := std_case colon at_ (c_out c2) in
          Ok (mkctl (c_str c) next (c_end c) (c_out c ++ pick i s) (c_args c) (c_apos c2) (c_stop c) (c_pre c)
                    (c_taint c2 || negb (text_eqb i s)), aborted)
      | r => r
      end
  | (Err t, _) => Err t
  | (OutOfFuel, _) => OutOfFuel
  | (Unsup, _) => Unsup
  end.

(* subProcess (control.go:1540): a new control over the clause, same arguments and position *)
Definition sub_process (rec : ctl -> pres) (c : ctl) (s : text) : pres :=
  match rec (fresh c s (c_args c) (c_apos c)) with
  | Ok (c2, aborted) =>
      Ok (mkctl (c_str c) (c_pos c) (c_end c) (c_out c ++ c_out c2) (c_args c) (c_apos c2) (c_stop c) (c_pre c) (c_taint c2), aborted)
  | r => r
  end.
Definition with_pos (p : nat) (r : pres) : pres :=
  match r with Ok (c, a) => Ok (set_pos c p, a) | r => r end.

(* scanCond leaves the tilde of a following ~:; at the end of the clause before it; readDir on a final
   tilde does nothing, so the two clause texts are the same control string *)
Definition clause_eqb (go std : text) : bool := text_eqb go std || text_eqb go (std ++ ["~"]).
Fixpoint texts_eqb (x y : list text) : bool :=
  match x, y with
  | [], [] => true
  | a :: x', b :: y' => clause_eqb a b && texts_eqb x' y'
  | _, _ => false
  end.
(* ~[ (dirCond) *)
Definition dir_cond (rec : ctl -> pres) (colon at_ : bool) (ps : list param) (c : ctl) : pres :=
  match (match ps with
         | [] => GOk (-1)%Z
         | PInt z :: _ => GOk z
         | PVal (VInt z) :: _ => big_guard z
         | _ => GErr
         end) with
  | GErr => err c
  | GUnsup => Unsup
  | GOk n =>
    (* the argument, when one is needed; None: there is none left *)
    let need := colon || at_ || (n <? 0)%Z in
    if need && (c_apos c <? 0)%Z then err c else
    let '(arg, c) := if need then (match arg_at c with
                                   | Some v => (Some v, set_apos c (c_apos c + 1))
                                   | None => (None, c)
                                   end) else (None, c) in
    (* site: the clauses; the Go side is scanCond *)
    let len := S (List.length (c_str c)) in
    let s := match cond_clauses len (c_str c) (c_pos c) (c_pos c) 0 [] false with
             | Some (strs, def, j) => Some (strs, match def with Some d => d | None => [] end, j)
             | None => None
             end in
    match go_scan_cond len (c_str c) (c_pos c) (c_pos c) [] false false false false with
    | CondFuel => OutOfFuel
    | gs =>
      let i := match gs with CondAt strs def p => Some (strs, def, p + 2) | _ => None end in
      let same := match i, s with
                  | Some (a, d, p), Some (a', d', p') => texts_eqb a a' && text_eqb d d' && Nat.eqb p p'
                  | None, None => true
                  | _, _ => false
                  end in
      let c := add_taint c (negb same) in
      match pick i s with
      | None => err c
      | Some (strs, def, next) =>
        if colon && at_ then err c
        else if colon then
          if negb (Nat.eqb (List.length strs) 2) || Nat.ltb 0 (List.length def) then err c
          else match arg with
               | Some VNil | Some (VList []) => with_pos next (sub_process rec c (tnth strs 0))   (* an empty list object is nil *)
               | Some _ => with_pos next (sub_process rec c (tnth strs 1))
               | None => err c                                             (* needArg: no argument left *)
               end
        else if at_ then
          if negb (Nat.eqb (List.length strs) 1) || Nat.ltb 0 (List.length def) then err c
          else match arg with
               | Some VNil | Some (VList []) => Ok (set_pos c next, false)
               | Some _ => with_pos next (sub_process rec (set_apos c (c_apos c - 1)) (tnth strs 0))
               | None => err c
               end
        else
          (* the clause number: the prefix parameter, else a fixnum argument *)
          let sel (n : Z) (c : ctl) : pres :=
            if (0 <=? n)%Z && (n <? Z.of_nat (List.length strs))%Z then with_pos next (sub_process rec c (tnth strs (Z.to_nat n)))
            else if Nat.ltb 0 (List.length def) then with_pos next (sub_process rec c def)
            else Ok (set_pos c next, false) in
          if (n <? 0)%Z then
            match arg with
            | Some (VInt z) =>
                (* a fixnum is the clause number; a bignum selects no clause: n = len(strs) *)
                if is_fixnum z then sel z c else sel (Z.of_nat (List.length strs)) c
            | _ => err c
            end
          else sel n c
      end
    end
  end.

(* ~? (dirProc) *)
Definition dir_proc (rec : ctl -> pres) (at_ : bool) (c : ctl) : pres :=
  if (c_apos c <? 0)%Z then err c else
  (* the control string; none left: needArg *)
  match (match arg_at c with
         | Some (VStr s) => Ok (s, set_apos c (c_apos c + 1))
         | Some _ => err c
         | None => err c
         end) with
  | Ok (ctrl, c) =>
      if at_ then
        match rec (fresh c ctrl (c_args c) (c_apos c)) with
        | Ok (c2, _) => Ok (mkctl (c_str c) (c_pos c) (c_end c) (c_out c ++ c_out c2) (c_args c) (c_apos c2) (c_stop c) (c_pre c) (c_taint c2), false)
        | r => r
        end
      else
        match (match arg_at c with
               | Some (VList l) => Ok (l, c)
               | Some VNil => Ok ([], c)                                  (* nil is the empty list *)
               | Some _ => err c
               | None => err c
               end) with
        | Ok (args, c) =>
            match rec (fresh c ctrl args 0) with
            | Ok (c2, _) => Ok (mkctl (c_str c) (c_pos c) (c_end c) (c_out c ++ c_out c2) (c_args c) (c_apos c + 1) (c_stop c) (c_pre c) (c_taint c2), false)
            | r => r
            end
        | Err t => Err t | OutOfFuel => OutOfFuel | Unsup => Unsup
        end
  | Err t => Err t | OutOfFuel => OutOfFuel | Unsup => Unsup
  end.

(* ~{ (dirIter).  c: the enclosing control (its out grows, its argPos moves); c2: the body control.
   One iteration: c2.pos = start; c2.process(); c.out += c2.out; c2.out = c2.out[:0] *)
Definition iter_once (rec : ctl -> pres) (start : nat) (c c2 : ctl) : res (ctl * ctl * bool) :=
  let c2 := mkctl (c_str c2) start (c_end c2) [] (c_args c2) (c_apos c2) (c_stop c2) (c_pre c ++ c_out c) (c_taint c || c_taint c2) in
  match rec c2 with
  | Ok (c2', aborted) => Ok (add_taint (emit c (c_out c2')) (c_taint c2'), c2', aborted)
  | Err t => Err t | OutOfFuel => OutOfFuel | Unsup => Unsup
  end.
Definition with_args (c2 : ctl) (args : list value) (apos : Z) : ctl :=
  mkctl (c_str c2) (c_pos c2) (c_end c2) (c_out c2) args apos (c_stop c2) (c_pre c2) (c_taint c2).
Definition merge_taint (c c2 : ctl) : ctl := add_taint c (c_taint c2).

(* default and @ : the loop  for ; 0 < n; n-- { if (len(c2.args) <= c2.argPos && !atLeastOnce) || c2.stop { break } ... } *)
Fixpoint iter_loop (fuel : nat) (rec : ctl -> pres) (start : nat) (n : Z) (once : bool) (c c2 : ctl) : res (ctl * ctl) :=
  match fuel with
  | O => OutOfFuel
  | S f =>
    if (0 <? n)%Z then
      if ((nargs c2 <=? c_apos c2)%Z && negb once) || c_stop c2 then Ok (c, c2)
      else match iter_once rec start c c2 with
           | Ok (c, c2, aborted) => if aborted then Ok (c, c2) else iter_loop f rec start (n - 1) false c c2
           | Err t => Err t | OutOfFuel => OutOfFuel | Unsup => Unsup
           end
    else Ok (c, c2)
  end.
(* : — for _, al := range argList { if n <= 0 || c2.stop { break }; n--; c2.args = objAsList(al) ... } *)
Fixpoint iter_lists (rec : ctl -> pres) (start : nat) (n : Z) (ls : list value) (c c2 : ctl) : res (ctl * ctl) :=
  match ls with
  | [] => Ok (c, c2)
  | al :: ls' =>
    if (n <=? 0)%Z || c_stop c2 then Ok (c, c2)
    else match as_list al with
         | None => Err (c_taint c || c_taint c2)
         | Some l =>
             match iter_once rec start c (with_args c2 l 0) with
             | Ok (c, c2, _) => iter_lists rec start (n - 1) ls' c c2    (* S: ~^ ends this sublist only *)
             | Err t => Err t | OutOfFuel => OutOfFuel | Unsup => Unsup
             end
         end
  end.
(* :@ *)
Fixpoint iter_args (fuel : nat) (rec : ctl -> pres) (start : nat) (n : Z) (once : bool) (c c2 : ctl) : res (ctl * ctl) :=
  match fuel with
  | O => OutOfFuel
  | S f =>
    if (0 <? n)%Z then
      if ((nargs c <=? c_apos c)%Z && negb once) || c_stop c2 then Ok (c, c2)
      else if (c_apos c <? 0)%Z then err c
      else match (match arg_at c with
                  | Some v => (match as_list v with Some l => Some (l, set_apos c (c_apos c + 1)) | None => None end)
                  | None => Some ([], c)
                  end) with
           | None => Err (c_taint c || c_taint c2)
           | Some (l, c) =>
               match iter_once rec start c (with_args c2 l 0) with
               | Ok (c, c2, _) => iter_args f rec start (n - 1) false c c2
               | Err t => Err t | OutOfFuel => OutOfFuel | Unsup => Unsup
               end
           end
    else Ok (c, c2)
  end.
Definition max_int : Z := 9223372036854775807.
Definition dir_iter (fuel : nat) (rec : ctl -> pres) (colon at_ : bool) (ps : list param) (c : ctl) : pres :=
  match block_extent c "{" "}" true with
  | (Ok (e, once, next), t) =>
      let start := c_pos c in
      let c2 := window c e in
      let c := add_taint (set_pos c next) t in
      match get_int 0 ps max_int true with
      | GErr => err c
      | GUnsup => Unsup
      | GOk n =>
        let finish (r : res (ctl * ctl)) (f : ctl -> ctl -> ctl) : pres :=
          match r with
          | Ok (c, c2) => Ok (f (merge_taint c c2) c2, false)
          | Err t => Err t | OutOfFuel => OutOfFuel | Unsup => Unsup
          end in
        if colon && at_ then finish (iter_args fuel rec start n once c c2) (fun c _ => c)
        else if colon then
          if (c_apos c <? 0)%Z then err c else
          match (match arg_at c with
                 | Some v => (match as_list v with Some l => Ok (l, set_apos c (c_apos c + 1)) | None => err c end)
                 | None => err c                                         (* needArg: no argument left *)
                 end) with
          | Ok (ls, c) =>
              let ls := if once && Nat.eqb (List.length ls) 0 then [VNil] else ls in
              finish (iter_lists rec start n ls c c2) (fun c _ => c)
          | Err t => Err t | OutOfFuel => OutOfFuel | Unsup => Unsup
          end
        else if at_ then finish (iter_loop fuel rec start n once c c2) (fun c c2 => set_apos c (c_apos c2))
        else
          if (c_apos c <? 0)%Z then err c else
          match (match arg_at c with
                 | Some v => (match as_list v with Some l => Ok (l, set_apos c (c_apos c + 1)) | None => err c end)
                 | None => err c
                 end) with
          | Ok (l, c) => finish (iter_loop fuel rec start n once c (with_args c2 l 0)) (fun c _ => c)
          | Err t => Err t | OutOfFuel => OutOfFuel | Unsup => Unsup
          end
      end
  | (Err t, _) => Err t
  | (OutOfFuel, _) => OutOfFuel
  | (Unsup, _) => Unsup
  end.

(* ---- the directive switch of readDir, and process (control.go:107) ------------------------------ *)
Definition is_one_of (ch : ascii) (s : string) : bool := existsb (ascii_eqb ch) (tx s).
Definition dispatch (fuel : nat) (rec : ctl -> pres) (ch : ascii) (colon at_ : bool) (ps : list param) (c : ctl) : pres :=
  if is_one_of ch "%" then dir_repeat [nl] ps c
  else if is_one_of ch "~" then dir_repeat ["~"] ps c
  else if is_one_of ch "&" then dir_amp ps c
  else if is_one_of ch "(" then dir_case rec colon at_ c
  else if is_one_of ch "*" then dir_move colon at_ ps c
  else if is_one_of ch "?" then dir_proc rec at_ c
  else if is_one_of ch "Aa" then dir_as false colon at_ ps c
  else if is_one_of ch "Ss" then dir_as true colon at_ ps c
  else if is_one_of ch "Bb" then dir_int 2 0 colon at_ ps c
  else if is_one_of ch "Oo" then dir_int 8 0 colon at_ ps c
  else if is_one_of ch "Dd" then dir_int 10 0 colon at_ ps c
  else if is_one_of ch "Xx" then dir_int 16 0 colon at_ ps c
  else if is_one_of ch "Cc" then dir_char colon at_ c
  else if is_one_of ch "Pp" then dir_plural colon at_ c
  else if is_one_of ch "Rr" then dir_radix colon at_ ps c
  else if is_one_of ch "Tt" then dir_tab colon at_ ps c
  else if is_one_of ch "[" then dir_cond rec colon at_ ps c
  else if is_one_of ch "{" then dir_iter fuel rec colon at_ ps c
  else if is_one_of ch "^" then
    (* site: the Go code sets c.stop and goes on; by the definition the enclosing construct ends here when
       no arguments remain *)
    if b then Ok (add_taint (set_stop c) true, false)
    else if (nargs c <=? c_apos c)%Z then Ok (add_taint c true, true) else Ok (add_taint c true, false)
  else Unsup.

Fixpoint process (fuel : nat) (c : ctl) : pres :=
  match fuel with
  | O => OutOfFuel
  | S f =>
    if Nat.ltb (c_pos c) (c_end c) then
      let ch := ch_at (c_str c) (c_pos c) in
      if ascii_eqb ch "~" then
        match read_dir (S (c_end c)) (set_pos c (S (c_pos c))) false false [] with
        | RdDir d colon at_ ps c1 =>
            match dispatch f (process f) d colon at_ ps c1 with
            | Ok (c2, aborted) => if aborted then Ok (c2, true) else process f c2
            | r => r
            end
        | RdEos c1 => Ok (c1, false)          (* the string ends inside a directive: the loops just end *)
        | RdErr t => Err t
        | RdFuel => OutOfFuel
        | RdUnsup => Unsup
        end
      else process f (set_pos (emit c [ch]) (S (c_pos c)))
    else Ok (c, false)
  end.
End Interp.

(* ---- format nil control args ------------------------------------------------------------------ *)
Inductive outcome := OText (t : text) | OError | OFuel | OUnsup.
Definition run (b : bool) (T : tables) (fuel : nat) (control : text) (args : list value) : outcome * bool :=
  match process b T fuel (mkctl control 0 (List.length control) [] args 0 false [] false) with
  | Ok (c, _) => (OText (c_out c), c_taint c)
  | Err t => (OError, t)
  | OutOfFuel => (OFuel, false)
  | Unsup => (OUnsup, false)
  end.
Definition M_run (T : tables) := run true T.       (* M: the model of the Go code, over the tables of the source *)
Definition S_run := run false std_tables.           (* S: the specification *)
Definition untainted (r : outcome * bool) : bool := negb (snd r).
