(* C15 — the Roman branch of dirR (Model.go_roman) against the definition (Spec.std_roman) for ALL integers,
   not only 1..3999: outside that range both have no numeral (0 included since repo_fixes/C15-5; before, the Go code
   wrote the empty string there, finding C15-roman-zero). The range 1..3999 itself is WordProofs.go_roman_is_roman (kernel computation
   over the whole finite domain). *)
From C15 Require Import Model Spec IntProofs WordProofs EnglishProofs.
Open Scope list_scope.

Lemma head_not_minus : forall n, ascii_eqb (hd zero (digit_text 10 n)) "-" = false.
Proof.
  intros n. pose proof (digit_text_head 10 n ltac:(lia)) as H. unfold is_sign in H.
  apply orb_false_iff in H. exact (proj1 H).
Qed.
(* from 4000 on: "number too large", whatever the tables *)
Lemma go_roman_large : forall T old n, (4000 <= n)%N -> go_roman T old (digit_text 10 n) = None.
Proof.
  intros T old n Hn. destruct (N.ltb n 10000) eqn:E; [apply N.ltb_lt in E | apply N.ltb_ge in E].
  - rewrite digit_text_1000 by lia. rewrite digit_text_small by (apply N.div_lt_upper_bound; lia). cbn [app].
    assert (Hq : (4 <= n / 1000 < 10)%N) by (split; [apply N.div_le_lower_bound; lia | apply N.div_lt_upper_bound; lia]).
    assert (Hin : In (n / 1000)%N (map N.of_nat (seq 4 6))).
    { apply in_map_iff. exists (N.to_nat (n / 1000)). split; [lia | apply in_seq; lia]. }
    cbn [seq map] in Hin. repeat (destruct Hin as [<- | Hin]; [reflexivity |]). destruct Hin.
  - pose proof (digit_text_length_ge 4 n ltac:(exact E)) as HL. pose proof (head_not_minus n) as Hh.
    unfold go_roman. destruct (digit_text 10 n) as [|d0 r]; [reflexivity|]. cbn [hd] in Hh. rewrite Hh.
    replace (Nat.ltb 4 (List.length (d0 :: r))) with true by (symmetry; apply Nat.ltb_lt; lia).
    replace (Nat.eqb (List.length (d0 :: r)) 1) with false by (symmetry; apply Nat.eqb_neq; lia). reflexivity.
Qed.
Lemma go_roman_negative : forall T old z, (z < 0)%Z -> go_roman T old (dec_text z) = None.
Proof.
  intros T old z Hz. unfold dec_text, int_text. replace (z <? 0)%Z with true by (symmetry; apply Z.ltb_lt; exact Hz).
  reflexivity.
Qed.
(* for EVERY integer the Roman branch of dirR and the definition agree: the numeral on 1..3999, none elsewhere (0 is
   "number too small" since repo_fixes/C15-5) *)
Theorem go_roman_all_integers : forall old z, go_roman src_tables old (dec_text z) = std_roman old z.
Proof.
  intros old z.
  destruct (Z_lt_le_dec z 0) as [Hneg | Hpos].
  - rewrite go_roman_negative by exact Hneg. rewrite roman_domain by lia. reflexivity.
  - destruct (Z_le_gt_dec z 3999) as [Hs | Hl].
    + destruct (Z.eq_dec z 0) as [-> | Hz]; [rewrite dec_text_0; reflexivity|]. apply go_roman_is_roman. lia.
    + rewrite roman_domain by lia. unfold dec_text, int_text.
      replace (z <? 0)%Z with false by (symmetry; apply Z.ltb_ge; lia). apply go_roman_large. lia.
Qed.
(* 0 has no numeral: whatever the tables *)
Theorem go_roman_zero : forall T old, go_roman T old (dec_text 0) = None /\ std_roman old 0 = None.
Proof. intros T old. rewrite dec_text_0. split; reflexivity. Qed.
