(* C15 — the English writer of dirR (Model.go_english, the loop over cardinalTriples that walks the
   decimal text three digits at a time from its end) against the definition (Spec.std_english), for
   ALL integers: by induction over the groups of three digits.

   1. the decimal text of n is the decimal text of n / 1000 followed by three digits (n >= 1000);
   2. one round of the loop appends to `words` a list that depends on the three digits only (gdelta);
   3. hence the loop writes, for every n > 0 and every table, the words GL of the groups of n;
   4. for each of the 22 x 1000 (scale, group value) pairs the words of the round are compared with the
      words of the definition by kernel computation (the domain of a group IS finite), and the result
      is lifted to all numbers by induction over the list of groups;
   5. the last word of an ordinal that ends in 0 takes its ordinal form by its ending (y -> ieth, + th); with that the
      loop writes the defined text for EVERY integer, cardinal and ordinal (an error from 10^66 on, like the definition).
   Everything is parametric in the tables T; the finite checks are boolean functions of T, evaluated
   for the tables as they stand in the source (here) and for the regenerated ones (TableProofs.v). *)
From C15 Require Import Model Spec TableCheck IntProofs WordProofs.
From Coq Require Import ZifyBool.
Ltac Zify.zify_post_hook ::= Z.to_euclidean_division_equations.
Open Scope list_scope.

(* ---- 1. decimal digits, three at a time ------------------------------------------------------------ *)
Lemma digits_rev_fuel_stable : forall f1 f2 b n, (2 <= b)%N -> (0 < n)%N ->
  (n < 2 ^ N.of_nat f1)%N -> (n < 2 ^ N.of_nat f2)%N -> digits_rev_fuel f1 b n = digits_rev_fuel f2 b n.
Proof.
  induction f1 as [|f1 IH]; intros f2 b n Hb Hn H1 H2.
  - cbn in H1. lia.
  - destruct f2 as [|f2]. { cbn in H2. lia. }
    cbn [digits_rev_fuel]. destruct (n <? b)%N eqn:E; [reflexivity|]. apply N.ltb_ge in E.
    f_equal. rewrite Nat2N.inj_succ, N.pow_succ_r' in H1, H2.
    assert (n / b <= n / 2)%N by (apply N.div_le_compat_l; lia).
    assert (0 < n / b)%N by (apply N.div_str_pos; lia).
    apply IH; try assumption.
    + assert (n / 2 < 2 ^ N.of_nat f1)%N by (apply N.div_lt_upper_bound; lia). lia.
    + assert (n / 2 < 2 ^ N.of_nat f2)%N by (apply N.div_lt_upper_bound; lia). lia.
Qed.
Lemma digits_rev_step : forall b n, (2 <= b)%N -> (b <= n)%N ->
  digits_rev b n = (n mod b)%N :: digits_rev b (n / b).
Proof.
  intros b n Hb Hn. unfold digits_rev at 1. cbn [digits_rev_fuel].
  destruct (n <? b)%N eqn:E. { apply N.ltb_lt in E. lia. }
  f_equal. unfold digits_rev.
  assert (0 < n / b)%N by (apply N.div_str_pos; lia).
  apply digits_rev_fuel_stable; try assumption.
  - pose proof (fuel_enough n) as F. rewrite Nat2N.inj_succ, N.pow_succ_r' in F.
    assert (n / b <= n / 2)%N by (apply N.div_le_compat_l; lia).
    assert (n / 2 < 2 ^ N.of_nat (N.to_nat (N.log2 n)))%N by (apply N.div_lt_upper_bound; lia). lia.
  - apply fuel_enough.
Qed.
Lemma digits_rev_small : forall b n, (n < b)%N -> digits_rev b n = [n].
Proof. intros b n H. unfold digits_rev. cbn [digits_rev_fuel]. apply N.ltb_lt in H. rewrite H. reflexivity. Qed.

Definition dc (d : N) : ascii := digit_char d.
Lemma digit_text_step : forall n, (10 <= n)%N -> digit_text 10 n = digit_text 10 (n / 10) ++ [dc (n mod 10)].
Proof.
  intros n H. unfold digit_text, digits. rewrite digits_rev_step by lia. cbn [rev]. rewrite map_app. reflexivity.
Qed.
Lemma digit_text_small : forall n, (n < 10)%N -> digit_text 10 n = [dc n].
Proof. intros n H. unfold digit_text, digits. rewrite digits_rev_small by lia. reflexivity. Qed.
(* the decimal text of n >= 1000 is the decimal text of n / 1000 followed by the three digits of n mod 1000 *)
Lemma digit_text_1000 : forall n, (1000 <= n)%N ->
  digit_text 10 n = digit_text 10 (n / 1000) ++ [dc (n / 100 mod 10); dc (n / 10 mod 10); dc (n mod 10)].
Proof.
  intros n H. rewrite (digit_text_step n) by lia. rewrite (digit_text_step (n / 10)).
  2:{ assert (100 <= n / 10)%N by (apply N.div_le_lower_bound; lia). lia. }
  rewrite (digit_text_step (n / 10 / 10)).
  2:{ rewrite N.div_div by lia. apply N.div_le_lower_bound; lia. }
  rewrite !N.div_div by lia. change (10 * 10)%N with 100%N. change (100 * 10)%N with 1000%N.
  rewrite <- !app_assoc. reflexivity.
Qed.
Lemma digit_text_100 : forall n, (100 <= n < 1000)%N ->
  digit_text 10 n = [dc (n / 100 mod 10); dc (n / 10 mod 10); dc (n mod 10)].
Proof.
  intros n H. rewrite (digit_text_step n) by lia. rewrite (digit_text_step (n / 10)).
  2:{ apply N.div_le_lower_bound; lia. }
  rewrite N.div_div by lia. change (10 * 10)%N with 100%N.
  rewrite digit_text_small. 2:{ apply N.div_lt_upper_bound; lia. }
  replace (n / 100 mod 10)%N with (n / 100)%N. { reflexivity. }
  symmetry. apply N.mod_small. apply N.div_lt_upper_bound; lia.
Qed.
Lemma digit_text_10 : forall n, (10 <= n < 100)%N -> digit_text 10 n = [dc (n / 10 mod 10); dc (n mod 10)].
Proof.
  intros n H. rewrite (digit_text_step n) by lia.
  rewrite digit_text_small. 2:{ apply N.div_lt_upper_bound; lia. }
  replace (n / 10 mod 10)%N with (n / 10)%N. { reflexivity. }
  symmetry. apply N.mod_small. apply N.div_lt_upper_bound; lia.
Qed.
(* as the task of the decimal text is stated for dec_text: *)
Theorem dec_text_1000 : forall n, (1000 <= n)%N ->
  dec_text (Z.of_N n) = dec_text (Z.of_N (n / 1000)) ++ [dc (n / 100 mod 10); dc (n / 10 mod 10); dc (n mod 10)].
Proof.
  intros n H. unfold dec_text, int_text.
  destruct (Z.of_N n <? 0)%Z eqn:E1; [lia|]. destruct (Z.of_N (n / 1000) <? 0)%Z eqn:E2; [lia|].
  rewrite !N2Z.id || idtac. replace (Z.abs_N (Z.of_N n)) with n by lia.
  replace (Z.abs_N (Z.of_N (n / 1000))) with (n / 1000)%N by lia. apply digit_text_1000. exact H.
Qed.

(* the value of a digit character as dirR computes it: c - '0' *)
Definition dv (c : ascii) : nat := N.to_nat (code c - 48).
Lemma dv_dc : forall d, (d < 10)%N -> dv (dc d) = N.to_nat d.
Proof.
  intros d H.
  assert (Hin : In d (map N.of_nat (seq 0 10))).
  { apply in_map_iff. exists (N.to_nat d). split; [lia | apply in_seq; lia]. }
  cbn [seq map] in Hin. repeat (destruct Hin as [<- | Hin]; [vm_compute; reflexivity |]). destruct Hin.
Qed.
Lemma ch_at_app : forall (A : text) c B, ch_at (A ++ c :: B) (List.length A) = c.
Proof. intros. unfold ch_at. rewrite app_nth2 by lia. rewrite Nat.sub_diag. reflexivity. Qed.
Lemma dg_app : forall (A : text) c B i, i = Z.of_nat (List.length A) -> dg (A ++ c :: B) i = dv c.
Proof. intros A c B i ->. unfold dg. rewrite Nat2Z.id, ch_at_app. reflexivity. Qed.

(* ---- 2. one round of the loop ------------------------------------------------------------------------ *)
(* what one round appends to `words` (in the order of the Go slice: scale word, units, tens, "hundred",
   hundreds), as a function of the three digits; nothing when all three are 0 (the scale word is popped) *)
Definition gdelta (T : tables) (trip : text) (one teen : list text) (d d10 d100 : nat) : list text :=
  let lo := match d10 with
            | 0 => if Nat.eqb d 0 then [] else [tnth one d]
            | 1 => [tnth teen d]
            | _ => (if Nat.eqb d 0 then [] else [tnth one d]) ++ [tnth (t_ten T) (d10 - 2)]
            end in
  let hi := if Nat.eqb d100 0 then [] else [hundred_w; tnth (t_one T) d100] in
  match lo ++ hi with
  | [] => []
  | ws => (if Nat.ltb 0 (List.length trip) then [trip] else []) ++ ws
  end.

Lemma pop_last : forall (ws : list text) (w : text),
  match ws ++ [w] with [] => None | _ :: _ => Some (removelast (ws ++ [w])) end = Some ws.
Proof. intros. rewrite removelast_last. destruct ws; reflexivity. Qed.

Ltac loop_cases :=
  repeat match goal with
         | |- context [Nat.eqb ?x 0] => destruct (Nat.eqb x 0)
         | |- context [Nat.ltb 0 (List.length ?t)] => destruct (Nat.ltb 0 (List.length t))
         end;
  cbn [negb andb app]; rewrite ?pop_last, ?app_nil_r, <- ?app_assoc; cbn [app]; try reflexivity.

(* the last group has one digit (not 0) *)
Lemma loop_one_digit : forall T trip rest digits words one teen d,
  dg digits 0 = d -> d <> 0 ->
  go_card_loop T (trip :: rest) digits 0 words one teen = Some (words ++ gdelta T trip one teen d 0 0).
Proof.
  intros T trip rest digits words one teen d Hd Hnz. cbn [go_card_loop]. rewrite Hd.
  change (0 - 1 <? 0)%Z with true. cbv iota. unfold gdelta. cbn [Nat.eqb].
  destruct (Nat.eqb d 0) eqn:E. { apply Nat.eqb_eq in E. contradiction. }
  loop_cases.
Qed.
(* the last group has two digits *)
Lemma loop_two_digits : forall T trip rest digits words one teen d d10,
  dg digits 1 = d -> dg digits 0 = d10 ->
  go_card_loop T (trip :: rest) digits 1 words one teen = Some (words ++ gdelta T trip one teen d d10 0).
Proof.
  intros T trip rest digits words one teen d d10 Hd Hd10. cbn [go_card_loop]. rewrite Hd.
  change (1 - 1 <? 0)%Z with false. change (1 - 1)%Z with 0%Z. cbv iota. rewrite Hd10.
  change (0 - 1)%Z with (-1)%Z. change (0 <=? -1)%Z with false. change (-1 <? 0)%Z with true.
  unfold gdelta. cbn [Nat.eqb].
  destruct d10 as [|[|d10]]; loop_cases.
Qed.
(* a group of three digits, the last one or not *)
Lemma loop_three_digits : forall T trip rest digits i words one teen d d10 d100,
  (2 <= i)%Z -> dg digits i = d -> dg digits (i - 1) = d10 -> dg digits (i - 2) = d100 ->
  go_card_loop T (trip :: rest) digits i words one teen =
  if (i - 3 <? 0)%Z then Some (words ++ gdelta T trip one teen d d10 d100)
  else go_card_loop T rest digits (i - 3) (words ++ gdelta T trip one teen d d10 d100) (t_one T) (t_teen T).
Proof.
  intros T trip rest digits i words one teen d d10 d100 Hi Hd Hd10 Hd100. cbn [go_card_loop]. rewrite Hd.
  replace (i - 1 <? 0)%Z with false by lia. cbv iota. rewrite Hd10.
  replace (i - 1 - 1)%Z with (i - 2)%Z by lia. replace (0 <=? i - 2)%Z with true by lia. cbv iota. rewrite Hd100.
  replace (i - 2 - 1)%Z with (i - 3)%Z by lia.
  unfold gdelta.
  destruct d10 as [|[|d10]]; loop_cases; destruct (i - 3 <? 0)%Z; reflexivity.
Qed.

(* ---- 3. the loop writes the words of the groups, for every n > 0 and every table ------------------------ *)
(* the words of one round for the group value t (0..999) *)
Definition Gw (T : tables) (trip : text) (one teen : list text) (t : N) : list text :=
  gdelta T trip one teen (N.to_nat (t mod 10)) (N.to_nat (t / 10 mod 10)) (N.to_nat (t / 100 mod 10)).
(* the words of all rounds, in the order of the Go slice; ts = the groups, least significant first *)
Fixpoint GL (T : tables) (trips : list text) (one teen : list text) (ts : list N) : list text :=
  match trips, ts with
  | trip :: rest, t :: ts' => Gw T trip one teen t ++ GL T rest (t_one T) (t_teen T) ts'
  | _, _ => []
  end.
Lemma GL_nil : forall T trips one teen, GL T trips one teen [] = [].
Proof. intros. destruct trips; reflexivity. Qed.
Lemma triples_fuel_zero : forall f, triples_fuel f 0 = [].
Proof. destruct f; reflexivity. Qed.
Lemma group_digits : forall m,
  ((m mod 1000) mod 10 = m mod 10 /\ (m mod 1000) / 10 mod 10 = m / 10 mod 10 /\ (m mod 1000) / 100 mod 10 = m / 100 mod 10)%N.
Proof. intros m. lia. Qed.

Lemma loop_sem : forall T trips f m suf words one teen, (0 < m)%N -> (m < 2 ^ N.of_nat f)%N ->
  go_card_loop T trips (digit_text 10 m ++ suf) (Z.of_nat (List.length (digit_text 10 m)) - 1) words one teen =
  Some (words ++ GL T trips one teen (triples_fuel f m)).
Proof.
  induction trips as [|trip rest IH]; intros f m suf words one teen Hm Hf.
  - cbn [go_card_loop GL]. rewrite app_nil_r. reflexivity.
  - destruct f as [|f]. { cbn in Hf. lia. }
    cbn [triples_fuel]. destruct (m =? 0)%N eqn:E0. { apply N.eqb_eq in E0. lia. } clear E0.
    cbn [GL]. unfold Gw. destruct (group_digits m) as [G1 [G2 G3]]. rewrite G1, G2, G3. clear G1 G2 G3.
    assert (Hf' : (m / 1000 < 2 ^ N.of_nat f)%N).
    { rewrite Nat2N.inj_succ, N.pow_succ_r' in Hf.
      assert (m / 1000 <= m / 2)%N by (apply N.div_le_compat_l; lia).
      assert (m / 2 < 2 ^ N.of_nat f)%N by (apply N.div_lt_upper_bound; lia). lia. }
    destruct (N.ltb m 1000) eqn:E3; [apply N.ltb_lt in E3 | apply N.ltb_ge in E3].
    + (* the last group *)
      replace (m / 1000)%N with 0%N by (symmetry; apply N.div_small; exact E3).
      rewrite triples_fuel_zero, GL_nil, app_nil_r.
      destruct (N.ltb m 10) eqn:E1; [apply N.ltb_lt in E1 | apply N.ltb_ge in E1].
      * rewrite digit_text_small by exact E1. cbn [List.length app]. change (Z.of_nat 1 - 1)%Z with 0%Z.
        replace (m / 10 mod 10)%N with 0%N by (symmetry; rewrite N.div_small by lia; reflexivity).
        replace (m / 100 mod 10)%N with 0%N by (symmetry; rewrite N.div_small by lia; reflexivity).
        change (N.to_nat 0) with 0. apply loop_one_digit.
        -- rewrite (dg_app [] (dc m) suf 0%Z eq_refl : dg (dc m :: suf) 0 = _). rewrite dv_dc by lia. rewrite N.mod_small by lia. reflexivity.
        -- rewrite N.mod_small by lia. lia.
      * destruct (N.ltb m 100) eqn:E2; [apply N.ltb_lt in E2 | apply N.ltb_ge in E2].
        -- rewrite digit_text_10 by lia. cbn [List.length app]. change (Z.of_nat 2 - 1)%Z with 1%Z.
           replace (m / 100 mod 10)%N with 0%N by (symmetry; rewrite N.div_small by lia; reflexivity).
           change (N.to_nat 0) with 0. apply loop_two_digits.
           ++ rewrite (dg_app [dc (m / 10 mod 10)] (dc (m mod 10)) suf 1%Z eq_refl : dg (dc (m / 10 mod 10) :: dc (m mod 10) :: suf) 1 = _). apply dv_dc. apply N.mod_lt. lia.
           ++ rewrite (dg_app [] (dc (m / 10 mod 10)) (dc (m mod 10) :: suf) 0%Z eq_refl : dg (dc (m / 10 mod 10) :: dc (m mod 10) :: suf) 0 = _). apply dv_dc. apply N.mod_lt. lia.
        -- rewrite digit_text_100 by lia. cbn [List.length app]. change (Z.of_nat 3 - 1)%Z with 2%Z.
           rewrite (loop_three_digits T trip rest _ 2 words one teen
                      (N.to_nat (m mod 10)) (N.to_nat (m / 10 mod 10)) (N.to_nat (m / 100 mod 10))).
           ++ reflexivity.
           ++ lia.
           ++ rewrite (dg_app [dc (m / 100 mod 10); dc (m / 10 mod 10)] (dc (m mod 10)) suf 2%Z eq_refl : dg (dc (m / 100 mod 10) :: dc (m / 10 mod 10) :: dc (m mod 10) :: suf) 2 = _).
              apply dv_dc. apply N.mod_lt. lia.
           ++ rewrite (dg_app [dc (m / 100 mod 10)] (dc (m / 10 mod 10)) (dc (m mod 10) :: suf) (2 - 1)%Z eq_refl : dg (dc (m / 100 mod 10) :: dc (m / 10 mod 10) :: dc (m mod 10) :: suf) (2 - 1) = _).
              apply dv_dc. apply N.mod_lt. lia.
           ++ rewrite (dg_app [] (dc (m / 100 mod 10)) (dc (m / 10 mod 10) :: dc (m mod 10) :: suf) (2 - 2)%Z eq_refl : dg (dc (m / 100 mod 10) :: dc (m / 10 mod 10) :: dc (m mod 10) :: suf) (2 - 2) = _).
              apply dv_dc. apply N.mod_lt. lia.
    + (* three digits and more to come *)
      rewrite digit_text_1000 by exact E3.
      set (P := digit_text 10 (m / 1000)).
      assert (HP : 1 <= List.length P).
      { pose proof (digit_text_nonempty 10 (m / 1000)) as Hne. fold P in Hne. destruct P; [contradiction | cbn; lia]. }
      rewrite app_length. cbn [List.length].
      set (c100 := dc (m / 100 mod 10)). set (c10 := dc (m / 10 mod 10)). set (c := dc (m mod 10)).
      rewrite <- app_assoc. cbn [app].
      rewrite (loop_three_digits T trip rest _ _ words one teen
                 (N.to_nat (m mod 10)) (N.to_nat (m / 10 mod 10)) (N.to_nat (m / 100 mod 10))).
      * replace (Z.of_nat (List.length P + 3) - 1 - 3 <? 0)%Z with false by lia.
        replace (Z.of_nat (List.length P + 3) - 1 - 3)%Z with (Z.of_nat (List.length P) - 1)%Z by lia.
        subst P. rewrite (IH f (m / 1000)%N); [| apply N.div_str_pos; lia | exact Hf'].
        rewrite <- app_assoc. reflexivity.
      * lia.
      * replace (P ++ c100 :: c10 :: c :: suf) with ((P ++ [c100; c10]) ++ c :: suf) by (rewrite <- app_assoc; reflexivity).
        rewrite dg_app. { subst c. apply dv_dc. apply N.mod_lt. lia. }
        rewrite app_length. cbn [List.length]. lia.
      * replace (P ++ c100 :: c10 :: c :: suf) with ((P ++ [c100]) ++ c10 :: c :: suf) by (rewrite <- app_assoc; reflexivity).
        rewrite dg_app. { subst c10. apply dv_dc. apply N.mod_lt. lia. }
        rewrite app_length. cbn [List.length]. lia.
      * rewrite dg_app. { subst c100. apply dv_dc. apply N.mod_lt. lia. }
        lia.
Qed.

(* ---- the text of dirR's English branch: sign, "0", the loop ------------------------------------------- *)
Lemma digit_text_head_pos : forall n, (0 < n)%N ->
  exists d rest, digit_text 10 n = dc d :: rest /\ (1 <= d < 10)%N.
Proof.
  intros n Hn. unfold digit_text.
  pose proof (digits_bound 10 n ltac:(lia)) as Hb. pose proof (digits_no_leading_zero 10 n ltac:(lia) Hn) as Hz.
  pose proof (digits_nonempty 10 n) as Hne.
  destruct (digits 10 n) as [|d l]; [contradiction|]. cbn [hd] in Hz. inversion Hb; subst.
  exists d, (map digit_char l). split; [reflexivity | lia].
Qed.
Definition english_of_loop (colon neg : bool) (digits : text) (r : option (list text)) : option text :=
  match r with
  | None => None
  | Some words =>
    match go_ordinal_first colon digits words with
    | None => None
    | Some words => Some (join [sp] (rev (if neg then words ++ [tx "negative"] else words)))
    end
  end.
Lemma go_english_digits : forall T (colon neg : bool) d rest, (1 <= d < 10)%N ->
  go_english T colon ((if neg then ["-"%char] else @nil ascii) ++ dc d :: rest) =
  if Nat.ltb (3 * List.length (t_triples T)) (List.length (dc d :: rest)) then None else
  english_of_loop colon neg (dc d :: rest)
    (go_card_loop T (t_triples T) (dc d :: rest) (Z.of_nat (List.length (dc d :: rest)) - 1) []
                  (if colon then t_ordone T else t_one T) (if colon then t_ordteen T else t_teen T)).
Proof.
  intros T colon neg d rest Hd.
  assert (Hin : In d (map N.of_nat (seq 1 9))).
  { apply in_map_iff. exists (N.to_nat d). split; [lia | apply in_seq; lia]. }
  cbn [seq map] in Hin.
  repeat (destruct Hin as [<- | Hin]; [destruct neg; reflexivity |]). destruct Hin.
Qed.
(* for every integer but 0: an error when there are more than three digits per scale word; otherwise the text is the words
   of the groups, most significant first, after "negative", the last word made an ordinal by its ending when no ordinal
   table was used *)
Theorem go_english_words : forall T colon z, z <> 0%Z ->
  go_english T colon (dec_text z) =
  if Nat.ltb (3 * List.length (t_triples T)) (List.length (digit_text 10 (Z.abs_N z))) then None else
  match go_ordinal_first colon (digit_text 10 (Z.abs_N z))
          (GL T (t_triples T) (if colon then t_ordone T else t_one T) (if colon then t_ordteen T else t_teen T)
              (triples_of (Z.abs_N z))) with
  | None => None
  | Some words => Some (join [sp] ((if (z <? 0)%Z then [tx "negative"] else []) ++ rev words))
  end.
Proof.
  intros T colon z Hz. unfold dec_text, int_text.
  assert (Hn : (0 < Z.abs_N z)%N) by lia.
  destruct (digit_text_head_pos _ Hn) as [d [rest [E Hd]]].
  pose proof (loop_sem T (t_triples T) _ (Z.abs_N z) [] [] (if colon then t_ordone T else t_one T)
                (if colon then t_ordteen T else t_teen T) Hn (fuel_enough (Z.abs_N z))) as L.
  rewrite app_nil_r in L. fold (triples_of (Z.abs_N z)) in L. cbn [app] in L.
  destruct (z <? 0)%Z.
  - pose proof (go_english_digits T colon true d rest Hd) as G. cbn [app] in G.
    rewrite E, G, <- E, L. unfold english_of_loop. destruct (Nat.ltb (3 * List.length (t_triples T)) (List.length (digit_text 10 (Z.abs_N z)))); [reflexivity|].
    destruct (go_ordinal_first _ _ _); [|reflexivity]. rewrite rev_app_distr. reflexivity.
  - pose proof (go_english_digits T colon false d rest Hd) as G. cbn [app] in G.
    rewrite E, G, <- E, L. unfold english_of_loop.
    destruct (Nat.ltb (3 * List.length (t_triples T)) (List.length (digit_text 10 (Z.abs_N z)))); [reflexivity|].
    destruct (go_ordinal_first _ _ _); reflexivity.
Qed.

(* the test of dirR on the last two digits, in terms of the number: it ends in 0 and not in 10 *)
Definition ordz (n : N) : bool := (n mod 10 =? 0)%N && negb (n / 10 mod 10 =? 1)%N.
Lemma dc_is : forall d, (d < 10)%N -> ascii_eqb (dc d) "0" = (d =? 0)%N /\ ascii_eqb (dc d) "1" = (d =? 1)%N.
Proof.
  intros d H.
  assert (Hin : In d (map N.of_nat (seq 0 10))).
  { apply in_map_iff. exists (N.to_nat d). split; [lia | apply in_seq; lia]. }
  cbn [seq map] in Hin. repeat (destruct Hin as [<- | Hin]; [split; vm_compute; reflexivity |]). destruct Hin.
Qed.
Lemma go_ordinal_first_num : forall colon n W, (0 < n)%N ->
  go_ordinal_first colon (digit_text 10 n) W =
  if colon && ordz n then match W with [] => None | w :: ws => Some (go_ordinal_suffix w :: ws) end else Some W.
Proof.
  intros colon n W Hn. unfold go_ordinal_first, ordz.
  destruct (N.ltb n 10) eqn:E; [apply N.ltb_lt in E | apply N.ltb_ge in E].
  - rewrite digit_text_small by exact E. cbn [List.length Nat.sub]. change (ch_at [dc n] 0) with (dc n).
    rewrite (proj1 (dc_is n E)). rewrite N.mod_small by exact E.
    replace (n =? 0)%N with false by (symmetry; apply N.eqb_neq; lia). cbn [andb]. rewrite andb_false_r. reflexivity.
  - rewrite digit_text_step by exact E.
    assert (Hq : (0 < n / 10)%N) by (apply N.div_str_pos; lia).
    assert (E2 : exists P, digit_text 10 (n / 10) = P ++ [dc (n / 10 mod 10)]).
    { destruct (N.ltb (n / 10) 10) eqn:E3; [apply N.ltb_lt in E3 | apply N.ltb_ge in E3].
      - exists []. rewrite digit_text_small by exact E3. rewrite N.mod_small by exact E3. reflexivity.
      - exists (digit_text 10 (n / 10 / 10)). apply digit_text_step. exact E3. }
    destruct E2 as [P EP]. rewrite EP. rewrite <- app_assoc. cbn [app].
    rewrite app_length. cbn [List.length].
    replace (List.length P + 2 - 1) with (List.length (P ++ [dc (n / 10 mod 10)])) by (rewrite app_length; cbn [List.length]; lia).
    replace (P ++ [dc (n / 10 mod 10); dc (n mod 10)]) with ((P ++ [dc (n / 10 mod 10)]) ++ dc (n mod 10) :: []) by (rewrite <- app_assoc; reflexivity).
    rewrite ch_at_app.
    replace (List.length (P ++ [dc (n / 10 mod 10)]) - 1) with (List.length P) by (rewrite app_length; cbn [List.length]; lia).
    rewrite <- app_assoc. cbn [app]. rewrite ch_at_app.
    rewrite (proj1 (dc_is (n mod 10) ltac:(apply N.mod_lt; lia))), (proj2 (dc_is (n / 10 mod 10) ltac:(apply N.mod_lt; lia))).
    replace (Nat.eqb (List.length (P ++ [dc (n / 10 mod 10)])) 0) with false by (symmetry; apply Nat.eqb_neq; rewrite app_length; cbn [List.length]; lia).
    destruct colon, (n mod 10 =? 0)%N, (n / 10 mod 10 =? 1)%N; reflexivity.
Qed.

(* the length of the decimal text: k digits exactly from 10^(k-1) to 10^k - 1 *)
Lemma digit_text_length_ge : forall k n, (10 ^ N.of_nat k <= n)%N -> k + 1 <= List.length (digit_text 10 n).
Proof.
  induction k as [|k IH]; intros n H.
  - pose proof (digit_text_nonempty 10 n) as Hne. destruct (digit_text 10 n); [contradiction | cbn; lia].
  - rewrite Nat2N.inj_succ, N.pow_succ_r' in H.
    assert (1 <= 10 ^ N.of_nat k)%N by (apply N.lt_pred_le; apply N.neq_0_lt_0; apply N.pow_nonzero; lia).
    rewrite digit_text_step by lia. rewrite app_length. cbn [List.length].
    assert (10 ^ N.of_nat k <= n / 10)%N by (apply N.div_le_lower_bound; lia).
    specialize (IH (n / 10)%N H1). lia.
Qed.
Lemma digit_text_length_le : forall k n, (n < 10 ^ N.of_nat (S k))%N -> List.length (digit_text 10 n) <= S k.
Proof.
  induction k as [|k IH]; intros n H.
  - rewrite digit_text_small by exact H. cbn. lia.
  - destruct (N.ltb n 10) eqn:E; [apply N.ltb_lt in E | apply N.ltb_ge in E].
    + rewrite digit_text_small by exact E. cbn. lia.
    + rewrite digit_text_step by exact E. rewrite app_length. cbn [List.length].
      rewrite Nat2N.inj_succ, N.pow_succ_r' in H.
      assert (n / 10 < 10 ^ N.of_nat (S k))%N by (apply N.div_lt_upper_bound; lia).
      specialize (IH (n / 10)%N H0). lia.
Qed.
Lemma ten66_pow : ten66 = (10 ^ N.of_nat 66)%N.
Proof. vm_compute. reflexivity. Qed.
(* "number too large": with 22 scale words, exactly from 10^66 on *)
Lemma too_large : forall T n, List.length (t_triples T) = 22 ->
  Nat.ltb (3 * List.length (t_triples T)) (List.length (digit_text 10 n)) = (ten66 <=? n)%N.
Proof.
  intros T n HL. rewrite HL. destruct (ten66 <=? n)%N eqn:E.
  - apply N.leb_le in E. rewrite ten66_pow in E. pose proof (digit_text_length_ge 66 n E). apply Nat.ltb_lt. lia.
  - apply N.leb_gt in E. rewrite ten66_pow in E. pose proof (digit_text_length_le 65 n E). apply Nat.ltb_ge. lia.
Qed.

(* ---- 4. against the definition: group by group --------------------------------------------------------- *)
Definition sel_one (T : tables) (ord : bool) : list text := if ord then t_ordone T else t_one T.
Definition sel_teen (T : tables) (ord : bool) : list text := if ord then t_ordteen T else t_teen T.
(* the words of the definition for the group value t at scale k *)
Definition spec_grp (k : nat) (t : N) : list text :=
  if (t =? 0)%N then [] else triple_words t ++ (if Nat.eqb k 0 then [] else [w_scale k]).
(* the words of the loop for that group, most significant first; ord: with the ordinal tables (first round only) *)
Definition gw_rev (T : tables) (k : nat) (ord : bool) (t : N) : list text :=
  rev (Gw T (tnth (t_triples T) k) (sel_one T ord) (sel_teen T ord) t).
Fixpoint ggroup (T : tables) (k : nat) (ord : bool) (ts : list N) : list text :=
  match ts with
  | [] => []
  | t :: ts' => ggroup T (S k) false ts' ++ gw_rev T k ord t
  end.
Lemma skipn_nth : forall (l : list text) k, k < List.length l -> skipn k l = tnth l k :: skipn (S k) l.
Proof.
  induction l as [|x l IH]; intros k Hk; [cbn in Hk; lia|].
  destruct k as [|k]; [reflexivity|]. cbn [skipn]. unfold tnth. cbn [nth]. apply IH. cbn in Hk. lia.
Qed.
Lemma GL_ggroup : forall T ts k ord, k + List.length ts <= List.length (t_triples T) ->
  rev (GL T (skipn k (t_triples T)) (sel_one T ord) (sel_teen T ord) ts) = ggroup T k ord ts.
Proof.
  induction ts as [|t ts IH]; intros k ord Hk. { rewrite GL_nil. reflexivity. }
  cbn [List.length] in Hk. rewrite skipn_nth by lia. cbn [GL ggroup]. rewrite rev_app_distr.
  change (t_one T) with (sel_one T false). change (t_teen T) with (sel_teen T false).
  rewrite (IH (S k) false) by lia. reflexivity.
Qed.

(* the condition on the lowest group for ordinals: it ends in 01..19 or in a digit that is not 0 *)
Definition ordt (t : N) : bool := ((1 <=? t mod 100)%N && (t mod 100 <? 20)%N) || negb (t mod 10 =? 0)%N.
Definition ord_grp (t : N) : list text := removelast (triple_words t) ++ [ordinal_word (last (triple_words t) [])].

(* the finite checks, functions of the tables: all 22 scales x 1000 group values *)
Definition chkA (T : tables) : bool :=
  forallb (fun k => forallb (fun j => texts_eq (gw_rev T k false (N.of_nat j)) (spec_grp k (N.of_nat j))) (seq 0 1000)) (seq 0 22).
Definition chkC (T : tables) : bool :=
  forallb (fun j => implb (ordt (N.of_nat j)) (texts_eq (gw_rev T 0 true (N.of_nat j)) (ord_grp (N.of_nat j)))) (seq 0 1000).
Lemma texts_eq_eq : forall a b, texts_eq a b = true -> a = b.
Proof.
  induction a as [|x a IH]; destruct b as [|y b]; cbn; intros H; try discriminate; [reflexivity|].
  apply andb_true_iff in H. destruct H as [H1 H2]. f_equal; [apply text_eqb_eq; exact H1 | apply IH; exact H2].
Qed.
Lemma chkA_fact : forall T, chkA T = true -> forall k t, k < 22 -> (t < 1000)%N -> gw_rev T k false t = spec_grp k t.
Proof.
  intros T H k t Hk Ht. unfold chkA in H. rewrite forallb_forall in H.
  specialize (H k ltac:(apply in_seq; lia)). rewrite forallb_forall in H.
  specialize (H (N.to_nat t) ltac:(apply in_seq; lia)). rewrite N2Nat.id in H. apply texts_eq_eq. exact H.
Qed.
Lemma chkC_fact : forall T, chkC T = true -> forall t, (t < 1000)%N -> ordt t = true -> gw_rev T 0 true t = ord_grp t.
Proof.
  intros T H t Ht Ho. unfold chkC in H. rewrite forallb_forall in H.
  specialize (H (N.to_nat t) ltac:(apply in_seq; lia)). rewrite N2Nat.id, Ho in H. apply texts_eq_eq. exact H.
Qed.
Lemma group_words_cons : forall k t ts, group_words k (t :: ts) = group_words (S k) ts ++ spec_grp k t.
Proof. reflexivity. Qed.
(* the cardinal words of the loop are the cardinal words of the definition, for every list of groups *)
Lemma ggroup_card : forall T, chkA T = true -> forall ts k, k + List.length ts <= 22 ->
  Forall (fun t => (t < 1000)%N) ts -> ggroup T k false ts = group_words k ts.
Proof.
  intros T HA. induction ts as [|t ts IH]; intros k Hk Hts; [reflexivity|].
  inversion Hts as [|? ? Ht Hts']; subst.
  cbn [List.length] in Hk. rewrite group_words_cons. cbn [ggroup].
  rewrite IH by (try assumption; lia). rewrite (chkA_fact T HA) by (try assumption; lia). reflexivity.
Qed.

(* the finite check for ordinals of numbers that end in 0 (not 10): the ordinal tables are not used in the first round *)
Definition chkD (T : tables) : bool :=
  forallb (fun j => implb (negb (ordt (N.of_nat j)))
                          (texts_eq (gw_rev T 0 true (N.of_nat j)) (gw_rev T 0 false (N.of_nat j)))) (seq 0 1000).
Lemma chkD_fact : forall T, chkD T = true -> forall t, (t < 1000)%N -> ordt t = false ->
  gw_rev T 0 true t = gw_rev T 0 false t.
Proof.
  intros T H t Ht Ho. unfold chkD in H. rewrite forallb_forall in H.
  specialize (H (N.to_nat t) ltac:(apply in_seq; lia)). rewrite N2Nat.id, Ho in H. apply texts_eq_eq. exact H.
Qed.
(* ... and the last word of the definition is then a tens word, "hundred" or a scale word: the ending dirR gives it
   (y -> ieth, otherwise + th) is its ordinal form. A fact about the definition alone, all 22 x 1000 groups. *)
Definition sfx_ok (w : text) : bool := text_eqb (go_ordinal_suffix w) (ordinal_word w).
Lemma last_word_suffix_all :
  forallb (fun k => forallb (fun j => (N.of_nat j =? 0)%N || (Nat.eqb k 0 && ordt (N.of_nat j)) ||
                                      sfx_ok (last (spec_grp k (N.of_nat j)) [])) (seq 0 1000)) (seq 0 22) = true.
Proof. vm_compute. reflexivity. Qed.
Lemma last_word_suffix : forall k t, k < 22 -> (t < 1000)%N -> t <> 0%N -> (k = 0 -> ordt t = false) ->
  go_ordinal_suffix (last (spec_grp k t) []) = ordinal_word (last (spec_grp k t) []).
Proof.
  intros k t Hk Ht Hnz Ho. pose proof last_word_suffix_all as H. rewrite forallb_forall in H.
  specialize (H k ltac:(apply in_seq; lia)). rewrite forallb_forall in H.
  specialize (H (N.to_nat t) ltac:(apply in_seq; lia)). rewrite N2Nat.id in H.
  replace (t =? 0)%N with false in H by (symmetry; apply N.eqb_neq; exact Hnz). cbn [orb] in H.
  destruct (Nat.eqb k 0 && ordt t) eqn:E.
  - apply andb_true_iff in E. destruct E as [E1 E2]. apply Nat.eqb_eq in E1. rewrite (Ho E1) in E2. discriminate.
  - cbn [orb] in H. apply text_eqb_eq. exact H.
Qed.
Lemma spec_grp_nil : forall k t, spec_grp k t = [] -> (t < 1000)%N -> t = 0%N.
Proof.
  intros k t H Ht. unfold spec_grp in H. destruct (t =? 0)%N eqn:E; [apply N.eqb_eq; exact E|].
  apply N.eqb_neq in E. apply app_eq_nil in H. destruct H as [H _].
  destruct (triple_fact t ltac:(lia)) as [_ [_ Hne]]. contradiction.
Qed.
Lemma last_group_suffix : forall ts k, 1 <= k -> k + List.length ts <= 22 -> Forall (fun t => (t < 1000)%N) ts ->
  group_words k ts <> [] ->
  go_ordinal_suffix (last (group_words k ts) []) = ordinal_word (last (group_words k ts) []).
Proof.
  induction ts as [|t ts IH]; intros k Hk Hl Hts Hne; [contradiction|].
  inversion Hts as [|? ? Ht Hts']; subst. cbn [List.length] in Hl. rewrite group_words_cons in *.
  destruct (spec_grp k t) as [|w g] eqn:E.
  - rewrite app_nil_r in *. apply IH; try assumption; lia.
  - rewrite last_app_ne by discriminate. rewrite <- E. apply last_word_suffix; try assumption; try lia.
    intros E0. subst t. unfold spec_grp in E. cbn in E. discriminate.
Qed.

(* what is known of the groups of a number 0 < n < 10^66 *)
Lemma triples_facts : forall n, (0 < n < ten66)%N ->
  exists ts', triples_of n = (n mod 1000)%N :: ts' /\ List.length ts' <= 21 /\
              Forall (fun t => (t < 1000)%N) (triples_of n).
Proof.
  intros n Hn.
  destruct (triples_fuel_value _ n (fuel_enough' n)) as [_ Hb]. fold (triples_of n) in Hb.
  pose proof (triples_fuel_length (S (N.to_nat (N.log2 n))) n 22) as Hl.
  rewrite <- ten66_is in Hl. specialize (Hl ltac:(lia)). fold (triples_of n) in Hl.
  assert (E : triples_of n = (n mod 1000)%N :: triples_fuel (N.to_nat (N.log2 n)) (n / 1000)).
  { unfold triples_of. cbn [triples_fuel]. replace (n =? 0)%N with false by (symmetry; apply N.eqb_neq; lia). reflexivity. }
  eexists. split; [exact E|]. split; [rewrite E in Hl; cbn [List.length] in Hl; lia | assumption].
Qed.
Lemma ordt_ordz : forall n, ordt (n mod 1000) = negb (ordz n).
Proof.
  intros n. unfold ordt, ordz.
  replace ((n mod 1000) mod 100)%N with (n mod 100)%N by lia. replace ((n mod 1000) mod 10)%N with (n mod 10)%N by lia.
  destruct (n mod 10 =? 0)%N eqn:E1; destruct (n / 10 mod 10 =? 1)%N eqn:E2;
    destruct (1 <=? n mod 100)%N eqn:E3; destruct (n mod 100 <? 20)%N eqn:E4; try reflexivity; exfalso;
    repeat match goal with
           | H : (_ =? _)%N = true |- _ => apply N.eqb_eq in H
           | H : (_ =? _)%N = false |- _ => apply N.eqb_neq in H
           | H : (_ <=? _)%N = true |- _ => apply N.leb_le in H
           | H : (_ <=? _)%N = false |- _ => apply N.leb_gt in H
           | H : (_ <? _)%N = true |- _ => apply N.ltb_lt in H
           | H : (_ <? _)%N = false |- _ => apply N.ltb_ge in H
           end; lia.
Qed.

(* ---- 5. the theorem: the loop writes the defined text, for ALL integers, cardinal and ordinal ------------------ *)
Lemma GL_ggroup0 : forall T ts ord, List.length ts <= List.length (t_triples T) ->
  rev (GL T (t_triples T) (sel_one T ord) (sel_teen T ord) ts) = ggroup T 0 ord ts.
Proof. intros T ts ord H. exact (GL_ggroup T ts 0 ord H). Qed.
Lemma cardinal_words_pos : forall z, z <> 0%Z -> (Z.abs_N z < ten66)%N ->
  cardinal_words z = Some ((if (z <? 0)%Z then [tx "negative"] else []) ++ group_words 0 (triples_of (Z.abs_N z))).
Proof.
  intros z Hz Hlt. unfold cardinal_words.
  replace (ten66 <=? Z.abs_N z)%N with false by (symmetry; apply N.leb_gt; exact Hlt).
  replace (Z.abs_N z =? 0)%N with false by (symmetry; apply N.eqb_neq; lia). reflexivity.
Qed.
Lemma dec_text_0 : dec_text 0 = ["0"%char].
Proof. vm_compute. reflexivity. Qed.
Lemma english_zero : forall T ordinal, go_english T ordinal (dec_text 0) = std_english ordinal 0.
Proof. intros T ordinal. rewrite dec_text_0. destruct ordinal; vm_compute; reflexivity. Qed.
(* the words of a number that is not 0: there is one *)
Lemma group_words_nonempty : forall z, z <> 0%Z -> (Z.abs_N z < ten66)%N -> group_words 0 (triples_of (Z.abs_N z)) <> [].
Proof.
  intros z Hz Hlt E. pose proof (cardinal_words_pos z Hz Hlt) as Hc. rewrite E, app_nil_r in Hc.
  destruct (cardinal_words_shape z _ Hc) as [Hne [_ Hlast]].
  destruct (z <? 0)%Z; [|contradiction]. cbn [last] in Hlast. destruct Hlast as [H | H]; vm_compute in H; discriminate.
Qed.

Theorem english_loop_T : forall T, List.length (t_triples T) = 22 -> chkA T = true -> chkC T = true -> chkD T = true ->
  forall ordinal z, go_english T ordinal (dec_text z) = std_english ordinal z.
Proof.
  intros T HL HA HC HD ordinal z.
  destruct (Z.eq_dec z 0) as [-> | Hz]. { apply english_zero. }
  set (n := Z.abs_N z) in *.
  rewrite go_english_words by exact Hz. fold n. rewrite (too_large T n HL).
  destruct (ten66 <=? n)%N eqn:Hlt; [apply N.leb_le in Hlt | apply N.leb_gt in Hlt].
  { rewrite english_domain by (subst n; lia). reflexivity. }
  destruct (triples_facts n ltac:(lia)) as [ts' [E [Hl Hb]]].
  rewrite go_ordinal_first_num by lia.
  change (if ordinal then t_ordone T else t_one T) with (sel_one T ordinal).
  change (if ordinal then t_ordteen T else t_teen T) with (sel_teen T ordinal).
  pose proof (GL_ggroup0 T (triples_of n) ordinal ltac:(rewrite E, HL; cbn [List.length]; lia)) as HG.
  pose proof (group_words_nonempty z Hz Hlt) as Hgne. fold n in Hgne.
  unfold std_english, ordinal_words. rewrite (cardinal_words_pos z Hz Hlt). fold n.
  set (negw := if (z <? 0)%Z then [tx "negative"] else []).
  rewrite E in *. inversion Hb as [|? ? Ht Hts']; subst.
  destruct ordinal; cbn [andb].
  - pose proof (ordt_ordz n) as Hoz. destruct (ordz n).
    + (* it ends in 0 and not in 10: no ordinal table is used, the last word takes the ending *)
      cbn [negb] in Hoz. cbn [ggroup] in HG. rewrite (chkD_fact T HD) in HG by assumption.
      change (ggroup T 1 false ts' ++ gw_rev T 0 false (n mod 1000)) with (ggroup T 0 false ((n mod 1000)%N :: ts')) in HG.
      rewrite (ggroup_card T HA) in HG by (try assumption; cbn [List.length]; lia).
      set (G := group_words 0 ((n mod 1000)%N :: ts')) in *.
      assert (HW : GL T (t_triples T) (sel_one T true) (sel_teen T true) ((n mod 1000)%N :: ts') =
                   last G [] :: rev (removelast G)).
      { rewrite <- (rev_involutive (GL _ _ _ _ _)), HG. rewrite (app_removelast_last [] Hgne) at 1.
        rewrite rev_app_distr. reflexivity. }
      rewrite HW. cbn [rev]. rewrite rev_involutive.
      assert (Hs : go_ordinal_suffix (last G []) = ordinal_word (last G [])).
      { subst G. rewrite group_words_cons in *. destruct (spec_grp 0 (n mod 1000)) as [|w g] eqn:E0.
        - rewrite app_nil_r in *. apply last_group_suffix; try assumption; lia.
        - rewrite last_app_ne by discriminate. rewrite <- E0. apply last_word_suffix; try assumption; try lia.
          + intros E1. rewrite E1 in E0. cbn in E0. discriminate.
          + intros _. exact Hoz. }
      rewrite Hs. rewrite removelast_app by exact Hgne. rewrite last_app_ne by exact Hgne.
      rewrite <- !app_assoc. reflexivity.
    + (* the lowest group is written with the ordinal tables *)
      cbn [negb] in Hoz. rename Hoz into Hord.
      assert (Hnz : (n mod 1000 <> 0)%N).
      { intros E0. unfold ordt in Hord. rewrite E0 in Hord. discriminate. }
      rewrite HG. cbn [ggroup]. rewrite (ggroup_card T HA) by (try assumption; lia).
      rewrite (chkC_fact T HC) by assumption.
      rewrite group_words_cons. unfold spec_grp.
      replace (n mod 1000 =? 0)%N with false by (symmetry; apply N.eqb_neq; exact Hnz). cbn [Nat.eqb]. rewrite app_nil_r.
      destruct (triple_fact (n mod 1000) ltac:(lia)) as [_ [_ Hne]].
      unfold ord_grp.
      set (A := negw ++ group_words 1 ts').
      replace (negw ++ group_words 1 ts' ++ triple_words (n mod 1000))
        with (A ++ triple_words (n mod 1000)) by (subst A; rewrite <- app_assoc; reflexivity).
      rewrite removelast_app by exact Hne. rewrite last_app_ne by exact Hne.
      subst A. rewrite <- !app_assoc. reflexivity.
  - rewrite HG. rewrite (ggroup_card T HA) by (try assumption; cbn [List.length]; lia). reflexivity.
Qed.

(* with the tables as they stand in the source *)
Lemma src_checks : List.length (t_triples src_tables) = 22 /\ chkA src_tables = true /\ chkC src_tables = true /\ chkD src_tables = true.
Proof. split; [reflexivity|]. split; [|split]; vm_compute; reflexivity. Qed.
Theorem english_loop : forall ordinal z, go_english src_tables ordinal (dec_text z) = std_english ordinal z.
Proof. destruct src_checks as [H1 [H2 [H3 H4]]]. exact (english_loop_T src_tables H1 H2 H3 H4). Qed.
