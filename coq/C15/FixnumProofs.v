(* C15 — the integer argument of dirR in its two Go representations (Model.go_repr: slip.Fixnum = int64 inside
   -2^63 .. 2^63-1, *slip.Bignum outside): the digits dirR renders from either representation are the decimal text of
   the integer, so the Roman and the English branch write the defined text for EVERY integer whichever representation
   it arrives in — the most negative fixnum, whose magnitude is not an int64, included. The last part says why the sign
   has to be taken off the text: int64 negation maps every fixnum but -2^63 to its magnitude and -2^63 to itself. *)
From C15 Require Import Model Spec IntProofs WordProofs EnglishProofs RomanProofs.
From Coq Require Import ZifyBool.
Open Scope list_scope.
Local Open Scope Z_scope.

Lemma wrap64_fixnum : forall z, is_fixnum z = true -> wrap64 z = z.
Proof.
  intros z H. unfold is_fixnum in H. apply andb_true_iff in H. destruct H as [H1 H2].
  apply Z.leb_le in H1. apply Z.ltb_lt in H2. unfold wrap64, two63 in *.
  rewrite Z.mod_small by lia. lia.
Qed.
Lemma wrap64_range : forall z, is_fixnum (wrap64 z) = true.
Proof.
  intros z. unfold is_fixnum, wrap64, two63.
  pose proof (Z.mod_pos_bound (z + 9223372036854775808) (2 * 9223372036854775808) ltac:(lia)) as B.
  apply andb_true_iff. split; [apply Z.leb_le | apply Z.ltb_lt]; lia.
Qed.

(* the digits dirR starts from are the decimal text of the argument, fixnum or bignum *)
Theorem go_radix_digits_is_dec_text : forall z, go_radix_digits z = dec_text z.
Proof.
  intros z. unfold go_radix_digits, go_repr. destruct (is_fixnum z) eqn:E; [|reflexivity].
  rewrite (wrap64_fixnum z E). reflexivity.
Qed.

Theorem english_any_representation : forall ordinal z,
  go_english src_tables ordinal (go_radix_digits z) = std_english ordinal z.
Proof. intros. rewrite go_radix_digits_is_dec_text. apply english_loop. Qed.
Theorem roman_any_representation : forall old z,
  go_roman src_tables old (go_radix_digits z) = std_roman old z.
Proof. intros. rewrite go_radix_digits_is_dec_text. apply go_roman_all_integers. Qed.

(* int64 negation: the magnitude of every fixnum but the most negative one; -2^63 stays -2^63 *)
Theorem int64_negation : forall z, is_fixnum z = true ->
  wrap64 (- z) = if z =? - two63 then z else - z.
Proof.
  intros z H. unfold is_fixnum in H. apply andb_true_iff in H. destruct H as [H1 H2].
  apply Z.leb_le in H1. apply Z.ltb_lt in H2. destruct (Z.eqb_spec z (- two63)) as [-> | Hn].
  - vm_compute. reflexivity.
  - apply wrap64_fixnum. unfold is_fixnum. apply andb_true_iff. split; [apply Z.leb_le | apply Z.ltb_lt]; lia.
Qed.
(* hence digits rendered from a negated int64 still carry the sign at -2^63 and nowhere else: the sign has to come off
   the text (as dirR does), not off the value *)
Theorem negated_fixnum_digits : forall z, is_fixnum z = true -> (z < 0) ->
  dec_text (wrap64 (- z)) = if z =? - two63 then dec_text z else digit_text 10 (Z.abs_N z).
Proof.
  intros z H Hz. rewrite (int64_negation z H). destruct (z =? - two63); [reflexivity|].
  unfold dec_text, int_text. replace (- z <? 0) with false by (symmetry; apply Z.ltb_ge; lia).
  f_equal. lia.
Qed.

(* non-vacuity: the limits of the representation, both sides, have a text and dirR writes it *)
Definition fixnum_limits : list Z :=
  flat_map (fun d => [two63 + d; - two63 + d; - two63 - d]) [-2; -1; 0; 1; 2]
  ++ flat_map (fun k => [2 ^ k - 1; 2 ^ k; 2 ^ k + 1; - 2 ^ k - 1; - 2 ^ k; - 2 ^ k + 1]) [31; 32; 53; 62; 64].
Definition limit_ok (z : Z) : bool :=
  match go_english src_tables false (go_radix_digits z), std_english false z,
        go_english src_tables true (go_radix_digits z), std_english true z with
  | Some a, Some b, Some c, Some d => text_eqb a b && text_eqb c d && Nat.ltb 0 (List.length a)
  | _, _, _, _ => false
  end.
Example fixnum_limits_spelled : forallb limit_ok fixnum_limits = true.
Proof. vm_compute. reflexivity. Qed.
Example most_negative_fixnum_words :
  go_english src_tables false (go_radix_digits (- two63)) =
  Some (tx ("negative nine quintillion two hundred twenty three quadrillion three hundred seventy two trillion " ++
            "thirty six billion eight hundred fifty four million seven hundred seventy five thousand eight hundred eight")%string)
  /\ go_repr (- two63) = GoFixnum (- two63) /\ go_repr (- two63 - 1) = GoBignum (- two63 - 1)
  /\ go_repr two63 = GoBignum two63 /\ go_repr (two63 - 1) = GoFixnum (two63 - 1).
Proof. vm_compute. repeat split; reflexivity. Qed.
