(* C15 — property theorems only. M is `run true` over the tables of the source (Model.v + Interp.v), S is
   `run false` (Spec.v + Interp.v); the theorems over the tables regenerated on every run are in
   TableProofs.v. *)
From C15 Require Import Model Spec Interp Corr IntProofs WordProofs EnglishProofs RomanProofs FixnumProofs CaseProofs Proofs.

(* ======== ~D ~B ~O ~X ~nR: "render any integer in the right base with the requested width, padding, sign
   and grouping" ======== *)

(* (1) The Go code of dirInt (sign test on the first byte, dlen / commaint * commaint, the loop that copies
   out[prev:i] and a comma, the padding loop) writes, for EVERY integer, base 2..36, width, padding character,
   comma character, interval >= 1 and modifier combination, exactly the text of the definition: sign, digits
   grouped from the right, padded on the left. *)
Theorem C15_dirInt_is_render_int : forall base mincol pad comma k colon at_ z,
  (2 <= base <= 36)%N -> 1 <= k ->
  go_int_text base mincol [pad] [comma] k colon at_ (VInt z) = render_int base mincol pad comma k colon at_ z.
Proof. exact go_int_text_is_render_int. Qed.
Print Assumptions C15_dirInt_is_render_int.

(* (2) Stripping the padding, the commas and the sign and reading the digits in the base gives the integer back
   (padding character: not a sign and not a non-zero digit of the base — 0 is allowed; comma character: not a sign
   and not a digit of the base). *)
Theorem C15_integer_reads_back : forall base mincol pad comma k colon at_ z,
  (2 <= base <= 36)%N -> 1 <= k -> pad_ok base pad = true -> comma_ok base comma = true ->
  read_back base pad comma (render_int base mincol pad comma k colon at_ z) = z.
Proof. exact read_back_render_int. Qed.
Print Assumptions C15_integer_reads_back.
Theorem C15_digits_inverse : forall b n, (2 <= b)%N -> of_digits b (digits b n) = n /\ Forall (fun d => (d < b)%N) (digits b n).
Proof. intros b n H. split; [apply of_digits_digits | apply digits_bound]; exact H. Qed.
Print Assumptions C15_digits_inverse.

(* (3) The width is max(mincol, natural width). *)
Theorem C15_integer_width : forall base mincol pad comma k colon at_ z,
  List.length (render_int base mincol pad comma k colon at_ z) = Nat.max mincol (List.length (int_body base comma k colon at_ z)).
Proof. exact render_int_width. Qed.
Print Assumptions C15_integer_width.

(* (4) Counted from the right (position 0 = last character), the grouped digits hold a comma exactly at the
   positions i with i+1 a multiple of k+1: k digits, comma, k digits, comma, ...; and the text never starts
   with a comma. *)
Theorem C15_commas_every_k : forall k c ds i, 1 <= k -> Forall (fun a => ascii_eqb a c = false) ds ->
  i < List.length (group k c ds) ->
  (ascii_eqb (nth i (rev (group k c ds)) zero) c = true <-> (i + 1) mod (k + 1) = 0).
Proof. exact commas_every_k. Qed.
Print Assumptions C15_commas_every_k.
Theorem C15_group_starts_with_digit : forall k c (ds : text), 1 <= k -> ds <> [] -> hd zero (group k c ds) = hd zero ds.
Proof. exact group_starts_with_digit. Qed.
Print Assumptions C15_group_starts_with_digit.

(* ======== ~R: "spells cardinals, ordinals and Roman numerals correctly" ======== *)

(* (5) Roman numerals, finite domain 1..3999 (the bound is part of the statement; proved by kernel computation
   over all 3999 numbers, old and new style): the numeral's value is the number; outside the domain there is no
   numeral; and the loop of dirR writes exactly that numeral. *)
Theorem C15_roman_inverse : forall old z, (1 <= z <= 3999)%Z -> exists t, std_roman old z = Some t /\ roman_value t = z.
Proof. exact roman_inverse. Qed.
Print Assumptions C15_roman_inverse.
Theorem C15_roman_domain : forall old z, (z < 1 \/ 3999 < z)%Z -> std_roman old z = None.
Proof. exact roman_domain. Qed.
Print Assumptions C15_roman_domain.
Theorem C15_dirR_roman_is_roman : forall old z, (1 <= z <= 3999)%Z -> go_roman src_tables old (dec_text z) = std_roman old z.
Proof. exact go_roman_is_roman. Qed.
Print Assumptions C15_dirR_roman_is_roman.
(* (5b) ... and for EVERY integer, not only 1..3999: the Roman branch of dirR (the test for a sign or a lone 0, "4 < len ||
   3 < len && '3' < digits[0]", the loop over the digits) and the definition agree — the numeral inside the range, an
   error outside. Inside the range by (5); outside by the sign, the length and the first character of the decimal text.
   (Until repo_fixes/C15-5 this failed at 0, where the Go code wrote the empty string: finding C15-roman-zero.) *)
Theorem C15_dirR_roman_all_integers : forall old z, go_roman src_tables old (dec_text z) = std_roman old z.
Proof. exact go_roman_all_integers. Qed.
Print Assumptions C15_dirR_roman_all_integers.

(* (6) English, for EVERY integer of absolute value below 10^66 (the range of the scale words), cardinal and
   ordinal: the text of the definition reads back to the integer (by induction over the groups of three digits;
   each group 1..999 by kernel computation); from 10^66 on there is no text; the ordinal differs from the cardinal
   in its last word only. *)
Theorem C15_english_round_trip : forall ordinal z, (Z.abs z < Z.of_N ten66)%Z ->
  exists t, std_english ordinal z = Some t /\ parse_english t = Some z.
Proof. exact english_round_trip. Qed.
Print Assumptions C15_english_round_trip.
Theorem C15_english_domain : forall ordinal z, (Z.of_N ten66 <= Z.abs z)%Z -> std_english ordinal z = None.
Proof. exact english_domain. Qed.
Print Assumptions C15_english_domain.
Theorem C15_ordinal_last_word : forall z ws, cardinal_words z = Some ws ->
  ordinal_words z = Some (removelast ws ++ [ordinal_word (last ws [])]).
Proof. exact ordinal_last_word. Qed.
Print Assumptions C15_ordinal_last_word.
(* (6b) The English branch of dirR (the "number too large" test on the length of the decimal text, for _, trip := range
   cardinalTriples with three digits per round, the pop of the scale word of an all-zero group, the ordinal tables in the
   first round only, the ordinal ending y -> ieth / + th given to the last word when the number ends in 0 and not in
   10) writes, for EVERY integer, cardinal and ordinal, exactly the text of the definition, and signals an error exactly
   where the definition has no text (from 10^66 on). No guard, no bound on z. By induction over the groups of three
   digits of the decimal text; the words of one round are compared with the definition for all 22 x 1000 (scale, group
   value) pairs by kernel computation — the domain of a group is finite. (Until the repairs repo_fixes/C15-1..4 this held
   on a static predicate english_ok only, whose four clauses were the findings C15-quantillion, C15-english-empty-word,
   C15-english-beyond-vigintillion and C15-ordinal-of-round-number; the equivalence C15_english_loop_exact went with it.) *)
Theorem C15_english_loop : forall ordinal z, go_english src_tables ordinal (dec_text z) = std_english ordinal z.
Proof. exact english_loop. Qed.
Print Assumptions C15_english_loop.
(* (6r) The argument of ~R as Go holds it: a slip.Fixnum (int64) inside -2^63 .. 2^63-1, a *slip.Bignum outside
   (Model.go_repr). The digits dirR renders from either representation (strconv.AppendInt / big.Int.Append, sign
   included) are the decimal text of the integer, so (5b) and (6) hold for the digits dirR really starts from: the
   Roman and the English branch write the defined text for EVERY integer in whichever representation it arrives, the
   two limits of the fixnum range and their bignum neighbours included. *)
Theorem C15_dirR_digits_of_either_representation : forall z, go_radix_digits z = dec_text z.
Proof. exact go_radix_digits_is_dec_text. Qed.
Print Assumptions C15_dirR_digits_of_either_representation.
Theorem C15_dirR_english_fixnum_and_bignum : forall ordinal z,
  go_english src_tables ordinal (go_radix_digits z) = std_english ordinal z.
Proof. exact english_any_representation. Qed.
Print Assumptions C15_dirR_english_fixnum_and_bignum.
Theorem C15_dirR_roman_fixnum_and_bignum : forall old z,
  go_roman src_tables old (go_radix_digits z) = std_roman old z.
Proof. exact roman_any_representation. Qed.
Print Assumptions C15_dirR_roman_fixnum_and_bignum.
(* (6s) Why dirR takes the sign off the TEXT: int64 negation (arithmetic modulo 2^64) gives the magnitude of every
   fixnum but the most negative one and gives -2^63 back for -2^63; digits rendered from a negated int64 therefore still
   start with '-' exactly there. The definition has a text for -2^63 ("negative nine quintillion ... eight hundred
   eight", FixnumProofs.most_negative_fixnum_words) and by (6r) dirR writes it. *)
Theorem C15_int64_negation : forall z, is_fixnum z = true ->
  wrap64 (- z) = if (z =? - two63)%Z then z else (- z)%Z.
Proof. exact int64_negation. Qed.
Print Assumptions C15_int64_negation.
Theorem C15_negated_fixnum_digits : forall z, is_fixnum z = true -> (z < 0)%Z ->
  dec_text (wrap64 (- z)) = if (z =? - two63)%Z then dec_text z else digit_text 10 (Z.abs_N z).
Proof. exact negated_fixnum_digits. Qed.
Print Assumptions C15_negated_fixnum_digits.
(* (6d) What the loop writes for every integer but 0 and EVERY table (no guard): nothing (an error) when the decimal text
   has more than three digits per scale word; otherwise "negative" if z < 0, then the words of
   the groups of three digits of |z| from the most significant one, each group as one round of the loop writes it (GL);
   and the fact about decimal texts it rests on: the text of n >= 1000 is the text of n / 1000 followed by three digits. *)
Theorem C15_english_loop_words : forall T colon z, z <> 0%Z ->
  go_english T colon (dec_text z) =
  if Nat.ltb (3 * List.length (t_triples T)) (List.length (digit_text 10 (Z.abs_N z))) then None else
  match go_ordinal_first colon (digit_text 10 (Z.abs_N z))
          (GL T (t_triples T) (if colon then t_ordone T else t_one T) (if colon then t_ordteen T else t_teen T)
              (triples_of (Z.abs_N z))) with
  | None => None
  | Some words => Some (join [sp] ((if (z <? 0)%Z then [tx "negative"] else []) ++ rev words))
  end.
Proof. exact go_english_words. Qed.
Print Assumptions C15_english_loop_words.
Theorem C15_decimal_text_by_groups : forall n, (1000 <= n)%N ->
  dec_text (Z.of_N n) = dec_text (Z.of_N (n / 1000)) ++
                        [digit_char (n / 100 mod 10); digit_char (n / 10 mod 10); digit_char (n mod 10)].
Proof. exact dec_text_1000. Qed.
Print Assumptions C15_decimal_text_by_groups.

(* ======== "consume and move through the arguments as specified" — for both M and S (any b), any control record,
   and any function `rec` in the place of the recursive call ======== *)

(* (7) ~n* / ~n:* / ~n@* : the cursor moves by n / back by n / to n and nothing else changes; it
   never leaves 0..number of arguments (an error otherwise; for the Go code since repo_fixes/C15-15). *)
Theorem C15_move_law : forall colon at_ ps c c' a,
  dir_move colon at_ ps c = Ok (c', a) ->
  exists n changed, first_int ps 1 = (GOk n, changed) /\ (colon && at_ = false) /\ a = false /\ extends c c' /\
    c_apos c' = (if colon then c_apos c - n else if at_ then (if changed then n else 0) else c_apos c + n)%Z.
Proof. exact move_law. Qed.
Print Assumptions C15_move_law.
Theorem C15_move_stays_inside : forall colon at_ ps c c' a,
  dir_move colon at_ ps c = Ok (c', a) -> (0 <= c_apos c' <= nargs c)%Z.
Proof. exact move_stays_inside. Qed.
Print Assumptions C15_move_stays_inside.

(* (8) ~A ~S ~D ~B ~O ~X ~C take exactly one argument, which must be there (~C: a character), and only append
   text; ~P takes one, ~:P re-reads the previous one and leaves the cursor where it was, and writes nothing, y,
   ies or s; ~% ~~ ~& ~T take none. *)
Theorem C15_aesthetic_consumes_one : forall esc colon at_ ps c c' a, (0 <= c_apos c)%Z ->
  dir_as esc colon at_ ps c = Ok (c', a) ->
  a = false /\ c_apos c' = (c_apos c + 1)%Z /\ arg_at c <> None /\ extends c c'.
Proof. exact aesthetic_consumes_one. Qed.
Print Assumptions C15_aesthetic_consumes_one.
Theorem C15_integer_consumes_one : forall b base off colon at_ ps c c' a, (0 <= c_apos c)%Z ->
  dir_int b base off colon at_ ps c = Ok (c', a) ->
  a = false /\ c_apos c' = (c_apos c + 1)%Z /\ arg_at c <> None /\ extends c c'.
Proof. exact integer_consumes_one. Qed.
Print Assumptions C15_integer_consumes_one.
Theorem C15_character_consumes_one : forall colon at_ c c' a,
  dir_char colon at_ c = Ok (c', a) ->
  a = false /\ c_apos c' = (c_apos c + 1)%Z /\ (exists ch, arg_at c = Some (VChr ch)) /\ extends c c'.
Proof. exact character_consumes_one. Qed.
Print Assumptions C15_character_consumes_one.
Theorem C15_plural_law : forall colon at_ c c' a,
  dir_plural colon at_ c = Ok (c', a) ->
  a = false /\ c_apos c' = (if colon then c_apos c else c_apos c + 1)%Z /\ extends c c' /\
  exists t, c_out c' = c_out c ++ t /\ (t = [] \/ t = ["y"%char] \/ t = tx "ies" \/ t = ["s"%char]).
Proof. exact plural_law. Qed.
Print Assumptions C15_plural_law.
Theorem C15_newline_tilde_take_nothing : forall t ps c c' a, dir_repeat t ps c = Ok (c', a) ->
  a = false /\ c_apos c' = c_apos c /\ extends c c'.
Proof. exact newline_tilde_take_nothing. Qed.
Print Assumptions C15_newline_tilde_take_nothing.
Theorem C15_freshline_tab_take_nothing : forall b colon at_ ps c c' a,
  (dir_amp b ps c = Ok (c', a) \/ dir_tab b colon at_ ps c = Ok (c', a)) ->
  a = false /\ c_apos c' = c_apos c /\ extends c c'.
Proof. exact freshline_tab_take_nothing. Qed.
Print Assumptions C15_freshline_tab_take_nothing.

(* (9) ~{body~} and ~:{body~} take exactly one argument — the list — whatever the body is, whatever it does and
   however many elements there are; the enclosing control only gets text appended. The list must be present, for
   the definition and (since repo_fixes/C15-14) for the Go code. *)
Theorem C15_iteration_consumes_its_list : forall b fuel rec colon ps c c' a v,
  arg_at c = Some v ->
  dir_iter b fuel rec colon false ps c = Ok (c', a) ->
  a = false /\ c_apos c' = (c_apos c + 1)%Z /\ as_list v <> None /\ extends c c'.
Proof. exact iteration_consumes_its_list. Qed.
Print Assumptions C15_iteration_consumes_its_list.
Theorem C15_iteration_needs_its_list : forall b fuel rec colon ps c c' a,
  dir_iter b fuel rec colon false ps c = Ok (c', a) -> arg_at c <> None.
Proof. exact iteration_needs_its_list. Qed.
Print Assumptions C15_iteration_needs_its_list.

(* (10) ~? takes two arguments, the control string and the list of its arguments, whatever that string does. *)
Theorem C15_indirection_consumes_two : forall rec c c' a v, arg_at c = Some v ->
  dir_proc rec false c = Ok (c', a) ->
  a = false /\ c_apos c' = (c_apos c + 2)%Z /\ (exists s, v = VStr s) /\ c_args c' = c_args c.
Proof. exact indirection_consumes_two. Qed.
Print Assumptions C15_indirection_consumes_two.

(* (11) Text without a tilde is copied and nothing else happens. *)
Theorem C15_literal_run : forall n b T fuel c,
  (forall i, i < n -> ascii_eqb (ch_at (c_str c) (c_pos c + i)) "~" = false) ->
  c_pos c + n <= c_end c -> c_end c <= List.length (c_str c) ->
  process b T (n + fuel) c = process b T fuel (set_pos (emit c (sub (c_str c) (c_pos c) (c_pos c + n))) (c_pos c + n)).
Proof. exact literal_run. Qed.
Print Assumptions C15_literal_run.

(* (12) At the sites of the integer, the Roman and the English writer the two readings give the same result and add no taint, for
   every control record and parameter list: the integer and Roman (1..3999) sites never leave the guard (consequences of (1) and (5)). *)
Theorem C15_integer_site_coincides : forall base off colon at_ ps c z, (2 <= base <= 36)%N ->
  arg_at c = Some (VInt z) -> dir_int true base off colon at_ ps c = dir_int false base off colon at_ ps c.
Proof. exact integer_site_coincides. Qed.
Print Assumptions C15_integer_site_coincides.
(* ... whatever the argument is: one that is not an integer is written as by ~A, padded on the left, by both (since
   repo_fixes/C15-13; it used to be written with escapes: finding C15-integer-directive-escapes-non-integer) *)
Theorem C15_integer_site_coincides_any : forall base off colon at_ ps c, (2 <= base <= 36)%N ->
  dir_int true base off colon at_ ps c = dir_int false base off colon at_ ps c.
Proof. exact integer_site_coincides_any. Qed.
Print Assumptions C15_integer_site_coincides_any.
Theorem C15_roman_site_coincides : forall colon c z, (1 <= z <= 3999)%Z -> arg_at c = Some (VInt z) ->
  dir_radix true src_tables colon true [] c = dir_radix false src_tables colon true [] c.
Proof. exact roman_site_coincides. Qed.
Print Assumptions C15_roman_site_coincides.
(* the same for every integer, Roman and English, cardinal and ordinal: consequences of (5b) and (6b); so ~R ~:R ~@R
   ~:@R without parameters never leave the guard. *)
Theorem C15_roman_site_coincides_all : forall colon c z, arg_at c = Some (VInt z) ->
  dir_radix true src_tables colon true [] c = dir_radix false src_tables colon true [] c.
Proof. exact roman_site_coincides_all. Qed.
Print Assumptions C15_roman_site_coincides_all.
(* ~radix,mincol,padchar,commachar,comma-intervalR: with any prefix parameter dirR is the integer writer in that radix
   (since repo_fixes/C15-6; before, the parameters were ignored: finding C15-radix-parameters-ignored), so (1)-(4)
   apply to it and the site coincides for every table, parameter list and integer *)
Theorem C15_radix_site_coincides : forall T colon at_ p ps c z, arg_at c = Some (VInt z) ->
  dir_radix true T colon at_ (p :: ps) c = dir_radix false T colon at_ (p :: ps) c.
Proof. exact radix_site_coincides. Qed.
Print Assumptions C15_radix_site_coincides.
Theorem C15_english_site_coincides : forall colon c z, arg_at c = Some (VInt z) ->
  dir_radix true src_tables colon false [] c = dir_radix false src_tables colon false [] c.
Proof. exact english_site_coincides. Qed.
Print Assumptions C15_english_site_coincides.

(* (13) ~( ~:( ~@( ~:@( : the conversion dirCase applies to the text of its body (bytes.ToLower, bytes.ToUpper,
   appendCapitalized) is string-downcase / string-capitalize / first word capitalized and the rest lower case /
   string-upcase of the definition, for every text (since repo_fixes/C15-18; cases.Title capitalised "2nd" to "2Nd":
   finding C15-capitalize-digit-words). *)
Theorem C15_case_conversion : forall colon at_ t, go_case colon at_ t = std_case colon at_ t.
Proof. exact go_case_is_std_case. Qed.
Print Assumptions C15_case_conversion.

(* FULL statement wanted:  forall T fuel control args, untainted (M_run T fuel control args) = true ->
   fst (M_run T fuel control args) = fst (S_run fuel control args)   (inside the guard the model of the Go code
   renders what the definition renders). NOT proved; it is evaluated on every case of every run (code 3 of
   Corr.check_case) and holds by construction wherever no site is consulted; (1), (5b) and (6b) discharge it for the
   integer, Roman and English sites. *)

(* ======== outside the guard: the known findings, and the guard is satisfiable ======== *)
Theorem C15_known_deviations_refuted : forallb deviates deviation_witnesses = true.
Proof. exact deviations_hold. Qed.
Print Assumptions C15_known_deviations_refuted.
(* for the entries of Proofs.deviation_table (control string, arguments, what M writes, what S writes): *)
Theorem C15_known_deviation_values : map (fun e => both (fst e)) deviation_table = map snd deviation_table.
Proof. exact deviation_values. Qed.
Print Assumptions C15_known_deviation_values.
Theorem C15_guard_nonvacuous : forallb in_guard_same guard_examples = true.
Proof. exact guard_examples_hold. Qed.
Print Assumptions C15_guard_nonvacuous.
