(* C15 — property theorems only. *)
From C15 Require Import Interp.

Theorem C15_placeholder : fst (M src_tables 100 (tx "~A") [VInt 1]) = OText (tx "1").
Proof. vm_compute. reflexivity. Qed.
Print Assumptions C15_placeholder.
