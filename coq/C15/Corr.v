(* C15 — the comparison evaluated on every run: what (format nil control args...) produced in the
   implementation against M (over the tables regenerated from control.go) and against S. *)
From C15 Require Import Interp.

Inductive obs := ObsText (bytes : list N) | ObsError | ObsHang.   (* the returned string; an error was signalled; no return within 3 s *)
Record case := { k_ctl : string; k_args : list value; k_obs : obs }.

Fixpoint bytes_eqb (a b : list N) : bool :=
  match a, b with
  | [], [] => true
  | x :: a', y :: b' => N.eqb x y && bytes_eqb a' b'
  | _, _ => false
  end.
Definition matches (o : outcome) (ob : obs) : bool :=
  match o, ob with
  | OText t, ObsText bs => bytes_eqb (bytes_of t) bs
  | OError, ObsError => true
  | OFuel, ObsHang => true          (* the model's loop does not end either *)
  | _, _ => false
  end.
Definition outcome_eqb (a b : outcome) : bool :=
  match a, b with
  | OText x, OText y => text_eqb x y
  | OError, OError => true
  | _, _ => false
  end.
Definition fuel : nat := 300.

(* 0: M = implementation (and, inside the guard, = S).
   1: M <> implementation, and no failing input is established: S and M differ on this input (a known
      deviation of the unchanged code) or M has no verdict (fuel, unmodelled directive).
   2: M <> implementation where M = S: the observed text is not what the directive definitions give.
   3: self-check: M = implementation, the run consulted no deviating site (guard), yet M <> S.
   An input outside the modelled set (OUnsup: a prefix parameter beyond 2^53 taken by v, a directive the
   property does not list) has no verdict: it is counted by no_verdict_count and not compared. *)
Definition no_verdict (o : outcome) : bool := match o with OUnsup => true | _ => false end.
Definition check_case (T : tables) (c : case) : N :=
  let m := M_run T fuel (tx (k_ctl c)) (k_args c) in
  if no_verdict (fst m) then 0%N else
  let s := S_run fuel (tx (k_ctl c)) (k_args c) in
  let ms := outcome_eqb (fst m) (fst s) in
  if matches (fst m) (k_obs c) then (if untainted m && negb ms then 3%N else 0%N)
  else if ms then 2%N else 1%N.
Fixpoint check_all_from (T : tables) (i : N) (cs : list case) : list (N * N) :=
  match cs with
  | [] => []
  | c :: cs' => let r := check_case T c in (if N.eqb r 0 then [] else [(i, r)]) ++ check_all_from T (N.succ i) cs'
  end.
Definition check_all (T : tables) := check_all_from T 0%N.
(* cases inside the guard (no deviating site consulted), and cases where the implementation meets S *)
Definition guard_count (T : tables) (cs : list case) : N :=
  N.of_nat (List.length (filter (fun c => untainted (M_run T fuel (tx (k_ctl c)) (k_args c))) cs)).
Definition meets_spec_count (cs : list case) : N :=
  N.of_nat (List.length (filter (fun c => matches (fst (S_run fuel (tx (k_ctl c)) (k_args c))) (k_obs c)) cs)).
Definition no_verdict_count (T : tables) (cs : list case) : N :=
  N.of_nat (List.length (filter (fun c => no_verdict (fst (M_run T fuel (tx (k_ctl c)) (k_args c)))) cs)).
