(* C15 — ~( : the case conversion of dirCase (Model.go_case: bytes.ToLower, bytes.ToUpper, appendCapitalized) is the
   one of the definition (Spec.std_case: string-downcase, string-upcase, string-capitalize, and "the first word
   capitalized, the rest lower case"), for every text. (Since repo_fixes/C15-18; before, cases.Title of golang.org/x/text
   capitalised words that start with a digit and treated ' . : as parts of a word.) *)
From C15 Require Import Model Spec.
Open Scope list_scope.

(* facts about single characters: all 256 of them *)
Lemma ascii_facts : forall a,
  is_alnum (to_lower a) = is_alnum a /\ to_upper (to_lower a) = to_upper a /\ to_lower (to_lower a) = to_lower a /\
  (is_alnum a = false -> to_lower a = a).
Proof.
  intros [b0 b1 b2 b3 b4 b5 b6 b7].
  destruct b0, b1, b2, b3, b4, b5, b6, b7; vm_compute; repeat split; try reflexivity; intros H; try reflexivity; discriminate.
Qed.

(* ~:( *)
Lemma capitalized_all : forall t inw,
  go_capitalized (map to_lower t) false inw false = capitalize t inw.
Proof.
  induction t as [|a t IH]; intros inw; [reflexivity|].
  cbn [map go_capitalized capitalize].
  destruct (ascii_facts a) as [F1 [F2 [F3 F4]]]. rewrite F1.
  destruct (is_alnum a) eqn:E; cbn [negb].
  - rewrite orb_false_r. destruct inw.
    + rewrite IH. reflexivity.
    + rewrite F2, IH. reflexivity.
  - rewrite (F4 eq_refl). rewrite andb_false_r. cbn [orb]. rewrite IH. reflexivity.
Qed.
(* ~@( : once the first word is over everything is lower case, whatever the word flag says *)
Lemma capitalized_done : forall t inw inw',
  go_capitalized (map to_lower t) true inw true = capitalize_first t inw' true.
Proof.
  induction t as [|a t IH]; intros inw inw'; [reflexivity|].
  cbn [map go_capitalized capitalize_first].
  destruct (ascii_facts a) as [F1 [F2 [F3 F4]]]. rewrite F1.
  destruct (is_alnum a) eqn:E; cbn [negb orb].
  - rewrite orb_true_r. rewrite (IH inw true). reflexivity.
  - rewrite (F4 eq_refl). rewrite (IH false false). reflexivity.
Qed.
Lemma capitalized_first : forall t inw,
  go_capitalized (map to_lower t) true inw false = capitalize_first t inw false.
Proof.
  induction t as [|a t IH]; intros inw; [reflexivity|].
  cbn [map go_capitalized capitalize_first].
  destruct (ascii_facts a) as [F1 [F2 [F3 F4]]]. rewrite F1.
  destruct (is_alnum a) eqn:E; cbn [negb orb].
  - rewrite orb_false_r. destruct inw.
    + rewrite IH. reflexivity.
    + rewrite F2, IH. reflexivity.
  - rewrite (F4 eq_refl). rewrite andb_true_r. destruct inw.
    + rewrite (capitalized_done t false false). reflexivity.
    + rewrite IH. reflexivity.
Qed.
Theorem go_case_is_std_case : forall colon at_ t, go_case colon at_ t = std_case colon at_ t.
Proof.
  intros colon at_ t. unfold go_case, std_case. destruct colon, at_; try reflexivity.
  - apply capitalized_all.
  - apply capitalized_first.
Qed.
