(* C15 — text utilities shared by the model and the specification: texts are lists of ASCII
   characters (the generator only produces ASCII), character classes, case mapping, digits in a base.
   Definitions only; the lemmas are in IntProofs.v. *)
From Coq Require Export List Bool ZArith NArith Ascii String Lia.
Export ListNotations.
Open Scope list_scope.
Open Scope char_scope.

Definition text := list ascii.
Definition tx (s : string) : text := list_ascii_of_string s.
Definition code (a : ascii) : N := N_of_ascii a.
Definition chr (n : N) : ascii := ascii_of_N n.
Definition bytes_of (t : text) : list N := map code t.

Definition ascii_eqb (a b : ascii) : bool := N.eqb (code a) (code b).
Fixpoint text_eqb (a b : text) : bool :=
  match a, b with
  | [], [] => true
  | x :: a', y :: b' => ascii_eqb x y && text_eqb a' b'
  | _, _ => false
  end.

Definition in_range (lo hi : N) (a : ascii) : bool := (lo <=? code a)%N && (code a <=? hi)%N.
Definition is_digit (a : ascii) : bool := in_range 48 57 a.
Definition is_upper (a : ascii) : bool := in_range 65 90 a.
Definition is_lower (a : ascii) : bool := in_range 97 122 a.
Definition is_alpha (a : ascii) : bool := is_upper a || is_lower a.
Definition is_alnum (a : ascii) : bool := is_alpha a || is_digit a.
Definition to_lower (a : ascii) : ascii := if is_upper a then chr (code a + 32) else a.
Definition to_upper (a : ascii) : ascii := if is_lower a then chr (code a - 32) else a.

Definition nl : ascii := chr 10.
Definition sp : ascii := " ".

(* nth character, NUL when out of range (callers check the bounds first, as the Go code does) *)
Definition ch_at (s : text) (i : nat) : ascii := nth i s zero.
Definition sub (s : text) (lo hi : nat) : text := firstn (hi - lo) (skipn lo s).   (* s[lo:hi] *)

Fixpoint join (sep : text) (ws : list text) : text :=
  match ws with
  | [] => []
  | [w] => w
  | w :: ws' => w ++ sep ++ join sep ws'
  end.

(* ---- digits ----------------------------------------------------------------------------- *)
(* digit value -> character, as strconv.AppendInt / big.Int.Append write them (lower case) *)
Definition digit_char (d : N) : ascii := if (d <? 10)%N then chr (48 + d) else chr (87 + d).
(* character -> digit value (either case), 99 for a non-digit *)
Definition char_digit (a : ascii) : N :=
  if is_digit a then (code a - 48)%N
  else if is_lower a then (code a - 87)%N
  else if is_upper a then (code a - 55)%N
  else 99%N.

(* least significant digit first *)
Fixpoint digits_rev_fuel (fuel : nat) (b n : N) : list N :=
  match fuel with
  | O => []
  | S f => if (n <? b)%N then [n] else (n mod b)%N :: digits_rev_fuel f b (n / b)%N
  end.
Definition digits_rev (b n : N) : list N := digits_rev_fuel (S (N.to_nat (N.log2 n))) b n.
Definition digits (b n : N) : list N := rev (digits_rev b n).        (* most significant first *)
Definition digit_text (b n : N) : text := map digit_char (digits b n).
(* value of a most-significant-first digit list *)
Definition of_digits (b : N) (ds : list N) : N := fold_left (fun acc d => (acc * b + d)%N) ds 0%N.

(* what strconv.AppendInt(nil, z, base) and big.Int.Append(nil, base) produce *)
Definition int_text (b : N) (z : Z) : text :=
  if (z <? 0)%Z then "-" :: digit_text b (Z.abs_N z) else digit_text b (Z.abs_N z).
Definition dec_text (z : Z) : text := int_text 10 z.

(* strconv.ParseInt(p, 10, 64) on a prefix parameter: optional sign, then at least one digit *)
Fixpoint parse_nat_acc (t : text) (acc : N) : option N :=
  match t with
  | [] => Some acc
  | a :: t' => if is_digit a then parse_nat_acc t' (acc * 10 + (code a - 48))%N else None
  end.
Definition two63 : Z := 9223372036854775808.
Definition parse_int (t : text) : option Z :=
  let in64 (z : Z) := if ((- two63 <=? z) && (z <? two63))%Z then Some z else None in
  match t with
  | "-" :: ((_ :: _) as r) => match parse_nat_acc r 0 with Some n => in64 (- Z.of_N n)%Z | None => None end
  | _ :: _ => match parse_nat_acc t 0 with Some n => in64 (Z.of_N n) | None => None end
  | [] => None
  end.

Fixpoint repeat_text (t : text) (n : nat) : text :=
  match n with O => [] | S k => t ++ repeat_text t k end.
